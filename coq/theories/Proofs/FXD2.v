(* C10, part 3: second-order sensitivities.  The order-Two array of a tree market carries, for every
   pair of names (u, w), value / first derivatives / half-Hessian entry equal to those of the product
   of the quote jets along any walk (Leibniz), hence the explicit second derivatives for plain quotes. *)
From Coq Require Import Reals ZArith List Bool Lia Lra Arith Permutation.
From RL Require Import Base.Num Base.Str Base.NumR Base.Outcome Model.Dual Model.Number Model.FX
  Proofs.NumRP Proofs.DualP Proofs.Dual2P Proofs.AD1 Proofs.FXMat Proofs.FXFill Proofs.FXTree Proofs.FXCreate
  Proofs.FXP Proofs.FXD Proofs.FXH.
Import ListNotations.
Local Open Scope nat_scope.
Local Open Scope R_scope.

Record jet2r : Type := mkJ2 { jx : R; ja : R; jb : R; jh : R }.
Definition j2mul (p q : jet2r) : jet2r :=
  mkJ2 (jx p * jx q) (ja p * jx q + ja q * jx p) (jb p * jx q + jb q * jx p)
       (jh p * jx q + jh q * jx p + / 2 * (ja p * jb q + jb p * ja q)).
Definition j2inv (p : jet2r) : jet2r :=
  mkJ2 (/ jx p) (- ja p / (jx p * jx p)) (- jb p / (jx p * jx p))
       (- jh p / (jx p * jx p) + ja p * jb p / (jx p * jx p * jx p)).
Definition j2one : jet2r := mkJ2 1 0 0 0.
Definition j2U (p : jet2r) : Prop := jx p <> 0.

Lemma J2_group : group_ok j2mul j2inv j2one j2U.
Proof.
  constructor; unfold j2mul, j2inv, j2one, j2U.
  - intros [x a b h] [y c e k] Hx Hy. cbn in *. apply Rmult_integral_contrapositive_currified; auto.
  - intros [x a b h] Hx. cbn in *. apply Rinv_neq_0_compat; auto.
  - cbn. lra.
  - intros [x a b h] [y c e k] [z f g l] _ _ _. cbn. f_equal; ring.
  - intros [x a b h] [y c e k] _ _. cbn. f_equal; ring.
  - intros [x a b h] _. cbn. f_equal; ring.
  - intros [x a b h] Hx. cbn in *. f_equal; field; auto.
Qed.

Definition lift2 (q : quoteR) : dual2 R :=
  num_to_dual2 (set_order_clone (rate q) OTwo [fx_var (pair q)]).
Lemma re2_lift2 q : re2 (lift2 q) = qval q.
Proof. unfold lift2, qval. destruct (rate q); reflexivity. Qed.

Definition number_wf2 (x : number R) : Prop :=
  match x with NF _ => True | ND d => wf d | ND2 d => wf2 d end.
Definition quotes_wf2 (qs : list quoteR) : Prop := forall q, In q qs -> number_wf2 (rate q).

Lemma wf2_dual2_new r l : wf2 (dual2_new r l).
Proof. split; [apply dedup_NoDup|]. split; [apply repeat_length|apply square_mzeros]. Qed.
Lemma wf2_lift2 q : number_wf2 (rate q) -> wf2 (lift2 q).
Proof.
  unfold lift2. destruct (rate q) as [f|d|d]; cbn.
  - intros _. apply wf2_dual2_new.
  - intros [N L]. unfold dual2_of_dual. split; [exact N|]. split; [exact L|]. cbn [vs2 dd2]. rewrite L. apply square_mzeros.
  - auto.
Qed.

Definition jet2 (u w : name) (d : dual2 R) : jet2r := mkJ2 (re2 d) (coef1 d u) (coef1 d w) (coef2 d u w).
Definition rel2 (u w : name) (d : dual2 R) (g : jet2r) : Prop := wf2 d /\ jet2 u w d = g.

Lemma pfalse_d2 (x y : dual2 R) : false = true -> vs2 x = vs2 y.
Proof. discriminate. Qed.

Lemma rel2_mul u w x y g h : j2U g -> j2U h -> rel2 u w x g -> rel2 u w y h -> rel2 u w (fmul ops_d2 x y) (j2mul g h).
Proof.
  intros _ _ [Wx <-] [Wy <-]. cbn [fmul ops_d2].
  destruct (d2mul_spec false x y Wx Wy (pfalse_d2 x y)) as (W & R1 & C1 & C2 & _).
  split; [exact W|]. unfold jet2, j2mul. cbn [jx ja jb jh]. rewrite R1, !C1, C2. reflexivity.
Qed.

Lemma Rpowf_nm1_2 x : x <> 0 -> Rpowf x (@nm1 R NumR - 1) = / (x * x).
Proof. intros N. replace (@nm1 R NumR - 1) with (-1 - 1) by (unfold nm1; cbn; lra). apply Rpowf_m2. exact N. Qed.
Lemma Rpowf_nm1_3 x : x <> 0 -> Rpowf x (@nm1 R NumR - 2) = / (x * x * x).
Proof. intros N. replace (@nm1 R NumR - 2) with (-1 - 2) by (unfold nm1; cbn; lra). apply Rpowf_m3. exact N. Qed.

Lemma fdiv_d2_spec (a : dual2 R) : wf2 a -> re2 a <> 0 ->
  wf2 (fdiv_d2 1 a) /\ re2 (fdiv_d2 1 a) = / re2 a /\
  (forall v, coef1 (fdiv_d2 1 a) v = - coef1 a v / (re2 a * re2 a)) /\
  (forall u v, coef2 (fdiv_d2 1 a) u v =
     - coef2 a u v / (re2 a * re2 a) + coef1 a u * coef1 a v / (re2 a * re2 a * re2 a)).
Proof.
  intros W N. destruct (d2pow_spec a nm1 W) as (W1 & R1 & C1 & C2).
  assert (EQ : fdiv_d2 1 a = mkDual2 (re2 (d2pow a nm1) * 1) (vs2 (d2pow a nm1))
                 (map (fun x => 1 * x) (du2 (d2pow a nm1))) (mmap (fun e => 1 * e) (dd2 (d2pow a nm1))))
    by reflexivity.
  rewrite EQ. clear EQ.
  destruct (d2scale_spec (d2pow a nm1) (re2 (d2pow a nm1) * 1) 1
              (fun x => 1 * x) (fun e => 1 * e) W1 (fun x => eq_refl) (fun x => eq_refl))
    as (W2 & R2 & D1 & D2).
  split; [exact W2|]. split; [|split].
  - rewrite R2, R1. cbn [nmul NumR]. change (Rpowf (re2 a) nm1) with (npow (re2 a) nm1).
    rewrite npow_m1 by exact N. ring.
  - intros v. rewrite D1, C1. rewrite Rpowf_nm1_2 by exact N. unfold nm1. cbn [nneg n1 NumR]. field. exact N.
  - intros u v. rewrite D2, C2. rewrite Rpowf_nm1_2, Rpowf_nm1_3 by exact N.
    unfold nm1. cbn [nneg n1 NumR]. field. exact N.
Qed.

Lemma rel2_inv u w x g : j2U g -> rel2 u w x g -> rel2 u w (finv ops_d2 x) (j2inv g).
Proof.
  intros Ug [Wx <-]. unfold j2U, jet2 in Ug. cbn [jx] in Ug. cbn [finv ops_d2]. change n1 with 1.
  destruct (fdiv_d2_spec x Wx Ug) as (W & R1 & C1 & C2).
  split; [exact W|]. unfold jet2, j2inv. cbn [jx ja jb jh]. rewrite R1, !C1, C2. reflexivity.
Qed.
Lemma rel2_one u w : rel2 u w (fone ops_d2) j2one.
Proof. split; [apply wf2_dual2_new|reflexivity]. Qed.

Definition gval2 (u w : name) (q : quoteR) : jet2r := jet2 u w (lift2 q).

(* log-derivative sums along a walk *)
Fixpoint logsum1 (v : name) (steps : list (quoteR * bool)) : R :=
  match steps with
  | [] => 0
  | (q, d) :: r => (if d then 1 else -1) * coef1 (lift2 q) v / qval q + logsum1 v r
  end.
Fixpoint logsum2 (u w : name) (steps : list (quoteR * bool)) : R :=
  match steps with
  | [] => 0
  | (q, d) :: r => (if d then 1 else -1) *
                     (2 * coef2 (lift2 q) u w / qval q
                      - coef1 (lift2 q) u * coef1 (lift2 q) w / (qval q * qval q)) + logsum2 u w r
  end.

Lemma j2_path_prod u w steps : (forall q d, In (q, d) steps -> qval q <> 0) ->
  path_prod j2mul j2inv j2one (gval2 u w) steps =
  mkJ2 (Rpath_prod steps) (Rpath_prod steps * logsum1 u steps) (Rpath_prod steps * logsum1 w steps)
       (Rpath_prod steps * / 2 * (logsum1 u steps * logsum1 w steps + logsum2 u w steps)).
Proof.
  induction steps as [|[q d] r IH]; intros NZ.
  - unfold Rpath_prod. cbn. unfold j2one. f_equal; ring.
  - assert (N : qval q <> 0) by (apply (NZ q d); left; reflexivity).
    specialize (IH (fun q' d' I => NZ q' d' (or_intror I))).
    unfold Rpath_prod in *. destruct d; cbn [path_prod logsum1 logsum2]; rewrite IH;
      unfold j2mul, j2inv, gval2, jet2; cbn [jx ja jb jh]; rewrite re2_lift2; f_equal; field; exact N.
Qed.

(* --- the order-Two array of a tree market *)
Theorem market_hessian cs0 (qs : list quoteR) base fx fx2 :
  tree_quotes cs0 qs -> base_ok cs0 base -> (length cs0 <= 181)%nat -> quotes_nonzero qs -> quotes_wf2 qs ->
  fx_try_new qs base = Ok fx -> fx_set_ad_order fx OTwo = Ok fx2 ->
  forall a b steps u w, In a cs0 -> qpath qs a b steps ->
    exists d, fx_rate fx2 a b = Some (ND2 d) /\ wf2 d /\ re2 d = Rpath_prod steps /\
              coef1 d u = re2 d * logsum1 u steps /\ coef1 d w = re2 d * logsum1 w steps /\
              2 * coef2 d u w = re2 d * (logsum1 u steps * logsum1 w steps + logsum2 u w steps).
Proof.
  intros TQ BO Hn NZ WF E E2 a b steps u w Ia P.
  assert (Ib : In b cs0).
  { eapply (qpath_ends cs0 qs); eauto. intros q Iq. destruct (tree_members _ _ TQ q Iq) as (A & B & _). auto. }
  destruct (try_new_ok_inv _ _ _ E) as (NE & L & SC).
  pose proof (tree_index_perm cs0 qs base TQ NE BO) as PM.
  destruct (try_new_shape qs base fx E) as (C & Q & m & FA & _).
  unfold fx_set_ad_order in E2. rewrite FA, C, Q in E2. rewrite create_OTwo in E2.
  set (cs := ccy_index qs base) in *.
  assert (UQ : forall q, In q qs -> j2U (gval2 u w q)).
  { intros q Iq. unfold j2U, gval2, jet2. cbn [jx]. rewrite re2_lift2. apply NZ. exact Iq. }
  destruct (k_potential_exists J2_group (gval2 u w) cs0 qs TQ UQ) as (V & UV & PV).
  assert (Hn' : (length cs <= 181)%nat) by (rewrite (Permutation_length PM); exact Hn).
  assert (M : members_in cs (map pair qs)) by (apply members_of_quotes, ccy_index_members).
  destruct (create_gen ops_d2 cs (map pair qs) (map num_to_dual2 (lifted_rates qs OTwo))) as [arr| |] eqn:CE;
    cbn [omap obind] in E2; try discriminate.
  inversion E2; subst fx2; clear E2.
  assert (Ia' : In a cs) by (eapply Permutation_in; [apply Permutation_sym|]; eauto).
  assert (Ib' : In b cs) by (eapply Permutation_in; [apply Permutation_sym|]; eauto).
  pose proof (create_gen_rel ops_d2 J2_group (rel2 u w) (rel2_mul u w) (rel2_inv u w) (rel2_one u w)
                cs (map pair qs) (map num_to_dual2 (lifted_rates qs OTwo)) V UV Hn' M) as CR.
  assert (F : Forall2 (fun p x => rel2 u w x (j2mul (V (p0 p)) (j2inv (V (p1 p)))))
                      (map pair qs) (map num_to_dual2 (lifted_rates qs OTwo))).
  { clear -PV WF. induction qs as [|q qs' IH]; cbn; constructor.
    - split; [apply wf2_lift2, WF; left; reflexivity|]. apply (PV q). left; reflexivity.
    - apply IH; [intros x Ix; apply WF; right; exact Ix|intros x Ix; apply PV; right; exact Ix]. }
  specialize (CR F arr CE a b Ia' Ib'). destruct CR as [Wd Jd].
  exists (mget d2zero arr (idx cs a) (idx cs b)). unfold fx_rate. cbn [currencies fx_array].
  rewrite (index_of_idx _ _ Ia'), (index_of_idx _ _ Ib'). split; [reflexivity|].
  split; [exact Wd|].
  rewrite <- (k_path_telescopes J2_group (gval2 u w) qs V (conj UV PV) a b steps P) in Jd.
  rewrite j2_path_prod in Jd.
  - unfold jet2 in Jd. cbn [fzero ops_d2] in Jd. inversion Jd as [[J1' J2' J3' J4']].
    rewrite J1', J2', J3', J4'. repeat split; try reflexivity. rewrite ?J1'. field.
  - intros q d I. apply NZ. eapply steps_in_qs; eauto.
Qed.

(* plain quotes at order Two *)
Lemma lift2_plain q r : rate q = NF r -> lift2 q = dual2_new r [fx_var (pair q)].
Proof. intros E. unfold lift2. rewrite E. reflexivity. Qed.
Lemma coef1_plain q r v : rate q = NF r -> coef1 (lift2 q) v = if name_eqb v (fx_var (pair q)) then 1 else 0.
Proof.
  intros E. rewrite (lift2_plain q r E). unfold coef1, lk, lookup_or_zero. cbn [vs2 du2 dual2_new dedup dedup_aux mem index_of].
  destruct (name_eqb v (fx_var (pair q))); reflexivity.
Qed.
Lemma coef2_plain q r u w : rate q = NF r -> coef2 (lift2 q) u w = 0.
Proof. intros E. rewrite (lift2_plain q r E). unfold coef2. cbn [vs2 dd2 dual2_new]. apply lk2_mzeros. Qed.

Lemma logsum1_zero v steps : (forall q d, In (q, d) steps -> coef1 (lift2 q) v = 0) -> logsum1 v steps = 0.
Proof.
  induction steps as [|[q d] r IH]; intros Z; cbn; [reflexivity|].
  rewrite (Z q d) by (left; reflexivity). rewrite IH by (intros; eapply Z; right; eauto).
  unfold Rdiv. ring.
Qed.
Lemma logsum1_single v steps q d : In (q, d) steps -> NoDup (map fst steps) ->
  (forall q' d', In (q', d') steps -> q' <> q -> coef1 (lift2 q') v = 0) ->
  logsum1 v steps = (if d then 1 else -1) * coef1 (lift2 q) v / qval q.
Proof.
  induction steps as [|[x e] r IH]; intros I ND Z; [contradiction|].
  cbn [map fst] in ND. inversion ND as [|? ? NI ND']; subst. cbn [logsum1]. destruct I as [E|I].
  - inversion E; subst x e. rewrite logsum1_zero; [ring|].
    intros q' d' I'. apply (Z q' d'); [right; exact I'|]. intros ->. apply NI.
    change q with (fst (q, d')). apply in_map. exact I'.
  - rewrite IH; auto; [|intros q' d' I' N; apply (Z q' d'); [right; exact I'|exact N]].
    rewrite (Z x e); [unfold Rdiv; ring|left; reflexivity|].
    intros ->. apply NI. change q with (fst (q, d)). apply in_map. exact I.
Qed.
Lemma logsum2_zero u w steps :
  (forall q d, In (q, d) steps -> coef2 (lift2 q) u w = 0 /\ (coef1 (lift2 q) u = 0 \/ coef1 (lift2 q) w = 0)) ->
  logsum2 u w steps = 0.
Proof.
  induction steps as [|[q d] r IH]; intros Z; cbn; [reflexivity|].
  rewrite IH by (intros; eapply Z; right; eauto).
  destruct (Z q d (or_introl eq_refl)) as [Z2 [Z1|Z1]]; rewrite Z2, Z1; unfold Rdiv; ring.
Qed.
Lemma logsum2_single u w steps q d : In (q, d) steps -> NoDup (map fst steps) ->
  (forall x e, In (x, e) steps -> coef2 (lift2 x) u w = 0) ->
  (forall x e, In (x, e) steps -> x <> q -> coef1 (lift2 x) u = 0 \/ coef1 (lift2 x) w = 0) ->
  logsum2 u w steps =
  (if d then 1 else -1) * (- (coef1 (lift2 q) u * coef1 (lift2 q) w / (qval q * qval q))).
Proof.
  induction steps as [|[x e] r IH]; intros I ND Z2 Z1; [contradiction|].
  cbn [map fst] in ND. inversion ND as [|? ? NI ND']; subst. cbn [logsum2]. destruct I as [E|I].
  - inversion E; subst x e. rewrite (Z2 q d (or_introl eq_refl)). rewrite logsum2_zero; [unfold Rdiv; ring|].
    intros q' d' I'. split; [apply (Z2 q' d'); right; exact I'|].
    apply (Z1 q' d'); [right; exact I'|]. intros ->. apply NI.
    change q with (fst (q, d')). apply in_map. exact I'.
  - rewrite IH; auto; [|intros; eapply Z2; right; eauto|intros y f Iy N; apply (Z1 y f); [right; exact Iy|exact N]].
    assert (N : x <> q).
    { intros ->. apply NI. change q with (fst (q, d)). apply in_map. exact I. }
    rewrite (Z2 x e (or_introl eq_refl)).
    destruct (Z1 x e (or_introl eq_refl) N) as [Z|Z]; rewrite Z; unfold Rdiv; ring.
Qed.

(* all quotes on the walk plain, valid codes: the explicit second derivatives of the cross
   P = prod r_k^(s_k):  d2P/dr_k dr_l = s_k s_l P / (r_k r_l)  (k <> l),  d2P/dr_k^2 = s_k (s_k - 1) P / r_k^2 *)
Theorem hessian_plain cs0 (qs : list quoteR) base fx fx2 :
  tree_quotes cs0 qs -> base_ok cs0 base -> (length cs0 <= 181)%nat -> quotes_nonzero qs -> quotes_wf2 qs ->
  (forall c, In c cs0 -> ccy_ok c) ->
  fx_try_new qs base = Ok fx -> fx_set_ad_order fx OTwo = Ok fx2 ->
  forall a b steps, In a cs0 -> qpath qs a b steps -> NoDup (map fst steps) ->
    (forall x e, In (x, e) steps -> exists r, rate x = NF r) ->
    forall q1 d1 r1 q2 d2 r2, In (q1, d1) steps -> In (q2, d2) steps -> rate q1 = NF r1 -> rate q2 = NF r2 ->
    let s1 := if d1 then 1 else -1 in let s2 := if d2 then 1 else -1 in
    exists d, fx_rate fx2 a b = Some (ND2 d) /\ wf2 d /\
      coef1 d (fx_var (pair q1)) = s1 * re2 d / r1 /\
      2 * coef2 d (fx_var (pair q1)) (fx_var (pair q2)) =
        if pair_eqb (pair q1) (pair q2) then s1 * (s1 - 1) * re2 d / (r1 * r1)
        else s1 * s2 * re2 d / (r1 * r2).
Proof.
  intros TQ BO Hn NZ WF OK E E2 a b steps Ia P ND PL q1 d1 r1 q2 d2 r2 I1 I2 R1 R2 s1 s2.
  destruct (market_hessian cs0 qs base fx fx2 TQ BO Hn NZ WF E E2 a b steps
              (fx_var (pair q1)) (fx_var (pair q2)) Ia P) as (d & Ed & Wd & Rd & C1 & C1' & C2).
  exists d. split; [exact Ed|]. split; [exact Wd|].
  assert (INQ : forall x e, In (x, e) steps -> In x qs) by (intros; eapply steps_in_qs; eauto).
  assert (OTHER : forall q x e, In q qs -> In (x, e) steps -> x <> q -> coef1 (lift2 x) (fx_var (pair q)) = 0).
  { intros q x e Iq Ix N. destruct (PL x e Ix) as (rx & Ex). rewrite (coef1_plain x rx _ Ex).
    destruct (name_eqb (fx_var (pair q)) (fx_var (pair x))) eqn:EN; [|reflexivity].
    apply name_eqb_eq in EN. exfalso. apply N.
    apply (NoDup_map_inj_in pair qs (tree_pairs_NoDup _ _ TQ)); eauto. symmetry.
    apply fx_var_inj; auto; apply OK; [apply (tree_members _ _ TQ q Iq)|apply (tree_members _ _ TQ x (INQ _ _ Ix))]. }
  assert (L1 : logsum1 (fx_var (pair q1)) steps = s1 / r1).
  { rewrite (logsum1_single _ steps q1 d1 I1 ND); [|intros; eapply OTHER; eauto].
    rewrite (coef1_plain q1 r1 _ R1), name_eqb_refl. unfold qval. rewrite R1. cbn [num_real].
    unfold s1, Rdiv. ring. }
  assert (L2 : logsum1 (fx_var (pair q2)) steps = s2 / r2).
  { rewrite (logsum1_single _ steps q2 d2 I2 ND); [|intros; eapply OTHER; eauto].
    rewrite (coef1_plain q2 r2 _ R2), name_eqb_refl. unfold qval. rewrite R2. cbn [num_real].
    unfold s2, Rdiv. ring. }
  assert (N1 : r1 <> 0) by (pose proof (NZ q1 (INQ _ _ I1)) as N; unfold qval in N; rewrite R1 in N; exact N).
  assert (N2 : r2 <> 0) by (pose proof (NZ q2 (INQ _ _ I2)) as N; unfold qval in N; rewrite R2 in N; exact N).
  split; [rewrite C1, L1; unfold Rdiv; ring|].
  rewrite C2, L1, L2.
  assert (Z2 : forall x e, In (x, e) steps -> coef2 (lift2 x) (fx_var (pair q1)) (fx_var (pair q2)) = 0).
  { intros x e Ix. destruct (PL x e Ix) as (rx & Ex). apply (coef2_plain x rx _ _ Ex). }
  destruct (pair_eqb (pair q1) (pair q2)) eqn:PE.
  - apply pair_eqb_eq in PE.
    assert (Q : q2 = q1).
    { apply (NoDup_map_inj_in pair qs (tree_pairs_NoDup _ _ TQ)); eauto. }
    subst q2. rewrite R1 in R2. inversion R2; subst r2.
    rewrite (logsum2_single _ _ steps q1 d1 I1 ND Z2); [|intros x e Ix N; left; eapply OTHER; eauto].
    rewrite (coef1_plain q1 r1 _ R1), name_eqb_refl. unfold qval. rewrite R1. cbn [num_real].
    assert (D : d2 = d1).
    { (* the same quote occurs once on a simple walk *)
      clear -I1 I2 ND. induction steps as [|[x e] r IH]; [contradiction|].
      cbn [map fst] in ND. inversion ND as [|? ? NI ND']; subst.
      destruct I1 as [A|A], I2 as [B|B].
      - congruence.
      - inversion A; subst. exfalso. apply NI. change q1 with (fst (q1, d2)). apply in_map. exact B.
      - inversion B; subst. exfalso. apply NI. change q1 with (fst (q1, d1)). apply in_map. exact A.
      - auto. }
    unfold s2. rewrite D. fold s1. unfold s1. destruct d1; field; exact N1.
  - assert (NQ : q2 <> q1).
    { intros ->. rewrite (proj2 (pair_eqb_eq _ _) eq_refl) in PE. discriminate. }
    rewrite logsum2_zero; [field; split; assumption|].
    intros x e Ix. split; [apply (Z2 x e Ix)|].
    destruct (pair_eqb (pair x) (pair q1)) eqn:PX.
    + apply pair_eqb_eq in PX.
      assert (X : x = q1) by (apply (NoDup_map_inj_in pair qs (tree_pairs_NoDup _ _ TQ)); eauto).
      subst x. right. eapply OTHER; eauto.
    + left. eapply OTHER; eauto. intros ->. rewrite (proj2 (pair_eqb_eq _ _) eq_refl) in PX. discriminate.
Qed.
