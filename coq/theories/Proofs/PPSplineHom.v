(* C15, part 3: the solver and the evaluation are LINEAR in the data.
   Generic statement: let h : E -> E' commute with the operations the right-hand side goes through
   (subtraction, addition, multiplication by a matrix-side value, zero) on a class `good` of
   well-formed elements closed under them.  Then fdsolve / csolve / ppdnev_single commute with h:
   the pivot choices and the elimination of the matrix do not depend on the right-hand side at
   all, and every step applied to it is one of those operations.
   Instances (end of file): E = dual R, h = "coefficient of the name v" and h = "real part";
   E = dual2 R with the first-order and the stored second-order coefficients. *)
From Coq Require Import List Arith Bool Lia.
From RL Require Import Base.Outcome Base.Num Base.Str Model.Dual Model.Linalg Model.Spline Model.PPSpline
  Proofs.PPSplineP.
Import ListNotations.
Local Open Scope nat_scope.

Section Hom.
  Context {F E E' : Type} {OF : Ops F} {OE : Ops E} {OE' : Ops E'}.
  Variable xmul : F -> E -> E.
  Variable xmul' : F -> E' -> E'.
  Variable h : E -> E'.
  Variable good : E -> Prop.
  Hypothesis g_zero : good ozero.
  Hypothesis g_sum0 : good osum0.
  Hypothesis g_sub : forall a b, good a -> good b -> good (osub a b).
  Hypothesis g_add : forall a b, good a -> good b -> good (oadd a b).
  Hypothesis g_mul : forall f a, good a -> good (xmul f a).
  Hypothesis h_zero : h ozero = ozero.
  Hypothesis h_sum0 : h osum0 = osum0.
  Hypothesis h_sub : forall a b, good a -> good b -> h (osub a b) = osub (h a) (h b).
  Hypothesis h_add : forall a b, good a -> good b -> h (oadd a b) = oadd (h a) (h b).
  Hypothesis h_mul : forall f a, good a -> h (xmul f a) = xmul' f (h a).

  Lemma good_nth b i : Forall good b -> good (nth i b ozero).
  Proof.
    intros G. destruct (lt_dec i (length b)).
    - apply (proj1 (Forall_forall good b) G). apply nth_In. auto.
    - rewrite nth_overflow by lia. exact g_zero.
  Qed.
  Lemma h_nth b i : h (nth i b ozero) = nth i (map h b) ozero.
  Proof. rewrite <- h_zero. symmetry. apply map_nth. Qed.
  Lemma good_vset : forall b i x, Forall good b -> good x -> Forall good (vset b i x).
  Proof.
    induction b as [|y b IH]; intros [|i] x G Gx; cbn; auto; inversion G; subst; constructor; auto.
  Qed.
  Lemma map_vset : forall (b : list E) i x, map h (vset b i x) = vset (map h b) i (h x).
  Proof. induction b as [|y b IH]; intros [|i] x; cbn; auto. f_equal. apply IH. Qed.
  Lemma good_skipn n : forall b, Forall good b -> Forall good (skipn n b).
  Proof. induction n; intros [|y b] G; cbn; auto. inversion G; auto. Qed.
  Lemma good_repeat n : Forall good (repeat ozero n).
  Proof. induction n; cbn; constructor; auto. Qed.
  Lemma map_repeat_zero n : map h (repeat ozero n) = repeat ozero n.
  Proof. induction n; cbn; auto. rewrite h_zero, IHn. reflexivity. Qed.

  (* inner product of a matrix-side row with a rhs-side vector *)
  Lemma gdot_hom_acc (a : list F) : forall b acc, Forall good b -> good acc ->
    let r := fold_left (fun acc p => oadd acc (xmul (fst p) (snd p))) (combine a b) acc in
    good r /\ h r = fold_left (fun acc p => oadd acc (xmul' (fst p) (snd p))) (combine a (map h b)) (h acc).
  Proof.
    induction a as [|x a IH]; intros b acc G Ga; cbn [combine fold_left]. auto.
    destruct b as [|y b]; cbn [combine fold_left map]. auto.
    inversion G; subst. cbn [fst snd].
    assert (G1 : good (oadd acc (xmul x y))) by (apply g_add; auto).
    destruct (IH b (oadd acc (xmul x y)) H2 G1) as [G2 H3]. split; auto.
    rewrite H3. rewrite h_add, h_mul; auto.
  Qed.
  Lemma gdot_hom (a : list F) b : Forall good b ->
    good (gdot xmul a b) /\ h (gdot xmul a b) = gdot xmul' a (map h b).
  Proof.
    intros G. unfold gdot. destruct (gdot_hom_acc a b osum0 G g_sum0) as [G1 H1]. split; auto.
    rewrite H1, h_sum0. reflexivity.
  Qed.
  Lemma gmat_vec_hom (a : list (list F)) b : Forall good b ->
    Forall good (gmat_vec xmul a b) /\ map h (gmat_vec xmul a b) = gmat_vec xmul' a (map h b).
  Proof.
    intros G. unfold gmat_vec. induction a as [|row a IH]; cbn [map]. auto.
    destruct IH as [G1 H1]. destruct (gdot_hom row b G) as [G2 H2]. split.
    - constructor; auto.
    - rewrite H1, H2. reflexivity.
  Qed.

  (* elimination: the matrix component is the same, the rhs component commutes with h *)
  Lemma step_l_hom j n a b l : Forall good b ->
    fst (step_l xmul' j n (a, map h b) l) = fst (step_l xmul j n (a, b) l) /\
    snd (step_l xmul' j n (a, map h b) l) = map h (snd (step_l xmul j n (a, b) l)) /\
    Forall good (snd (step_l xmul j n (a, b) l)).
  Proof.
    intros G. cbn [step_l fst snd]. split; [reflexivity|]. split.
    - rewrite map_vset. f_equal. rewrite h_sub, h_mul, !h_nth; auto using good_nth.
    - apply good_vset; auto. apply g_sub; auto using good_nth.
  Qed.
  Lemma fold_step_l_hom j n ls : forall a b, Forall good b ->
    let r := fold_left (step_l xmul j n) ls (a, b) in
    fold_left (step_l xmul' j n) ls (a, map h b) = (fst r, map h (snd r)) /\ Forall good (snd r).
  Proof.
    induction ls as [|l ls IH]; intros a b G; cbn [fold_left]. auto.
    destruct (step_l_hom j n a b l G) as (H1 & H2 & H3).
    destruct (step_l xmul j n (a, b) l) as [a1 b1] eqn:E1.
    destruct (step_l xmul' j n (a, map h b) l) as [a2 b2] eqn:E2.
    cbn [fst snd] in *. subst a2 b2. apply IH. exact H3.
  Qed.
  Lemma el_swap_hom b j k b' : Forall good b -> el_swap ozero b j k = Ok b' ->
    el_swap ozero (map h b) j k = Ok (map h b') /\ Forall good b'.
  Proof.
    intros G. unfold el_swap. rewrite map_length.
    destruct ((j <? k) && (k <? length b)); [|discriminate].
    intros HS. inversion HS. split.
    - rewrite !map_vset, !h_nth. reflexivity.
    - apply good_vset; auto using good_nth. apply good_vset; auto using good_nth.
  Qed.
  Lemma step_j_hom n a b j a' b' : Forall good b -> step_j xmul n (a, b) j = Ok (a', b') ->
    step_j xmul' n (a, map h b) j = Ok (a', map h b') /\ Forall good b'.
  Proof.
    intros G. unfold step_j.
    destruct (argabsmax (pivot_col a j)) as [k0| |]; cbn [obind]; try discriminate.
    destruct (Nat.eqb j (k0 + j)).
    - cbn [obind]. intros HS. inversion HS as [HS'].
      destruct (fold_step_l_hom j n (seq (S j) (n - S j)) a b G) as [H1 H2].
      rewrite H1, HS'. cbn [fst snd]. rewrite HS' in H2. auto.
    - destruct (row_swap a j (k0 + j)) as [a1| |]; cbn [obind]; try discriminate.
      destruct (el_swap ozero b j (k0 + j)) as [b1| |] eqn:ES; cbn [obind]; try discriminate.
      destruct (el_swap_hom b j (k0 + j) b1 G ES) as [H0 G1]. rewrite H0. cbn [obind].
      intros HS. inversion HS as [HS'].
      destruct (fold_step_l_hom j n (seq (S j) (n - S j)) a1 b1 G1) as [H1 H2].
      rewrite H1, HS'. cbn [fst snd]. rewrite HS' in H2. auto.
  Qed.
  Lemma eliminate_hom n js : forall a b a' b', Forall good b ->
    ofold (step_j xmul n) js (a, b) = Ok (a', b') ->
    ofold (step_j xmul' n) js (a, map h b) = Ok (a', map h b') /\ Forall good b'.
  Proof.
    induction js as [|j js IH]; intros a b a' b' G; cbn [ofold].
    - intros HS. inversion HS; subst. auto.
    - destruct (step_j xmul n (a, b) j) as [[a1 b1]| |] eqn:E1; cbn [obind]; try discriminate.
      destruct (step_j_hom n a b j a1 b1 G E1) as [H1 G1]. rewrite H1. cbn [obind].
      apply IH. exact G1.
  Qed.

  (* back substitution *)
  Lemma step_u_hom u b x i : Forall good b -> Forall good x ->
    step_u xmul' (fxdiv xmul') u (map h b) (map h x) i = map h (step_u xmul (fxdiv xmul) u b x i) /\
    Forall good (step_u xmul (fxdiv xmul) u b x i).
  Proof.
    intros Gb Gx. unfold step_u.
    destruct (gdot_hom (skipn (S i) (nth i u [])) (skipn (S i) x) (good_skipn _ _ Gx)) as [G1 H1].
    assert (G2 : good (osub (nth i b ozero) (gdot xmul (skipn (S i) (nth i u [])) (skipn (S i) x))))
      by (apply g_sub; auto using good_nth).
    split.
    - rewrite map_vset. f_equal. unfold fxdiv. rewrite h_mul by auto. f_equal.
      rewrite h_sub by auto using good_nth. rewrite h_nth, H1, skipn_map. reflexivity.
    - apply good_vset; auto. unfold fxdiv. apply g_mul. exact G2.
  Qed.
  Lemma gsolve_upper_hom_acc u b is_ : forall x, Forall good b -> Forall good x ->
    fold_left (step_u xmul' (fxdiv xmul') u (map h b)) is_ (map h x)
      = map h (fold_left (step_u xmul (fxdiv xmul) u b) is_ x) /\
    Forall good (fold_left (step_u xmul (fxdiv xmul) u b) is_ x).
  Proof.
    induction is_ as [|i is_ IH]; intros x Gb Gx; cbn [fold_left]. auto.
    destruct (step_u_hom u b x i Gb Gx) as [H1 G1]. rewrite H1. apply IH; auto.
  Qed.
  Lemma gsolve_upper_hom n u b : Forall good b ->
    gsolve_upper xmul' (fxdiv xmul') n u (map h b) = map h (gsolve_upper xmul (fxdiv xmul) n u b) /\
    Forall good (gsolve_upper xmul (fxdiv xmul) n u b).
  Proof.
    intros G. unfold gsolve_upper.
    destruct (gsolve_upper_hom_acc u b (rev (seq 0 n)) (repeat ozero n) G (good_repeat n)) as [H1 G1].
    rewrite map_repeat_zero in H1. auto.
  Qed.

  Lemma gsolve21_hom a b x : Forall good b ->
    gsolve21 xmul (fxdiv xmul) a b = Ok x ->
    gsolve21 xmul' (fxdiv xmul') a (map h b) = Ok (map h x) /\ Forall good x.
  Proof.
    intros G. unfold gsolve21. destruct (negb (is_square a)); [discriminate|].
    rewrite map_length. destruct (negb (length b =? length a)); [discriminate|].
    unfold eliminate.
    destruct (ofold (step_j xmul (length a)) (seq 0 (length a)) (a, b)) as [[a' b']| |] eqn:EE;
      cbn [obind]; try discriminate.
    destruct (eliminate_hom (length a) _ a b a' b' G EE) as [H1 G1]. rewrite H1. cbn [obind fst snd].
    intros HS. inversion HS as [HS'].
    destruct (gsolve_upper_hom (length a) a' b' G1) as [H2 G2]. rewrite H2. auto.
  Qed.

  Lemma fdsolve_hom a b lsq x : Forall good b ->
    fdsolve xmul a b lsq = Ok x ->
    fdsolve xmul' a (map h b) lsq = Ok (map h x) /\ Forall good x.
  Proof.
    intros G. unfold fdsolve. destruct lsq; [|apply gsolve21_hom; auto].
    destruct (dmul22_ (mtranspose ozero (ncols a) a) a) as [a_| |]; cbn [obind]; try discriminate.
    unfold fdmul21_, gmul21. rewrite map_length.
    destruct (ncols (mtranspose ozero (ncols a) a) =? length b); cbn [obind]; try discriminate.
    destruct (gmat_vec_hom (mtranspose ozero (ncols a) a) b G) as [G1 H1].
    rewrite <- H1. apply gsolve21_hom. exact G1.
  Qed.

  Lemma gmul11_hom (a : list F) b v : Forall good b -> gmul11 xmul a b = Ok v ->
    gmul11 xmul' a (map h b) = Ok (h v) /\ good v.
  Proof.
    intros G. unfold gmul11. rewrite map_length. destruct (length a =? length b); [|discriminate].
    intros HS. inversion HS. destruct (gdot_hom a b G) as [G1 H1]. rewrite H1. auto.
  Qed.
End Hom.

(* ------------------------------------------------------------------ splines *)
Section SplineHom.
  Context {T : Type} `{Num T} {E E' : Type} {OE : Ops E} {OE' : Ops E'}.
  Variable xmul : T -> E -> E.
  Variable xmul' : T -> E' -> E'.
  Variable h : E -> E'.
  Variable good : E -> Prop.
  Hypothesis g_zero : good ozero.
  Hypothesis g_sum0 : good osum0.
  Hypothesis g_sub : forall a b, good a -> good b -> good (osub a b).
  Hypothesis g_add : forall a b, good a -> good b -> good (oadd a b).
  Hypothesis g_mul : forall f a, good a -> good (xmul f a).
  Hypothesis h_zero : h ozero = ozero.
  Hypothesis h_sum0 : h osum0 = osum0.
  Hypothesis h_sub : forall a b, good a -> good b -> h (osub a b) = osub (h a) (h b).
  Hypothesis h_add : forall a b, good a -> good b -> h (oadd a b) = oadd (h a) (h b).
  Hypothesis h_mul : forall f a, good a -> h (xmul f a) = xmul' f (h a).

  (* the same spline with its coefficients pushed through h *)
  Definition pp_map (s : @ppspline T E) : @ppspline T E' :=
    mkPP (pk s) (pt s) (option_map (map h) (pc s)) (pn s).
  Definition pp_good (s : @ppspline T E) : Prop :=
    match pc s with Some c => Forall good c | None => True end.

  Lemma bsplmatrix_indep {E1 E2} (s1 : @ppspline T E1) (s2 : @ppspline T E2) tau l r :
    pk s1 = pk s2 -> pt s1 = pt s2 -> pn s1 = pn s2 ->
    bsplmatrix s1 tau l r = bsplmatrix s2 tau l r.
  Proof. intros A B C. unfold bsplmatrix. rewrite A, B, C. reflexivity. Qed.

  Lemma csolve_hom (s s' : @ppspline T E) tau y l r lsq : Forall good y ->
    csolve xmul s tau y l r lsq = Ok s' ->
    csolve xmul' (pp_map s) tau (map h y) l r lsq = Ok (pp_map s') /\ pp_good s'.
  Proof.
    intros G HS.
    destruct (csolve_ok xmul s s' tau y l r lsq HS) as (B & c & HB & HC & -> & Ly & Lt).
    destruct (fdsolve_hom xmul xmul' h good g_zero g_sum0 g_sub g_add g_mul h_zero h_sum0 h_sub h_add h_mul
                B y lsq c G HC) as [H1 G1].
    split; [|exact G1].
    unfold csolve. cbn [pp_map pn pk pt]. rewrite map_length.
    revert HS. unfold csolve.
    destruct (negb (length tau =? pn s) && negb (lsq && (pn s <? length tau))); [discriminate|].
    destruct (negb (length tau =? length y)); [discriminate|]. intros _.
    rewrite (bsplmatrix_indep (pp_map s) s) by reflexivity. rewrite HB. cbn [obind].
    rewrite H1. cbn [obind]. reflexivity.
  Qed.

  Lemma ppdnev_single_hom (s : @ppspline T E) x m v : pp_good s ->
    ppdnev_single xmul s x m = Ok v -> ppdnev_single xmul' (pp_map s) x m = Ok (h v).
  Proof.
    unfold pp_good, ppdnev_single. cbn [pp_map pk pt pn pc]. intros G.
    destruct (bspldnev_row x (pk s) (pt s) m (pn s)) as [b| |]; cbn [obind]; try discriminate.
    destruct (pc s) as [c|]; cbn [option_map]; try discriminate.
    intros HV. unfold fdmul11_ in *.
    destruct (gmul11_hom xmul xmul' h good g_sum0 g_add g_mul h_sum0 h_add h_mul b c v G HV) as [H1 _].
    exact H1.
  Qed.
End SplineHom.
