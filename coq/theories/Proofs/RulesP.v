(* Lifting of the evaluated checks of Model/Rules.v (closed by vm_compute in Proofs/RulesP_*.v, one file per
   table so that they build in parallel) to statements quantified over every date of the supported range.
   Axiom-free. *)
From Coq Require Import ZArith Lia List Bool String.
From RL Require Import Base.Outcome Model.Dates Model.Calendar Model.Named Model.Rules Model.RuleChecks
  Proofs.DatesP Proofs.CalendarP.
Import ListNotations.
Open Scope Z_scope.

Lemma forallb_days P a b : forallb P (cal_date_range a b) = true -> forall d, a <= d <= b -> P d = true.
Proof.
  intros H d Hd. rewrite forallb_forall in H. apply H. unfold cal_date_range. apply cal_range_f_in. lia.
Qed.

(* ---------- windowed evaluation ---------- *)
Ltac Zify.zify_post_hook ::= Z.div_mod_to_equations.
Lemma forall_chunked_spec a b Q : forall_chunked a b Q = true ->
  forall d, a <= d <= b -> exists s, s <= d < s + chunk_len /\ Q s d = true.
Proof.
  unfold forall_chunked. intros H d Hd. rewrite forallb_forall in H.
  set (k := (d - a) / chunk_len).
  assert (Hk : In k (cal_range_f (Z.to_nat ((b - a) / chunk_len + 1)) 0)).
  { apply cal_range_f_in. unfold k, chunk_len. lia. }
  specialize (H k Hk). cbv zeta in H. rewrite forallb_forall in H.
  assert (Hs : a + k * chunk_len <= d < a + k * chunk_len + chunk_len) by (unfold k, chunk_len; lia).
  exists (a + k * chunk_len). split; auto.
  assert (Hin : In d (cal_range_f (Z.to_nat chunk_len) (a + k * chunk_len))).
  { apply cal_range_f_in. unfold chunk_len in *. lia. }
  specialize (H d Hin). destruct (Z.leb_spec d b); [exact H|lia].
Qed.
Lemma zmem_filter (P : Z -> bool) d l : P d = true -> zmem d (filter P l) = zmem d l.
Proof.
  intros HP. unfold zmem. induction l as [|x l IH]; [reflexivity|]. cbn [filter].
  destruct (P x) eqn:E; cbn [existsb]; rewrite IH; [reflexivity|].
  destruct (Z.eqb_spec d x) as [->|]; [congruence|reflexivity].
Qed.
Lemma within_true d0 cnt d : d0 <= d < d0 + cnt -> within d0 cnt d = true.
Proof. intros H. unfold within. apply andb_true_iff. split; [apply Z.leb_le|apply Z.ltb_lt]; lia. Qed.
(* the windowed calendar answers like the full one inside its window *)
Lemma restrict_spec c d0 cnt d : d0 <= d < d0 + cnt ->
  cal_is_holiday (restrict c d0 cnt) d = cal_is_holiday c d /\ cal_is_weekday (restrict c d0 cnt) d = cal_is_weekday c d /\
  cal_is_bus (restrict c d0 cnt) d = cal_is_bus c d.
Proof.
  intros H. assert (E : cal_is_holiday (restrict c d0 cnt) d = cal_is_holiday c d).
  { unfold cal_is_holiday, restrict. cbn [c_hols]. apply zmem_filter. apply within_true; auto. }
  unfold cal_is_bus. rewrite E. auto.
Qed.

Definition mask_sat_sun (c : cal) : Prop := forall v, In v (c_mask c) <-> v = 5 \/ v = 6.
Lemma mask_sat_sun_of c :
  forallb (fun v => zmem v [5; 6]) (c_mask c) = true -> forallb (fun v => zmem v (c_mask c)) [5; 6] = true -> mask_sat_sun c.
Proof.
  intros H1 H2 v. split.
  - intros Hv. rewrite forallb_forall in H1. specialize (H1 v Hv). unfold zmem in H1. cbn [existsb] in H1.
    destruct (Z.eqb_spec v 5); [left; auto|]. destruct (Z.eqb_spec v 6); [right; auto|]. discriminate.
  - cbn [forallb] in H2. apply andb_true_iff in H2. destruct H2 as [H5 H6]. apply andb_true_iff in H6. destruct H6 as [H6 _].
    unfold zmem in H5, H6. apply existsb_exists in H5, H6.
    destruct H5 as [x [Hx Ex]], H6 as [z [Hz Ez]]. apply Z.eqb_eq in Ex, Ez. subst x z.
    intros [->| ->]; auto.
Qed.
(* with that week mask, "weekday" of the calendar is Mon-Fri *)
Lemma mask_sat_sun_weekday c d : mask_sat_sun c -> cal_is_weekday c d = (weekday d <? 5).
Proof.
  intros M. unfold cal_is_weekday. pose proof (weekday_range d) as R.
  destruct (Z.ltb_spec (weekday d) 5) as [L|L].
  - destruct (zmem (weekday d) (c_mask c)) eqn:E; [|reflexivity].
    unfold zmem in E. apply existsb_exists in E. destruct E as [x [Hx Ex]]. apply Z.eqb_eq in Ex. subst x.
    apply M in Hx. lia.
  - assert (Hin : In (weekday d) (c_mask c)) by (apply M; lia).
    assert (E : zmem (weekday d) (c_mask c) = true).
    { unfold zmem. apply existsb_exists. exists (weekday d). split; auto. apply Z.eqb_refl. }
    rewrite E. reflexivity.
Qed.

(* ---------- fully published calendars ---------- *)
Definition full_spec (n : string) (rs : list hrule) : Prop :=
  exists c, by_name n = Ok c /\ mask_sat_sun c /\
    forall d, d1970 <= d <= d2200 -> weekday d < 5 -> cal_is_holiday c d = rules_hit rs d.
Lemma full_check_spec n rs : full_check (n, rs) = true -> full_spec n rs.
Proof.
  unfold full_check, full_spec. cbn [fst snd]. destruct (by_name n) as [c| |]; try discriminate.
  intros H. apply andb_true_iff in H. destruct H as [H H3]. unfold mask_is_sat_sun in H. apply andb_true_iff in H. destruct H as [H1 H2].
  exists c. split; auto. split; [apply mask_sat_sun_of; auto|].
  intros d Hd Hw. destruct (forall_chunked_spec _ _ _ H3 d Hd) as [s [Hs A]]. cbv zeta in A. unfold full_agree, is_wd5 in A.
  destruct (Z.ltb_spec (weekday d) 5); [|lia]. apply eqb_prop in A.
  destruct (restrict_spec c s chunk_len d Hs) as [E _]. rewrite E in A. exact A.
Qed.

(* ---------- partially published calendars ---------- *)
Definition partial_spec (n : string) (rs : list hrule) : Prop :=
  exists c, by_name n = Ok c /\ mask_sat_sun c /\
    forall d, d1970 <= d <= d2200 -> weekday d < 5 -> rules_hit rs d = true -> cal_is_holiday c d = true.
Lemma partial_check_spec n rs : partial_check (n, rs) = true -> partial_spec n rs.
Proof.
  unfold partial_check, partial_spec. cbn [fst snd]. destruct (by_name n) as [c| |]; try discriminate.
  intros H. apply andb_true_iff in H. destruct H as [H H3]. unfold mask_is_sat_sun in H. apply andb_true_iff in H. destruct H as [H1 H2].
  exists c. split; auto. split; [apply mask_sat_sun_of; auto|].
  intros d Hd Hw Hr. destruct (forall_chunked_spec _ _ _ H3 d Hd) as [s [Hs A]]. cbv zeta in A. unfold partial_agree, is_wd5 in A.
  destruct (Z.ltb_spec (weekday d) 5); [|lia]. rewrite Hr in A.
  destruct (restrict_spec c s chunk_len d Hs) as [E _]. rewrite E in A. exact A.
Qed.

(* ---------- fed = nyc without Good Friday ---------- *)
Definition fed_nyc_spec : Prop :=
  exists f n, by_name "fed" = Ok f /\ by_name "nyc" = Ok n /\
    forall d, d1970 <= d <= d2200 -> weekday d < 5 ->
      cal_is_holiday f d = cal_is_holiday n d && negb (is_good_friday d).
Lemma fed_nyc_check_spec : fed_nyc_check = true -> fed_nyc_spec.
Proof.
  unfold fed_nyc_check, fed_nyc_spec. destruct (by_name "fed") as [f| |]; try discriminate.
  destruct (by_name "nyc") as [n| |]; try discriminate. intros H. exists f, n. split; auto. split; auto.
  intros d Hd Hw. destruct (forall_chunked_spec _ _ _ H d Hd) as [s [Hs A]]. cbv zeta in A. unfold fed_nyc_agree, is_wd5 in A.
  destruct (Z.ltb_spec (weekday d) 5); [|lia]. apply eqb_prop in A.
  destruct (restrict_spec f s chunk_len d Hs) as [E1 _]. destruct (restrict_spec n s chunk_len d Hs) as [E2 _].
  rewrite E1, E2 in A. exact A.
Qed.

(* ---------- all / bus ---------- *)
Definition all_bus_spec : Prop :=
  exists b, by_name "all" = Ok (mkCal [] []) /\ by_name "bus" = Ok b /\ c_hols b = [] /\ mask_sat_sun b.
Lemma all_bus_check_spec : all_bus_check = true -> all_bus_spec.
Proof.
  unfold all_bus_check, all_bus_spec. destruct (by_name "all") as [[am ah]| |]; try discriminate.
  destruct (by_name "bus") as [b| |]; try discriminate. cbn [c_hols c_mask].
  destruct ah; [|intros H; discriminate H]. destruct am; [|intros H; discriminate H].
  destruct (c_hols b) eqn:E; [|intros H; discriminate H].
  intros H. apply andb_true_iff in H. destruct H as [_ H]. unfold mask_is_sat_sun in H. apply andb_true_iff in H. destruct H as [H1 H2].
  exists b. repeat split; auto; apply mask_sat_sun_of; auto.
Qed.
(* a calendar without holidays: business day = weekday of its mask; `all`: every day *)
Lemma no_hols_bus m d : cal_is_bus (mkCal m []) d = cal_is_weekday (mkCal m []) d.
Proof. unfold cal_is_bus, cal_is_holiday, zmem. cbn [c_hols existsb negb]. apply andb_true_r. Qed.

(* ---------- fixing histories ---------- *)
Lemma fold_min_le l a : fold_right Z.min a l <= a /\ forall x, In x l -> fold_right Z.min a l <= x.
Proof.
  induction l as [|y l [IH1 IH2]]; cbn [fold_right]; [split; [lia|intros x []]|].
  split; [lia|]. intros x [->|Hx]; [lia|]. specialize (IH2 x Hx). lia.
Qed.
Lemma fold_max_ge l a : a <= fold_right Z.max a l /\ forall x, In x l -> x <= fold_right Z.max a l.
Proof.
  induction l as [|y l [IH1 IH2]]; cbn [fold_right]; [split; [lia|intros x []]|].
  split; [lia|]. intros x [->|Hx]; [lia|]. specialize (IH2 x Hx). lia.
Qed.
Lemma zmin_list_le l x : In x l -> zmin_list l <= x.
Proof. intros H. apply fold_min_le; auto. Qed.
Lemma zmax_list_ge l x : In x l -> x <= zmax_list l.
Proof. intros H. apply fold_max_ge; auto. Qed.

(* business days between the first and the last publication date are exactly the publication dates *)
Definition fix_spec (nm : string) (fx : list Z) : Prop :=
  fx <> [] /\ exists c, by_name nm = Ok c /\
    (forall x, In x fx -> zmin_list fx <= x <= zmax_list fx) /\
    forall d, zmin_list fx <= d <= zmax_list fx -> cal_is_bus c d = zmem d fx.
Lemma fix_check_spec ccy nm fx : fix_check (ccy, (nm, fx)) = true -> fix_spec nm fx.
Proof.
  unfold fix_check, fix_spec. destruct (by_name nm) as [c| |]; try discriminate.
  intros H. apply andb_true_iff in H. destruct H as [H1 H2].
  split; [destruct fx; [discriminate|discriminate]|].
  exists c. split; auto. split.
  - intros x Hx. split; [apply zmin_list_le|apply zmax_list_ge]; auto.
  - intros d Hd. destruct (forall_chunked_spec _ _ _ H2 d Hd) as [s [Hs A]]. cbv zeta in A. unfold fix_agree in A. apply eqb_prop in A.
    destruct (restrict_spec c s chunk_len d Hs) as [_ [_ E]]. rewrite E in A.
    rewrite (zmem_filter _ _ _ (within_true _ _ _ Hs)) in A. exact A.
Qed.

(* ---------- documented names ---------- *)
Lemma doc_names_check_spec : doc_names_check = true -> forall n, In n Gen.DocNames.doc_names -> exists c, by_name n = Ok c.
Proof.
  unfold doc_names_check. rewrite forallb_forall. intros H n Hn. specialize (H n Hn). unfold resolves, is_ok in H.
  destruct (by_name n) as [c| |]; try discriminate. eauto.
Qed.
