(* C01: first-order AD is exact.  Expression language with one constructor per operator VARIANT of
   dual_ops/*.rs, evaluation on the concrete dual representation (Model/Dual.v, T := R), plain real
   evaluation, and the exactness theorem (value, well-formedness, every partial derivative). *)
From Coq Require Import Reals ZArith List Bool Lra Lia.
From Coquelicot Require Import Coquelicot.
From RL Require Import Base.Num Base.Str Base.NumR Base.Outcome Model.Dual Model.Expr Proofs.NumRP Proofs.DualP.
Import ListNotations.
Open Scope R_scope.

Notation exprR := (expr R).
Notation envR := (env R).
Definition upd (rho : envR) (v : name) (x : R) : envR := fun u => if name_eqb u v then x else rho u.
Notation evalR := (evalT (T:=R)).

Lemma same_vars_eq xs ys : same_vars xs ys = true -> xs = ys.
Proof.
  unfold same_vars. intros E. apply andb_true_iff in E. destruct E as [L Z].
  apply Nat.eqb_eq in L. apply names_zip_all_eq; auto.
Qed.
Lemma psh_ok sh xs ys : psh sh xs ys = true -> xs = ys.
Proof. unfold psh. intros E. apply andb_true_iff in E. apply same_vars_eq. tauto. Qed.

(* the differentiable domain *)
Fixpoint Dom (e : exprR) (rho : envR) : Prop :=
  match e with
  | Var _ | Cst _ => True
  | Add a b | Sub a b | Mul a b => Dom a rho /\ Dom b rho
  | AddF a _ | FAdd _ a | SubF a _ | FSub _ a | MulF a _ | FMul _ a | Neg a | NegRef a | Exp a | Ncdf a => Dom a rho
  | Div a b => Dom a rho /\ Dom b rho /\ evalR b rho <> 0
  | DivF a r => Dom a rho /\ r <> 0
  | FDiv _ a => Dom a rho /\ evalR a rho <> 0
  | Pow a p | PowRef a p => Dom a rho /\ pow_dom (evalR a rho) p
  | Log a => Dom a rho /\ 0 < evalR a rho
  | Abs a => Dom a rho /\ evalR a rho <> 0
  | Nicdf a => Dom a rho /\ exists x, Rncdf x = evalR a rho    (* the argument is in the range of the cdf *)
  end.

Lemma upd_same rho v : forall u, upd rho v (rho v) u = rho u.
Proof. intros u; unfold upd; destruct (name_eqb u v) eqn:E; auto. apply name_eqb_eq in E. congruence. Qed.
Lemma evalR_ext (e : exprR) : forall r1 r2 : envR, (forall u, r1 u = r2 u) -> evalR e r1 = evalR e r2.
Proof.
  induction e; cbn; intros r1 r2 E; auto;
    try (rewrite (IHe1 r1 r2 E), (IHe2 r1 r2 E); reflexivity);
    try (rewrite (IHe r1 r2 E); reflexivity).
Qed.

Lemma npow_m1 x : x <> 0 -> npow x nm1 = / x.
Proof. apply Rpowf_m1. Qed.
Lemma npow_m2 x : x <> 0 -> npow x (nsub nm1 n1) = / (x * x).
Proof. apply Rpowf_m2. Qed.

Definition exact1 (d : dualR) (e : exprR) (rho : envR) : Prop :=
  wf d /\ re d = evalR e rho /\
  forall v, is_derive (fun x => evalR e (upd rho v x)) (rho v) (coef d v).

Theorem ad1_exact sh (e : exprR) (rho : envR) : Dom e rho -> exact1 (evalDual sh e rho) e rho.
Proof.
  assert (Hs : forall (e : exprR) v, evalR e (upd rho v (rho v)) = evalR e rho)
    by (intros; apply evalR_ext, upd_same).
  unfold exact1.
  induction e; cbn [evalDual evalT Dom nadd nsub nmul ndiv nneg npow nexp nln ncdf nicdf nabs NumR]; intros HD.
  - (* Var *) split; [apply wf_dual_new|]. split; [reflexivity|]. intros w. rewrite coef_var.
    unfold upd. destruct (name_eqb w v) eqn:E.
    + apply name_eqb_eq in E. subst. rewrite name_eqb_refl. apply dR_id.
    + assert (E' : name_eqb v w = false).
      { apply name_eqb_neq. apply name_eqb_neq in E. congruence. }
      rewrite E'. apply dR_const.
  - (* Cst *) split; [apply wf_dual_new|]. split; [reflexivity|]. intros w. rewrite coef_const. apply dR_const.
  - (* Add *) destruct HD as [H1 H2]. destruct (IHe1 H1) as (W1 & R1 & D1), (IHe2 H2) as (W2 & R2 & D2).
    destruct (dadd_spec _ _ _ W1 W2 (psh_ok sh _ _)) as (W & R & C & _).
    split; [exact W|]. split; [rewrite R, R1, R2; reflexivity|]. intros w. rewrite C. apply dR_plus; auto.
  - (* AddF *) destruct (IHe HD) as (W1 & R1 & D1). split; [exact W1|]. split; [cbn; rewrite R1; reflexivity|].
    intros w. evar_last. apply dR_plus; [apply D1|apply dR_const]. unfold coef; cbn; ring.
  - (* FAdd *) destruct (IHe HD) as (W1 & R1 & D1). split; [exact W1|]. split; [cbn; rewrite R1; ring|].
    intros w. evar_last. apply dR_plus; [apply dR_const|apply D1]. unfold coef; cbn; ring.
  - (* Sub *) destruct HD as [H1 H2]. destruct (IHe1 H1) as (W1 & R1 & D1), (IHe2 H2) as (W2 & R2 & D2).
    destruct (dsub_spec _ _ _ W1 W2 (psh_ok sh _ _)) as (W & R & C & _).
    split; [exact W|]. split; [rewrite R, R1, R2; reflexivity|]. intros w. rewrite C. apply dR_minus; auto.
  - (* SubF *) destruct (IHe HD) as (W1 & R1 & D1). split; [exact W1|]. split; [cbn; rewrite R1; reflexivity|].
    intros w. evar_last. apply dR_minus; [apply D1|apply dR_const]. unfold coef; cbn; ring.
  - (* FSub *) destruct (IHe HD) as (W1 & R1 & D1). split; [apply wf_map; exact W1|].
    split; [cbn; rewrite R1; reflexivity|].
    intros w. unfold fsub_d.
    evar_last. apply dR_minus; [apply dR_const|apply D1].
    rewrite coef_map by (cbn; ring). cbn; ring.
  - (* Mul *) destruct HD as [H1 H2]. destruct (IHe1 H1) as (W1 & R1 & D1), (IHe2 H2) as (W2 & R2 & D2).
    destruct (dmul_spec _ _ _ W1 W2 (psh_ok sh _ _)) as (W & R & C & _).
    split; [exact W|]. split; [rewrite R, R1, R2; reflexivity|]. intros w. rewrite C.
    evar_last. apply dR_mult; [apply D1|apply D2]. cbv beta. rewrite !Hs, R1, R2. ring.
  - (* MulF *) destruct (IHe HD) as (W1 & R1 & D1). split; [apply wf_map; exact W1|].
    split; [cbn; rewrite R1; reflexivity|].
    intros w. unfold dmul_f, vscale_l.
    evar_last. apply dR_mult; [apply D1|apply dR_const].
    rewrite coef_map by (cbn; ring). cbn; ring.
  - (* FMul *) destruct (IHe HD) as (W1 & R1 & D1). split; [apply wf_map; exact W1|].
    split; [cbn; rewrite R1; ring|].
    intros w. unfold dmul_f, vscale_l.
    evar_last. apply dR_scal; apply D1.
    rewrite coef_map by (cbn; ring). cbn; ring.
  - (* Div *) destruct HD as (H1 & H2 & H3). destruct (IHe1 H1) as (W1 & R1 & D1), (IHe2 H2) as (W2 & R2 & D2).
    destruct (ddiv_spec _ _ _ W1 W2 (psh_ok sh _ _)) as (W & R & C & _).
    split; [exact W|]. split; [rewrite R, R1, R2; field; exact H3|]. intros w. rewrite C.
    evar_last. apply dR_mult; [apply D1|apply dR_inv; [apply D2|rewrite Hs; exact H3]].
    cbv beta. rewrite !Hs, R1, R2. field. exact H3.
  - (* DivF *) destruct HD as (H1 & H3). destruct (IHe H1) as (W1 & R1 & D1). split; [apply wf_map; exact W1|].
    split; [cbn; rewrite R1; reflexivity|].
    intros w. unfold ddiv_f, vscale_l.
    evar_last. apply dR_mult; [apply D1|apply dR_const].
    rewrite coef_map by (cbn; ring). cbn; field; exact H3.
  - (* FDiv *) destruct HD as (H1 & H3). destruct (IHe H1) as (W1 & R1 & D1).
    split; [apply wf_map; apply wf_map; exact W1|].
    split; [cbn [fdiv_d dmul_f dpow re]; rewrite npow_m1 by (rewrite R1; exact H3); rewrite R1; cbn; field; exact H3|].
    intros w. unfold fdiv_d, dmul_f, vscale_l.
    evar_last. apply dR_scal. apply dR_inv; [apply D1|rewrite Hs; exact H3].
    rewrite coef_map by (cbn; ring). rewrite dpow_unguard.
    rewrite coef_map by (cbn; ring).
    rewrite npow_m2 by (rewrite R1; exact H3).
    rewrite ?Hs, ?R1. cbn. field. exact H3.
  - (* Neg *) destruct (IHe HD) as (W1 & R1 & D1). split; [apply wf_map; exact W1|].
    split; [cbn; rewrite R1; reflexivity|]. intros w. unfold dneg.
    evar_last. apply dR_opp; apply D1. rewrite coef_map by (cbn; ring). reflexivity.
  - (* NegRef *) destruct (IHe HD) as (W1 & R1 & D1). split; [apply wf_map; exact W1|].
    split; [cbn; rewrite R1; reflexivity|]. intros w. unfold dneg_ref, vscale_r.
    evar_last. apply dR_opp; apply D1. rewrite coef_map by (cbn; ring). cbn; ring.
  - (* Pow *) destruct HD as (H1 & H3). destruct (IHe H1) as (W1 & R1 & D1). split; [apply wf_map; exact W1|].
    split; [cbn; rewrite R1; reflexivity|]. intros w. rewrite dpow_unguard.
    evar_last. apply (dR_comp (fun y => Rpowf y p)); [cbv beta; rewrite Hs; apply is_derive_Rpowf; exact H3|apply D1].
    rewrite coef_map by (cbn; ring). cbv beta. rewrite ?Hs, ?R1. cbn. ring.
  - (* PowRef *) destruct HD as (H1 & H3). destruct (IHe H1) as (W1 & R1 & D1). split; [apply wf_map; exact W1|].
    split; [cbn; rewrite R1; reflexivity|]. intros w. rewrite dpow_ref_unguard.
    evar_last. apply (dR_comp (fun y => Rpowf y p)); [cbv beta; rewrite Hs; apply is_derive_Rpowf; exact H3|apply D1].
    rewrite coef_map by (cbn; ring). cbv beta. rewrite ?Hs, ?R1. cbn. ring.
  - (* Exp *) destruct (IHe HD) as (W1 & R1 & D1). split; [apply wf_map; exact W1|].
    split; [cbn; rewrite R1; reflexivity|]. intros w. unfold dexp, vscale_l.
    evar_last. apply (dR_comp exp); [apply is_derive_exp|apply D1].
    rewrite coef_map by (cbn; ring). cbv beta. rewrite ?Hs, ?R1. cbn. ring.
  - (* Log *) destruct HD as (H1 & H3). destruct (IHe H1) as (W1 & R1 & D1). split; [apply wf_map; exact W1|].
    split; [cbn; rewrite R1; reflexivity|]. intros w. unfold dlog, vscale_l.
    evar_last. apply (dR_comp ln); [apply is_derive_ln; cbv beta; rewrite Hs; exact H3|apply D1].
    rewrite coef_map by (cbn; ring). cbv beta. rewrite ?Hs, ?R1. cbn. field. lra.
  - (* Ncdf *) destruct (IHe HD) as (W1 & R1 & D1). split; [apply wf_map; exact W1|].
    split; [cbn; rewrite R1; reflexivity|]. intros w. unfold dncdf, vscale_l.
    evar_last. apply (dR_comp Rncdf); [apply is_derive_Rncdf|apply D1].
    rewrite coef_map by (cbn; ring). rewrite cdf_scalar_phi. cbv beta. rewrite ?Hs, ?R1. cbn. ring.
  - (* Nicdf *) destruct HD as (H1 & x0 & H3). destruct (IHe H1) as (W1 & R1 & D1). split; [apply wf_map; exact W1|].
    split; [cbn; rewrite R1; reflexivity|]. intros w. unfold dnicdf, vscale_l.
    evar_last. apply (dR_comp Rnicdf); [cbv beta; rewrite Hs, <- H3; apply is_derive_Rnicdf|apply D1].
    rewrite coef_map by (cbn; ring). rewrite icdf_scalar_phi. rewrite ?R1, <- H3. cbn [nicdf NumR].
    rewrite Rnicdf_ncdf. cbn. ring.
  - (* Abs *) destruct HD as (H1 & H3). destruct (IHe H1) as (W1 & R1 & D1).
    unfold dabs. cbn [nltb n0 NumR]. unfold Rltb.
    destruct (Rlt_dec 0 (re (evalDual sh e rho))) as [P|P]; rewrite R1 in P.
    + split; [destruct W1; split; assumption|]. split; [cbn; rewrite Rabs_pos_eq by lra; exact R1|].
      intros w.
      evar_last. apply is_derive_Rabs; [apply D1|rewrite Hs; lra]. cbv beta. rewrite Hs, sign_eq_1 by lra.
      unfold coef; cbn; ring.
    + assert (evalR e rho < 0) by lra. split; [apply wf_map; exact W1|].
      split; [cbn; rewrite Rabs_left by lra; rewrite R1; reflexivity|].
      intros w. unfold vscale_l.
      evar_last. apply is_derive_Rabs; [apply D1|rewrite Hs; lra].
      rewrite coef_map by (cbn; ring). cbv beta. rewrite Hs, sign_eq_m1 by lra. cbn; ring.
Qed.

(* ------------------------------------------------------------------ float/dual operand mixes *)
Definition cst (r : R) : dualR := dual_new r [].
Lemma wf_cst r : wf (cst r). Proof. apply wf_dual_new. Qed.
Lemma coef_cst r v : coef (cst r) v = 0. Proof. reflexivity. Qed.
Lemma pfalse (x y : dualR) : false = true -> vs x = vs y. Proof. discriminate. Qed.

Lemma mix_add a r : wf a -> dadd_f a r ≈ dadd false a (cst r) /\ dadd_f a r ≈ dadd false (cst r) a.
Proof.
  intros W.
  destruct (dadd_spec false a (cst r) W (wf_cst r) (pfalse _ _)) as (_ & R1 & C1 & _).
  destruct (dadd_spec false (cst r) a (wf_cst r) W (pfalse _ _)) as (_ & R2 & C2 & _).
  split; split; cbn [re dadd_f]; try (rewrite ?R1, ?R2; cbn; ring);
    intros v; rewrite ?C1, ?C2, coef_cst; unfold coef; cbn; ring.
Qed.
Lemma mix_sub a r : wf a -> dsub_f a r ≈ dsub false a (cst r) /\ fsub_d r a ≈ dsub false (cst r) a.
Proof.
  intros W.
  destruct (dsub_spec false a (cst r) W (wf_cst r) (pfalse _ _)) as (_ & R1 & C1 & _).
  destruct (dsub_spec false (cst r) a (wf_cst r) W (pfalse _ _)) as (_ & R2 & C2 & _).
  split; split; cbn [re dsub_f fsub_d]; try (rewrite ?R1, ?R2; cbn; ring); intros v.
  - rewrite C1, coef_cst. unfold coef; cbn; ring.
  - rewrite C2, coef_cst. unfold fsub_d. rewrite coef_map by (cbn; ring). cbn; ring.
Qed.
Lemma mix_mul a r : wf a -> dmul_f a r ≈ dmul false a (cst r) /\ dmul_f a r ≈ dmul false (cst r) a.
Proof.
  intros W.
  destruct (dmul_spec false a (cst r) W (wf_cst r) (pfalse _ _)) as (_ & R1 & C1 & _).
  destruct (dmul_spec false (cst r) a (wf_cst r) W (pfalse _ _)) as (_ & R2 & C2 & _).
  split; split; cbn [re dmul_f]; try (rewrite ?R1, ?R2; cbn; ring); intros v;
    rewrite ?C1, ?C2, coef_cst; unfold dmul_f, vscale_l; rewrite coef_map by (cbn; ring); cbn; ring.
Qed.
Lemma mix_div a r : wf a -> (r <> 0 -> ddiv_f a r ≈ ddiv false a (cst r)) /\
                             (re a <> 0 -> fdiv_d r a ≈ ddiv false (cst r) a).
Proof.
  intros W.
  destruct (ddiv_spec false a (cst r) W (wf_cst r) (pfalse _ _)) as (_ & R1 & C1 & _).
  destruct (ddiv_spec false (cst r) a (wf_cst r) W (pfalse _ _)) as (_ & R2 & C2 & _).
  split; intros N; split.
  - rewrite R1. cbn. field. exact N.
  - intros v. rewrite C1, coef_cst. unfold ddiv_f, vscale_l. rewrite coef_map by (cbn; ring). cbn. field. exact N.
  - rewrite R2. cbn [fdiv_d dmul_f dpow re]. rewrite npow_m1 by exact N. cbn. field. exact N.
  - intros v. rewrite C2, coef_cst. unfold fdiv_d, dmul_f, vscale_l. rewrite coef_map by (cbn; ring).
    rewrite dpow_unguard. rewrite coef_map by (cbn; ring). rewrite npow_m2 by exact N. cbn. field. exact N.
Qed.
(* owned / borrowed variants *)
Lemma owned_ref_neg a : dneg a ≈ dneg_ref a.
Proof. split; [reflexivity|]. intros v. unfold dneg, dneg_ref, vscale_r. rewrite !coef_map by (cbn; ring). cbn; ring. Qed.
Lemma owned_ref_pow a p : dpow a p = dpow_ref a p.
Proof. reflexivity. Qed.
