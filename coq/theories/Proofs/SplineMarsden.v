(* C15_poly: every polynomial of degree < k is a combination of the B-splines of order k, with
   explicit coefficients.  From Marsden's identity (Proofs/SplinePoly.v `marsden`)
       (x - tau)^(k-1) = Sigma_i psi_{i,k}(tau) B_{i,k}(x)        for ALL tau,
   read as an identity between two polynomials in tau of degree <= k-1 (x fixed): psi_{i,k}(tau) is
   expanded as a coefficient list in tau (`psic`), the left side by the binomial theorem; a real
   polynomial that vanishes everywhere has all coefficients zero (`peval_zero`); comparing the
   coefficient of tau^d gives the monomial x^(k-1-d) as a combination of the B_i; linearity gives
   every coefficient list of length <= k. *)
From Coq Require Import Reals Lra Lia Arith List.
From Coquelicot Require Import Coquelicot.
From RL Require Import Proofs.SplinePoly.
Import ListNotations.
Open Scope R_scope.

(* ------------------------------------------------------------------ polynomials as coefficient lists *)
(* a_0 + a_1 x + a_2 x^2 + ...   (Horner form) *)
Fixpoint peval (a : list R) (x : R) : R :=
  match a with [] => 0 | c :: a' => c + x * peval a' x end.

Lemma peval_monomials a x : peval a x = sumf (fun j => nth j a 0 * x ^ j) (length a).
Proof.
  induction a as [|c a IH]; cbn [peval length]. reflexivity.
  rewrite sumf_shift, IH. cbn [nth pow]. f_equal. ring.
  clear IH. induction (length a) as [|m IHm]. simpl; ring.
  rewrite !sumf_S, <- IHm. cbn [nth pow]. ring.
Qed.

Fixpoint padd (a b : list R) : list R :=
  match a, b with
  | [], _ => b
  | _, [] => a
  | x :: a', y :: b' => (x + y) :: padd a' b'
  end.
Lemma peval_padd a : forall b x, peval (padd a b) x = peval a x + peval b x.
Proof.
  induction a as [|c a IH]; intros [|d b] x; cbn [padd peval]; try ring. rewrite IH. ring.
Qed.
Lemma nth_padd a : forall b d, nth d (padd a b) 0 = nth d a 0 + nth d b 0.
Proof.
  induction a as [|c a IH]; intros [|e b] d; cbn [padd].
  - destruct d; cbn; ring.
  - destruct d; cbn [nth]; ring.
  - destruct d; cbn [nth]; ring.
  - destruct d; cbn [nth]. ring. apply IH.
Qed.
Lemma peval_scale c a x : peval (map (fun y => c * y) a) x = c * peval a x.
Proof. induction a as [|d a IH]; cbn [map peval]. ring. rewrite IH. ring. Qed.
Lemma nth_scale c a d : nth d (map (fun y => c * y) a) 0 = c * nth d a 0.
Proof. rewrite <- (Rmult_0_r c) at 1. apply (map_nth (fun y => c * y)). Qed.

(* a polynomial function that vanishes at every tau <> 0 has only zero coefficients *)
Fixpoint sabs (a : list R) : R := match a with [] => 0 | c :: a' => Rabs c + sabs a' end.
Lemma sabs_nonneg a : 0 <= sabs a.
Proof. induction a; cbn. lra. pose proof (Rabs_pos a). lra. Qed.
Lemma peval_bound a x : Rabs x <= 1 -> Rabs (peval a x) <= sabs a.
Proof.
  intros Hx. induction a as [|c a IH]; cbn [peval sabs]. rewrite Rabs_R0. lra.
  eapply Rle_trans. apply Rabs_triang. rewrite Rabs_mult.
  pose proof (Rabs_pos x). pose proof (Rabs_pos (peval a x)). pose proof (sabs_nonneg a).
  assert (Rabs x * Rabs (peval a x) <= 1 * sabs a) by (apply Rmult_le_compat; lra). lra.
Qed.

Lemma peval_zero a : (forall x, x <> 0 -> peval a x = 0) -> forall d, nth d a 0 = 0.
Proof.
  induction a as [|b a IH]; intros H d. destruct d; reflexivity.
  assert (Hb : b = 0).
  { destruct (Req_dec b 0) as [|NZ]; auto. exfalso.
    set (M := sabs a). pose proof (sabs_nonneg a) as HM. fold M in HM.
    assert (Bp : 0 < Rabs b) by (apply Rabs_pos_lt; auto).
    set (x := Rmin 1 (Rabs b / (2 * (M + 1)))).
    assert (Hq : 0 < Rabs b / (2 * (M + 1))) by (apply Rdiv_lt_0_compat; lra).
    assert (X0 : 0 < x) by (unfold x; apply Rmin_glb_lt; lra).
    assert (X1 : x <= 1) by (unfold x; apply Rmin_l).
    assert (X2 : x <= Rabs b / (2 * (M + 1))) by (unfold x; apply Rmin_r).
    pose proof (H x ltac:(lra)) as E. cbn [peval] in E.
    assert (AX : Rabs x <= 1) by (rewrite Rabs_right; lra).
    pose proof (peval_bound a x AX) as B. fold M in B.
    assert (Eb : Rabs b = x * Rabs (peval a x)).
    { replace b with (- (x * peval a x)) by lra. rewrite Rabs_Ropp, Rabs_mult, (Rabs_right x); lra. }
    pose proof (Rabs_pos (peval a x)) as Pp.
    assert (x * Rabs (peval a x) <= Rabs b / (2 * (M + 1)) * M) by (apply Rmult_le_compat; lra).
    assert (Rabs b / (2 * (M + 1)) * M <= Rabs b / 2).
    { unfold Rdiv. replace (Rabs b * / (2 * (M + 1)) * M) with (Rabs b * / 2 * (M * / (M + 1))) by (field; lra).
      rewrite <- (Rmult_1_r (Rabs b * / 2)) at 2. apply Rmult_le_compat_l. lra.
      apply (Rmult_le_reg_r (M + 1)). lra. replace (M * / (M + 1) * (M + 1)) with M by (field; lra). lra. }
    lra. }
  subst b. destruct d as [|d]. reflexivity. cbn [nth]. apply IH.
  intros x Hx. pose proof (H x Hx) as E. cbn [peval] in E.
  assert (x * peval a x = 0) by lra. apply Rmult_integral in H0. destruct H0; [contradiction|auto].
Qed.

Lemma peval_map_seq (f : nat -> R) x m : forall s,
  peval (map f (seq s m)) x = sumf (fun i => f (s + i)%nat * x ^ i) m.
Proof.
  induction m; intros s. reflexivity.
  cbn [seq map peval]. rewrite IHm, sumf_shift. replace (s + 0)%nat with s by lia. cbn [pow]. f_equal. ring.
  clear IHm. induction m as [|q IHq]. simpl; ring.
  rewrite !sumf_S, <- IHq. replace (S s + q)%nat with (s + S q)%nat by lia. cbn [pow]. ring.
Qed.
Lemma sum_f_R0_sumf g n : sum_f_R0 g n = sumf g (S n).
Proof. induction n. simpl. ring. cbn [sum_f_R0]. rewrite IHn, (sumf_S g (S n)). reflexivity. Qed.

Lemma nth_map_seq0 (f : nat -> R) m d : (d < m)%nat -> nth d (map f (seq 0 m)) 0 = f d.
Proof.
  intros Hd. rewrite nth_indep with (d' := f 0%nat) by (rewrite map_length, seq_length; auto).
  rewrite map_nth, seq_nth by auto. reflexivity.
Qed.

(* (x - tau)^n as a polynomial in tau *)
Definition binom_coeffs (n : nat) (x : R) : list R :=
  map (fun d => Binomial.C n d * (-1) ^ d * x ^ (n - d)) (seq 0 (S n)).
Lemma binom_coeffs_eval n x tau : peval (binom_coeffs n x) tau = (x - tau) ^ n.
Proof.
  unfold binom_coeffs. rewrite peval_map_seq. cbn [Nat.add].
  replace (x - tau) with (- tau + x) by ring. rewrite binomial, sum_f_R0_sumf.
  apply sumf_ext. intros i _. cbv beta. replace (- tau) with (-1 * tau) by ring. rewrite Rpow_mult_distr. ring.
Qed.
Lemma binom_coeffs_nth n x d : (d <= n)%nat -> nth d (binom_coeffs n x) 0 = Binomial.C n d * (-1) ^ d * x ^ (n - d).
Proof.
  intros Hd. unfold binom_coeffs.
  rewrite (nth_map_seq0 _ (S n) d) by lia. reflexivity.
Qed.
Lemma C_neq_0 n d : (d <= n)%nat -> Binomial.C n d <> 0.
Proof.
  intros _. unfold Binomial.C. pose proof (INR_fact_neq_0 n). pose proof (INR_fact_neq_0 d).
  pose proof (INR_fact_neq_0 (n - d)). unfold Rdiv. apply Rmult_integral_contrapositive_currified; auto.
  apply Rinv_neq_0_compat. apply Rmult_integral_contrapositive_currified; auto.
Qed.
Lemma pow_m1_neq_0 d : (-1) ^ d <> 0.
Proof. apply pow_nonzero. lra. Qed.

(* ------------------------------------------------------------------ psi as a coefficient list in tau *)
Section Coeffs.
Variable t : nat -> R.
Hypothesis t_mono : forall a b, (a <= b)%nat -> t a <= t b.

(* (c - tau) * a(tau) *)
Definition mul_lin (c : R) (a : list R) : list R := padd (map (fun y => c * y) a) (0 :: map (fun y => -1 * y) a).
Lemma peval_mul_lin c a tau : peval (mul_lin c a) tau = peval a tau * (c - tau).
Proof. unfold mul_lin. rewrite peval_padd, peval_scale. cbn [peval]. rewrite peval_scale. ring. Qed.

Fixpoint psic (k i : nat) : list R :=
  match k with
  | O => [1]
  | S k' => match k' with O => [1] | S _ => mul_lin (t (i + k')%nat) (psic k' i) end
  end.
Lemma psic_eval k : forall i tau, peval (psic k i) tau = psi t k i tau.
Proof.
  induction k as [|k IH]; intros i tau. cbn. ring.
  destruct k as [|k']. cbn. ring.
  change (psic (S (S k')) i) with (mul_lin (t (i + S k')%nat) (psic (S k') i)).
  rewrite peval_mul_lin, IH. reflexivity.
Qed.

Variable j : nat.
Hypothesis span : t j < t (S j).

(* Sigma_{i<N} B_i(x) psi_i(tau) as a coefficient list in tau *)
Fixpoint lhs_coeffs (k : nat) (x : R) (N : nat) : list R :=
  match N with
  | O => []
  | S N' => padd (lhs_coeffs k x N') (map (fun y => P t j k N' x * y) (psic k N'))
  end.
Lemma lhs_coeffs_eval k x tau N :
  peval (lhs_coeffs k x N) tau = sumf (fun i => psi t k i tau * P t j k i x) N.
Proof.
  induction N; cbn [lhs_coeffs]. reflexivity.
  rewrite peval_padd, IHN, peval_scale, psic_eval, sumf_S. ring.
Qed.
Lemma lhs_coeffs_nth k x d N :
  nth d (lhs_coeffs k x N) 0 = sumf (fun i => P t j k i x * nth d (psic k i) 0) N.
Proof.
  induction N; cbn [lhs_coeffs]. destruct d; reflexivity.
  rewrite nth_padd, IHN, nth_scale, sumf_S. reflexivity.
Qed.

(* coefficient of tau^d on both sides of Marsden's identity *)
Lemma marsden_coeff k N x d : (1 <= k)%nat -> (k - 1 <= j)%nat -> (j < N)%nat -> (d <= k - 1)%nat ->
  sumf (fun i => P t j k i x * nth d (psic k i) 0) N = Binomial.C (k - 1) d * (-1) ^ d * x ^ (k - 1 - d).
Proof.
  intros Hk Hj HN Hd.
  rewrite <- lhs_coeffs_nth, <- (binom_coeffs_nth (k - 1) x d Hd).
  set (D := padd (lhs_coeffs k x N) (map (fun y => -1 * y) (binom_coeffs (k - 1) x))).
  assert (Z : forall e, nth e D 0 = 0).
  { apply peval_zero. intros tau _. unfold D.
    rewrite peval_padd, peval_scale, lhs_coeffs_eval, binom_coeffs_eval.
    rewrite (marsden t t_mono j span k N x tau Hk Hj HN). ring. }
  specialize (Z d). unfold D in Z. rewrite nth_padd, nth_scale in Z. lra.
Qed.

(* the monomial x^m, m < k: coefficients mono_coeff k m i *)
Definition mono_coeff (k m i : nat) : R :=
  nth (k - 1 - m) (psic k i) 0 / (Binomial.C (k - 1) (k - 1 - m) * (-1) ^ (k - 1 - m)).
Lemma monomial_repro k N x m : (1 <= k)%nat -> (k - 1 <= j)%nat -> (j < N)%nat -> (m < k)%nat ->
  sumf (fun i => P t j k i x * mono_coeff k m i) N = x ^ m.
Proof.
  intros Hk Hj HN Hm.
  pose proof (marsden_coeff k N x (k - 1 - m) Hk Hj HN ltac:(lia)) as E.
  replace (k - 1 - (k - 1 - m))%nat with m in E by lia.
  set (cc := Binomial.C (k - 1) (k - 1 - m) * (-1) ^ (k - 1 - m)) in *.
  assert (NZ : cc <> 0).
  { unfold cc. apply Rmult_integral_contrapositive_currified. apply C_neq_0; lia. apply pow_m1_neq_0. }
  unfold mono_coeff. fold cc.
  rewrite (sumf_ext _ (fun i => / cc * (P t j k i x * nth (k - 1 - m) (psic k i) 0))) by (intros; field; auto).
  assert (SC : forall f n, sumf (fun i => / cc * f i) n = / cc * sumf f n).
  { intros f n. induction n. simpl; ring. rewrite !sumf_S, IHn. ring. }
  rewrite SC, E. field. auto.
Qed.

(* a polynomial given by its coefficient list a_0 .. a_{len-1}, len <= k: coefficient of B_i *)
Fixpoint poly_coeff (k : nat) (a : list R) (s i : nat) : R :=
  match a with [] => 0 | c :: a' => c * mono_coeff k s i + poly_coeff k a' (S s) i end.
Lemma poly_repro_gen k N x : (1 <= k)%nat -> (k - 1 <= j)%nat -> (j < N)%nat ->
  forall a s, (s + length a <= k)%nat ->
  sumf (fun i => P t j k i x * poly_coeff k a s i) N = x ^ s * peval a x.
Proof.
  intros Hk Hj HN. induction a as [|c a IH]; intros s Hs; cbn [poly_coeff peval].
  - rewrite (sumf_ext _ (fun _ => 0)) by (intros; ring). rewrite sumf_zero. ring.
  - cbn [length] in Hs.
    rewrite (sumf_ext _ (fun i => c * (P t j k i x * mono_coeff k s i) + P t j k i x * poly_coeff k a (S s) i))
      by (intros; ring).
    assert (SP : forall f g n, sumf (fun i => c * f i + g i) n = c * sumf f n + sumf g n).
    { intros f g n. induction n. simpl; ring. rewrite !sumf_S, IHn. ring. }
    rewrite SP, IH by lia. rewrite monomial_repro by (auto; lia). cbn [pow]. ring.
Qed.
Lemma poly_repro k N x a : (1 <= k)%nat -> (k - 1 <= j)%nat -> (j < N)%nat -> (length a <= k)%nat ->
  sumf (fun i => P t j k i x * poly_coeff k a 0 i) N = peval a x.
Proof.
  intros. rewrite (poly_repro_gen k N x) by (auto; lia). cbn [pow]. ring.
Qed.
End Coeffs.
