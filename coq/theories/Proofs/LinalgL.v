(* Proofs for C13: Gaussian elimination with (arbitrary) partial pivoting followed by back
   substitution, over ANY commutative ring with a partial inverse on units.

   Setting (section Gen): F = ring of the matrix entries, E = ring of the rhs / solution entries,
   phi : F -> E a ring homomorphism, `xmul f e = phi f * e`, `xdiv v u` any operation with
   `unit u -> phi u * xdiv v u = v`.  dsolve is the case F = E, phi = id; fdsolve the case
   F = "floats", E = the rhs kind.  The pivot-choice comparison `cmp` is ARBITRARY. *)
From Coq Require Import List Arith Bool Lia Ring Ring_theory Permutation.
From RL Require Import Base.Outcome Model.Linalg.
Import ListNotations.
Local Open Scope nat_scope.

(* ------------------------------------------------------------------ the algebraic structure *)
Class CRing (F : Type) := {
  rzero : F; rone : F;
  radd : F -> F -> F; rmul : F -> F -> F; rsub : F -> F -> F; ropp : F -> F;
  rinv : F -> F;                 (* partial inverse: only specified on units *)
  runit : F -> Prop;
  r_th : ring_theory rzero rone radd rmul rsub ropp (@eq F);
  r_inv : forall u, runit u -> rmul u (rinv u) = rone }.

(* the element operations of the model, read in a ring; `cmp` = the pivot comparison *)
Definition ops_cring {F} {CR : CRing F} (cmp : F -> F -> option comparison) : Ops F :=
  {| oadd := radd; osub := rsub; omul := rmul; odiv := fun a b => rmul a (rinv b);
     ozero := rzero; oone := rone; osum0 := rzero; ocmp_abs := cmp |}.

(* ------------------------------------------------------------------ lists *)
Section ListFacts.
  Context {T : Type}.
  Lemma vset_length (v : list T) i x : length (vset v i x) = length v.
  Proof. revert i; induction v as [|y v IH]; intros [|i]; cbn; auto. Qed.
  Lemma nth_vset (v : list T) i x k d : i < length v ->
    nth k (vset v i x) d = if k =? i then x else nth k v d.
  Proof.
    revert i k; induction v as [|y v IH]; intros i k Hi; cbn in Hi; [lia|].
    destruct i as [|i]; destruct k as [|k]; cbn; auto.
    apply IH. lia.
  Qed.
  Lemma nth_skipn (l : list T) s k d : nth k (skipn s l) d = nth (s + k) l d.
  Proof.
    revert l; induction s as [|s IH]; intros l; cbn; auto.
    destruct l; cbn; auto. destruct k; auto.
  Qed.
  Lemma skipn_ext (l1 l2 : list T) s d : length l1 = length l2 ->
    (forall k, s <= k -> k < length l1 -> nth k l1 d = nth k l2 d) -> skipn s l1 = skipn s l2.
  Proof.
    intros L H. apply nth_ext with (d := d) (d' := d).
    - rewrite !skipn_length. lia.
    - intros k Hk. rewrite skipn_length in Hk. rewrite !nth_skipn. apply H; lia.
  Qed.
  Lemma seq_shift_gen s c : map (fun k => s + k) (seq 0 c) = seq s c.
  Proof.
    revert s; induction c as [|c IH]; intros s; cbn; auto.
    rewrite Nat.add_0_r. f_equal. rewrite <- seq_shift, map_map. rewrite <- (IH (S s)).
    apply map_ext. intros; lia.
  Qed.
End ListFacts.

Definition shape {T} (n : nat) (a : list (list T)) : Prop :=
  length a = n /\ forall i, i < n -> length (nth i a []) = n.

Section MatFacts.
  Context {T : Type} (d : T).
  Lemma mset_shape n (a : list (list T)) l m x : shape n a -> shape n (mset a l m x).
  Proof.
    intros [L R]. unfold mset. split.
    - rewrite vset_length; auto.
    - intros i Hi. destruct (Nat.lt_ge_cases l (length a)) as [Hl|Hl].
      + rewrite nth_vset by auto. destruct (Nat.eqb_spec i l).
        * rewrite vset_length. subst. auto.
        * auto.
      + assert (vset a l (vset (nth l a []) m x) = a) as ->; auto.
        clear -Hl. revert l Hl. induction a; intros [|l] Hl; cbn in *; auto; try lia.
        f_equal. apply IHa. lia.
  Qed.
  Lemma mget_mset n (a : list (list T)) l m x i k : shape n a -> l < n -> m < n ->
    mget d (mset a l m x) i k = if (i =? l) && (k =? m) then x else mget d a i k.
  Proof.
    intros [L R] Hl Hm. unfold mget, mset.
    rewrite nth_vset by lia. destruct (Nat.eqb_spec i l); cbn; auto.
    subst. rewrite nth_vset by (rewrite R; auto). reflexivity.
  Qed.
  Lemma is_square_shape (a : list (list T)) : is_square a = true <-> shape (length a) a.
  Proof.
    unfold is_square, shape. rewrite forallb_forall. split.
    - intros H. split; auto. intros i Hi. apply Nat.eqb_eq. apply H. apply nth_In. auto.
    - intros [_ H] r Hr. apply Nat.eqb_eq. destruct (In_nth _ _ [] Hr) as [i [Hi <-]]. auto.
  Qed.
  Lemma shape_row_ext n (a : list (list T)) i : shape n a -> i < n ->
    nth i a [] = map (fun k => mget d a i k) (seq 0 n).
  Proof.
    intros [L R] Hi. apply nth_ext with (d := d) (d' := d).
    - rewrite map_length, seq_length. auto.
    - intros k Hk. rewrite R in Hk by auto.
      rewrite (nth_indep (map (fun k0 => mget d a i k0) (seq 0 n)) d (mget d a i 0)).
      2:{ rewrite map_length, seq_length. auto. }
      rewrite (map_nth (fun k0 => mget d a i k0) (seq 0 n) 0 k). rewrite seq_nth by auto. reflexivity.
  Qed.
  Lemma shape_ext n (a a' : list (list T)) : shape n a -> shape n a' ->
    (forall i k, i < n -> k < n -> mget d a i k = mget d a' i k) -> a = a'.
  Proof.
    intros S S' H. apply nth_ext with (d := []) (d' := []).
    - destruct S, S'. congruence.
    - intros i Hi. destruct S as [L R]. rewrite L in Hi.
      rewrite (shape_row_ext n a i) by (auto; split; auto).
      rewrite (shape_row_ext n a' i) by auto.
      apply map_ext_in. intros k Hk. apply in_seq in Hk. apply H; lia.
  Qed.
End MatFacts.

(* ------------------------------------------------------------------ pivot choice: range only *)
Section PivotFacts.
  Context {T : Type} {O : Ops T}.
  Lemma argabsmax_go_lt (l : list T) : forall best bi i k, bi < i ->
    argabsmax_go best bi i l = Ok k -> k < i + length l.
  Proof.
    induction l as [|y l IH]; intros best bi i k Hb; cbn.
    - intros H; inversion H; subst; lia.
    - destruct (ocmp_abs best y) as [[| |]|]; intros H; try discriminate;
        apply IH in H; lia.
  Qed.
  Lemma argabsmax_lt (l : list T) k : argabsmax l = Ok k -> k < length l.
  Proof.
    destruct l as [|x l]; cbn; [discriminate|]. intros H.
    apply argabsmax_go_lt in H; lia.
  Qed.
End PivotFacts.
