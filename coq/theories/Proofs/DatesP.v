(* Proofs about Model/Dates.v: civil <-> day-number bijection for all of Z, month arithmetic,
   roll days, IMM, end of month, leap years. Axiom-free. *)
From Coq Require Import ZArith Lia List Bool.
From RL Require Import Base.Outcome Model.Dates.
Import ListNotations.
Open Scope Z_scope.
Ltac Zify.zify_post_hook ::= Z.div_mod_to_equations.

Fixpoint zrange (s : Z) (n : nat) : list Z :=
  match n with O => [] | S k => s :: zrange (s + 1) k end.
Lemma zrange_in s n x : s <= x < s + Z.of_nat n -> In x (zrange s n).
Proof.
  revert s; induction n as [|n IH]; simpl; intros s H; [lia|].
  destruct (Z.eq_dec s x); [left; auto | right; apply IH; lia].
Qed.
Lemma zrange_in_inv s n x : In x (zrange s n) -> s <= x < s + Z.of_nat n.
Proof.
  revert s; induction n as [|n IH]; simpl; intros s H; [tauto|].
  destruct H as [H|H]; [lia | apply IH in H; lia].
Qed.
Lemma zrange_length s n : length (zrange s n) = n.
Proof. revert s; induction n; simpl; auto. Qed.

(* ---------- validity ---------- *)
Definition valid_ymd (y m d : Z) : Prop := 1 <= m <= 12 /\ 1 <= d <= dim y m.

Lemma is_leap_greg_shift y e : is_leap_greg (y + e * 400) = is_leap_greg y.
Proof.
  unfold is_leap_greg.
  replace ((y + e * 400) mod 4) with (y mod 4) by lia.
  replace ((y + e * 400) mod 100) with (y mod 100) by lia.
  replace ((y + e * 400) mod 400) with (y mod 400) by lia.
  reflexivity.
Qed.
Lemma dim_shift y e m : dim (y + e * 400) m = dim y m.
Proof. unfold dim. rewrite is_leap_greg_shift. reflexivity. Qed.

Lemma dim_bounds y m : 1 <= m <= 12 -> 28 <= dim y m <= 31.
Proof.
  intros H. unfold dim.
  assert (m = 1 \/ m = 2 \/ m = 3 \/ m = 4 \/ m = 5 \/ m = 6 \/ m = 7 \/ m = 8 \/ m = 9 \/ m = 10 \/ m = 11 \/ m = 12) as C by lia.
  destruct C as [->|[->|[->|[->|[->|[->|[->|[->|[->|[->|[->| ->]]]]]]]]]]]; simpl; try lia.
  destruct (is_leap_greg y); lia.
Qed.
Lemma dim_invalid y m : ~ (1 <= m <= 12) -> dim y m = 0.
Proof.
  intros H. unfold dim.
  repeat match goal with |- context [?a =? ?b] => destruct (Z.eqb_spec a b); try lia end; reflexivity.
Qed.

Lemma from_ymd_opt_some y m d : valid_ymd y m d -> from_ymd_opt y m d = Some (days_from_civil y m d).
Proof.
  intros [Hm Hd]. unfold from_ymd_opt.
  destruct (Z.leb_spec 1 m), (Z.leb_spec m 12), (Z.leb_spec 1 d), (Z.leb_spec d (dim y m)); simpl; try lia; reflexivity.
Qed.
Lemma from_ymd_opt_none y m d : ~ valid_ymd y m d -> from_ymd_opt y m d = None.
Proof.
  intros H. unfold from_ymd_opt, valid_ymd in *.
  destruct (Z.leb_spec 1 m), (Z.leb_spec m 12), (Z.leb_spec 1 d), (Z.leb_spec d (dim y m)); simpl; try reflexivity.
  exfalso; apply H; lia.
Qed.
Lemma from_ymd_opt_spec y m d n : from_ymd_opt y m d = Some n <-> valid_ymd y m d /\ n = days_from_civil y m d.
Proof.
  split.
  - intros H. unfold from_ymd_opt in H.
    destruct (Z.leb_spec 1 m), (Z.leb_spec m 12), (Z.leb_spec 1 d), (Z.leb_spec d (dim y m)); simpl in H; try discriminate.
    injection H as <-. unfold valid_ymd; split; [lia | reflexivity].
  - intros [H ->]. apply from_ymd_opt_some; auto.
Qed.

(* ---------- one 400-year era by computation ---------- *)
Definition ok_doe (doe : Z) : bool :=
  let '(y, m, d) := civil_core doe in
  let y1 := if m <=? 2 then y - 1 else y in
  (0 <=? y1) && (y1 <=? 399) && (1 <=? m) && (m <=? 12) && (1 <=? d) && (d <=? dim y m) &&
  (days_from_civil y m d + 719468 =? doe).
Lemma era_ok : forallb ok_doe (zrange 0 (Z.to_nat 146097)) = true.
Proof. vm_compute. reflexivity. Qed.

Lemma dfc_shift y m d e : 1 <= m <= 12 -> 0 <= (if m <=? 2 then y - 1 else y) <= 399 ->
  days_from_civil (y + e * 400) m d = days_from_civil y m d + e * 146097.
Proof.
  intros Hm Hy. unfold days_from_civil.
  destruct (m <=? 2) eqn:E; destruct (m >? 2) eqn:E2; try lia.
Qed.

Lemma civil_core_ok doe : 0 <= doe < 146097 ->
  let '(y, m, d) := civil_core doe in
  0 <= (if m <=? 2 then y - 1 else y) <= 399 /\ valid_ymd y m d /\ days_from_civil y m d + 719468 = doe.
Proof.
  intros Hd. pose proof era_ok as H. rewrite forallb_forall in H.
  assert (Hin : In doe (zrange 0 (Z.to_nat 146097))) by (apply zrange_in; rewrite Z2Nat.id; lia).
  specialize (H doe Hin). unfold ok_doe in H.
  destruct (civil_core doe) as [[y m] d].
  rewrite !andb_true_iff in H. destruct H as [[[[[[H1 H2] H3] H4] H5] H6] H7].
  unfold valid_ymd. lia.
Qed.

Theorem civil_roundtrip n :
  let '(y, m, d) := civil_from_days n in valid_ymd y m d /\ days_from_civil y m d = n.
Proof.
  unfold civil_from_days.
  set (z := n + 719468). set (era := z / 146097). set (doe := z - era * 146097).
  assert (Hd : 0 <= doe < 146097) by (unfold doe, era; clearbody z; lia).
  pose proof (civil_core_ok doe Hd) as H.
  destruct (civil_core doe) as [[y m] d]. destruct H as [Hy [[Hm Hdd] He]].
  split.
  - unfold valid_ymd. rewrite dim_shift. lia.
  - rewrite dfc_shift by lia. unfold doe, z in *. lia.
Qed.

(* converse direction: valid triples of one era by computation *)
Definition ok_ymd (y m d : Z) : bool :=
  let y1 := if m <=? 2 then y - 1 else y in
  negb ((0 <=? y1) && (y1 <=? 399) && (d <=? dim y m)) ||
  (let doe := days_from_civil y m d + 719468 in
   (0 <=? doe) && (doe <? 146097) &&
   (let '(y', m', d') := civil_core doe in (y' =? y) && (m' =? m) && (d' =? d))).
Lemma era_ok_conv :
  forallb (fun y => forallb (fun m => forallb (fun d => ok_ymd y m d) (zrange 1 31)) (zrange 1 12))
          (zrange 0 401) = true.
Proof. vm_compute. reflexivity. Qed.

Lemma civil_core_conv y m d : valid_ymd y m d -> 0 <= (if m <=? 2 then y - 1 else y) <= 399 ->
  let doe := days_from_civil y m d + 719468 in
  0 <= doe < 146097 /\ civil_core doe = (y, m, d).
Proof.
  intros [Hm Hd] Hy.
  pose proof era_ok_conv as H. rewrite forallb_forall in H.
  assert (Hyr : 0 <= y < 401) by (destruct (m <=? 2); lia).
  specialize (H y ltac:(apply zrange_in; simpl; lia)). rewrite forallb_forall in H.
  specialize (H m ltac:(apply zrange_in; simpl; lia)). rewrite forallb_forall in H.
  pose proof (dim_bounds y m Hm).
  specialize (H d ltac:(apply zrange_in; simpl; lia)).
  unfold ok_ymd in H. cbv zeta in *.
  apply orb_true_iff in H. destruct H as [H|H].
  - exfalso. rewrite negb_true_iff in H.
    destruct (m <=? 2);
    destruct (Z.leb_spec 0 (y-1)), (Z.leb_spec 0 y), (Z.leb_spec (y-1) 399), (Z.leb_spec y 399), (Z.leb_spec d (dim y m)); simpl in H; try discriminate; lia.
  - rewrite !andb_true_iff in H. destruct H as [[H1 H2] H3].
    destruct (civil_core (days_from_civil y m d + 719468)) as [[y' m'] d'].
    rewrite !andb_true_iff in H3. destruct H3 as [[A B] C].
    apply Z.eqb_eq in A, B, C. subst. split; [lia | reflexivity].
Qed.

Theorem civil_roundtrip_conv y m d : valid_ymd y m d ->
  civil_from_days (days_from_civil y m d) = (y, m, d).
Proof.
  intros Hv. pose proof Hv as [Hm Hd].
  set (y1 := if m <=? 2 then y - 1 else y).
  set (e := y1 / 400). set (y' := y - e * 400).
  assert (Hy' : 0 <= (if m <=? 2 then y' - 1 else y') <= 399).
  { unfold y', e, y1. destruct (m <=? 2); lia. }
  assert (Hv' : valid_ymd y' m d).
  { unfold valid_ymd. replace y with (y' + e * 400) in Hd by (unfold y'; lia). rewrite dim_shift in Hd. lia. }
  replace y with (y' + e * 400) by (unfold y'; lia).
  rewrite dfc_shift by lia.
  pose proof (civil_core_conv y' m d Hv' Hy') as [Hr Hc]. cbv zeta in Hr, Hc.
  unfold civil_from_days.
  set (doe := days_from_civil y' m d + 719468) in *.
  replace (days_from_civil y' m d + e * 146097 + 719468) with (doe + e * 146097) by (unfold doe; lia).
  replace ((doe + e * 146097) / 146097) with e by lia.
  replace (doe + e * 146097 - e * 146097) with doe by lia.
  rewrite Hc. reflexivity.
Qed.

Corollary dfc_injective y m d y' m' d' : valid_ymd y m d -> valid_ymd y' m' d' ->
  days_from_civil y m d = days_from_civil y' m' d' -> (y, m, d) = (y', m', d').
Proof.
  intros H1 H2 E. rewrite <- (civil_roundtrip_conv y m d H1), <- (civil_roundtrip_conv y' m' d' H2), E. reflexivity.
Qed.

Lemma dfc_day_linear y m d k : days_from_civil y m (d + k) = days_from_civil y m d + k.
Proof. unfold days_from_civil. lia. Qed.

Lemma civil_fields n : civil_from_days n = (year_of n, month_of n, day_of n).
Proof. unfold year_of, month_of, day_of. destruct (civil_from_days n) as [[y m] d]. reflexivity. Qed.

Lemma civil_valid n : valid_ymd (year_of n) (month_of n) (day_of n) /\
  days_from_civil (year_of n) (month_of n) (day_of n) = n.
Proof. pose proof (civil_roundtrip n) as H. rewrite civil_fields in H. exact H. Qed.

(* ---------- leap years ---------- *)
Lemma is_leap_year_spec y : is_leap_year y = is_leap_greg y.
Proof.
  unfold is_leap_year, from_ymd_opt, dim. simpl.
  destruct (is_leap_greg y); reflexivity.
Qed.

(* ---------- month carry ---------- *)
Lemma month_carry_spec m k : 1 <= m <= 12 ->
  let '(dy, m') := month_carry m k in 1 <= m' <= 12 /\ 12 * dy + (m' - 1) = (m - 1) + k.
Proof.
  intros Hm. unfold month_carry.
  set (yr := Z.abs k / 12 * Z.sgn k).
  assert (Hyr : (0 <= k -> yr = k / 12) /\ (k < 0 -> yr = - ((- k) / 12))).
  { unfold yr. split; intros Hk.
    - destruct (Z.eq_dec k 0) as [->|]; [reflexivity|].
      rewrite Z.abs_eq by lia. rewrite Z.sgn_pos by lia. lia.
    - rewrite Z.abs_neq by lia. rewrite Z.sgn_neg by lia. lia. }
  clearbody yr. destruct Hyr as [Hp Hn].
  destruct (Z.leb_spec (m + (k - yr * 12)) 0) as [H0|H0].
  - destruct (Z.eqb_spec ((m + (k - yr * 12)) mod 12) 0) as [E|E].
    + destruct (Z_lt_le_dec k 0) as [Hk|Hk]; [specialize (Hn Hk) | specialize (Hp Hk)]; lia.
    + destruct (Z_lt_le_dec k 0) as [Hk|Hk]; [specialize (Hn Hk) | specialize (Hp Hk)]; lia.
  - destruct (Z.geb_spec (m + (k - yr * 12)) 13) as [H1|H1].
    + destruct (Z.eqb_spec ((m + (k - yr * 12)) mod 12) 0) as [E|E];
      destruct (Z_lt_le_dec k 0) as [Hk|Hk]; [specialize (Hn Hk) | specialize (Hp Hk) | specialize (Hn Hk) | specialize (Hp Hk)]; lia.
    + destruct (Z.eqb_spec (m + (k - yr * 12)) 0) as [E|E];
      destruct (Z_lt_le_dec k 0) as [Hk|Hk]; [specialize (Hn Hk) | specialize (Hp Hk) | specialize (Hn Hk) | specialize (Hp Hk)]; lia.
Qed.

(* ---------- roll by day ---------- *)
Lemma get_roll_by_day_f_spec fuel : forall y m r, 1 <= m <= 12 -> 1 <= r -> r - 28 <= Z.of_nat fuel ->
  get_roll_by_day_f fuel y m r = Ok (days_from_civil y m (Z.min r (dim y m))).
Proof.
  induction fuel as [|f IH]; intros y m r Hm Hr Hf; pose proof (dim_bounds y m Hm) as Hb.
  - simpl. rewrite from_ymd_opt_some by (unfold valid_ymd; lia).
    rewrite Z.min_l by lia. reflexivity.
  - cbn [get_roll_by_day_f].
    destruct (Z_le_gt_dec r (dim y m)) as [Hle|Hgt].
    + rewrite from_ymd_opt_some by (unfold valid_ymd; lia). rewrite Z.min_l by lia. reflexivity.
    + rewrite from_ymd_opt_none by (unfold valid_ymd; lia).
      destruct (Z.gtb_spec r 28); [|lia].
      rewrite IH by lia. f_equal. f_equal. lia.
Qed.
Lemma get_roll_by_day_spec y m r : 1 <= m <= 12 -> 1 <= r ->
  get_roll_by_day y m r = Ok (days_from_civil y m (Z.min r (dim y m))).
Proof. intros. unfold get_roll_by_day. apply get_roll_by_day_f_spec; lia. Qed.
Lemma get_roll_by_day_zero y m r : r <= 0 -> get_roll_by_day y m r = Panic.
Proof.
  intros H. unfold get_roll_by_day. replace (Z.to_nat r) with O by lia. simpl.
  rewrite from_ymd_opt_none by (unfold valid_ymd; lia).
  destruct (Z.gtb_spec r 28); [lia | reflexivity].
Qed.

(* ---------- end of month ---------- *)
Lemma get_eom_f_spec fuel : forall y m r, 1 <= m <= 12 -> dim y m <= r -> r - 28 <= Z.of_nat fuel ->
  get_eom_f fuel y m r = Ok (days_from_civil y m (dim y m)).
Proof.
  induction fuel as [|f IH]; intros y m r Hm Hr Hf; pose proof (dim_bounds y m Hm) as Hb.
  - simpl. assert (r = dim y m) as -> by lia.
    rewrite from_ymd_opt_some by (unfold valid_ymd; lia). reflexivity.
  - cbn [get_eom_f].
    destruct (Z.eq_dec r (dim y m)) as [->|Hne].
    + rewrite from_ymd_opt_some by (unfold valid_ymd; lia). reflexivity.
    + rewrite from_ymd_opt_none by (unfold valid_ymd; lia).
      destruct (Z.leb_spec r 0); [lia|]. apply IH; lia.
Qed.
Lemma get_eom_spec y m : 1 <= m <= 12 -> get_eom y m = Ok (days_from_civil y m (dim y m)).
Proof. intros Hm. unfold get_eom. pose proof (dim_bounds y m Hm). apply get_eom_f_spec; simpl; lia. Qed.

Lemma is_eom_spec n : is_eom n = Ok (day_of n =? dim (year_of n) (month_of n)).
Proof.
  unfold is_eom. destruct (civil_valid n) as [[Hm Hd] Hn].
  rewrite get_eom_spec by lia. cbn [obind]. f_equal.
  rewrite <- Hn at 1.
  replace (dim (year_of n) (month_of n)) with (day_of n + (dim (year_of n) (month_of n) - day_of n)) at 1 by lia.
  rewrite dfc_day_linear.
  destruct (Z.eqb_spec (day_of n) (dim (year_of n) (month_of n))), (Z.eqb_spec (days_from_civil (year_of n) (month_of n) (day_of n)) (days_from_civil (year_of n) (month_of n) (day_of n) + (dim (year_of n) (month_of n) - day_of n))); try reflexivity; lia.
Qed.

(* ---------- IMM ---------- *)
Lemma weekday_range n : 0 <= weekday n <= 6.
Proof. unfold weekday. lia. Qed.
Lemma weekday_add n k : weekday (n + k) = (weekday n + k) mod 7.
Proof. unfold weekday. lia. Qed.

Lemma ndt_ok y m d : valid_ymd y m d -> ndt y m d = Ok (days_from_civil y m d).
Proof. intros H. unfold ndt. rewrite from_ymd_opt_some; auto. Qed.

Lemma get_imm_spec y m : 1 <= m <= 12 ->
  exists d, get_imm y m = Ok (days_from_civil y m d) /\ 15 <= d <= 21 /\
            weekday (days_from_civil y m d) = 2.
Proof.
  intros Hm. pose proof (dim_bounds y m Hm) as Hb.
  unfold get_imm. rewrite ndt_ok by (unfold valid_ymd; lia). cbn [obind].
  set (n1 := days_from_civil y m 1).
  assert (Hd : forall d, days_from_civil y m d = n1 + (d - 1)).
  { intros d. unfold n1. rewrite <- dfc_day_linear. f_equal. lia. }
  pose proof (weekday_range n1) as Hw.
  assert (Hwk : forall d, weekday (days_from_civil y m d) = (weekday n1 + (d - 1)) mod 7).
  { intros d. rewrite Hd. apply weekday_add. }
  repeat match goal with
  | |- context [if ?a =? ?b then _ else _] => destruct (Z.eqb_spec a b)
  end;
  match goal with
  | |- exists _, ndt y m ?d = _ /\ _ => exists d; rewrite ndt_ok by (unfold valid_ymd; lia);
      split; [reflexivity | split; [lia | rewrite Hwk; lia]]
  end.
Qed.

Lemma is_imm_spec n : exists d, 15 <= d <= 21 /\
  weekday (days_from_civil (year_of n) (month_of n) d) = 2 /\ is_imm n = Ok (day_of n =? d).
Proof.
  destruct (civil_valid n) as [[Hm Hd] Hn].
  destruct (get_imm_spec (year_of n) (month_of n) Hm) as [d [E [Hr Hw]]].
  exists d. split; [auto|]. split; [auto|].
  unfold is_imm. rewrite E. cbn [obind]. f_equal.
  rewrite <- Hn at 1.
  replace d with (day_of n + (d - day_of n)) at 1 by lia. rewrite dfc_day_linear.
  destruct (Z.eqb_spec (day_of n) d), (Z.eqb_spec (days_from_civil (year_of n) (month_of n) (day_of n)) (days_from_civil (year_of n) (month_of n) (day_of n) + (d - day_of n))); try reflexivity; lia.
Qed.

(* third Wednesday: the unique Wednesday with day in 15..21 *)
Lemma third_wed_unique y m d d' : 15 <= d <= 21 -> 15 <= d' <= 21 ->
  weekday (days_from_civil y m d) = 2 -> weekday (days_from_civil y m d') = 2 -> d = d'.
Proof.
  intros H1 H2 W1 W2.
  replace d' with (d + (d' - d)) in W2 by lia. rewrite dfc_day_linear, weekday_add in W2. lia.
Qed.

(* ---------- add_months ---------- *)
Definition target_day (r : rollday) (d : Z) : Z :=
  match r with Unspecified => d | RInt x => x | EoM => 31 | SoM => 1 | IMM => 0 end.

Lemma add_months_unadj_spec n k r : r <> IMM -> 1 <= target_day r (day_of n) ->
  i32_min < k -> 
  let '(dy, m') := month_carry (month_of n) k in
  in_i32 (year_of n + dy) = true ->
  add_months_unadj n k r =
    Ok (days_from_civil (year_of n + dy) m' (Z.min (target_day r (day_of n)) (dim (year_of n + dy) m'))).
Proof.
  intros HI Ht Hk. destruct (civil_valid n) as [[Hm Hd] Hn].
  pose proof (month_carry_spec (month_of n) k Hm) as Hc.
  unfold add_months_unadj. rewrite civil_fields.
  destruct (Z.eqb_spec k i32_min); [lia|].
  destruct (month_carry (month_of n) k) as [dy m']. destruct Hc as [Hm' _].
  intros Hy. rewrite Hy. cbn [negb].
  destruct r; cbn [get_roll target_day] in *; try congruence;
    rewrite get_roll_by_day_spec by lia; reflexivity.
Qed.

Lemma add_months_unadj_imm n k :
  i32_min < k ->
  let '(dy, m') := month_carry (month_of n) k in
  in_i32 (year_of n + dy) = true ->
  add_months_unadj n k IMM = get_imm (year_of n + dy) m'.
Proof.
  intros Hk. destruct (civil_valid n) as [[Hm Hd] Hn].
  pose proof (month_carry_spec (month_of n) k Hm) as Hc.
  unfold add_months_unadj. rewrite civil_fields.
  destruct (Z.eqb_spec k i32_min); [lia|].
  destruct (month_carry (month_of n) k) as [dy m']. destruct Hc as [Hm' _].
  intros Hy. rewrite Hy. cbn [negb get_roll].
  destruct (get_imm_spec (year_of n + dy) m' Hm') as [d [E _]]. rewrite E. reflexivity.
Qed.
