(* Proofs for C13, generic part: the solver loops of Model/Linalg.v are correct over any pair of
   commutative rings F (matrix) and E (rhs, solution) related by a ring homomorphism phi : F -> E,
   for ANY pivot-choice comparison.  See Proofs/LinalgL.v for the structure `CRing`. *)
From Coq Require Import List Arith Bool Lia Ring Ring_theory Permutation.
From RL Require Import Base.Outcome Model.Linalg Proofs.LinalgL.
Import ListNotations.
Local Open Scope nat_scope.

Declare Scope rg_scope.
Delimit Scope rg_scope with rg.
Infix "+" := radd : rg_scope.
Infix "-" := rsub : rg_scope.
Infix "*" := rmul : rg_scope.

Section Gen.
  Context {F E : Type} {CF : CRing F} {CE : CRing E}.
  Variable cmpF : F -> F -> option comparison.
  Variable cmpE : E -> E -> option comparison.
  Variable phi : F -> E.
  Hypothesis phi_add : forall a b, phi (a + b)%rg = (phi a + phi b)%rg.
  Hypothesis phi_mul : forall a b, phi (a * b)%rg = (phi a * phi b)%rg.
  Hypothesis phi_one : phi rone = rone.
  Variable xmul : F -> E -> E.
  Hypothesis xmul_spec : forall f e, xmul f e = (phi f * e)%rg.
  Variable xdiv : E -> F -> E.
  Hypothesis xdiv_spec : forall v u, runit u -> (phi u * xdiv v u)%rg = v.

  Add Ring Fring : (@r_th F CF).
  Add Ring Ering : (@r_th E CE).

  Local Instance OF : Ops F := ops_cring cmpF.
  Local Instance OE : Ops E := ops_cring cmpE.

  Lemma phi_zero : phi rzero = rzero.
  Proof.
    assert (H : phi rzero = (phi rzero + phi rzero)%rg).
    { rewrite <- phi_add. f_equal. ring. }
    set (x := phi rzero) in *.
    assert (A : ((x + x) - x)%rg = (x - x)%rg) by (rewrite <- H; reflexivity).
    transitivity ((x + x) - x)%rg; [ring | rewrite A; ring].
  Qed.
  Lemma phi_opp a : phi (ropp a) = ropp (phi a).
  Proof.
    assert (H : (phi (ropp a) + phi a)%rg = rzero).
    { rewrite <- phi_add. rewrite <- phi_zero. f_equal. ring. }
    transitivity ((phi (ropp a) + phi a) - phi a)%rg; [ring | rewrite H; ring].
  Qed.
  Lemma phi_sub a b : phi (a - b)%rg = (phi a - phi b)%rg.
  Proof.
    replace (a - b)%rg with (a + ropp b)%rg by ring.
    rewrite phi_add, phi_opp. ring.
  Qed.

  (* ---------------------------------------------------------------- finite sums *)
  Fixpoint lsum (l : list nat) (h : nat -> E) : E :=
    match l with [] => rzero | k :: r => (h k + lsum r h)%rg end.
  Lemma lsum_app l1 l2 h : lsum (l1 ++ l2) h = (lsum l1 h + lsum l2 h)%rg.
  Proof. induction l1; cbn; [ring | rewrite IHl1; ring]. Qed.
  Lemma lsum_ext l h g : (forall k, In k l -> h k = g k) -> lsum l h = lsum l g.
  Proof.
    induction l; cbn; intros H; auto. rewrite H by auto. rewrite IHl; auto.
  Qed.
  Lemma lsum_zero l h : (forall k, In k l -> h k = rzero) -> lsum l h = rzero.
  Proof.
    induction l; cbn; intros H; auto. rewrite H by auto. rewrite IHl by auto. ring.
  Qed.
  Lemma lsum_map (f : nat -> nat) l h : lsum (map f l) h = lsum l (fun k => h (f k)).
  Proof. induction l; cbn; auto. rewrite IHl. reflexivity. Qed.
  Lemma lsum_lin l (f g : nat -> F) (c : F) (x : nat -> E) :
    lsum l (fun k => phi (f k - c * g k)%rg * x k)%rg =
    (lsum l (fun k => phi (f k) * x k) - phi c * lsum l (fun k => phi (g k) * x k))%rg.
  Proof.
    induction l; cbn; [ring|]. rewrite IHl. rewrite phi_sub, phi_mul. ring.
  Qed.
  (* splitting a full row sum at the diagonal *)
  Lemma seq_split3 n i : i < n -> seq 0 n = seq 0 i ++ [i] ++ seq (S i) (n - S i).
  Proof.
    intros H. assert (Hn : n = i + S (n - S i)) by lia.
    rewrite Hn at 1. rewrite seq_app. cbn. reflexivity.
  Qed.

  (* ---------------------------------------------------------------- the dot product of the code *)
  Definition term (r : list F) (x : list E) (k : nat) : E := (phi (nth k r rzero) * nth k x rzero)%rg.
  Lemma gdot_acc (l : list (F * E)) acc :
    fold_left (fun acc p => oadd acc (xmul (fst p) (snd p))) l acc =
    (acc + fold_left (fun acc p => oadd acc (xmul (fst p) (snd p))) l rzero)%rg.
  Proof.
    revert acc; induction l as [|p l IH]; intros acc; cbn [fold_left]; [ring|].
    rewrite IH. rewrite (IH (oadd rzero _)). cbn [oadd OE ops_cring]. ring.
  Qed.
  Lemma gdot_cons a r y x : gdot xmul (a :: r) (y :: x) = (phi a * y + gdot xmul r x)%rg.
  Proof.
    unfold gdot. cbn [combine fold_left fst snd]. rewrite gdot_acc.
    cbn [oadd osum0 OE ops_cring]. rewrite xmul_spec. ring.
  Qed.
  Lemma gdot_lsum0 (r : list F) : forall (x : list E), length r = length x ->
    gdot xmul r x = lsum (seq 0 (length r)) (term r x).
  Proof.
    induction r as [|a r IH]; intros [|y x] L; cbn in L; try discriminate.
    - reflexivity.
    - rewrite gdot_cons. cbn [length seq lsum]. rewrite <- seq_shift, lsum_map.
      rewrite IH by lia. reflexivity.
  Qed.
  Lemma gdot_lsum n s (r : list F) (x : list E) : length r = n -> length x = n -> s <= n ->
    gdot xmul (skipn s r) (skipn s x) = lsum (seq s (n - s)) (term r x).
  Proof.
    intros Lr Lx Hs. rewrite gdot_lsum0 by (rewrite !skipn_length; lia).
    rewrite skipn_length, Lr. rewrite <- (seq_shift_gen s), lsum_map.
    apply lsum_ext. intros k _. unfold term. rewrite !nth_skipn. reflexivity.
  Qed.
  Lemma gdot_full n (r : list F) (x : list E) : length r = n -> length x = n ->
    gdot xmul r x = lsum (seq 0 n) (term r x).
  Proof. intros Lr Lx. rewrite gdot_lsum0 by lia. rewrite Lr. reflexivity. Qed.

  (* the system `a x = b` row by row, entries read through mget/nth *)
  Definition rowsum (n : nat) (a : list (list F)) (x : list E) (i : nat) : E :=
    lsum (seq 0 n) (fun k => phi (mget rzero a i k) * nth k x rzero)%rg.
  Definition sol (n : nat) (a : list (list F)) (b x : list E) : Prop :=
    forall i, i < n -> rowsum n a x i = nth i b rzero.

  Lemma gmat_vec_sol n a b x : shape n a -> length b = n -> length x = n ->
    (gmat_vec xmul a x = b <-> sol n a b x).
  Proof.
    intros [L R] Lb Lx. unfold gmat_vec, sol. split.
    - intros H i Hi. rewrite <- H.
      rewrite (nth_indep _ rzero (gdot xmul [] x)) by (rewrite map_length; lia).
      rewrite (map_nth (fun row => gdot xmul row x) a [] i).
      rewrite (gdot_full n) by auto. reflexivity.
    - intros H. apply nth_ext with (d := rzero) (d' := rzero).
      + rewrite map_length. lia.
      + intros i Hi. rewrite map_length in Hi. rewrite <- H by lia.
        rewrite (nth_indep _ rzero (gdot xmul [] x)) by (rewrite map_length; lia).
        rewrite (map_nth (fun row => gdot xmul row x) a [] i).
        rewrite (gdot_full n) by (auto; apply R; lia). reflexivity.
  Qed.

  (* ---------------------------------------------------------------- the m loop (one row) *)
  Notation mg := (mget (@rzero F CF)).
  Definition bodym (l j : nat) (scl : F) (a : list (list F)) (m : nat) : list (list F) :=
    mset a l m (mg a l m - scl * mg a j m)%rg.
  Lemma rowop_unfold j n l scl a :
    rowop j n l scl a = fold_left (bodym l j scl) (seq (S j) (n - S j)) (mset a l j rzero).
  Proof. reflexivity. Qed.

  Lemma mloop_spec n j l scl : j < n -> l < n -> l <> j ->
    forall c s a1, s + c = n -> shape n a1 ->
    let a2 := fold_left (bodym l j scl) (seq s c) a1 in
    shape n a2 /\
    forall i k, k < n -> mg a2 i k =
      if (i =? l) && (s <=? k) then (mg a1 l k - scl * mg a1 j k)%rg else mg a1 i k.
  Proof.
    intros Hj Hl Hlj. induction c as [|c IH]; intros s a1 Hs Sh; cbn [seq fold_left].
    - split; auto. intros i k Hk. destruct (Nat.leb_spec s k); try lia.
      rewrite andb_false_r. reflexivity.
    - destruct (IH (S s) (bodym l j scl a1 s)) as [S2 P2]; try lia.
      { apply mset_shape; auto. }
      split; auto. intros i k Hk. rewrite P2 by auto. unfold bodym.
      rewrite !(mget_mset rzero n) by (auto; lia).
      destruct (Nat.eqb_spec i l), (Nat.leb_spec (S s) k), (Nat.leb_spec s k), (Nat.eqb_spec k s),
        (Nat.eqb_spec j l), (Nat.eqb_spec l l); cbn [andb]; subst; try lia; try congruence; auto.
  Qed.

  Lemma rowop_spec n j l scl a : shape n a -> j < n -> l < n -> l <> j ->
    shape n (rowop j n l scl a) /\
    forall i k, k < n -> mg (rowop j n l scl a) i k =
      if i =? l then (if k =? j then rzero else if j <? k then (mg a l k - scl * mg a j k)%rg else mg a l k)
      else mg a i k.
  Proof.
    intros Sh Hj Hl Hlj. rewrite rowop_unfold.
    destruct (mloop_spec n j l scl Hj Hl Hlj (n - S j) (S j) (mset a l j rzero)) as [S2 P2]; try lia.
    { apply mset_shape; auto. }
    split; auto. intros i k Hk. rewrite P2 by auto.
    rewrite !(mget_mset rzero n) by auto.
    destruct (Nat.eqb_spec i l), (Nat.leb_spec (S j) k), (Nat.ltb_spec j k), (Nat.eqb_spec k j),
      (Nat.eqb_spec j l), (Nat.eqb_spec l l); cbn [andb]; subst; try lia; try congruence; auto.
  Qed.

  (* ---------------------------------------------------------------- the l loop (one column) *)
  Definition sc (a : list (list F)) (j i : nat) : F := (mg a i j * rinv (mg a j j))%rg.
  Definition Fel (a : list (list F)) (j i k : nat) : F :=
    if k =? j then rzero else if j <? k then (mg a i k - sc a j i * mg a j k)%rg else mg a i k.
  Definition stepA (j n : nat) (a : list (list F)) (l : nat) : list (list F) :=
    rowop j n l (sc a j l) a.
  Definition elimA (j n : nat) (a : list (list F)) : list (list F) :=
    fold_left (stepA j n) (seq (S j) (n - S j)) a.

  Lemma fst_lloop j n ls : forall a b,
    fst (fold_left (step_l xmul j n) ls (a, b)) = fold_left (stepA j n) ls a.
  Proof. induction ls as [|l ls IH]; intros a b; cbn [fold_left]; auto. unfold step_l at 2. apply IH. Qed.

  Lemma lloop_spec n j : j < n ->
    forall c s a1 b1, s + c = n -> j < s -> shape n a1 -> length b1 = n ->
    let st := fold_left (step_l xmul j n) (seq s c) (a1, b1) in
    shape n (fst st) /\ length (snd st) = n /\
    (forall i k, i < n -> k < n -> mg (fst st) i k = if s <=? i then Fel a1 j i k else mg a1 i k) /\
    (forall i, i < n -> nth i (snd st) rzero =
       if s <=? i then (nth i b1 rzero - phi (sc a1 j i) * nth j b1 rzero)%rg else nth i b1 rzero).
  Proof.
    intros Hj. induction c as [|c IH]; intros s a1 b1 Hs Hjs Sh Lb; cbn [seq fold_left].
    - cbn [fst snd]. split; [auto|]. split; [auto|].
      split; intros i; intros; destruct (Nat.leb_spec s i); try lia; auto.
    - unfold step_l at 2.
      destruct (rowop_spec n j s (sc a1 j s) a1 Sh Hj) as [S1 P1]; try lia.
      change (odiv (mget ozero a1 s j) (mget ozero a1 j j)) with (sc a1 j s).
      set (a1' := rowop j n s (sc a1 j s) a1) in *.
      set (b1' := vset b1 s _).
      assert (Lb' : length b1' = n) by (unfold b1'; rewrite vset_length; auto).
      destruct (IH (S s) a1' b1') as (S2 & L2 & P2 & Q2); try lia; auto.
      split; [exact S2|]. split; [exact L2|]. split.
      + intros i k Hi Hk. rewrite P2 by auto.
        assert (Same : forall i', i' <> s -> forall k', k' < n -> mg a1' i' k' = mg a1 i' k').
        { intros i' Hi' k' Hk'. rewrite P1 by auto. destruct (Nat.eqb_spec i' s); try lia; auto. }
        destruct (Nat.leb_spec (S s) i), (Nat.leb_spec s i); try lia.
        * unfold Fel, sc. rewrite !Same by lia. reflexivity.
        * rewrite P1 by auto. assert (i = s) by lia. subst i. rewrite Nat.eqb_refl.
          unfold Fel. reflexivity.
        * apply Same; lia.
      + intros i Hi. rewrite Q2 by auto.
        assert (SameB : forall i', i' <> s -> nth i' b1' rzero = nth i' b1 rzero).
        { intros i' Hi'. unfold b1'. rewrite nth_vset by lia. destruct (Nat.eqb_spec i' s); try lia; auto. }
        assert (SameA : forall i' k', i' <> s -> k' < n -> mg a1' i' k' = mg a1 i' k').
        { intros i' k' Hi' Hk'. rewrite P1 by auto. destruct (Nat.eqb_spec i' s); try lia; auto. }
        destruct (Nat.leb_spec (S s) i), (Nat.leb_spec s i); try lia.
        * unfold sc. rewrite !SameB, !SameA by lia. reflexivity.
        * assert (i = s) by lia. subst i. unfold b1'. rewrite nth_vset by lia.
          rewrite Nat.eqb_refl. cbn [osub ozero OE ops_cring]. rewrite xmul_spec. reflexivity.
        * apply SameB; lia.
  Qed.

  (* ---------------------------------------------------------------- pivoting: row and element swaps *)
  Definition tau (j k i : nat) : nat := if i =? j then k else if i =? k then j else i.
  Lemma tau_lt n j k i : j < n -> k < n -> i < n -> tau j k i < n.
  Proof. unfold tau; intros; destruct (i =? j), (i =? k); auto. Qed.
  Lemma tau_invol j k i : tau j k (tau j k i) = i.
  Proof.
    unfold tau. destruct (Nat.eqb_spec i j); [subst|].
    - destruct (Nat.eqb_spec k j); [subst; auto|]. rewrite Nat.eqb_refl. auto.
    - destruct (Nat.eqb_spec i k); [subst|].
      + rewrite Nat.eqb_refl. auto.
      + destruct (Nat.eqb_spec i j), (Nat.eqb_spec i k); try lia; auto.
  Qed.

  Lemma row_swap_spec n (a : list (list F)) j k : shape n a -> j < k -> k < n ->
    exists a', row_swap a j k = Ok a' /\ shape n a' /\ forall i c, mg a' i c = mg a (tau j k i) c.
  Proof.
    intros [L R] Hjk Hk. unfold row_swap.
    destruct (Nat.ltb_spec j k); try lia. destruct (Nat.ltb_spec k (length a)); try lia. cbn [andb].
    eexists; split; [reflexivity|].
    assert (N : forall i, nth i (vset (vset a j (nth k a [])) k (nth j a [])) [] = nth (tau j k i) a []).
    { intros i. rewrite nth_vset by (rewrite vset_length; lia). rewrite nth_vset by lia.
      unfold tau. destruct (Nat.eqb_spec i k), (Nat.eqb_spec i j); subst; try lia; auto. }
    split.
    - split; [rewrite !vset_length; auto|]. intros i Hi. rewrite N. apply R. apply tau_lt; lia.
    - intros i c. unfold mget. rewrite N. reflexivity.
  Qed.
  Lemma el_swap_spec n (b : list E) j k : length b = n -> j < k -> k < n ->
    exists b', el_swap rzero b j k = Ok b' /\ length b' = n /\ forall i, nth i b' rzero = nth (tau j k i) b rzero.
  Proof.
    intros L Hjk Hk. unfold el_swap.
    destruct (Nat.ltb_spec j k); try lia. destruct (Nat.ltb_spec k (length b)); try lia. cbn [andb].
    eexists; split; [reflexivity|]. split; [rewrite !vset_length; auto|].
    intros i. rewrite nth_vset by (rewrite vset_length; lia). rewrite nth_vset by lia.
    unfold tau. destruct (Nat.eqb_spec i k), (Nat.eqb_spec i j); subst; try lia; auto.
  Qed.

  (* ---------------------------------------------------------------- the hypothesis of the theorems:
     every pivot the code selects (whatever the comparison) is a unit.  It is a statement about the
     matrix alone: swapA / elimA are the matrix halves of step_j. *)
  Definition swapA (a : list (list F)) (j : nat) : outcome (list (list F)) :=
    do k0 <- argabsmax (pivot_col a j);
    let k := k0 + j in
    if Nat.eqb j k then Ok a else row_swap a j k.
  Fixpoint pivots_ok (n : nat) (js : list nat) (a : list (list F)) : Prop :=
    match js with
    | [] => True
    | j :: r => match swapA a j with
                | Ok a1 => runit (mg a1 j j) /\ pivots_ok n r (elimA j n a1)
                | _ => False
                end
    end.
  Definition pivots_are_units (n : nat) (a : list (list F)) : Prop := pivots_ok n (seq 0 n) a.

  Definition Inv (n j : nat) (a : list (list F)) : Prop :=
    forall i k, k < j -> k < i -> i < n -> mg a i k = rzero.
  Definition Diag (j : nat) (a : list (list F)) : Prop := forall k, k < j -> runit (mg a k k).

  Lemma rowsum_ext n a a' x x' i i' :
    (forall k, k < n -> mg a i k = mg a' i' k) -> (forall k, k < n -> nth k x rzero = nth k x' rzero) ->
    rowsum n a x i = rowsum n a' x' i'.
  Proof.
    intros H H'. unfold rowsum. apply lsum_ext. intros k Hk. apply in_seq in Hk.
    rewrite H, H' by lia. reflexivity.
  Qed.

  Lemma pivot_col_length n (a : list (list F)) j : shape n a -> length (pivot_col a j) = n - j.
  Proof. intros [L R]. unfold pivot_col. rewrite map_length, skipn_length. lia. Qed.

  (* the first half of step_j: (a, b) with rows / elements j and k exchanged, j <= k < n *)
  Lemma swap_half n a b j a1 : shape n a -> length b = n -> j < n -> swapA a j = Ok a1 ->
    exists k0 b1, j <= k0 + j /\ k0 + j < n /\
      argabsmax (pivot_col a j) = Ok k0 /\
      (if Nat.eqb j (k0 + j) then Ok (a, b)
       else do a' <- row_swap a j (k0 + j); do b' <- el_swap ozero b j (k0 + j); Ok (a', b')) = Ok (a1, b1) /\
      shape n a1 /\ length b1 = n /\
      (forall i c, mg a1 i c = mg a (tau j (k0 + j) i) c) /\
      (forall i, nth i b1 rzero = nth (tau j (k0 + j) i) b rzero).
  Proof.
    intros Sh Lb Hj. unfold swapA.
    destruct (argabsmax (pivot_col a j)) as [k0| |] eqn:EA; cbn [obind]; try discriminate.
    pose proof (argabsmax_lt _ _ EA) as EL. rewrite (pivot_col_length n) in EL by auto.
    destruct (Nat.eqb_spec j (k0 + j)) as [Ek|Ek].
    - intros H; inversion H; subst a1. exists k0, b.
      split; [lia|]. split; [lia|]. split; [reflexivity|].
      split; [destruct (Nat.eqb_spec j (k0 + j)); [reflexivity|lia]|].
      split; [exact Sh|]. split; [exact Lb|]. rewrite <- Ek. split.
      + intros i c. unfold tau. destruct (Nat.eqb_spec i j); subst; auto.
      + intros i. unfold tau. destruct (Nat.eqb_spec i j); subst; auto.
    - intros H. destruct (row_swap_spec n a j (k0 + j) Sh) as (a' & Ea & Sa & Pa); try lia.
      destruct (el_swap_spec n b j (k0 + j) Lb) as (b' & Eb & Lb' & Pb); try lia.
      rewrite H in Ea. inversion Ea; subst a'.
      exists k0, b'. split; [lia|]. split; [lia|]. split; [reflexivity|].
      destruct (Nat.eqb_spec j (k0 + j)); [lia|].
      rewrite H. cbn [obind]. cbn [ozero OE ops_cring]. rewrite Eb. cbn [obind].
      split; [reflexivity|]. split; [exact Sa|]. split; [exact Lb'|]. split; [exact Pa|exact Pb].
  Qed.

  Lemma swap_props n a b j a1 : shape n a -> length b = n -> j < n -> Inv n j a -> Diag j a ->
    swapA a j = Ok a1 ->
    exists k0 b1, j <= k0 + j /\ k0 + j < n /\
      argabsmax (pivot_col a j) = Ok k0 /\
      (if Nat.eqb j (k0 + j) then Ok (a, b)
       else do a' <- row_swap a j (k0 + j); do b' <- el_swap ozero b j (k0 + j); Ok (a', b')) = Ok (a1, b1) /\
      shape n a1 /\ length b1 = n /\
      (forall i c, mg a1 i c = mg a (tau j (k0 + j) i) c) /\
      (forall i, nth i b1 rzero = nth (tau j (k0 + j) i) b rzero) /\
      Inv n j a1 /\ Diag j a1 /\ (forall x, sol n a b x <-> sol n a1 b1 x).
  Proof.
    intros Sh Lb Hj HI HD Hsw.
    destruct (swap_half n a b j a1 Sh Lb Hj Hsw) as (k0 & b1 & Hjk & Hk & EA & Est & Sh1 & Lb1 & Pa & Pb).
    exists k0, b1. set (k := k0 + j) in *.
    do 8 (split; [assumption|]). split; [|split].
    - intros i c Hc Hci Hi. rewrite Pa. apply HI; auto.
      + unfold tau. destruct (i =? j), (i =? k); lia.
      + apply tau_lt; lia.
    - intros c Hc. rewrite Pa. unfold tau.
      destruct (Nat.eqb_spec c j), (Nat.eqb_spec c k); try lia. apply HD; auto.
    - intros x. unfold sol. split; intros H i Hi.
      + rewrite Pb. rewrite <- H by (apply tau_lt; lia).
        apply rowsum_ext; auto.
      + specialize (H (tau j k i) (tau_lt n j k i Hj Hk Hi)).
        rewrite Pb, tau_invol in H. rewrite <- H. symmetry.
        apply rowsum_ext; auto. intros c _. rewrite Pa, tau_invol. reflexivity.
  Qed.

  Lemma step_j_spec n a b j a1 : shape n a -> length b = n -> j < n -> Inv n j a -> Diag j a ->
    swapA a j = Ok a1 -> runit (mg a1 j j) ->
    exists b2, step_j xmul n (a, b) j = Ok (elimA j n a1, b2) /\
      shape n (elimA j n a1) /\ length b2 = n /\ Inv n (S j) (elimA j n a1) /\ Diag (S j) (elimA j n a1) /\
      (forall x, sol n a b x <-> sol n (elimA j n a1) b2 x) /\
      ((forall i, i < n -> nth i b rzero = rzero) -> forall i, i < n -> nth i b2 rzero = rzero).
  Proof.
    intros Sh Lb Hj HI HD Hsw Hu.
    destruct (swap_props n a b j a1 Sh Lb Hj HI HD Hsw)
      as (k0 & b1 & Hjk & Hk & EA & Est & Sh1 & Lb1 & Pa & Pb & HI1 & HD1 & Eq1).
    set (k := k0 + j) in *.
    (* the elimination below the pivot *)
    destruct (lloop_spec n j Hj (n - S j) (S j) a1 b1) as (S2 & L2 & P2 & Q2); auto; try lia.
    set (st := fold_left (step_l xmul j n) (seq (S j) (n - S j)) (a1, b1)) in *.
    assert (Efst : fst st = elimA j n a1) by apply fst_lloop.
    exists (snd st). split.
    { unfold step_j. rewrite EA. cbn [obind]. cbv zeta. fold k. rewrite Est. cbn [obind]. fold st. rewrite <- Efst. destruct st; reflexivity. }
    rewrite <- Efst.
    (* unified form of the eliminated rows *)
    assert (U : forall i c, j < i -> i < n -> c < n ->
                Fel a1 j i c = (mg a1 i c - sc a1 j i * mg a1 j c)%rg).
    { intros i c Hji Hi Hc. unfold Fel.
      destruct (Nat.eqb_spec c j) as [->|Hcj].
      - unfold sc. transitivity (mg a1 i j - mg a1 i j * (mg a1 j j * rinv (mg a1 j j)))%rg; [|ring].
        rewrite r_inv by auto. ring.
      - destruct (Nat.ltb_spec j c); auto.
        rewrite (HI1 j c) by lia. ring. }
    split; [exact S2|]. split; [exact L2|]. split; [|split; [|split]].
    - intros i c Hc Hci Hi. rewrite P2 by lia.
      destruct (Nat.leb_spec (S j) i).
      + unfold Fel. destruct (Nat.eqb_spec c j); auto.
        destruct (Nat.ltb_spec j c); try lia. apply HI1; lia.
      + apply HI1; lia.
    - intros c Hc. rewrite P2 by lia. destruct (Nat.leb_spec (S j) c); try lia.
      destruct (Nat.eq_dec c j); [subst; auto | apply HD1; lia].
    - intros x. rewrite Eq1. unfold sol.
      assert (Low : forall i, i <= j -> i < n ->
                rowsum n (fst st) x i = rowsum n a1 x i /\ nth i (snd st) rzero = nth i b1 rzero).
      { intros i Hij Hi. split.
        - apply rowsum_ext; auto. intros c Hc. rewrite P2 by lia.
          destruct (Nat.leb_spec (S j) i); try lia; auto.
        - rewrite Q2 by auto. destruct (Nat.leb_spec (S j) i); try lia; auto. }
      assert (High : forall i, j < i -> i < n ->
                rowsum n (fst st) x i =
                  (rowsum n a1 x i - phi (sc a1 j i) * rowsum n a1 x j)%rg /\
                nth i (snd st) rzero = (nth i b1 rzero - phi (sc a1 j i) * nth j b1 rzero)%rg).
      { intros i Hji Hi. split.
        - unfold rowsum. rewrite <- lsum_lin. apply lsum_ext. intros c Hc. apply in_seq in Hc.
          rewrite P2 by lia. destruct (Nat.leb_spec (S j) i); try lia.
          rewrite U by lia. reflexivity.
        - rewrite Q2 by auto. destruct (Nat.leb_spec (S j) i); try lia; auto. }
      split; intros H i Hi.
      + destruct (Nat.le_gt_cases i j) as [Hij|Hij].
        * destruct (Low i Hij Hi) as [-> ->]. auto.
        * destruct (High i Hij Hi) as [-> ->]. rewrite !H by lia. reflexivity.
      + destruct (Nat.le_gt_cases i j) as [Hij|Hij].
        * destruct (Low i Hij Hi) as [<- <-]. auto.
        * pose proof (H i Hi) as Hi'. destruct (High i Hij Hi) as [E1 E2]. rewrite E1, E2 in Hi'.
          pose proof (H j Hj) as Hj'. destruct (Low j (le_n j) Hj) as [E3 E4]. rewrite E3, E4 in Hj'.
          transitivity ((rowsum n a1 x i - phi (sc a1 j i) * rowsum n a1 x j)
                        + phi (sc a1 j i) * rowsum n a1 x j)%rg; [ring|].
          rewrite Hi', Hj'. ring.
    - intros Z i Hi. rewrite Q2 by auto.
      assert (Z1 : forall i', i' < n -> nth i' b1 rzero = rzero).
      { intros i' Hi'. rewrite Pb. apply Z. apply tau_lt; lia. }
      destruct (Nat.leb_spec (S j) i); [rewrite !Z1 by lia; ring | apply Z1; auto].
  Qed.

  (* ---------------------------------------------------------------- the whole forward elimination *)
  Lemma elim_spec n : forall c j a b, j + c = n -> shape n a -> length b = n ->
    Inv n j a -> Diag j a -> pivots_ok n (seq j c) a ->
    exists a' b', ofold (step_j xmul n) (seq j c) (a, b) = Ok (a', b') /\
      shape n a' /\ length b' = n /\ Inv n n a' /\ Diag n a' /\
      forall x, sol n a b x <-> sol n a' b' x.
  Proof.
    induction c as [|c IH]; intros j a b Hjc Sh Lb HI HD HP; cbn [seq ofold].
    - exists a, b. assert (j = n) by lia. subst j.
      split; [reflexivity|]. split; [exact Sh|]. split; [exact Lb|]. split; [exact HI|]. split; [exact HD|].
      intros x. split; auto.
    - cbn [seq pivots_ok] in HP. destruct (swapA a j) as [a1| |] eqn:Esw; try contradiction.
      destruct HP as [Hu HP].
      destruct (step_j_spec n a b j a1) as (b2 & Est & S2 & L2 & I2 & D2 & Eq2 & _); auto; try lia.
      destruct (IH (S j) (elimA j n a1) b2) as (a' & b' & Ef & S3 & L3 & I3 & D3 & Eq3); auto; try lia.
      exists a', b'. rewrite Est. cbn [obind]. rewrite Ef.
      split; [reflexivity|]. split; [exact S3|]. split; [exact L3|]. split; [exact I3|]. split; [exact D3|].
      intros x. split.
      + intros H. apply Eq3, Eq2, H.
      + intros H. apply Eq2, Eq3, H.
  Qed.

  (* ---------------------------------------------------------------- back substitution *)
  Lemma upper_fold n (u : list (list F)) (b : list E) : forall m x, m <= n -> length x = n ->
    let xf := fold_left (step_u xmul xdiv u b) (rev (seq 0 m)) x in
    length xf = n /\ (forall k, m <= k -> nth k xf rzero = nth k x rzero) /\
    (forall r, r < m -> nth r xf rzero =
       xdiv (nth r b rzero - gdot xmul (skipn (S r) (nth r u [])) (skipn (S r) xf))%rg (mg u r r)).
  Proof.
    induction m as [|m IH]; intros x Hm Lx.
    - cbn. repeat split; auto. intros r Hr; lia.
    - rewrite seq_S, rev_app_distr. cbn [rev app fold_left Nat.add].
      set (x1 := step_u xmul xdiv u b x m).
      assert (L1 : length x1 = n) by (unfold x1, step_u; rewrite vset_length; auto).
      destruct (IH x1) as (Lf & Hk & Hr); auto; try lia.
      set (xf := fold_left (step_u xmul xdiv u b) (rev (seq 0 m)) x1) in *.
      assert (K : forall k, S m <= k -> nth k xf rzero = nth k x rzero).
      { intros k Hk'. rewrite Hk by lia. unfold x1, step_u. rewrite nth_vset by lia.
        destruct (Nat.eqb_spec k m); try lia; auto. }
      split; [exact Lf|]. split; [exact K|].
      intros r Hr'. destruct (Nat.eq_dec r m) as [->|Hne]; [|apply Hr; lia].
      rewrite Hk by lia. unfold x1, step_u. rewrite nth_vset by lia. rewrite Nat.eqb_refl.
      cbn [osub ozero OE OF ops_cring].
      rewrite (skipn_ext x xf (S m) rzero); auto; try lia.
      intros k Hk1 Hk2. symmetry. apply K. lia.
  Qed.

  Lemma upper_eqn n u b : shape n u -> length b = n ->
    let x := gsolve_upper xmul xdiv n u b in
    length x = n /\
    forall r, r < n -> nth r x rzero =
      xdiv (nth r b rzero - lsum (seq (S r) (n - S r)) (fun k => phi (mg u r k) * nth k x rzero))%rg (mg u r r).
  Proof.
    intros [L R] Lb. unfold gsolve_upper.
    destruct (upper_fold n u b n (repeat ozero n)) as (Lf & _ & Hr); auto.
    { apply repeat_length. }
    split; auto. intros r Hr'. rewrite Hr by auto.
    rewrite (gdot_lsum n) by (auto; lia). reflexivity.
  Qed.

  Lemma rowsum_tri n u x r : Inv n n u -> r < n ->
    rowsum n u x r =
    (phi (mg u r r) * nth r x rzero
     + lsum (seq (S r) (n - S r)) (fun k => phi (mg u r k) * nth k x rzero))%rg.
  Proof.
    intros HI Hr. unfold rowsum. rewrite (seq_split3 n r Hr). rewrite !lsum_app. cbn [lsum].
    rewrite lsum_zero.
    - ring.
    - intros k Hk. apply in_seq in Hk. rewrite (HI r k) by lia. rewrite phi_zero. ring.
  Qed.

  Lemma upper_sol n u b : shape n u -> length b = n -> Inv n n u -> Diag n u ->
    sol n u b (gsolve_upper xmul xdiv n u b).
  Proof.
    intros Sh Lb HI HD. destruct (upper_eqn n u b Sh Lb) as [Lx Hx].
    intros r Hr. rewrite rowsum_tri by auto. rewrite (Hx r Hr) at 1.
    rewrite xdiv_spec by (apply HD; auto). ring.
  Qed.

  Lemma phi_cancel u (y z : E) : runit u -> (phi u * y)%rg = (phi u * z)%rg -> y = z.
  Proof.
    intros Hu H.
    assert (I : (phi (rinv u) * phi u)%rg = rone).
    { rewrite <- phi_mul, <- phi_one. f_equal. rewrite <- (r_inv u Hu). ring. }
    transitivity (phi (rinv u) * (phi u * y))%rg.
    - transitivity ((phi (rinv u) * phi u) * y)%rg; [rewrite I; ring | ring].
    - rewrite H. transitivity ((phi (rinv u) * phi u) * z)%rg; [ring | rewrite I; ring].
  Qed.

  Lemma upper_unique n u b y : shape n u -> length b = n -> Inv n n u -> Diag n u ->
    length y = n -> sol n u b y -> y = gsolve_upper xmul xdiv n u b.
  Proof.
    intros Sh Lb HI HD Ly Hy.
    pose proof (upper_sol n u b Sh Lb HI HD) as Hx.
    destruct (upper_eqn n u b Sh Lb) as [Lx _].
    set (x := gsolve_upper xmul xdiv n u b) in *.
    assert (P : forall m, m <= n -> forall r, n - m <= r -> r < n -> nth r y rzero = nth r x rzero).
    { induction m as [|m IH]; intros Hm r H1 H2; [lia|].
      destruct (Nat.le_gt_cases (n - m) r) as [Hc|Hc]; [apply IH; lia|].
      pose proof (Hy r H2) as Ey. pose proof (Hx r H2) as Ex.
      rewrite rowsum_tri in Ey, Ex by auto.
      assert (Es : lsum (seq (S r) (n - S r)) (fun k => phi (mg u r k) * nth k y rzero)%rg
                 = lsum (seq (S r) (n - S r)) (fun k => phi (mg u r k) * nth k x rzero)%rg).
      { apply lsum_ext. intros k Hk. apply in_seq in Hk. rewrite IH by lia. reflexivity. }
      rewrite Es in Ey. apply (phi_cancel (mg u r r)); [apply HD; auto|].
      set (S := lsum _ _) in *.
      transitivity ((phi (mg u r r) * nth r y rzero + S) - S)%rg; [ring|].
      rewrite Ey, <- Ex. ring. }
    apply nth_ext with (d := rzero) (d' := rzero); [lia|].
    intros r Hr. apply (P n); lia.
  Qed.

  (* ---------------------------------------------------------------- the solver *)
  Theorem gsolve21_correct n a b : shape n a -> length b = n -> pivots_are_units n a ->
    exists x, gsolve21 xmul xdiv a b = Ok x /\ length x = n /\
      gmat_vec xmul a x = b /\
      forall y, length y = n -> gmat_vec xmul a y = b -> y = x.
  Proof.
    intros Sh Lb HP. pose proof Sh as [L R].
    destruct (elim_spec n n 0 a b) as (u & c & Eel & Su & Lc & HI & HD & Eq); auto.
    { intros i k Hk; lia. }
    { intros k Hk; lia. }
    exists (gsolve_upper xmul xdiv n u c).
    destruct (upper_eqn n u c Su Lc) as [Lx _].
    split; [|split; [exact Lx|split]].
    - unfold gsolve21. rewrite <- L in Sh. apply is_square_shape in Sh. rewrite Sh. cbn [negb].
      rewrite L, Lb, Nat.eqb_refl. cbn [negb]. unfold eliminate. rewrite Eel. reflexivity.
    - apply (gmat_vec_sol n); auto. apply Eq. apply upper_sol; auto.
    - intros y Ly Hy. apply upper_unique; auto. apply Eq. apply (gmat_vec_sol n); auto.
  Qed.

  (* shape failures abort exactly as the asserts do *)
  Lemma gsolve21_not_square a b : is_square a = false -> gsolve21 xmul xdiv a b = Panic.
  Proof. intros H. unfold gsolve21. rewrite H. reflexivity. Qed.
  Lemma gsolve21_bad_rhs a b : length b <> length a -> gsolve21 xmul xdiv a b = Panic.
  Proof.
    intros H. unfold gsolve21. destruct (is_square a); auto. cbn [negb].
    destruct (Nat.eqb_spec (length b) (length a)); [contradiction|reflexivity].
  Qed.

  (* ---------------------------------------------------------------- row order *)
  Lemma gmat_vec_forall (a : list (list F)) (b x : list E) : length a = length b ->
    (gmat_vec xmul a x = b <-> Forall (fun p => gdot xmul (fst p) x = snd p) (combine a b)).
  Proof.
    unfold gmat_vec. revert b; induction a as [|r a IH]; intros [|y b] L; cbn in L; try discriminate;
      cbn [map combine].
    - split; auto.
    - rewrite Forall_cons_iff. cbn [fst snd]. rewrite <- IH by lia. split.
      + intros H; inversion H; subst; auto.
      + intros [-> ->]. reflexivity.
  Qed.
  Theorem gsolve21_rows n a b a' b' : shape n a -> length b = n -> shape n a' -> length b' = n ->
    pivots_are_units n a -> pivots_are_units n a' ->
    Permutation (combine a b) (combine a' b') ->
    gsolve21 xmul xdiv a' b' = gsolve21 xmul xdiv a b.
  Proof.
    intros Sa Lb Sa' Lb' Pa Pa' HPerm.
    destruct (gsolve21_correct n a b Sa Lb Pa) as (x & Ex & Lx & Hx & _).
    destruct (gsolve21_correct n a' b' Sa' Lb' Pa') as (x' & Ex' & Lx' & _ & Ux').
    rewrite Ex, Ex'. f_equal. symmetry. apply Ux'; auto.
    apply gmat_vec_forall; [destruct Sa'; lia|].
    apply gmat_vec_forall in Hx; [|destruct Sa; lia].
    eapply Permutation_Forall; eauto.
  Qed.

  (* ---------------------------------------------------------------- extension: over a field whose
     pivot choice picks a non-zero entry whenever the column has one, "non-singular" (trivial
     kernel) implies that every pivot met is a unit *)
  Lemma sol_rhs_ext n a b b' x : (forall i, i < n -> nth i b rzero = nth i b' rzero) ->
    sol n a b x -> sol n a b' x.
  Proof. intros H S i Hi. rewrite <- H by auto. apply S; auto. Qed.

  Lemma lsum_delta n r (h : nat -> E) : r < n ->
    lsum (seq 0 n) (fun k => phi (if k =? r then rone else rzero) * h k)%rg = h r.
  Proof.
    intros Hr. rewrite (seq_split3 n r Hr), !lsum_app. cbn [lsum]. rewrite Nat.eqb_refl.
    rewrite !lsum_zero.
    - rewrite phi_one. ring.
    - intros k Hk. apply in_seq in Hk. destruct (Nat.eqb_spec k r); try lia. rewrite phi_zero. ring.
    - intros k Hk. apply in_seq in Hk. destruct (Nat.eqb_spec k r); try lia. rewrite phi_zero. ring.
  Qed.

  Definition zerosE (n : nat) : list E := repeat rzero n.
  Lemma nth_zerosE n i : nth i (zerosE n) rzero = rzero.
  Proof. unfold zerosE. revert i; induction n; intros [|i]; cbn; auto. Qed.

  (* a kernel vector when column j vanishes from the diagonal down *)
  Lemma kernel_vector n a j : shape n a -> j < n -> Inv n j a -> Diag j a -> runit (@rone F CF) ->
    (forall i, j <= i -> i < n -> mg a i j = rzero) ->
    exists y : list E, length y = n /\ sol n a (zerosE n) y /\ nth j y rzero = rone.
  Proof.
    intros Sh Hj HI HD H1 Hcol. pose proof Sh as [L R].
    set (U := map (fun r => if r <? j then nth r a []
                            else map (fun k => if k =? r then @rone F CF else rzero) (seq 0 n)) (seq 0 n)).
    set (c := map (fun r => if r =? j then @rone E CE else rzero) (seq 0 n)).
    assert (NU : forall r, r < n -> nth r U [] =
               if r <? j then nth r a [] else map (fun k => if k =? r then rone else rzero) (seq 0 n)).
    { intros r Hr. unfold U.
      rewrite (nth_indep _ [] ((fun r => if r <? j then nth r a []
                 else map (fun k => if k =? r then @rone F CF else rzero) (seq 0 n)) 0))
        by (rewrite map_length, seq_length; auto).
      rewrite (map_nth (fun r => if r <? j then nth r a []
                 else map (fun k => if k =? r then @rone F CF else rzero) (seq 0 n)) (seq 0 n) 0 r).
      rewrite seq_nth by auto. reflexivity. }
    assert (MU : forall r k, r < n -> k < n -> mg U r k =
               if r <? j then mg a r k else if k =? r then rone else rzero).
    { intros r k Hr Hk. unfold mget at 1. rewrite NU by auto. destruct (r <? j); [reflexivity|].
      rewrite (nth_indep _ rzero ((fun k => if k =? r then @rone F CF else rzero) 0))
        by (rewrite map_length, seq_length; auto).
      rewrite (map_nth (fun k => if k =? r then @rone F CF else rzero) (seq 0 n) 0 k).
      rewrite seq_nth by auto. reflexivity. }
    assert (SU : shape n U).
    { split; [unfold U; rewrite map_length, seq_length; auto|].
      intros r Hr. rewrite NU by auto. destruct (Nat.ltb_spec r j); [apply R; auto|].
      rewrite map_length, seq_length. reflexivity. }
    assert (Lc : length c = n) by (unfold c; rewrite map_length, seq_length; auto).
    assert (Nc : forall r, r < n -> nth r c rzero = if r =? j then rone else rzero).
    { intros r Hr. unfold c.
      rewrite (nth_indep _ rzero ((fun r => if r =? j then @rone E CE else rzero) 0))
        by (rewrite map_length, seq_length; auto).
      rewrite (map_nth (fun r => if r =? j then @rone E CE else rzero) (seq 0 n) 0 r).
      rewrite seq_nth by auto. reflexivity. }
    assert (IU : Inv n n U).
    { intros i k Hk Hki Hi. rewrite MU by lia. destruct (Nat.ltb_spec i j).
      - apply HI; lia.
      - destruct (Nat.eqb_spec k i); [lia|reflexivity]. }
    assert (DU : Diag n U).
    { intros k Hk. rewrite MU by lia. destruct (Nat.ltb_spec k j); [apply HD; auto|].
      rewrite Nat.eqb_refl. exact H1. }
    pose proof (upper_sol n U c SU Lc IU DU) as HS.
    destruct (upper_eqn n U c SU Lc) as [Ly _].
    set (y := gsolve_upper xmul xdiv n U c) in *.
    (* rows j.. of U are unit rows: y_r = c_r *)
    assert (Yhi : forall r, j <= r -> r < n -> nth r y rzero = if r =? j then rone else rzero).
    { intros r Hjr Hr. rewrite <- Nc by auto. rewrite <- (HS r Hr). unfold rowsum.
      rewrite <- (lsum_delta n r (fun k => nth k y rzero) Hr).
      apply lsum_ext. intros k Hk. apply in_seq in Hk. rewrite MU by lia.
      destruct (Nat.ltb_spec r j); [lia|reflexivity]. }
    exists y. split; [exact Ly|]. split.
    - intros r Hr. rewrite nth_zerosE. destruct (Nat.lt_ge_cases r j) as [Hrj|Hrj].
      + (* rows above j are rows of U *)
        transitivity (rowsum n U y r).
        * apply rowsum_ext; auto. intros k Hk. rewrite MU by auto.
          destruct (Nat.ltb_spec r j); [reflexivity|lia].
        * rewrite (HS r Hr), Nc by auto. destruct (Nat.eqb_spec r j); [lia|reflexivity].
      + unfold rowsum. apply lsum_zero. intros k Hk. apply in_seq in Hk.
        destruct (Nat.lt_trichotomy k j) as [Hkj|[Hkj|Hkj]].
        * rewrite (HI r k) by lia. rewrite phi_zero. ring.
        * subst k. rewrite Hcol by lia. rewrite phi_zero. ring.
        * rewrite Yhi by lia. destruct (Nat.eqb_spec k j); [lia|ring].
    - rewrite Yhi by lia. rewrite Nat.eqb_refl. reflexivity.
  Qed.

  Section Nonsingular.
    Hypothesis field_units : forall u : F, u <> rzero -> runit u.
    Hypothesis one_neq_zero : (@rone E CE) <> rzero.
    (* the comparison never fails and selects a non-zero entry if there is one *)
    Hypothesis cmp_total : forall l : list F, l <> [] -> exists k, argabsmax l = Ok k.
    Hypothesis cmp_max : forall (l : list F) k, argabsmax l = Ok k -> nth k l rzero = rzero ->
      forall i, i < length l -> nth i l rzero = rzero.

    Definition trivial_kernel (n : nat) (a : list (list F)) : Prop :=
      forall y : list E, length y = n -> sol n a (zerosE n) y -> forall i, i < n -> nth i y rzero = rzero.

    Lemma unit_one : runit (@rone F CF).
    Proof.
      apply field_units. intros H. apply one_neq_zero.
      rewrite <- phi_one, H. apply phi_zero.
    Qed.

    Lemma nth_pivot_col n a j i : shape n a -> j + i < n ->
      nth i (pivot_col a j) rzero = mg a (j + i) j.
    Proof.
      intros [L R] Hi. unfold pivot_col.
      rewrite (nth_indep _ rzero ((fun r : list F => nth j r ozero) []))
        by (rewrite map_length, skipn_length; lia).
      rewrite (map_nth (fun r : list F => nth j r ozero) (skipn j a) [] i).
      rewrite nth_skipn. reflexivity.
    Qed.

    Lemma nonsingular_pivots n : forall c j a, j + c = n -> shape n a -> Inv n j a -> Diag j a ->
      trivial_kernel n a -> pivots_ok n (seq j c) a.
    Proof.
      induction c as [|c IH]; intros j a Hjc Sh HI HD HK; cbn [seq pivots_ok]; [exact I|].
      assert (Hj : j < n) by lia.
      (* the pivot search succeeds *)
      destruct (cmp_total (pivot_col a j)) as [k0 EA].
      { intros H. apply (f_equal (@length F)) in H. rewrite (pivot_col_length n) in H by auto.
        cbn in H. lia. }
      pose proof (argabsmax_lt _ _ EA) as Hk0. rewrite (pivot_col_length n) in Hk0 by auto.
      assert (exists a1, swapA a j = Ok a1) as [a1 Esw].
      { unfold swapA. rewrite EA. cbn [obind]. destruct (Nat.eqb_spec j (k0 + j)); [eauto|].
        destruct (row_swap_spec n a j (k0 + j) Sh) as (a' & Ea & _); try lia. eauto. }
      rewrite Esw.
      destruct (swap_props n a (zerosE n) j a1 Sh (repeat_length _ _) Hj HI HD Esw)
        as (k0' & b1 & Hjk & Hk & EA' & Est & Sh1 & Lb1 & Pa & Pb & HI1 & HD1 & Eq1).
      rewrite EA in EA'. inversion EA'; subst k0'. clear EA'.
      assert (Zb1 : forall i, i < n -> nth i b1 rzero = nth i (zerosE n) rzero).
      { intros i Hi. rewrite Pb, !nth_zerosE. reflexivity. }
      assert (HK1 : trivial_kernel n a1).
      { intros y Ly Hy. apply HK; auto. apply Eq1.
        apply (sol_rhs_ext n a1 (zerosE n) b1); auto. intros i Hi. symmetry. auto. }
      assert (Hu : runit (mg a1 j j)).
      { apply field_units. intros Hz.
        (* the selected entry is zero: the whole column is zero from row j down *)
        assert (Hcol : forall i, j <= i -> i < n -> mg a1 i j = rzero).
        { intros i Hji Hi. rewrite Pa.
          assert (Hm : nth k0 (pivot_col a j) rzero = rzero).
          { rewrite (nth_pivot_col n) by (auto; lia). rewrite Pa in Hz. unfold tau in Hz.
            rewrite Nat.eqb_refl in Hz. rewrite Nat.add_comm. exact Hz. }
          pose proof (cmp_max _ _ EA Hm) as Hall. rewrite (pivot_col_length n) in Hall by auto.
          set (t := tau j (k0 + j) i).
          assert (Ht : j <= t /\ t < n).
          { unfold t, tau. destruct (i =? j), (i =? k0 + j); lia. }
          specialize (Hall (t - j) ltac:(lia)). rewrite (nth_pivot_col n) in Hall by (auto; lia).
          replace (j + (t - j)) with t in Hall by lia. exact Hall. }
        destruct (kernel_vector n a1 j Sh1 Hj HI1 HD1 unit_one Hcol) as (y & Ly & Hy & Hyj).
        apply one_neq_zero. rewrite <- Hyj. apply (HK1 y Ly Hy j Hj). }
      split; [exact Hu|].
      destruct (step_j_spec n a (zerosE n) j a1 Sh (repeat_length _ _) Hj HI HD Esw Hu)
        as (b2 & _ & S2 & L2 & I2 & D2 & Eq2 & Z2).
      apply IH; auto; try lia.
      intros y Ly Hy. apply HK; auto. apply Eq2.
      apply (sol_rhs_ext n _ (zerosE n) b2); auto.
      intros i Hi. rewrite Z2, nth_zerosE; auto. intros i' _. apply nth_zerosE.
    Qed.

    Theorem nonsingular_pivots_are_units n a : shape n a -> trivial_kernel n a -> pivots_are_units n a.
    Proof.
      intros Sh HK. apply (nonsingular_pivots n n 0 a); auto.
      - intros i k Hk; lia.
      - intros k Hk; lia.
    Qed.
  End Nonsingular.
End Gen.
