(* C18: order changes and kind mixing on the generic number container. *)
From Coq Require Import Reals ZArith List Bool Lra.
From RL Require Import Base.Num Base.Str Base.NumR Base.Outcome Model.Dual Model.Number
  Proofs.NumRP Proofs.DualP Proofs.Dual2P.
Import ListNotations.
Open Scope R_scope.

Notation numberR := (number R).

Lemma lk_ones vars v : lk vars (vones (length vars)) v = if mem v vars then 1 else 0.
Proof.
  unfold lk, lookup_or_zero, mem. destruct (index_of v vars) as [i|] eqn:E; [|reflexivity].
  destruct (index_of_some _ _ _ E) as [A _]. unfold vones. cbn [n0 n1 NumR].
  rewrite nth_indep with (d' := 1) by (rewrite repeat_length; exact A). apply nth_repeat_dflt.
Qed.

Lemma mem_dedup v vars : (if mem v (dedup vars) then 1 else 0) = (if mem v vars then 1 else 0).
Proof.
  destruct (mem v (dedup vars)) eqn:M1; destruct (mem v vars) eqn:M2; auto.
  - apply mem_in in M1. apply (proj1 (dedup_In _ _)) in M1. apply mem_false in M2. contradiction.
  - apply mem_in in M2. apply mem_false in M1. exfalso. apply M1. apply dedup_In. exact M2.
Qed.
(* raising a float attaches exactly the requested names (each once) with unit sensitivity *)
Lemma raise_one f vars :
  let d := dual_new f vars in
  wf d /\ re d = f /\ (forall v, In v (vs d) <-> In v vars) /\
  forall v, coef d v = if mem v vars then 1 else 0.
Proof.
  cbn zeta. split; [apply wf_dual_new|]. split; [reflexivity|]. split; [intros v; apply dedup_In|].
  intros v. unfold coef, dual_new. cbn [vs du]. rewrite lk_ones.
  apply mem_dedup.
Qed.
Lemma raise_two f vars :
  let d := dual2_new f vars in
  wf2 d /\ re2 d = f /\ (forall v, In v (vs2 d) <-> In v vars) /\
  (forall v, coef1 d v = if mem v vars then 1 else 0) /\ (forall u v, coef2 d u v = 0).
Proof.
  cbn zeta. split; [|split; [reflexivity|split; [intros v; apply dedup_In|split]]].
  - split; [apply dedup_NoDup|]. split; [apply repeat_length|apply square_mzeros].
  - intros v. unfold coef1, dual2_new. cbn [vs2 du2]. rewrite lk_ones.
    apply mem_dedup.
  - intros u v. unfold coef2, dual2_new. cbn [vs2 dd2]. apply lk2_mzeros.
Qed.
(* first -> second order adds a zero Hessian; second -> first drops only the Hessian *)
Lemma up_one_two (d : dualR) : wf d ->
  let d2 := dual2_of_dual d in
  wf2 d2 /\ re2 d2 = re d /\ vs2 d2 = vs d /\ du2 d2 = du d /\ (forall u v, coef2 d2 u v = 0).
Proof.
  intros [N L]. cbn zeta. unfold dual2_of_dual. cbn [re2 vs2 du2 dd2].
  split; [|split; [reflexivity|split; [reflexivity|split; [reflexivity|]]]].
  - split; [exact N|]. split; [exact L|]. cbn [vs2 dd2]. rewrite L. apply square_mzeros.
  - intros u v. unfold coef2. cbn [vs2 dd2]. apply lk2_mzeros.
Qed.
Lemma down_two_one (d : dual2R) :
  re (dual_of_dual2 d) = re2 d /\ vs (dual_of_dual2 d) = vs2 d /\ du (dual_of_dual2 d) = du2 d.
Proof. repeat split. Qed.

(* no order change ever alters the value *)
Lemma set_order_value (x : numberR) o vars : num_real (set_order x o vars) = num_real x.
Proof. destruct x, o; reflexivity. Qed.
Lemma set_order_clone_same (x : numberR) o vars : set_order_clone x o vars = set_order x o vars.
Proof. reflexivity. Qed.
(* switches between first and second order keep the variable names already present *)
Lemma set_order_names (x : numberR) o vars : (exists f, x = NF f) \/ o = OZero \/ num_vars (set_order x o vars) = num_vars x.
Proof. destruct x, o; auto; left; eauto. Qed.

(* the nine-arm tables: same kind / float mixes compute with the contained type's operator, the
   two Dual-with-Dual2 arms are refused *)
Definition mixed (a b : numberR) : bool :=
  match a, b with ND _, ND2 _ | ND2 _, ND _ => true | _, _ => false end.
Lemma num_bin_refuses ff fd df dd fd2 d2f d2d2 p (a b : numberR) :
  num_bin ff fd df dd fd2 d2f d2d2 p a b = Panic <-> mixed a b = true.
Proof. destruct a, b; cbn; split; intros; congruence. Qed.
Lemma num_eqb_refuses p (a b : numberR) : num_eqb p a b = Panic <-> mixed a b = true.
Proof. destruct a, b; cbn; split; intros; congruence. Qed.
Lemma num_cmp_refuses c (a b : numberR) : num_cmp c a b = Panic <-> mixed a b = true.
Proof. destruct a, b; cbn; split; intros; congruence. Qed.

(* From conversions (from.rs): lowering returns the value; raising a float gives the variable-free constant of
   either order; wrapping into the container and unwrapping is the identity *)
Lemma lowering (d : dualR) (d2 : dual2R) (x : numberR) :
  f_of_dual d = re d /\ f_of_dual2 d2 = re2 d2 /\ num_to_f x = num_real x.
Proof. repeat split. Qed.
Lemma raise_const f :
  (wf (dual_of_f f) /\ re (dual_of_f f) = f /\ vs (dual_of_f f) = [] /\ forall v, coef (dual_of_f f) v = 0) /\
  (wf2 (dual2_of_f f) /\ re2 (dual2_of_f f) = f /\ vs2 (dual2_of_f f) = [] /\
   (forall v, coef1 (dual2_of_f f) v = 0) /\ forall u v, coef2 (dual2_of_f f) u v = 0).
Proof.
  unfold dual_of_f, dual2_of_f.
  destruct (raise_one f []) as (W & R & _ & C). destruct (raise_two f []) as (W2 & R2 & _ & C1 & C2).
  repeat split; auto; try apply W; try apply W2.
Qed.
Lemma wrap_unwrap f (d : dualR) (d2 : dual2R) :
  num_to_f (num_of_f f) = f /\ num_to_dual (num_of_dual d) = d /\ num_to_dual2 (num_of_dual2 d2) = d2 /\
  num_real (num_of_dual d) = re d /\ num_real (num_of_dual2 d2) = re2 d2 /\
  num_vars (num_of_f f) = [] /\ num_vars (num_of_dual d) = vs d /\ num_vars (num_of_dual2 d2) = vs2 d2 /\
  num_to_dual (num_of_f f) = dual_of_f f /\ num_to_dual2 (num_of_f f) = dual2_of_f f.
Proof. repeat split. Qed.
