(* C17: gradients read back by name, in the order asked for; the manifold gradient and the product rule. *)
From Coq Require Import Reals ZArith List Bool Lra Lia.
From RL Require Import Base.Num Base.Str Base.NumR Base.Outcome Model.Dual Proofs.NumRP Proofs.DualP Proofs.Dual2P Proofs.LayoutP.
Import ListNotations.
Open Scope R_scope.

Lemma gradient1_2_spec a ws : wf2 a -> NoDup ws -> gradient1_2 a ws = map (coef1 a) ws.
Proof.
  intros (NA & LA & SA) ND. unfold gradient1_2, gradient1_gen. rewrite (dedup_id ws ND).
  pose proof (vars_cmp_spec false (vs2 a) ws) as S.
  destruct S as [Ep | Ev | Sup | Sub | ]; try discriminate; try reflexivity.
  rewrite <- Ev. apply (lk_ext (vs2 a)); auto.
  - rewrite map_length; reflexivity.
  - intros v. change (map (coef1 a) (vs2 a)) with (map (lookup_or_zero (vs2 a) (du2 a)) (vs2 a)).
    rewrite (lk_reindex (vs2 a) (du2 a) (vs2 a) v).
    destruct (mem v (vs2 a)) eqn:M; auto. apply mem_false in M. apply lk_notin; auto.
Qed.

Lemma reindex2_self vars m : NoDup vars -> square (length vars) m -> reindex2 vars m vars = m.
Proof.
  intros ND S. apply (lk2_ext vars); auto; [apply square_reindex2|].
  intros u v. rewrite lk2_reindex. destruct (mem u vars) eqn:Mu; cbn [andb].
  - destruct (mem v vars) eqn:Mv; auto. apply mem_false in Mv. symmetry. apply lk2_notin_r; auto.
  - apply mem_false in Mu. symmetry. apply lk2_notin_l; auto.
Qed.

Lemma gradient2_spec a ws : wf2 a -> NoDup ws ->
  gradient2 a ws = map (fun u => map (fun v => 2 * coef2 a u v) ws) ws.
Proof.
  intros (NA & LA & SA) ND. unfold gradient2. rewrite (dedup_id ws ND).
  assert (G : mmap (fun e => nmul n2 e) (map (fun u => map (fun v => lookup2_or_zero (vs2 a) (dd2 a) u v) ws) ws)
              = map (fun u => map (fun v => 2 * coef2 a u v) ws) ws).
  { unfold mmap. rewrite map_map. apply map_ext. intros u. rewrite map_map. apply map_ext. intros v. reflexivity. }
  pose proof (vars_cmp_spec false (vs2 a) ws) as S.
  destruct S as [Ep | Ev | Sup | Sub | ]; try discriminate; try exact G.
  rewrite <- G. rewrite <- Ev. f_equal. symmetry. apply (reindex2_self (vs2 a) (dd2 a)); auto.
Qed.

(* the manifold gradient: entry i is a Dual2 on the requested names whose value is the i-th first
   derivative, whose own gradient is the matching Hessian row, with zero second-order part *)
Definition manifold_entry (a : dual2R) (ws : list name) (wi : name) : dual2R :=
  mkDual2 (coef1 a wi) ws (map (fun wj => 2 * coef2 a wi wj) ws) (mzeros (length ws) (length ws)).

Lemma manifold_row a ws wi i : index_of wi (vs2 a) = Some i ->
  map (fun wj => match index_of wj (vs2 a) with
                 | Some j => nmul (nth j (nth i (dd2 a) []) n0) n2
                 | None => n0 end) ws
  = map (fun wj => 2 * coef2 a wi wj) ws.
Proof.
  intros E. apply map_ext. intros wj. unfold coef2, lk2, lookup2_or_zero. rewrite E.
  destruct (index_of wj (vs2 a)); cbn; ring.
Qed.

Lemma gradient1_manifold_spec a ws : wf2 a -> NoDup ws ->
  gradient1_manifold a ws = map (manifold_entry a ws) ws.
Proof.
  intros W ND. unfold gradient1_manifold. apply map_ext. intros wi.
  unfold manifold_entry. rewrite (dedup_id ws ND).
  destruct (index_of wi (vs2 a)) as [i|] eqn:E.
  - rewrite (manifold_row a ws wi i E). f_equal.
    unfold coef1, lk, lookup_or_zero. rewrite E. reflexivity.
  - unfold manifold_default. rewrite (dedup_id ws ND).
    assert (N : ~ In wi (vs2 a)) by (apply index_of_none; exact E).
    f_equal.
    + symmetry. apply coef1_notin. exact N.
    + unfold vzeros. cbn [n0 NumR]. clear -N. induction ws as [|w ws IH]; cbn; [reflexivity|].
      f_equal; [|exact IH]. rewrite coef2_notin_l; [ring|]. exact N.
Qed.

Lemma wf2_manifold_entry a ws wi : NoDup ws -> wf2 (manifold_entry a ws wi).
Proof.
  intros ND. split; [exact ND|]. split; [cbn; apply map_length|cbn; apply square_mzeros].
Qed.
Lemma coef1_manifold_entry a ws wi wj : In wj ws -> coef1 (manifold_entry a ws wi) wj = 2 * coef2 a wi wj.
Proof.
  intros I. unfold coef1, manifold_entry. cbn [vs2 du2]. unfold lk, lookup_or_zero.
  destruct (index_of_in _ _ I) as [j E]. rewrite E. destruct (index_of_some _ _ _ E) as [A B].
  cbn [n0 NumR]. set (f := fun wj0 : name => 2 * coef2 a wi wj0).
  rewrite nth_indep with (d' := f []) by (rewrite map_length; exact A).
  rewrite map_nth. rewrite B. reflexivity.
Qed.

(* product rule on manifolds reproduces the second derivatives of a product *)
Lemma manifold_product a b ws wi wj p p1 p2 p3 :
  wf2 a -> wf2 b -> NoDup ws -> In wi ws -> In wj ws ->
  (p = true -> vs2 a = vs2 b) ->
  (p1 = true -> vs2 (manifold_entry a ws wi) = vs2 b) ->
  (p2 = true -> vs2 a = vs2 (manifold_entry b ws wi)) ->
  (p3 = true -> vs2 (d2mul p1 (manifold_entry a ws wi) b) = vs2 (d2mul p2 a (manifold_entry b ws wi))) ->
  coef1 (d2add p3 (d2mul p1 (manifold_entry a ws wi) b) (d2mul p2 a (manifold_entry b ws wi))) wj
  = 2 * coef2 (d2mul p a b) wi wj.
Proof.
  intros WA WB ND Ii Ij HP HP1 HP2 HP3.
  pose proof (wf2_manifold_entry a ws wi ND) as WMa. pose proof (wf2_manifold_entry b ws wi ND) as WMb.
  destruct (d2mul_spec p1 _ _ WMa WB HP1) as (W1 & R1 & C1 & _).
  destruct (d2mul_spec p2 _ _ WA WMb HP2) as (W2 & R2 & C2 & _).
  destruct (d2add_spec p3 _ _ W1 W2 HP3) as (_ & _ & C3 & _).
  destruct (d2mul_spec p a b WA WB HP) as (_ & _ & _ & H & _).
  rewrite C3, C1, C2, H. rewrite !coef1_manifold_entry by assumption. cbn [re2 manifold_entry]. field.
Qed.
