(* C15, part 1 (any base type T, any coefficient kind E): which inputs csolve rejects, the shape of
   the collocation matrix, "solver equation => interpolation", the 3 x 3 kind table.
   Depends only on the MODELS (Model/Spline.v, Model/PPSpline.v, Model/Linalg.v). *)
From Coq Require Import List Arith Bool Lia ZArith.
From RL Require Import Base.Outcome Base.Num Base.Str Model.Dual Model.Number Model.Linalg Model.Spline
  Model.PPSpline.
Import ListNotations.
Local Open Scope nat_scope.

(* ------------------------------------------------------------------ "never returns Err" *)
Definition noerr {A} (o : outcome A) : Prop := o <> Err.

Lemma noerr_ok {A} (a : A) : noerr (Ok a). Proof. unfold noerr. discriminate. Qed.
Lemma noerr_panic {A} : noerr (@Panic A). Proof. unfold noerr. discriminate. Qed.
Lemma noerr_bind {A B} (o : outcome A) (f : A -> outcome B) :
  noerr o -> (forall a, noerr (f a)) -> noerr (obind o f).
Proof. intros H1 H2. destruct o; cbn; auto; unfold noerr; try discriminate. contradiction. Qed.
Lemma noerr_if {A} (b : bool) (x y : outcome A) : noerr x -> noerr y -> noerr (if b then x else y).
Proof. destruct b; auto. Qed.
Lemma noerr_omapM {A B} (f : A -> outcome B) l : (forall a, noerr (f a)) -> noerr (omapM f l).
Proof.
  intros H. induction l as [|a l IH]; cbn. apply noerr_ok.
  apply noerr_bind; auto. intros b. apply noerr_bind; auto. intros; apply noerr_ok.
Qed.
Lemma noerr_ofold {S X} (f : S -> X -> outcome S) l : (forall s x, noerr (f s x)) ->
  forall s, noerr (ofold f l s).
Proof.
  intros H. induction l as [|x l IH]; intros s; cbn. apply noerr_ok.
  apply noerr_bind; auto.
Qed.

Ltac noerr_tac :=
  repeat first
    [ apply noerr_ok | apply noerr_panic
    | apply noerr_bind; [|intro]
    | apply noerr_if
    | match goal with |- noerr (match ?x with _ => _ end) => destruct x end ].

Section NoErrSpline.
  Context {T : Type} `{Num T}.
  Lemma noerr_idx (t : list T) i : noerr (idx t i).
  Proof. unfold idx, noerr. destruct (nth_error t i); discriminate. Qed.
  Lemma noerr_usub a b : noerr (usub a b).
  Proof. unfold usub, noerr. destruct (a <? b); discriminate. Qed.
  Lemma noerr_rer (x : T) i t org : noerr (right_end_rule x i t org).
  Proof.
    unfold right_end_rule. apply noerr_bind; [apply noerr_usub|intro].
    apply noerr_bind; [apply noerr_idx|intro]. apply noerr_if; [|apply noerr_ok].
    apply noerr_bind; [apply noerr_usub|intro]. apply noerr_bind; [apply noerr_usub|intro]. apply noerr_ok.
  Qed.
  Lemma noerr_bsplev k : forall (x : T) i t org, noerr (bsplev x i k t org).
  Proof.
    induction k as [|k IH]; intros x i t org; cbn [bsplev].
    - apply noerr_bind; [apply noerr_idx|intro]. apply noerr_if; [apply noerr_ok|].
      apply noerr_bind; [apply noerr_idx|intro]. apply noerr_if; [apply noerr_ok|].
      apply noerr_bind; [apply noerr_rer|intro]. apply noerr_if; [apply noerr_ok|].
      apply noerr_bind; [apply noerr_usub|intro]. apply noerr_bind; [apply noerr_idx|intro].
      apply noerr_if; [apply noerr_panic|]. apply noerr_bind; [apply noerr_idx|intro].
      apply noerr_if; [apply noerr_panic|apply noerr_ok].
    - apply noerr_bind; [apply noerr_idx|intro]. apply noerr_if; [apply noerr_ok|].
      apply noerr_bind; [apply noerr_idx|intro]. apply noerr_if; [apply noerr_ok|].
      apply noerr_bind; [apply noerr_rer|intro]. apply noerr_if; [apply noerr_ok|].
      apply noerr_if.
      + apply noerr_if; [|apply noerr_ok]. apply noerr_bind; [apply noerr_idx|intro]. apply noerr_ok.
      + apply noerr_bind; [apply noerr_idx|intro].
        apply noerr_bind.
        { apply noerr_if; [|apply noerr_ok]. apply noerr_bind; [apply IH|intro]. apply noerr_ok. }
        intro. apply noerr_bind; [apply noerr_idx|intro].
        apply noerr_bind.
        { apply noerr_if; [|apply noerr_ok]. apply noerr_bind; [apply IH|intro]. apply noerr_ok. }
        intro. apply noerr_ok.
  Qed.
  Lemma noerr_dn_combine k (d1 d2 : T) a b : noerr (a tt) -> noerr (b tt) -> noerr (dn_combine k d1 d2 a b).
  Proof.
    intros Ha Hb. unfold dn_combine.
    apply noerr_bind. { apply noerr_if; [|apply noerr_ok]. apply noerr_bind; auto. intro; apply noerr_ok. }
    intro. apply noerr_bind. { apply noerr_if; [|apply noerr_ok]. apply noerr_bind; auto. intro; apply noerr_ok. }
    intro. apply noerr_ok.
  Qed.
  Lemma noerr_bspldnev m : forall (x : T) i k t org, noerr (bspldnev x i k t m org).
  Proof.
    induction m as [|m IH]; intros x i k t org; cbn [bspldnev]. apply noerr_bsplev.
    apply noerr_if; [apply noerr_ok|].
    apply noerr_bind; [apply noerr_usub|intro]. apply noerr_bind; [apply noerr_idx|intro].
    apply noerr_bind; [apply noerr_idx|intro]. apply noerr_bind; [apply noerr_idx|intro].
    apply noerr_bind; [apply noerr_idx|intro].
    destruct m; apply noerr_dn_combine; try apply noerr_bsplev; apply IH.
  Qed.
  Lemma noerr_bspldnev_row (x : T) k t m n : noerr (bspldnev_row x k t m n).
  Proof. apply noerr_omapM. intro. apply noerr_bspldnev. Qed.
  Lemma noerr_bsplev_row (x : T) k t n : noerr (bsplev_row x k t n).
  Proof. apply noerr_omapM. intro. apply noerr_bsplev. Qed.
  Lemma noerr_bsplmatrix {E} (s : @ppspline T E) tau l r : noerr (bsplmatrix s tau l r).
  Proof.
    unfold bsplmatrix. destruct (pn s). apply noerr_ok. destruct tau. apply noerr_panic.
    apply noerr_bind; [apply noerr_bspldnev_row|intro].
    apply noerr_bind; [apply noerr_bspldnev_row|intro].
    apply noerr_bind; [|intro; apply noerr_ok].
    apply noerr_omapM. intro. apply noerr_bsplev_row.
  Qed.
End NoErrSpline.

Section NoErrSolver.
  Context {F E : Type} {OF : Ops F} {OE : Ops E} (xmul : F -> E -> E).
  Lemma noerr_argabsmax_go (l : list F) : forall best bi i, noerr (argabsmax_go best bi i l).
  Proof.
    induction l as [|y l IH]; intros; cbn. apply noerr_ok.
    destruct (ocmp_abs best y) as [[| |]|]; try apply IH. apply noerr_panic.
  Qed.
  Lemma noerr_argabsmax (l : list F) : noerr (argabsmax l).
  Proof. destruct l; cbn. apply noerr_panic. apply noerr_argabsmax_go. Qed.
  Lemma noerr_gsolve21 xdiv (a : list (list F)) (b : list E) : noerr (gsolve21 xmul xdiv a b).
  Proof.
    unfold gsolve21. apply noerr_if; [apply noerr_panic|]. apply noerr_if; [apply noerr_panic|].
    apply noerr_bind; [|intro; apply noerr_ok].
    unfold eliminate. apply noerr_ofold. intros [a' b'] j. unfold step_j.
    apply noerr_bind; [apply noerr_argabsmax|intro].
    apply noerr_bind; [|intro; apply noerr_ok].
    apply noerr_if; [apply noerr_ok|].
    apply noerr_bind. { unfold row_swap. apply noerr_if; [apply noerr_ok|apply noerr_panic]. }
    intro. apply noerr_bind. { unfold el_swap. apply noerr_if; [apply noerr_ok|apply noerr_panic]. }
    intro. apply noerr_ok.
  Qed.
  Lemma noerr_fdsolve (a : list (list F)) (b : list E) lsq : noerr (fdsolve xmul a b lsq).
  Proof.
    unfold fdsolve. destruct lsq; [|apply noerr_gsolve21].
    apply noerr_bind. { unfold dmul22_. apply noerr_if; [apply noerr_ok|apply noerr_panic]. }
    intro. apply noerr_bind. { unfold fdmul21_, gmul21. apply noerr_if; [apply noerr_ok|apply noerr_panic]. }
    intro. apply noerr_gsolve21.
  Qed.
End NoErrSolver.

(* ------------------------------------------------------------------ csolve: errors, inversion *)
Section CSolve.
  Context {T : Type} `{Num T} {E : Type} {OE : Ops E} (xmul : T -> E -> E).

  (* mismatched counts <-> Err *)
  Lemma csolve_err (s : @ppspline T E) tau (y : list E) l r lsq :
    csolve xmul s tau y l r lsq = Err <->
    (length tau <> pn s /\ ~ (lsq = true /\ pn s < length tau)) \/ length tau <> length y.
  Proof.
    unfold csolve.
    destruct (Nat.eqb_spec (length tau) (pn s)) as [E1|E1]; cbn [negb andb].
    - destruct (Nat.eqb_spec (length tau) (length y)) as [E2|E2]; cbn [negb].
      + split.
        * intros HE. exfalso. revert HE.
          apply (noerr_bind (bsplmatrix s tau l r)); [apply noerr_bsplmatrix|intro].
          apply noerr_bind; [apply noerr_fdsolve|intro]. apply noerr_ok.
        * intros [[A _]|A]; contradiction.
      + split; auto.
    - destruct lsq; cbn [andb negb].
      + destruct (Nat.ltb_spec (pn s) (length tau)) as [L|L]; cbn [negb].
        * destruct (Nat.eqb_spec (length tau) (length y)) as [E2|E2]; cbn [negb].
          -- split.
             ++ intros HE. exfalso. revert HE.
                apply (noerr_bind (bsplmatrix s tau l r)); [apply noerr_bsplmatrix|intro].
                apply noerr_bind; [apply noerr_fdsolve|intro]. apply noerr_ok.
             ++ intros [[_ A]|A]; [exfalso; apply A; auto|contradiction].
          -- split; auto.
        * split; auto. intros _. left. split; auto. intros [_ A]. lia.
      + split; auto. intros _. left. split; auto. intros [A _]. discriminate.
  Qed.

  Lemma csolve_ok (s s' : @ppspline T E) tau (y : list E) l r lsq :
    csolve xmul s tau y l r lsq = Ok s' ->
    exists B c, bsplmatrix s tau l r = Ok B /\ fdsolve xmul B y lsq = Ok c /\
                s' = mkPP (pk s) (pt s) (Some c) (pn s) /\ length tau = length y /\
                (length tau = pn s \/ (lsq = true /\ pn s < length tau)).
  Proof.
    unfold csolve.
    destruct (negb (length tau =? pn s) && negb (lsq && (pn s <? length tau))) eqn:C1; [discriminate|].
    destruct (Nat.eqb_spec (length tau) (length y)) as [E2|E2]; cbn [negb]; [|discriminate].
    destruct (bsplmatrix s tau l r) as [B| |] eqn:EB; cbn [obind]; try discriminate.
    destruct (fdsolve xmul B y lsq) as [c| |] eqn:EC; cbn [obind]; try discriminate.
    intros HS. inversion HS. exists B, c. repeat split; auto.
    destruct (Nat.eqb_spec (length tau) (pn s)); auto. cbn [negb andb] in C1.
    destruct lsq; cbn [negb andb] in C1; try discriminate.
    destruct (Nat.ltb_spec (pn s) (length tau)); cbn [negb] in C1; try discriminate. auto.
  Qed.
End CSolve.

(* ------------------------------------------------------------------ rows of the collocation matrix *)
Section Rows.
  Context {T : Type} `{Num T}.

  (* which derivative order row j of the collocation matrix carries *)
  Definition row_m (l r len j : nat) : nat :=
    if j =? len - 1 then r else if j =? 0 then l else 0.

  Lemma omapM_nth {A B} (f : A -> outcome B) : forall l bs j a,
    omapM f l = Ok bs -> nth_error l j = Some a ->
    exists b, nth_error bs j = Some b /\ f a = Ok b.
  Proof.
    induction l as [|x l IH]; intros bs j a HM HN. destruct j; discriminate.
    cbn in HM. destruct (f x) as [b| |] eqn:Ef; cbn in HM; try discriminate.
    destruct (omapM f l) as [bs'| |] eqn:El; cbn in HM; try discriminate.
    inversion HM; subst. destruct j as [|j]; cbn in *.
    - inversion HN; subst. eauto.
    - eapply IH; eauto.
  Qed.
  Lemma omapM_length {A B} (f : A -> outcome B) : forall l bs, omapM f l = Ok bs -> length bs = length l.
  Proof.
    induction l as [|x l IH]; intros bs HM; cbn in HM. inversion HM; auto.
    destruct (f x) as [b| |]; cbn in HM; try discriminate.
    destruct (omapM f l) as [bs'| |] eqn:El; cbn in HM; try discriminate.
    inversion HM; subst. cbn. f_equal. auto.
  Qed.

  Lemma nth_error_firstn_lt {A} (l : list A) : forall n j, j < n -> nth_error (firstn n l) j = nth_error l j.
  Proof.
    induction l as [|a l IH]; intros n j Hj. destruct n, j; reflexivity.
    destruct n as [|n]; [lia|]. destruct j as [|j]; cbn; auto. apply IH. lia.
  Qed.

  Lemma bspldnev_row_length (x : T) k t m n row : bspldnev_row x k t m n = Ok row -> length row = n.
  Proof. intros HR. apply omapM_length in HR. rewrite seq_length in HR. auto. Qed.

  Lemma bsplev_row_dn (x : T) k t n : bsplev_row x k t n = bspldnev_row x k t 0 n.
  Proof. reflexivity. Qed.

  Lemma last_nth_error {A} (l : list A) d : l <> [] -> nth_error l (length l - 1) = Some (last l d).
  Proof.
    induction l as [|a l IH]; intros NE. contradiction.
    destruct l as [|b l']. reflexivity.
    change (last (a :: b :: l') d) with (last (b :: l') d).
    replace (length (a :: b :: l') - 1) with (S (length (b :: l') - 1)) by (cbn; lia).
    cbn [nth_error]. apply IH. discriminate.
  Qed.

  (* row j of the matrix is the basis row at tau_j with derivative order row_m j *)
  Lemma bsplmatrix_row {E} (s : @ppspline T E) tau l r B j x :
    1 <= pn s -> bsplmatrix s tau l r = Ok B -> nth_error tau j = Some x ->
    exists row, nth_error B j = Some row /\
                bspldnev_row x (pk s) (pt s) (row_m l r (length tau) j) (pn s) = Ok row.
  Proof.
    intros Hn HB Hj. unfold bsplmatrix in HB.
    destruct (pn s) as [|n'] eqn:En; [lia|]. rewrite <- En in *.
    destruct tau as [|tau0 tl]; [destruct j; discriminate|].
    destruct (bspldnev_row tau0 (pk s) (pt s) l (pn s)) as [r0| |] eqn:E0; cbn [obind] in HB; try discriminate.
    destruct (bspldnev_row (last (tau0 :: tl) tau0) (pk s) (pt s) r (pn s)) as [rl| |] eqn:El;
      cbn [obind] in HB; try discriminate.
    destruct (omapM (fun x0 => bsplev_row x0 (pk s) (pt s) (pn s))
                (firstn (length (tau0 :: tl) - 2) (skipn 1 (tau0 :: tl)))) as [mid| |] eqn:Em;
      cbn [obind] in HB; try discriminate.
    injection HB as HB'.
    assert (Hlast : nth_error (tau0 :: tl) (length (tau0 :: tl) - 1) = Some (last (tau0 :: tl) tau0))
      by (apply last_nth_error; discriminate).
    assert (Hjl : j < length (tau0 :: tl)) by (apply nth_error_Some; congruence).
    unfold row_m.
    destruct tl as [|tau1 tl'].
    - (* a single site: the right-end row wins *)
      cbn in Hjl. assert (j = 0) by lia. subst j. cbn in Hj. inversion Hj; subst x.
      cbn [length]. cbn [Nat.sub Nat.eqb]. exists rl. subst B. split; auto.
    - set (len := length (tau0 :: tau1 :: tl')) in *.
      assert (Hlen : len = S (S (length tl'))) by reflexivity.
      assert (Lmid : length mid = length tl').
      { apply omapM_length in Em. rewrite Em, firstn_length, skipn_length. cbn [length]. fold len. lia. }
      assert (HB2 : B = r0 :: mid ++ [rl]) by (rewrite <- HB'; reflexivity).
      clear HB'. subst B.
      destruct (Nat.eqb_spec j (len - 1)) as [Ej|Ej].
      + exists rl. split.
        * subst j. rewrite Hlen. replace (S (S (length tl')) - 1) with (S (length mid)) by lia.
          cbn [nth_error]. rewrite nth_error_app2 by lia. rewrite Nat.sub_diag. reflexivity.
        * subst j. rewrite Hj in Hlast. inversion Hlast; subst. exact El.
      + destruct (Nat.eqb_spec j 0) as [E0'|E0'].
        * subst j. cbn in Hj. inversion Hj; subst x. exists r0. split; auto.
        * destruct j as [|j']; [lia|]. cbn [nth_error] in Hj |- *.
          assert (Hj' : nth_error (firstn (len - 2) (skipn 1 (tau0 :: tau1 :: tl'))) j' = Some x).
          { cbn [skipn]. rewrite nth_error_firstn_lt by lia. exact Hj. }
          destruct (omapM_nth _ _ _ _ _ Em Hj') as (row & Hr1 & Hr2).
          exists row. split.
          -- rewrite nth_error_app1; auto. apply nth_error_Some. congruence.
          -- exact Hr2.
  Qed.

  Lemma bsplmatrix_length {E} (s : @ppspline T E) tau l r B :
    1 <= pn s -> bsplmatrix s tau l r = Ok B -> length B = length tau.
  Proof.
    intros Hn HB. unfold bsplmatrix in HB.
    destruct (pn s) as [|n'] eqn:En; [lia|]. rewrite <- En in *.
    destruct tau as [|tau0 tl]; [discriminate|].
    destruct (bspldnev_row tau0 (pk s) (pt s) l (pn s)) as [r0| |]; cbn [obind] in HB; try discriminate.
    destruct (bspldnev_row (last (tau0 :: tl) tau0) (pk s) (pt s) r (pn s)) as [rl| |];
      cbn [obind] in HB; try discriminate.
    destruct (omapM (fun x0 => bsplev_row x0 (pk s) (pt s) (pn s))
                (firstn (length (tau0 :: tl) - 2) (skipn 1 (tau0 :: tl)))) as [mid| |] eqn:Em;
      cbn [obind] in HB; try discriminate.
    inversion HB. apply omapM_length in Em. rewrite firstn_length, skipn_length in Em.
    destruct tl as [|t1 tl']. reflexivity.
    cbn [length] in *. rewrite app_length. cbn [length]. lia.
  Qed.
End Rows.

(* ------------------------------------------------------------------ solver equation => interpolation *)
Section Interp.
  Context {T : Type} `{Num T} {E : Type} {OE : Ops E} (xmul : T -> E -> E).

  (* evaluation with given coefficients is the inner product of the basis row with them *)
  Lemma ppdnev_single_row (s : @ppspline T E) c x m row :
    pc s = Some c -> bspldnev_row x (pk s) (pt s) m (pn s) = Ok row -> length c = pn s ->
    ppdnev_single xmul s x m = Ok (gdot xmul row c).
  Proof.
    intros Hc Hr Lc. unfold ppdnev_single. rewrite Hr. cbn [obind]. rewrite Hc.
    unfold fdmul11_, gmul11. rewrite (bspldnev_row_length _ _ _ _ _ _ Hr), Lc, Nat.eqb_refl. reflexivity.
  Qed.

  (* The property, given the solver equation `B c = y` for the matrix and the coefficients that
     csolve produced (C13's conclusion): every data value is reproduced; row 0 / the last row with
     the requested derivative orders. *)
  Lemma csolve_interpolates (s s' : @ppspline T E) tau (y : list E) l r :
    1 <= pn s ->
    csolve xmul s tau y l r false = Ok s' ->
    (forall B c, bsplmatrix s tau l r = Ok B -> pc s' = Some c ->
                 fmat_vec xmul B c = y /\ length c = pn s) ->
    forall j x v, nth_error tau j = Some x -> nth_error y j = Some v ->
      ppdnev_single xmul s' x (row_m l r (length tau) j) = Ok v.
  Proof.
    intros Hn HS Hsol j x v Hx Hv.
    destruct (csolve_ok xmul s s' tau y l r false HS) as (B & c & HB & HC & -> & Ly & Lt).
    destruct (Hsol B c HB eq_refl) as [Heq Lc].
    destruct (bsplmatrix_row s tau l r B j x Hn HB Hx) as (row & Hrow & Hval).
    rewrite (ppdnev_single_row (mkPP (pk s) (pt s) (Some c) (pn s)) c x _ row); auto.
    f_equal.
    assert (Hmv : nth_error (fmat_vec xmul B c) j = Some (gdot xmul row c)).
    { unfold fmat_vec, gmat_vec. rewrite nth_error_map, Hrow. reflexivity. }
    rewrite Heq in Hmv. congruence.
  Qed.
End Interp.

(* ------------------------------------------------------------------ the 3 x 3 kind table *)
Section Table.
  Context {T : Type} `{Num T}.
  Definition kind_of (x : number T) : nat := match x with NF _ => 0 | ND _ => 1 | ND2 _ => 2 end.
  Definition okind {A} (f : A -> nat) (o : outcome A) (k : nat) : Prop :=
    match o with Ok a => f a = k | Err => False | Panic => True end.

  (* cells that compute: never Err once coefficients are present, and the kind of the answer *)
  Lemma noerr_gmul11 {F' E'} {OE' : Ops E'} (xm : F' -> E' -> E') a b : noerr (gmul11 xm a b).
  Proof. unfold gmul11. apply noerr_if; [apply noerr_ok|apply noerr_panic]. Qed.

  Lemma noerr_dual_clone vars (r : T) d : noerr (dual_clone_from vars r d).
  Proof. unfold dual_clone_from. apply noerr_if; [apply noerr_ok|apply noerr_panic]. Qed.
  Lemma noerr_dual2_clone vars (r : T) d dd : noerr (dual2_clone_from vars r d dd).
  Proof. unfold dual2_clone_from. apply noerr_if; [apply noerr_ok|apply noerr_panic]. Qed.
  Lemma noerr_dual_row k t n (x : dual T) m : noerr (dual_row k t n x m).
  Proof.
    apply noerr_omapM. intro i. unfold bspldnev_dual.
    apply noerr_bind; [apply noerr_bspldnev|intro]. apply noerr_bind; [apply noerr_bspldnev|intro].
    apply noerr_dual_clone.
  Qed.
  Lemma noerr_dual2_row k t n (x : dual2 T) m : noerr (dual2_row k t n x m).
  Proof.
    apply noerr_omapM. intro i. unfold bspldnev_dual2.
    apply noerr_bind; [apply noerr_bspldnev|intro]. apply noerr_bind; [apply noerr_bspldnev|intro].
    apply noerr_bind; [apply noerr_bspldnev|intro]. apply noerr_dual2_clone.
  Qed.

  Lemma okind_omap {A} (g : A -> number T) (o : outcome A) k :
    noerr o -> (forall a, kind_of (g a) = k) -> okind kind_of (omap g o) k.
  Proof. intros N K. destruct o; cbn; auto. Qed.

  Lemma table_f (s : @ppspline T T) c x : pc s = Some c ->
    okind kind_of (mapped_value_f s x) (kind_of x).
  Proof.
    intros Hc. destruct x as [f|d|d]; cbn [mapped_value_f kind_of]; apply okind_omap; auto.
    - unfold ppdnev_single. apply noerr_bind; [apply noerr_bspldnev_row|intro]. rewrite Hc. apply noerr_gmul11.
    - unfold ppdnev_f_dual. apply noerr_bind; [apply noerr_dual_row|intro]. rewrite Hc. apply noerr_gmul11.
    - unfold ppdnev_f_dual2. apply noerr_bind; [apply noerr_dual2_row|intro]. rewrite Hc. apply noerr_gmul11.
  Qed.
  Lemma table_d (s : @ppspline T (dual T)) c x : pc s = Some c ->
    match x with
    | NF _ | ND _ => okind kind_of (mapped_value_d s x) 1
    | ND2 _ => mapped_value_d s x = Err
    end.
  Proof.
    intros Hc. destruct x as [f|d|d]; cbn [mapped_value_d]; auto; apply okind_omap; auto.
    - unfold ppdnev_single. apply noerr_bind; [apply noerr_bspldnev_row|intro]. rewrite Hc. apply noerr_gmul11.
    - unfold ppdnev_d_dual. apply noerr_bind; [apply noerr_dual_row|intro]. rewrite Hc. apply noerr_gmul11.
  Qed.
  Lemma table_d2 (s : @ppspline T (dual2 T)) c x : pc s = Some c ->
    match x with
    | NF _ | ND2 _ => okind kind_of (mapped_value_d2 s x) 2
    | ND _ => mapped_value_d2 s x = Err
    end.
  Proof.
    intros Hc. destruct x as [f|d|d]; cbn [mapped_value_d2]; auto; apply okind_omap; auto.
    - unfold ppdnev_single. apply noerr_bind; [apply noerr_bspldnev_row|intro]. rewrite Hc. apply noerr_gmul11.
    - unfold ppdnev_d2_dual2. apply noerr_bind; [apply noerr_dual2_row|intro]. rewrite Hc. apply noerr_gmul11.
  Qed.
  (* the two error cells do not depend on anything *)
  Lemma table_err_d (s : @ppspline T (dual T)) d : mapped_value_d s (ND2 d) = Err.
  Proof. reflexivity. Qed.
  Lemma table_err_d2 (s : @ppspline T (dual2 T)) d : mapped_value_d2 s (ND d) = Err.
  Proof. reflexivity. Qed.
  (* without coefficients every computing cell reports the error "call csolve first" unless an
     index aborts first *)
  Lemma ppdnev_single_unsolved {E} {OE : Ops E} (xm : T -> E -> E) (s : @ppspline T E) x m :
    pc s = None -> ppdnev_single xm s x m = Err \/ ppdnev_single xm s x m = Panic.
  Proof.
    intros Hc. unfold ppdnev_single. pose proof (noerr_bspldnev_row x (pk s) (pt s) m (pn s)) as N.
    destruct (bspldnev_row x (pk s) (pt s) m (pn s)); cbn; auto. rewrite Hc; auto.
  Qed.
End Table.
