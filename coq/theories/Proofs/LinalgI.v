(* C13: instances of the structure `CRing`:
     R                                   (the reals; units = non-zero numbers)
     D1 = R * (name -> R)                (abstract first-order dual numbers: value, gradient by name)
     D2 = R * (name -> R) * (name -> name -> R)
                                         (abstract second-order dual numbers: value, gradient, and
                                          the STORED HALF-HESSIAN of Model/Dual.v `dd2`)
   with exactly the product / reciprocal formulas of dual_ops/{mul,div,pow}.rs (Model/Dual.v dmul,
   ddiv, d2mul, d2pow at -1).  A ring equation in D1 (D2) is an equation between values AND between
   all first (and second) derivative coefficients, so `mat_vec A x = b` in these rings is literally
   "A x = b in value and in every derivative carried by A and b".
   The refinement from the list-based `dual R` / `dual2 R` of Model/Dual.v (coef / coef2 by name) to
   D1 / D2 is Proofs/DualP.v; it is what ties the executable operators to these rings. *)
From Coq Require Import Reals List Arith Bool Lia Lra Ring Field Ring_theory FunctionalExtensionality.
From Coq Require Import RealField.
From RL Require Import Base.Outcome Base.Num Base.NumR Base.Str Model.Dual Model.Linalg
  Proofs.LinalgL Proofs.LinalgP Proofs.LinalgT Proofs.LinalgH.
Import ListNotations.
Local Open Scope R_scope.

(* ------------------------------------------------------------------ R *)
#[global] Instance CRing_R : CRing R := {|
  rzero := 0; rone := 1; radd := Rplus; rmul := Rmult; rsub := Rminus; ropp := Ropp;
  rinv := Rinv; runit := fun u => u <> 0;
  r_th := RTheory;
  r_inv := Rinv_r |}.

(* the comparison the code uses for pivoting, on the reals: |x| against |y| (never unordered) *)
Definition cmpR (a b : R) : option comparison := num_pcmp (Rabs a) (Rabs b).
(* the model's own operations at T := R are these ring operations *)
Lemma ops_num_R : @ops_num R NumR = ops_cring cmpR.
Proof.
  unfold ops_num, ops_cring, cmpR. cbn [n0 n1 nadd nsub nmul ndiv nneg nabs NumR rzero rone radd rsub rmul rinv CRing_R].
  rewrite Ropp_0. reflexivity.
Qed.

(* ------------------------------------------------------------------ first-order duals *)
Definition D1 : Type := R * (name -> R).
Definition d1zero : D1 := (0, fun _ => 0).
Definition d1one : D1 := (1, fun _ => 0).
Definition d1add (x y : D1) : D1 := (fst x + fst y, fun v => snd x v + snd y v).
Definition d1sub (x y : D1) : D1 := (fst x - fst y, fun v => snd x v - snd y v).
Definition d1opp (x : D1) : D1 := (- fst x, fun v => - snd x v).
(* mul.rs: real = a.real * b.real; dual = a.dual * b.real + b.dual * a.real *)
Definition d1mul (x y : D1) : D1 := (fst x * fst y, fun v => snd x v * fst y + snd y v * fst x).
(* div.rs: b_ = { real: 1/b.real, dual: -1/(b.real*b.real) * b.dual } *)
Definition d1inv (x : D1) : D1 := (/ fst x, fun v => (-1 / (fst x * fst x)) * snd x v).

Lemma d1_eq (x y : D1) : fst x = fst y -> (forall v, snd x v = snd y v) -> x = y.
Proof.
  destruct x as [a g], y as [b h]; cbn. intros -> H. f_equal. apply functional_extensionality. exact H.
Qed.
Ltac d1_ring := intros; apply d1_eq; [cbn; try ring | intros; cbn; try ring].

Lemma D1_ring_theory : ring_theory d1zero d1one d1add d1mul d1sub d1opp (@eq D1).
Proof. constructor; d1_ring. Qed.
Lemma D1_inv (u : D1) : fst u <> 0 -> d1mul u (d1inv u) = d1one.
Proof. intros H. apply d1_eq; [cbn; field; auto | intros; cbn; field; auto]. Qed.

#[global] Instance CRing_D1 : CRing D1 := {|
  rzero := d1zero; rone := d1one; radd := d1add; rmul := d1mul; rsub := d1sub; ropp := d1opp;
  rinv := d1inv; runit := fun u => fst u <> 0;
  r_th := D1_ring_theory;
  r_inv := D1_inv |}.

(* constants, and f64 * Dual (mul.rs: real = a.real * b; dual = b * a.dual) *)
Definition d1const (c : R) : D1 := (c, fun _ => 0).
Definition d1scale (c : R) (x : D1) : D1 := (fst x * c, fun v => c * snd x v).
Lemma d1const_add a b : d1const (a + b) = d1add (d1const a) (d1const b).
Proof. d1_ring. Qed.
Lemma d1const_mul a b : d1const (a * b) = d1mul (d1const a) (d1const b).
Proof. d1_ring. Qed.
Lemma d1const_one : d1const 1 = d1one.
Proof. reflexivity. Qed.
Lemma d1scale_spec c x : d1scale c x = d1mul (d1const c) x.
Proof. d1_ring. Qed.

(* ------------------------------------------------------------------ second-order duals *)
Definition D2 : Type := R * (name -> R) * (name -> name -> R).
Definition re_ (x : D2) : R := fst (fst x).
Definition gr_ (x : D2) : name -> R := snd (fst x).
Definition hs_ (x : D2) : name -> name -> R := snd x.      (* the stored half-Hessian *)
Definition mk2 (a : R) (g : name -> R) (h : name -> name -> R) : D2 := (a, g, h).
Definition d2zero_ : D2 := mk2 0 (fun _ => 0) (fun _ _ => 0).
Definition d2one_ : D2 := mk2 1 (fun _ => 0) (fun _ _ => 0).
Definition d2add_ (x y : D2) : D2 :=
  mk2 (re_ x + re_ y) (fun v => gr_ x v + gr_ y v) (fun u v => hs_ x u v + hs_ y u v).
Definition d2sub_ (x y : D2) : D2 :=
  mk2 (re_ x - re_ y) (fun v => gr_ x v - gr_ y v) (fun u v => hs_ x u v - hs_ y u v).
Definition d2opp_ (x : D2) : D2 :=
  mk2 (- re_ x) (fun v => - gr_ x v) (fun u v => - hs_ x u v).
(* mul.rs (Dual2): dual2 = a.dual2 * b.real + b.dual2 * a.real + 0.5 * (a.dual b.dual^T + its transpose) *)
Definition d2mul_ (x y : D2) : D2 :=
  mk2 (re_ x * re_ y)
      (fun v => gr_ x v * re_ y + gr_ y v * re_ x)
      (fun u v => hs_ x u v * re_ y + hs_ y u v * re_ x
                  + /2 * (gr_ x u * gr_ y v + gr_ x v * gr_ y u)).
(* div.rs: a * b.pow(-1.0); pow.rs at power -1: coeff = -1 * re^-2, coeff2 = 0.5 * (-1) * (-2) * re^-3,
   dual = dual * coeff, dual2 = dual2 * coeff + (dual dual^T) * coeff2 *)
Definition d2inv_ (x : D2) : D2 :=
  mk2 (/ re_ x)
      (fun v => gr_ x v * (- / (re_ x * re_ x)))
      (fun u v => hs_ x u v * (- / (re_ x * re_ x)) + gr_ x u * gr_ x v * / (re_ x * re_ x * re_ x)).

Lemma d2_eq (x y : D2) : re_ x = re_ y -> (forall v, gr_ x v = gr_ y v) ->
  (forall u v, hs_ x u v = hs_ y u v) -> x = y.
Proof.
  destruct x as [[a g] h], y as [[b g'] h']; unfold re_, gr_, hs_; cbn. intros -> H1 H2.
  f_equal; [f_equal|].
  - apply functional_extensionality. exact H1.
  - apply functional_extensionality. intros u. apply functional_extensionality. apply H2.
Qed.
Ltac d2_ring := intros; apply d2_eq; [cbn; try ring | intros; cbn; try ring | intros; cbn; try field].

Lemma D2_ring_theory : ring_theory d2zero_ d2one_ d2add_ d2mul_ d2sub_ d2opp_ (@eq D2).
Proof. constructor; d2_ring. Qed.
Lemma D2_inv (u : D2) : re_ u <> 0 -> d2mul_ u (d2inv_ u) = d2one_.
Proof.
  intros H. apply d2_eq; [cbn; field; auto | intros; cbn; field; auto | intros; cbn; field; auto].
Qed.

#[global] Instance CRing_D2 : CRing D2 := {|
  rzero := d2zero_; rone := d2one_; radd := d2add_; rmul := d2mul_; rsub := d2sub_; ropp := d2opp_;
  rinv := d2inv_; runit := fun u => re_ u <> 0;
  r_th := D2_ring_theory;
  r_inv := D2_inv |}.

Definition d2const (c : R) : D2 := mk2 c (fun _ => 0) (fun _ _ => 0).
(* f64 * Dual2 (mul.rs): real * b, b * dual, b * dual2 *)
Definition d2scale (c : R) (x : D2) : D2 :=
  mk2 (re_ x * c) (fun v => c * gr_ x v) (fun u v => c * hs_ x u v).
Lemma d2const_add a b : d2const (a + b) = d2add_ (d2const a) (d2const b).
Proof. d2_ring. Qed.
Lemma d2const_mul a b : d2const (a * b) = d2mul_ (d2const a) (d2const b).
Proof. d2_ring. Qed.
Lemma d2const_one : d2const 1 = d2one_.
Proof. reflexivity. Qed.
Lemma d2scale_spec c x : d2scale c x = d2mul_ (d2const c) x.
Proof. d2_ring. Qed.

(* ------------------------------------------------------------------ extension over R:
   a matrix with trivial kernel has only non-zero pivots under the code's |.|-comparison *)
Lemma cmpR_cases a b :
  (cmpR a b = Some Lt /\ Rabs a < Rabs b) \/ (cmpR a b = Some Gt /\ Rabs b < Rabs a) \/
  (cmpR a b = Some Eq /\ Rabs a = Rabs b).
Proof.
  unfold cmpR, num_pcmp. cbn [nltb neqb NumR]. unfold Rltb, Reqb.
  destruct (Rlt_dec (Rabs a) (Rabs b)); [left; auto|].
  destruct (Rlt_dec (Rabs b) (Rabs a)); [right; left; auto|].
  right; right. destruct (Req_EM_T (Rabs a) (Rabs b)); [auto|lra].
Qed.

Lemma go_R : forall (l : list R) best bi i,
  exists k, argabsmax_go (O := ops_cring cmpR) best bi i l = Ok k /\
  exists v, Rabs best <= Rabs v /\ (forall y, In y l -> Rabs y <= Rabs v) /\
    ((k = bi /\ v = best) \/ ((i <= k)%nat /\ (k - i < length l)%nat /\ nth (k - i) l 0 = v)).
Proof.
  induction l as [|y l IH]; intros best bi i; cbn [argabsmax_go].
  - exists bi. split; auto. exists best. split; [lra|]. split; [intros y []|]. left; auto.
  - cbn [ocmp_abs ops_cring].
    destruct (cmpR_cases best y) as [[-> H]|[[-> H]|[-> H]]].
    + destruct (IH y i (S i)) as (k & Ek & v & H1 & H2 & H3). exists k. split; auto.
      exists v. split; [lra|]. split.
      * intros y' [<-|Hy]; auto.
      * right. destruct H3 as [[-> ->]|(Ha & Hb & Hc)].
        -- rewrite Nat.sub_diag. cbn. repeat split; auto; lia.
        -- replace (k - i)%nat with (S (k - S i)) by lia. cbn [nth length]. repeat split; auto; lia.
    + destruct (IH best bi (S i)) as (k & Ek & v & H1 & H2 & H3). exists k. split; auto.
      exists v. split; [lra|]. split.
      * intros y' [<-|Hy]; auto. lra.
      * destruct H3 as [[-> ->]|(Ha & Hb & Hc)]; [left; auto|right].
        replace (k - i)%nat with (S (k - S i)) by lia. cbn [nth length]. repeat split; auto; lia.
    + destruct (IH y i (S i)) as (k & Ek & v & H1 & H2 & H3). exists k. split; auto.
      exists v. split; [lra|]. split.
      * intros y' [<-|Hy]; auto.
      * right. destruct H3 as [[-> ->]|(Ha & Hb & Hc)].
        -- rewrite Nat.sub_diag. cbn. repeat split; auto; lia.
        -- replace (k - i)%nat with (S (k - S i)) by lia. cbn [nth length]. repeat split; auto; lia.
Qed.

Lemma cmpR_total : forall l : list R, l <> [] -> exists k, argabsmax (O := ops_cring cmpR) l = Ok k.
Proof.
  intros [|x r] H; [contradiction|]. cbn [argabsmax].
  destruct (go_R r x 0%nat 1%nat) as (k & Ek & _). eauto.
Qed.
Lemma cmpR_max : forall (l : list R) k, argabsmax (O := ops_cring cmpR) l = Ok k -> nth k l 0 = 0 ->
  forall i, (i < length l)%nat -> nth i l 0 = 0.
Proof.
  intros [|x r] k; cbn [argabsmax]; [discriminate|]. intros Ek Hz i Hi.
  destruct (go_R r x 0%nat 1%nat) as (k' & Ek' & v & H1 & H2 & H3).
  rewrite Ek in Ek'. inversion Ek'; subst k'. clear Ek'.
  assert (Hv : v = 0).
  { destruct H3 as [[-> ->]|(Ha & Hb & Hc)]; [exact Hz|].
    rewrite <- Hc. destruct k; [lia|]. cbn [nth] in Hz. replace (S k - 1)%nat with k by lia. exact Hz. }
  subst v. rewrite Rabs_R0 in *.
  assert (Z : forall y, Rabs y <= 0 -> y = 0).
  { intros y Hy. pose proof (Rabs_pos y). destruct (Req_dec y 0); auto.
    pose proof (Rabs_pos_lt y H0). lra. }
  destruct i; cbn [nth]; [apply Z; auto|]. apply Z, H2. apply nth_In. cbn in Hi. lia.
Qed.

Definition zerosR (n : nat) : list R := repeat 0 n.

Theorem nonsingular_R n (a : list (list R)) : shape n a ->
  (forall y, length y = n -> mat_vec (O := ops_cring cmpR) a y = zerosR n -> y = zerosR n) ->
  pivots_are_units cmpR n a.
Proof.
  intros Sh HK.
  apply (nonsingular_pivots_are_units (F := R) (E := R) (CF := CRing_R) (CE := CRing_R) cmpR cmpR (fun x => x)
           (fun _ _ => eq_refl) (fun _ _ => eq_refl) eq_refl
           Rmult (fun _ _ => eq_refl) (fun v u => v * / u)).
  - intros v u Hu. cbn. field. exact Hu.
  - intros u Hu. exact Hu.
  - cbn. lra.
  - exact cmpR_total.
  - exact cmpR_max.
  - exact Sh.
  - intros y Ly Hy i Hi.
    rewrite (HK y Ly).
    + exact (nth_zerosE (CE := CRing_R) n i).
    + apply (gmat_vec_sol (CF := CRing_R) (CE := CRing_R) cmpR (fun x => x)
               Rmult (fun _ _ => eq_refl) n a (zerosR n) y); auto.
      apply repeat_length.
Qed.

(* ------------------------------------------------------------------ the headline statements over R,
   for the model's own operations at T := R (`ops_num` of Model/Linalg.v at Base/NumR.v) *)
Definition nonsingular (n : nat) (a : list (list R)) : Prop :=
  forall y, length y = n -> mat_vec (O := @ops_num R NumR) a y = zerosR n -> y = zerosR n.

Theorem solve_R n (a : list (list R)) (b : list R) : shape n a -> length b = n -> nonsingular n a ->
  exists x, dsolve (O := @ops_num R NumR) a b false = Ok x /\ length x = n /\
    mat_vec (O := @ops_num R NumR) a x = b /\
    forall y, length y = n -> mat_vec (O := @ops_num R NumR) a y = b -> y = x.
Proof.
  unfold nonsingular. rewrite ops_num_R. intros Sh Lb HK.
  pose proof (nonsingular_R n a Sh HK) as HP.
  destruct (dsolve21_correct cmpR n a b Sh Lb HP) as (x & E1 & L & H & U).
  exists x. cbn [dsolve]. auto.
Qed.

Lemma mv_zero (a : list (list R)) y :
  mat_vec (O := ops_cring cmpR) a y = zerosR (length a) <->
  Forall (fun r => dot (O := ops_cring cmpR) r y = 0) a.
Proof.
  unfold mat_vec, gmat_vec, zerosR. induction a as [|r a IH]; cbn [map length repeat].
  - split; auto.
  - rewrite Forall_cons_iff, <- IH. split.
    + intros H; inversion H as [[H1 H2]]. rewrite H1, H2. split; auto.
    + intros [H1 H2]. unfold dot in H1. rewrite H1, H2. reflexivity.
Qed.
Lemma map_fst_combine' {A B} (a : list A) : forall b : list B, length a = length b -> map fst (combine a b) = a.
Proof. induction a; intros [|y b] L; cbn in *; try discriminate; auto. f_equal. apply IHa. lia. Qed.

Lemma nonsingular_perm n (a a' : list (list R)) : length a = n -> length a' = n ->
  Permutation.Permutation a a' -> nonsingular n a -> nonsingular n a'.
Proof.
  unfold nonsingular. rewrite ops_num_R. intros L L' HP HK y Ly Hy. apply HK; auto.
  rewrite <- L. apply mv_zero. rewrite <- L' in Hy. apply mv_zero in Hy.
  eapply Permutation.Permutation_Forall; [apply Permutation.Permutation_sym; exact HP | exact Hy].
Qed.

Theorem rows_R n (a a' : list (list R)) (b b' : list R) :
  shape n a -> length b = n -> shape n a' -> length b' = n -> nonsingular n a ->
  Permutation.Permutation (combine a b) (combine a' b') ->
  dsolve (O := @ops_num R NumR) a' b' false = dsolve (O := @ops_num R NumR) a b false.
Proof.
  intros Sh Lb Sh' Lb' HK HP.
  assert (HK' : nonsingular n a').
  { apply (nonsingular_perm n a a'); [apply Sh | apply Sh' | | exact HK].
    rewrite <- (map_fst_combine' a b), <- (map_fst_combine' a' b').
    - apply Permutation.Permutation_map. exact HP.
    - destruct Sh'; lia.
    - destruct Sh; lia. }
  revert HK HK'. unfold nonsingular. rewrite ops_num_R. intros HK HK'.
  apply (dsolve_rows cmpR n a b a' b'); auto; apply nonsingular_R; auto.
Qed.

(* ------------------------------------------------------------------ what the ring equation says in
   D1 / D2, component by component *)
Definition Rsum := @lsum R CRing_R.
Lemma d1_lsum_fst l (h : nat -> D1) : fst (@lsum D1 CRing_D1 l h) = Rsum l (fun k => fst (h k)).
Proof. induction l; cbn; auto. rewrite IHl. reflexivity. Qed.
Lemma d1_lsum_snd l (h : nat -> D1) v : snd (@lsum D1 CRing_D1 l h) v = Rsum l (fun k => snd (h k) v).
Proof. induction l; cbn; auto. rewrite IHl. reflexivity. Qed.
Lemma d2_lsum_re l (h : nat -> D2) : re_ (@lsum D2 CRing_D2 l h) = Rsum l (fun k => re_ (h k)).
Proof. induction l; cbn; auto. unfold re_ in *. cbn. rewrite IHl. reflexivity. Qed.
Lemma d2_lsum_gr l (h : nat -> D2) v : gr_ (@lsum D2 CRing_D2 l h) v = Rsum l (fun k => gr_ (h k) v).
Proof. induction l; cbn; auto. unfold gr_ in *. cbn. rewrite IHl. reflexivity. Qed.
Lemma d2_lsum_hs l (h : nat -> D2) u v : hs_ (@lsum D2 CRing_D2 l h) u v = Rsum l (fun k => hs_ (h k) u v).
Proof. induction l; cbn; auto. unfold hs_ in *. cbn. rewrite IHl. reflexivity. Qed.

(* entries by index *)
Definition A1 (a : list (list D1)) i k : D1 := mget d1zero a i k.
Definition V1 (x : list D1) k : D1 := nth k x d1zero.
Definition A2 (a : list (list D2)) i k : D2 := mget d2zero_ a i k.
Definition V2 (x : list D2) k : D2 := nth k x d2zero_.

Theorem dual1_meaning cmp n (a : list (list D1)) (b x : list D1) :
  shape n a -> length b = n -> length x = n ->
  mat_vec (O := ops_cring (CR := CRing_D1) cmp) a x = b ->
  forall i, (i < n)%nat ->
    (* value *)
    Rsum (seq 0 n) (fun k => fst (A1 a i k) * fst (V1 x k)) = fst (V1 b i) /\
    (* derivative with respect to every name v: the differentiated system *)
    forall v, Rsum (seq 0 n) (fun k => snd (A1 a i k) v * fst (V1 x k) + snd (V1 x k) v * fst (A1 a i k))
              = snd (V1 b i) v.
Proof.
  intros Sh Lb Lx H i Hi.
  apply (gmat_vec_sol (CF := CRing_D1) (CE := CRing_D1) cmp (fun z => z) d1mul (fun _ _ => eq_refl)
           n a b x Sh Lb Lx) in H.
  specialize (H i Hi). unfold rowsum in H. unfold V1, A1. cbn [rzero CRing_D1] in H. rewrite <- H.
  split; [rewrite d1_lsum_fst | intros v; rewrite d1_lsum_snd]; reflexivity.
Qed.

Theorem dual2_meaning cmp n (a : list (list D2)) (b x : list D2) :
  shape n a -> length b = n -> length x = n ->
  mat_vec (O := ops_cring (CR := CRing_D2) cmp) a x = b ->
  forall i, (i < n)%nat ->
    Rsum (seq 0 n) (fun k => re_ (A2 a i k) * re_ (V2 x k)) = re_ (V2 b i) /\
    (forall v, Rsum (seq 0 n) (fun k => gr_ (A2 a i k) v * re_ (V2 x k) + gr_ (V2 x k) v * re_ (A2 a i k))
               = gr_ (V2 b i) v) /\
    (* second order, in the stored half-Hessian convention: hs = (1/2) d^2/du dv *)
    (forall u v, Rsum (seq 0 n) (fun k =>
         hs_ (A2 a i k) u v * re_ (V2 x k) + hs_ (V2 x k) u v * re_ (A2 a i k)
         + / 2 * (gr_ (A2 a i k) u * gr_ (V2 x k) v + gr_ (A2 a i k) v * gr_ (V2 x k) u))
       = hs_ (V2 b i) u v).
Proof.
  intros Sh Lb Lx H i Hi.
  apply (gmat_vec_sol (CF := CRing_D2) (CE := CRing_D2) cmp (fun z => z) d2mul_ (fun _ _ => eq_refl)
           n a b x Sh Lb Lx) in H.
  specialize (H i Hi). unfold rowsum in H. unfold V2, A2. cbn [rzero CRing_D2] in H. rewrite <- H.
  split; [rewrite d2_lsum_re; reflexivity|].
  split; [intros v; rewrite d2_lsum_gr; reflexivity | intros u v; rewrite d2_lsum_hs; reflexivity].
Qed.

(* ------------------------------------------------------------------ dual-valued systems whose
   real-part matrix is non-singular.  cmp1 / cmp2 = the code's comparison for Dual / Dual2
   (signed.rs abs + ord.rs partial_cmp: |real part| only). *)
Definition cmp1 (x y : D1) : option comparison := cmpR (fst x) (fst y).
Definition cmp2 (x y : D2) : option comparison := cmpR (re_ x) (re_ y).

Lemma shape_map {A B} (f : A -> B) n (a : list (list A)) : shape n a -> shape n (map (map f) a).
Proof.
  intros [L R]. split; [rewrite map_length; auto|]. intros i Hi.
  rewrite (map_nth (map f) a [] i : nth i (map (map f) a) [] = map f (nth i a [])).
  rewrite map_length. auto.
Qed.

Lemma pivots_dual1 n (a : list (list D1)) : shape n a -> nonsingular n (map (map fst) a) ->
  pivots_are_units (CF := CRing_D1) cmp1 n a.
Proof.
  intros Sh NS.
  apply (pivots_are_units_mapm (CF := CRing_D1) (CG := CRing_R) cmp1 cmpR fst
           eq_refl (fun _ _ => eq_refl) (fun _ _ => eq_refl) (fun _ => eq_refl) (fun _ _ => eq_refl)
           (fun _ => conj (fun H => H) (fun H => H))).
  apply nonsingular_R; [apply shape_map; auto|].
  unfold nonsingular in NS. rewrite ops_num_R in NS. exact NS.
Qed.
Lemma pivots_dual2 n (a : list (list D2)) : shape n a -> nonsingular n (map (map re_) a) ->
  pivots_are_units (CF := CRing_D2) cmp2 n a.
Proof.
  intros Sh NS.
  apply (pivots_are_units_mapm (CF := CRing_D2) (CG := CRing_R) cmp2 cmpR re_
           eq_refl (fun _ _ => eq_refl) (fun _ _ => eq_refl) (fun _ => eq_refl) (fun _ _ => eq_refl)
           (fun _ => conj (fun H => H) (fun H => H))).
  apply nonsingular_R; [apply shape_map; auto|].
  unfold nonsingular in NS. rewrite ops_num_R in NS. exact NS.
Qed.

Theorem solve_dual1 n (a : list (list D1)) (b : list D1) :
  shape n a -> length b = n -> nonsingular n (map (map fst) a) ->
  exists x, dsolve (O := ops_cring cmp1) a b false = Ok x /\ length x = n /\
    mat_vec (O := ops_cring cmp1) a x = b /\
    forall y, length y = n -> mat_vec (O := ops_cring cmp1) a y = b -> y = x.
Proof. intros Sh Lb NS. exact (dsolve21_correct cmp1 n a b Sh Lb (pivots_dual1 n a Sh NS)). Qed.
Theorem solve_dual2 n (a : list (list D2)) (b : list D2) :
  shape n a -> length b = n -> nonsingular n (map (map re_) a) ->
  exists x, dsolve (O := ops_cring cmp2) a b false = Ok x /\ length x = n /\
    mat_vec (O := ops_cring cmp2) a x = b /\
    forall y, length y = n -> mat_vec (O := ops_cring cmp2) a y = b -> y = x.
Proof. intros Sh Lb NS. exact (dsolve21_correct cmp2 n a b Sh Lb (pivots_dual2 n a Sh NS)). Qed.

(* fdsolve: real matrix, Dual / Dual2 right-hand side *)
Theorem mixed_dual1 cmpE n (a : list (list R)) (b : list D1) :
  shape n a -> length b = n -> nonsingular n a ->
  exists x, fdsolve (OF := ops_cring cmpR) (OT := ops_cring cmpE) d1scale a b false = Ok x /\ length x = n /\
    fmat_vec (OT := ops_cring cmpE) d1scale a x = b /\
    forall y, length y = n -> fmat_vec (OT := ops_cring cmpE) d1scale a y = b -> y = x.
Proof.
  intros Sh Lb NS. unfold nonsingular in NS. rewrite ops_num_R in NS.
  exact (fdsolve21_correct cmpR cmpE d1const d1const_add d1const_mul d1const_one d1scale d1scale_spec
           n a b Sh Lb (nonsingular_R n a Sh NS)).
Qed.
Theorem mixed_dual2 cmpE n (a : list (list R)) (b : list D2) :
  shape n a -> length b = n -> nonsingular n a ->
  exists x, fdsolve (OF := ops_cring cmpR) (OT := ops_cring cmpE) d2scale a b false = Ok x /\ length x = n /\
    fmat_vec (OT := ops_cring cmpE) d2scale a x = b /\
    forall y, length y = n -> fmat_vec (OT := ops_cring cmpE) d2scale a y = b -> y = x.
Proof.
  intros Sh Lb NS. unfold nonsingular in NS. rewrite ops_num_R in NS.
  exact (fdsolve21_correct cmpR cmpE d2const d2const_add d2const_mul d2const_one d2scale d2scale_spec
           n a b Sh Lb (nonsingular_R n a Sh NS)).
Qed.
