(* vm_compute check of one generated table against Model/Rules.v (its own file so that `make -j` runs them in parallel) *)
From Coq Require Import ZArith List Bool String.
From RL Require Import Base.Outcome Model.Rules Model.RuleChecks Gen.Fixings Proofs.RulesP.
Open Scope string_scope.

Lemma fix_aud_ok : fix_spec "syd" fixings_aud.
Proof. apply (fix_check_spec "aud"). vm_cast_no_check (eq_refl true). Qed.
Lemma fix_gbp_ok : fix_spec "ldn" fixings_gbp.
Proof. apply (fix_check_spec "gbp"). vm_cast_no_check (eq_refl true). Qed.
