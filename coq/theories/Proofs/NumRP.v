(* Facts about the real-number instance: powf, the normal density / distribution function and the
   R-specialised Coquelicot derivative rules used by the AD exactness proofs. *)
From Coq Require Import Reals Ranalysis5 ZArith List Lra Lia ClassicalEpsilon.
From Coquelicot Require Import Coquelicot.
From RL Require Import Base.Num Base.NumR Model.Dual.
Open Scope R_scope.

(* ------------------------------------------------------------------ derivative rules over R *)
Lemma dR_plus f g x df dg : is_derive f x df -> is_derive g x dg -> is_derive (fun t:R => f t + g t) x (df + dg).
Proof. intros; apply (is_derive_plus (K:=R_AbsRing) (V:=R_NormedModule) f g x df dg); auto. Qed.
Lemma dR_minus f g x df dg : is_derive f x df -> is_derive g x dg -> is_derive (fun t:R => f t - g t) x (df - dg).
Proof. intros; apply (is_derive_minus (K:=R_AbsRing) (V:=R_NormedModule) f g x df dg); auto. Qed.
Lemma dR_opp f x df : is_derive f x df -> is_derive (fun t:R => - f t) x (- df).
Proof. intros; apply (is_derive_opp (K:=R_AbsRing) (V:=R_NormedModule) f x df); auto. Qed.
Lemma dR_mult f g x df dg : is_derive f x df -> is_derive g x dg -> is_derive (fun t:R => f t * g t) x (df * g x + dg * f x).
Proof. intros. evar_last. apply (is_derive_mult (K:=R_AbsRing) f g x df dg); auto. intros; apply Rmult_comm.
  unfold plus, mult; simpl. ring. Qed.
Lemma dR_comp (f g : R -> R) x df dg : is_derive f (g x) df -> is_derive g x dg -> is_derive (fun t:R => f (g t)) x (dg * df).
Proof. intros. apply (is_derive_comp (K:=R_AbsRing) (V:=R_NormedModule) f g x df dg); auto. Qed.
Lemma dR_const (c x : R) : is_derive (fun _ : R => c) x 0.
Proof. apply (is_derive_const (K:=R_AbsRing) (V:=R_NormedModule) c x). Qed.
Lemma dR_id (x : R) : is_derive (fun t : R => t) x 1.
Proof. apply (is_derive_id (K:=R_AbsRing) x). Qed.
Lemma dR_inv f x df : is_derive f x df -> f x <> 0 -> is_derive (fun t:R => / f t) x (df * (-1 * / (f x * f x))).
Proof. intros. evar_last. apply is_derive_inv; eauto. field; auto. Qed.
Lemma dR_scal c f x df : is_derive f x df -> is_derive (fun t:R => c * f t) x (c * df).
Proof. intros. evar_last. apply (dR_mult (fun _ => c) f); [apply dR_const | eauto]. cbv beta; ring. Qed.
Lemma dR_ext_loc (f g : R -> R) x l : locally x (fun y => f y = g y) -> is_derive f x l -> is_derive g x l.
Proof. intros. eapply (is_derive_ext_loc (K:=R_AbsRing) (V:=R_NormedModule)); eauto. Qed.

Lemma locally_pos (f : R -> R) x : continuous f x -> 0 < f x -> locally x (fun y => 0 < f y).
Proof. intros Hc Hp. apply (Hc (fun z => 0 < z)). apply (open_gt 0); auto. Qed.
Lemma locally_neg (f : R -> R) x : continuous f x -> f x < 0 -> locally x (fun y => f y < 0).
Proof. intros Hc Hp. apply (Hc (fun z => z < 0)). apply (open_lt 0); auto. Qed.
Lemma derive_continuous (f : R -> R) x l : is_derive f x l -> continuous f x.
Proof. intros H. apply (ex_derive_continuous (K:=R_AbsRing) (V:=R_NormedModule)). eexists; eauto. Qed.

(* ------------------------------------------------------------------ integer part *)
Lemma Int_part_IZR k : Int_part (IZR k) = k.
Proof.
  unfold Int_part. assert (up (IZR k) = (k + 1)%Z); [|lia].
  symmetry. apply tech_up; rewrite plus_IZR; lra.
Qed.
Lemma is_intR_IZR k : is_intR (IZR k) = true.
Proof. unfold is_intR, Reqb. rewrite Int_part_IZR. destruct (Req_EM_T (IZR k) (IZR k)); congruence. Qed.
Lemma is_intR_true p : is_intR p = true -> p = IZR (Int_part p).
Proof. unfold is_intR, Reqb. destruct (Req_EM_T p (IZR (Int_part p))); congruence. Qed.

(* ------------------------------------------------------------------ powf *)
Lemma Rpowf_pos x p : 0 < x -> Rpowf x p = Rpower x p.
Proof. intros H. unfold Rpowf. destruct (Rlt_dec 0 x); [reflexivity|contradiction]. Qed.
Lemma Rpowf_neg x k : x < 0 ->
  Rpowf x (IZR k) = (if Z.even k then 1 else -1) * Rpower (- x) (IZR k).
Proof.
  intros H. unfold Rpowf. destruct (Rlt_dec 0 x); [lra|]. destruct (Rlt_dec x 0); [|contradiction].
  rewrite is_intR_IZR, Int_part_IZR. reflexivity.
Qed.
(* where powf is differentiable in its base AND the coded derivative p * x^(p-1) is finite:
   positive base; negative base with an integer exponent; base 0 with an exponent 0, 1, 2, 3, ... (for exponent 0 the code multiplies by 0.0 without
   evaluating x^(-1)) *)
Definition pow_dom (x p : R) : Prop :=
  0 < x \/ (x < 0 /\ is_intR p = true) \/ (x = 0 /\ exists n : nat, p = INR n).

Lemma INR_IZR n : INR n = IZR (Z.of_nat n).
Proof. apply INR_IZR_INZ. Qed.
Lemma Rpowf_0 y : Rpowf y 0 = 1.
Proof.
  unfold Rpowf. destruct (Rlt_dec 0 y) as [H|H].
  - unfold Rpower. rewrite Rmult_0_l. apply exp_0.
  - destruct (Rlt_dec y 0) as [H2|H2].
    + change 0 with (IZR 0) at 1 2 3. rewrite is_intR_IZR, Int_part_IZR. cbn [Z.even].
      unfold Rpower. rewrite Rmult_0_l, exp_0. ring.
    + destruct (Req_EM_T 0 0); [reflexivity|congruence].
Qed.
(* natural exponents n >= 1: powf is the ordinary power for EVERY base, 0 and negatives included *)
Lemma Rpowf_nat y n : (1 <= n)%nat -> Rpowf y (INR n) = y ^ n.
Proof.
  intros Hn. destruct (Rtotal_order 0 y) as [H|[H|H]].
  - rewrite Rpowf_pos by exact H. apply Rpower_pow. exact H.
  - subst. unfold Rpowf. destruct (Rlt_dec 0 0); [lra|]. destruct (Rlt_dec 0 0); [lra|].
    destruct (Req_EM_T (INR n) 0) as [E|E].
    + exfalso. assert (0 < INR n) by (apply lt_0_INR; lia). lra.
    + destruct n; [lia|]. cbn. ring.
  - rewrite INR_IZR. rewrite Rpowf_neg by exact H. rewrite <- INR_IZR.
    rewrite Rpower_pow by lra.
    destruct (Z.even (Z.of_nat n)) eqn:E.
    + rewrite Z.even_spec in E. destruct E as [k E]. assert (n = (2 * Z.to_nat k)%nat) by lia. subst n.
      rewrite !pow_mult. replace ((- y) ^ 2) with (y ^ 2) by ring. ring.
    + assert (O : Z.odd (Z.of_nat n) = true) by (rewrite <- Z.negb_even, E; reflexivity).
      rewrite Z.odd_spec in O. destruct O as [k O]. assert (n = (2 * Z.to_nat k + 1)%nat) by lia. subst n.
      rewrite !pow_add, !pow_mult. replace ((- y) ^ 2) with (y ^ 2) by ring. cbn. ring.
Qed.
Lemma is_derive_Rpower_l p x : 0 < x -> is_derive (fun y => Rpower y p) x (p * Rpower x (p - 1)).
Proof. intros H. apply is_derive_Reals. apply derivable_pt_lim_power. exact H. Qed.

Lemma is_derive_Rpowf p x : pow_dom x p -> is_derive (fun y => Rpowf y p) x (p * Rpowf x (p - 1)).
Proof.
  intros [H|[[H I]|[H [n Hp]]]].
  - apply dR_ext_loc with (f := fun y => Rpower y p).
    + generalize (locally_pos (fun y => y) x (derive_continuous _ _ _ (dR_id x)) H).
      apply filter_imp. intros y Hy. symmetry. apply Rpowf_pos. exact Hy.
    + rewrite Rpowf_pos by exact H. apply is_derive_Rpower_l. exact H.
  - pose proof (is_intR_true p I) as E. set (k := Int_part p) in *.
    assert (E1 : p - 1 = IZR (k - 1)) by (rewrite minus_IZR; lra).
    rewrite E1, E. rewrite (Rpowf_neg x (k - 1) H).
    apply dR_ext_loc with (f := fun y => (if Z.even k then 1 else -1) * Rpower (- y) (IZR k)).
    + generalize (locally_neg (fun y => y) x (derive_continuous _ _ _ (dR_id x)) H).
      apply filter_imp. intros y Hy. symmetry. apply Rpowf_neg. exact Hy.
    + evar_last.
      * apply dR_scal. apply (dR_comp (fun z => Rpower z (IZR k)) (fun y => - y)).
        -- apply is_derive_Rpower_l. lra.
        -- apply dR_opp. apply dR_id.
      * rewrite <- E1, <- E. replace (k - 1)%Z with (Z.pred k) by lia. rewrite Z.even_pred.
        rewrite <- Z.negb_even. destruct (Z.even k); cbn; ring.
  - (* base 0, natural exponent n: the function is y ^ n everywhere *)
    subst x p. destruct n as [|n].
    + (* exponent 0: constant 1 *)
      apply dR_ext_loc with (f := fun _ => 1).
      * apply filter_forall. intros y. symmetry. apply Rpowf_0.
      * evar_last; [apply dR_const|cbn; ring].
    + apply dR_ext_loc with (f := fun y => y ^ (S n)).
      * apply filter_forall. intros y. symmetry. apply Rpowf_nat. lia.
      * evar_last.
        -- apply (is_derive_pow (fun y => y) (S n) 0 1). apply dR_id.
        -- destruct n as [|m].
           ++ cbn. replace (1 - 1) with 0 by ring. rewrite Rpowf_0. ring.
           ++ replace (INR (S (S m)) - 1) with (INR (S m)) by (rewrite (S_INR (S m)); ring).
              rewrite Rpowf_nat by lia. cbn [pred Nat.pred]. ring.
Qed.

Lemma Rpowf_2 x : Rpowf x 2 = x * x.
Proof.
  destruct (Rtotal_order 0 x) as [H|[H|H]].
  - rewrite Rpowf_pos by exact H. replace 2 with (INR 2) by (cbn; lra). rewrite Rpower_pow by exact H. cbn; ring.
  - subst. unfold Rpowf. destruct (Rlt_dec 0 0); [lra|]. destruct (Rlt_dec 0 0); [lra|].
    destruct (Req_EM_T 2 0); [lra|ring].
  - change 2 with (IZR 2). rewrite Rpowf_neg by exact H. cbn [Z.even].
    replace (IZR 2) with (INR 2) by (cbn; lra). rewrite Rpower_pow by lra. cbn; ring.
Qed.
Lemma Rpowf_m1 x : x <> 0 -> Rpowf x (-1) = / x.
Proof.
  intros N. destruct (Rtotal_order 0 x) as [H|[H|H]]; [|congruence|].
  - rewrite Rpowf_pos by exact H. replace (-1) with (Ropp 1) by lra.
    rewrite Rpower_Ropp, Rpower_1 by exact H. reflexivity.
  - change (-1) with (IZR (-1)). rewrite Rpowf_neg by exact H. cbn [Z.even].
    replace (IZR (-1)) with (Ropp 1) by lra. rewrite Rpower_Ropp, Rpower_1 by lra. field. lra.
Qed.
Lemma Rpowf_m2 x : x <> 0 -> Rpowf x (-1 - 1) = / (x * x).
Proof.
  intros N. replace (-1 - 1) with (IZR (-2)) by (cbn; lra).
  destruct (Rtotal_order 0 x) as [H|[H|H]]; [|congruence|].
  - rewrite Rpowf_pos by exact H. replace (IZR (-2)) with (- INR 2) by (cbn; lra).
    rewrite Rpower_Ropp, Rpower_pow by exact H. cbn. field. lra.
  - rewrite Rpowf_neg by exact H. cbn [Z.even]. replace (IZR (-2)) with (- INR 2) by (cbn; lra).
    rewrite Rpower_Ropp, Rpower_pow by lra. cbn. field. lra.
Qed.
Lemma Rpowf_m3 x : x <> 0 -> Rpowf x (-1 - 2) = / (x * x * x).
Proof.
  intros N. replace (-1 - 2) with (IZR (-3)) by (cbn; lra).
  destruct (Rtotal_order 0 x) as [H|[H|H]]; [|congruence|].
  - rewrite Rpowf_pos by exact H. replace (IZR (-3)) with (- INR 3) by (cbn; lra).
    rewrite Rpower_Ropp, Rpower_pow by exact H. cbn. field. lra.
  - rewrite Rpowf_neg by exact H. cbn [Z.even]. replace (IZR (-3)) with (- INR 3) by (cbn; lra).
    rewrite Rpower_Ropp, Rpower_pow by lra. cbn. field. lra.
Qed.
Lemma pow_dom_m1 x : x <> 0 -> pow_dom x (-1).
Proof.
  intros N. destruct (Rtotal_order 0 x) as [H|[H|H]]; [left; auto|congruence|].
  right. left. split; auto. change (-1) with (IZR (-1)). apply is_intR_IZR.
Qed.

(* ------------------------------------------------------------------ normal density / cdf *)
Lemma Rphi_pos x : 0 < Rphi x.
Proof.
  unfold Rphi. apply Rmult_lt_0_compat; [|apply exp_pos].
  apply Rinv_0_lt_compat. apply sqrt_lt_R0. pose proof PI_RGT_0. lra.
Qed.
Lemma Rphi_continuous x : continuous Rphi x.
Proof.
  apply (ex_derive_continuous (K:=R_AbsRing) (V:=R_NormedModule)).
  unfold Rphi. auto_derive. auto.
Qed.
Lemma Rphi_ex_RInt a b : ex_RInt Rphi a b.
Proof. apply (ex_RInt_continuous (V:=R_CompleteNormedModule)). intros z _. apply Rphi_continuous. Qed.
Lemma is_derive_Rncdf x : is_derive Rncdf x (Rphi x).
Proof.
  unfold Rncdf. evar_last.
  - apply dR_plus; [apply dR_const|].
    apply (is_derive_RInt (V:=R_NormedModule) Rphi (fun b => RInt Rphi 0 b) 0 x).
    + apply filter_forall. intros b. apply (RInt_correct (V:=R_CompleteNormedModule)). apply Rphi_ex_RInt.
    + apply Rphi_continuous.
  - ring.
Qed.
Lemma cdf_scalar_phi x : cdf_scalar x = Rphi x.
Proof.
  unfold cdf_scalar, Rphi, n2, nhalf. cbn. rewrite Rpowf_2. f_equal; [field|f_equal; field].
  apply Rgt_not_eq. apply sqrt_lt_R0. pose proof PI_RGT_0. lra.
Qed.

(* ------------------------------------------------------------------ the inverse normal cdf *)
Lemma Rncdf_diff x y : Rncdf y - Rncdf x = RInt Rphi x y.
Proof.
  unfold Rncdf.
  pose proof (RInt_Chasles (V:=R_CompleteNormedModule) Rphi 0 x y (Rphi_ex_RInt 0 x) (Rphi_ex_RInt x y)) as C.
  change (RInt Rphi 0 x + RInt Rphi x y = RInt Rphi 0 y) in C. lra.
Qed.
Lemma Rncdf_incr x y : x < y -> Rncdf x < Rncdf y.
Proof.
  intros L. assert (0 < RInt Rphi x y); [|rewrite <- Rncdf_diff in H; lra].
  apply RInt_gt_0; auto.
  - intros z _. apply Rphi_pos.
  - intros z _. apply Rphi_continuous.
Qed.
Lemma Rncdf_inj x y : Rncdf x = Rncdf y -> x = y.
Proof.
  intros E. destruct (Rtotal_order x y) as [L|[L|L]]; auto;
    apply Rncdf_incr in L; lra.
Qed.
Lemma Rnicdf_ncdf x : Rnicdf (Rncdf x) = x.
Proof.
  unfold Rnicdf. apply Rncdf_inj.
  apply (epsilon_spec (inhabits 0) (fun z => Rncdf z = Rncdf x)). exists x. reflexivity.
Qed.
Lemma Rncdf_derivable x : derivable_pt Rncdf x.
Proof. exists (Rphi x). apply is_derive_Reals. apply is_derive_Rncdf. Qed.
Lemma Rncdf_continuity x : continuity_pt Rncdf x.
Proof. apply derivable_continuous_pt. apply Rncdf_derivable. Qed.

Lemma is_derive_Rnicdf x : is_derive Rnicdf (Rncdf x) (/ Rphi x).
Proof.
  set (a := x - 1). set (b := x + 1).
  assert (Hab : a < b) by (unfold a, b; lra).
  assert (Hfab : Rncdf a < Rncdf b) by (apply Rncdf_incr; exact Hab).
  assert (Hx : Rncdf a < Rncdf x < Rncdf b) by (split; apply Rncdf_incr; unfold a, b; lra).
  (* on [f a, f b] the function g is the inverse of f restricted to [a, b] *)
  assert (Hinv : forall y, Rncdf a <= y <= Rncdf b -> a <= Rnicdf y <= b /\ Rncdf (Rnicdf y) = y).
  { intros y Hy.
    destruct (f_interv_is_interv Rncdf a b y Hab Hy (fun z _ => Rncdf_continuity z)) as (z & Hz & E).
    rewrite <- E. rewrite Rnicdf_ncdf. split; [exact Hz|reflexivity]. }
  assert (Hcont : continuity_pt Rnicdf (Rncdf x)).
  { apply (continuity_pt_recip_interv Rncdf Rnicdf a b Hab).
    - intros u v _ L _. apply Rncdf_incr. exact L.
    - intros y H1 H2. unfold comp, id. apply Hinv. split; assumption.
    - intros y H1 H2. apply Hinv. split; assumption.
    - intros z _. apply Rncdf_continuity.
    - exact Hx. }
  apply is_derive_Reals.
  assert (Hg : Rnicdf (Rncdf a) <= Rnicdf (Rncdf x) <= Rnicdf (Rncdf b))
    by (rewrite !Rnicdf_ncdf; unfold a, b; lra).
  pose proof (derivable_pt_lim_recip_interv Rncdf Rnicdf (Rncdf a) (Rncdf b) (Rncdf x)
                (fun z _ => Rncdf_derivable z) Hcont Hfab Hx Hg) as D.
  assert (Ed : derive_pt Rncdf (Rnicdf (Rncdf x)) (Rncdf_derivable (Rnicdf (Rncdf x))) = Rphi x).
  { apply derive_pt_eq_0. rewrite Rnicdf_ncdf. apply is_derive_Reals. apply is_derive_Rncdf. }
  cbv beta in D. rewrite Ed in D.
  replace (/ Rphi x) with (1 / Rphi x) by (field; apply Rgt_not_eq, Rphi_pos).
  apply D.
  - intros y Hy. unfold comp, id. apply Hinv. exact Hy.
  - apply Rgt_not_eq, Rphi_pos.
Qed.
Lemma icdf_scalar_phi b : icdf_scalar b = / Rphi b.
Proof.
  unfold icdf_scalar, Rphi, n2, nhalf. cbn. rewrite Rpowf_2.
  assert (0 < sqrt (2 * PI)) by (apply sqrt_lt_R0; pose proof PI_RGT_0; lra).
  rewrite Rinv_mult, Rinv_inv. f_equal.
  rewrite <- exp_Ropp. f_equal. field.
Qed.
