(* Analysis of `fill` (mut_arrays_remaining_elements): termination with progress, completeness on
   connected edge sets, error on disconnected ones, and the entry-wise invariant principle.
   Nothing here depends on the element type or its operations. *)
From Coq Require Import ZArith List Bool Lia Arith.
From RL Require Import Base.Num Base.Str Base.Outcome Model.FX Proofs.FXMat.
Import ListNotations.
Local Open Scope nat_scope.

(* ------------------------------------------------------------------ edge matrices as graphs *)
Definition adj (e : list (list Z)) (i j : nat) : Prop := mget 0%Z e i j = 1%Z.

Record einv (n : nat) (e : list (list Z)) : Prop := {
  ei_sq : sq n e;
  ei_01 : forall i j, i < n -> j < n -> mget 0%Z e i j = 0%Z \/ mget 0%Z e i j = 1%Z;
  ei_sym : forall i j, i < n -> j < n -> mget 0%Z e i j = mget 0%Z e j i;
  ei_diag : forall i, i < n -> mget 0%Z e i i = 1%Z }.

Definition complete (n : nat) (e : list (list Z)) : Prop := forall i j, i < n -> j < n -> adj e i j.

Inductive conn (n : nat) (e : list (list Z)) : nat -> nat -> Prop :=
| conn_refl i : i < n -> conn n e i i
| conn_step i j k : conn n e i j -> k < n -> adj e j k -> conn n e i k.
Definition connected (n : nat) (e : list (list Z)) : Prop := forall i j, i < n -> j < n -> conn n e i j.

Lemma conn_lt_l n e i j : conn n e i j -> i < n.
Proof. induction 1; auto. Qed.
Lemma conn_lt_r n e i j : conn n e i j -> j < n.
Proof. induction 1; auto. Qed.
Lemma conn_trans n e i j k : conn n e i j -> conn n e j k -> conn n e i k.
Proof. intros A B. revert A. induction B; intros A; auto. econstructor; [apply IHB; exact A|..]; auto. Qed.
Lemma conn_edge n e i j : i < n -> j < n -> adj e i j -> conn n e i j.
Proof. intros. econstructor; [apply conn_refl|..]; eauto. Qed.
Lemma conn_sub n e e' : (forall i j, i < n -> j < n -> adj e i j -> conn n e' i j) ->
  forall i j, conn n e i j -> conn n e' i j.
Proof.
  intros S i j C. induction C; [constructor; auto|].
  eapply conn_trans; [exact IHC|]. apply S; auto. eapply conn_lt_r; eauto.
Qed.
Lemma conn_sym n e : einv n e -> forall i j, conn n e i j -> conn n e j i.
Proof.
  intros EI i j C. induction C; [constructor; auto|].
  assert (Hj : j < n) by (eapply conn_lt_r; eauto).
  eapply conn_trans; [|exact IHC]. apply conn_edge; auto.
  unfold adj in *. rewrite (ei_sym _ _ EI) by auto. exact H0.
Qed.
Lemma complete_connected n e : complete n e -> connected n e.
Proof. intros C i j Hi Hj. apply conn_edge; auto. Qed.

(* simplicial vertex: its neighbourhood is a clique *)
Definition simplicial (n : nat) (e : list (list Z)) (w : nat) : Prop :=
  forall a b, a < n -> b < n -> adj e w a -> adj e w b -> a <> w -> b <> w -> a <> b -> adj e a b.

Lemma all_simplicial_complete n e :
  einv n e -> (forall w, w < n -> simplicial n e w) -> connected n e -> complete n e.
Proof.
  intros EI AS CO. assert (G : forall u t, conn n e u t -> adj e u t).
  { intros u t C. induction C as [i Hi | i j k C IH Hk A].
    - apply (ei_diag _ _ EI). exact Hi.
    - assert (Hi : i < n) by (eapply conn_lt_l; eauto).
      assert (Hj : j < n) by (eapply conn_lt_r; eauto).
      destruct (Nat.eq_dec i j) as [->|N1]; [exact A|].
      destruct (Nat.eq_dec k j) as [->|N2]; [exact IH|].
      destruct (Nat.eq_dec i k) as [->|N3]; [apply (ei_diag _ _ EI); exact Hk|].
      apply (AS j Hj i k); auto. unfold adj in *. rewrite (ei_sym _ _ EI) by auto. exact IH. }
  intros i j Hi Hj. apply G. apply CO; auto.
Qed.

(* ------------------------------------------------------------------ sums *)
Local Open Scope Z_scope.
Lemma einv_le_ones n e : einv n e -> Forall2 (Forall2 Z.le) e (ones n).
Proof.
  intros EI. apply (mat_le_intro n); [apply EI|apply ones_sq|].
  intros i j Hi Hj. rewrite mget_ones by auto. destruct (ei_01 _ _ EI i j Hi Hj) as [->| ->]; lia.
Qed.
Lemma msum_bound n e : einv n e -> msum e <= Z.of_nat (n * n).
Proof. intros EI. rewrite <- msum_ones. apply msum_le. apply einv_le_ones. exact EI. Qed.
Lemma msum_complete n e : einv n e -> (msum e = Z.of_nat (n * n) <-> complete n e).
Proof.
  intros EI. split.
  - intros E. rewrite <- msum_ones in E. apply (proj2 (msum_le _ _ (einv_le_ones _ _ EI))) in E.
    subst e. intros i j Hi Hj. apply mget_ones; auto.
  - intros C. rewrite <- msum_ones. f_equal. apply (mat_ext n 0); [apply EI|apply ones_sq|].
    intros i j Hi Hj. rewrite mget_ones by auto. apply C; auto.
Qed.
Lemma msum_grow n e e' : einv n e -> einv n e' ->
  (forall i j, (i < n)%nat -> (j < n)%nat -> mget 0 e i j <= mget 0 e' i j) ->
  (exists i j, (i < n)%nat /\ (j < n)%nat /\ mget 0 e i j <> mget 0 e' i j) ->
  msum e < msum e'.
Proof.
  intros EI EI' LE (i & j & Hi & Hj & NE).
  pose proof (mat_le_intro n e e' (ei_sq _ _ EI) (ei_sq _ _ EI') LE) as F.
  destruct (msum_le _ _ F) as [A B].
  destruct (Z.eq_dec (msum e) (msum e')) as [E|E]; [|lia].
  apply B in E. subst. contradiction.
Qed.
Lemma i16_wrap_small z : 0 <= z <= 32767 -> i16_wrap z = z.
Proof. intros Hz. unfold i16_wrap. rewrite Z.mod_small; lia. Qed.
Local Close Scope Z_scope.

(* ------------------------------------------------------------------ the pieces of one step *)
Lemma In_neighbours e node i :
  In i (neighbours e node) <-> i < length e /\ adj e node i /\ i <> node.
Proof.
  unfold neighbours. rewrite filter_In, in_seq, andb_true_iff, Z.eqb_eq, negb_true_iff, Nat.eqb_neq.
  unfold adj. intuition lia.
Qed.
Lemma neighbours_NoDup e node : NoDup (neighbours e node).
Proof. apply NoDup_filter. apply seq_NoDup. Qed.

Lemma In_pairs2 {X} (l : list X) a b : In (a, b) (pairs2 l) -> In a l /\ In b l.
Proof.
  induction l as [|x l IH]; cbn; [tauto|]. rewrite in_app_iff, in_map_iff.
  intros [(y & E & I) | I]; [inversion E; subst; auto | destruct (IH I); auto].
Qed.
Lemma pairs2_cover {X} (l : list X) a b :
  In a l -> In b l -> a <> b -> In (a, b) (pairs2 l) \/ In (b, a) (pairs2 l).
Proof.
  induction l as [|x l IH]; cbn; [tauto|]. intros [Ea|Ia] [Eb|Ib] N; subst.
  - contradiction.
  - left. apply in_app_iff. left. apply in_map. exact Ib.
  - right. apply in_app_iff. left. apply in_map. exact Ia.
  - destruct (IH Ia Ib N); [left|right]; apply in_app_iff; right; auto.
Qed.

Lemma filter_nil {X} (f : X -> bool) l : filter f l = [] -> forall x, In x l -> f x = false.
Proof.
  induction l as [|y l IH]; cbn; [tauto|]. destruct (f y) eqn:E; [discriminate|].
  intros F x [->|I]; auto.
Qed.

Lemma In_combos e node a b :
  In (a, b) (combos e node) <->
  In (a, b) (pairs2 (neighbours e node)) /\ mget 0%Z e a b = 0%Z.
Proof. unfold combos. rewrite filter_In. cbn [fst snd]. rewrite Z.eqb_eq. tauto. Qed.

Lemma combos_members n e node a b : sq n e -> In (a, b) (combos e node) ->
  a < n /\ b < n /\ adj e node a /\ adj e node b /\ a <> node /\ b <> node /\ mget 0%Z e a b = 0%Z.
Proof.
  intros [L _] I. apply In_combos in I. destruct I as [I Z0]. apply In_pairs2 in I.
  destruct I as [Ia Ib]. apply In_neighbours in Ia, Ib. rewrite L in *. tauto.
Qed.

Lemma combos_nil_simplicial n e node : einv n e -> node < n -> combos e node = [] -> simplicial n e node.
Proof.
  intros EI Hn CN a b Ha Hb Aa Ab Na Nb Nab.
  assert (La : In a (neighbours e node)) by (apply In_neighbours; rewrite (proj1 (ei_sq _ _ EI)); auto).
  assert (Lb : In b (neighbours e node)) by (apply In_neighbours; rewrite (proj1 (ei_sq _ _ EI)); auto).
  unfold combos in CN. pose proof (filter_nil _ _ CN) as F.
  destruct (pairs2_cover _ a b La Lb Nab) as [I|I]; apply F in I; cbn [fst snd] in I;
    apply Z.eqb_neq in I; unfold adj.
  - destruct (ei_01 _ _ EI a b Ha Hb); [contradiction|assumption].
  - rewrite (ei_sym _ _ EI) by auto. destruct (ei_01 _ _ EI b a Hb Ha); [contradiction|assumption].
Qed.

(* max_by_key *)
Lemma max_by_key_last_spec l :
  match max_by_key_last l with None => l = [] | Some c => In c l end.
Proof.
  unfold max_by_key_last.
  assert (G : forall (l : list (Z * nat)) (acc : option (Z * nat)), match fold_left (fun (best : option (Z * nat)) (c : Z * nat) => match best with
               | None => Some c | Some b => if Z.ltb (fst c) (fst b) then best else Some c end) l acc
             with None => l = [] /\ acc = None
             | Some c => In c l \/ acc = Some c end).
  { clear l. induction l as [|x l IH]; intros acc; cbn.
    - destruct acc; auto.
    - specialize (IH (match acc with None => Some x
                      | Some b => if Z.ltb (fst x) (fst b) then acc else Some x end)).
      destruct (fold_left _ l _) as [c|].
      + destruct IH as [I|E]; [auto|]. destruct acc as [b|].
        * destruct (Z.ltb (fst x) (fst b)); [auto|]. inversion E; auto.
        * inversion E; auto.
      + destruct IH as [_ E]. destruct acc as [b|]; [|discriminate].
        destruct (Z.ltb (fst x) (fst b)); discriminate. }
  specialize (G l None). destruct (fold_left _ l None).
  - destruct G as [I|E]; [exact I|discriminate].
  - apply G.
Qed.

Lemma In_candidates e prev v i : In (v, i) (candidates e prev) -> i < length e /\ ~ In i prev.
Proof.
  unfold candidates. rewrite filter_In. cbn [snd]. intros [I N]. apply in_combine_r in I.
  apply in_seq in I. split; [lia|]. intros C. apply negb_true_iff in N.
  assert (existsb (Nat.eqb i) prev = true) by (apply existsb_exists; exists i; split; [auto|apply Nat.eqb_refl]).
  congruence.
Qed.
Lemma candidates_nil e prev : candidates e prev = [] -> forall i, i < length e -> In i prev.
Proof.
  intros CN i Hi. unfold candidates in CN. pose proof (filter_nil _ _ CN) as F.
  assert (I : In (nth i (map zsum e) 0%Z, nth i (seq 0 (length e)) 0) (combine (map zsum e) (seq 0 (length e)))).
  { rewrite <- combine_nth by (rewrite map_length, seq_length; reflexivity).
    apply nth_In. rewrite combine_length, map_length, seq_length. lia. }
  apply F in I. cbn [snd] in I. rewrite seq_nth in I by exact Hi. cbn in I.
  apply negb_false_iff in I. apply existsb_exists in I. destruct I as (x & Ix & E).
  apply Nat.eqb_eq in E. subst. exact Ix.
Qed.

(* ------------------------------------------------------------------ adding the combinations *)
Definition add_edge (e : list (list Z)) (c : nat * nat) : list (list Z) :=
  mset (mset e (fst c) (snd c) 1%Z) (snd c) (fst c) 1%Z.
Definition add_edges (cs : list (nat * nat)) (e : list (list Z)) : list (list Z) := fold_left add_edge cs e.

Lemma fold_apply_snd {A} (ops : fxops A) node cs : forall arr e,
  snd (fold_left (apply_combo ops node) cs (arr, e)) = add_edges cs e.
Proof.
  induction cs as [|[a b] cs IH]; intros arr e; [reflexivity|].
  cbn [fold_left apply_combo]. rewrite IH. reflexivity.
Qed.

Definition touchb (c : nat * nat) (i j : nat) : bool :=
  (Nat.eqb i (fst c) && Nat.eqb j (snd c)) || (Nat.eqb i (snd c) && Nat.eqb j (fst c)).
Definition touched (cs : list (nat * nat)) (i j : nat) : bool := existsb (fun c => touchb c i j) cs.

Lemma touchb_sym c i j : touchb c i j = touchb c j i.
Proof. unfold touchb. rewrite orb_comm. f_equal; apply andb_comm. Qed.
Lemma touched_sym cs i j : touched cs i j = touched cs j i.
Proof. unfold touched. induction cs; cbn; auto. rewrite IHcs, touchb_sym. reflexivity. Qed.
Lemma touched_true cs i j : touched cs i j = true ->
  exists c, In c cs /\ ((i = fst c /\ j = snd c) \/ (i = snd c /\ j = fst c)).
Proof.
  unfold touched. rewrite existsb_exists. intros (c & I & T). exists c. split; auto.
  unfold touchb in T. apply orb_true_iff in T. rewrite !andb_true_iff, !Nat.eqb_eq in T. exact T.
Qed.
Lemma touched_intro cs a b : In (a, b) cs -> touched cs a b = true.
Proof.
  intros I. unfold touched. apply existsb_exists. exists (a, b). split; auto.
  unfold touchb. cbn. rewrite !Nat.eqb_refl. reflexivity.
Qed.

Lemma add_edge_spec n e c : sq n e -> fst c < n -> snd c < n ->
  sq n (add_edge e c) /\
  forall i j, mget 0%Z (add_edge e c) i j = if touchb c i j then 1%Z else mget 0%Z e i j.
Proof.
  intros S Ha Hb. unfold add_edge. split; [apply mset_sq, mset_sq, S|].
  intros i j. rewrite (mget_mset n) by (auto using mset_sq).
  rewrite (mget_mset n) by auto. unfold touchb.
  destruct (Nat.eqb i (snd c) && Nat.eqb j (fst c))%bool; [rewrite orb_true_r; reflexivity|].
  rewrite orb_false_r. reflexivity.
Qed.

Lemma add_edges_spec n cs : forall e, sq n e -> (forall c, In c cs -> fst c < n /\ snd c < n) ->
  sq n (add_edges cs e) /\
  forall i j, mget 0%Z (add_edges cs e) i j = if touched cs i j then 1%Z else mget 0%Z e i j.
Proof.
  induction cs as [|c cs IH]; intros e S B; [split; [exact S|reflexivity]|].
  cbn [add_edges fold_left]. destruct (B c (or_introl eq_refl)) as [Ha Hb].
  destruct (add_edge_spec n e c S Ha Hb) as [S1 G1].
  destruct (IH (add_edge e c) S1 (fun c' I => B c' (or_intror I))) as [S2 G2].
  split; [exact S2|]. intros i j. unfold add_edges in G2. rewrite G2, G1.
  unfold touched. cbn [existsb]. fold (touched cs i j).
  destruct (touched cs i j); [rewrite orb_true_r; reflexivity|]. rewrite orb_false_r. reflexivity.
Qed.

Lemma add_edges_einv n cs e : einv n e -> (forall c, In c cs -> fst c < n /\ snd c < n) ->
  einv n (add_edges cs e).
Proof.
  intros EI B. destruct (add_edges_spec n cs e (ei_sq _ _ EI) B) as [S G]. constructor.
  - exact S.
  - intros i j Hi Hj. rewrite G. destruct (touched cs i j); [auto|]. apply (ei_01 _ _ EI); auto.
  - intros i j Hi Hj. rewrite !G, touched_sym. destruct (touched cs j i); [auto|]. apply (ei_sym _ _ EI); auto.
  - intros i Hi. rewrite G. destruct (touched cs i i); [auto|]. apply (ei_diag _ _ EI); auto.
Qed.

(* what a progress step does to the graph *)
Lemma progress_facts n e node :
  einv n e -> node < n -> combos e node <> [] ->
  let e' := add_edges (combos e node) e in
  einv n e' /\ (msum e < msum e')%Z /\ simplicial n e' node /\
  (forall i j, i < n -> j < n -> adj e i j -> adj e' i j) /\
  (forall i j, i < n -> j < n -> adj e' i j -> conn n e i j).
Proof.
  intros EI Hn NE e'. pose proof (ei_sq _ _ EI) as S.
  assert (B : forall c, In c (combos e node) -> fst c < n /\ snd c < n).
  { intros [a b] I. apply (combos_members n) in I; auto. cbn. tauto. }
  destruct (add_edges_spec n _ e S B) as [S' G]. fold e' in S', G.
  assert (EI' : einv n e') by (apply add_edges_einv; auto).
  assert (MONO : forall i j, i < n -> j < n -> adj e i j -> adj e' i j).
  { intros i j Hi Hj A. unfold adj. rewrite G. destruct (touched _ i j); auto. }
  split; [exact EI'|]. split; [|split; [|split; [exact MONO|]]].
  - apply (msum_grow n); auto.
    + intros i j Hi Hj. rewrite G. destruct (touched _ i j); [|lia].
      destruct (ei_01 _ _ EI i j Hi Hj) as [->| ->]; lia.
    + destruct (combos e node) as [|[a b] cs] eqn:CE; [contradiction|].
      assert (I : In (a, b) (combos e node)) by (rewrite CE; left; reflexivity).
      pose proof (combos_members n e node a b S I) as (Ha & Hb & _ & _ & _ & _ & Z0).
      exists a, b. split; [auto|]. split; [auto|]. rewrite G, Z0.
      rewrite <- CE. rewrite (touched_intro _ a b I). discriminate.
  - (* node is simplicial afterwards *)
    assert (ROW : forall a, a < n -> adj e' node a -> adj e node a).
    { intros a Ha A. unfold adj in *. rewrite G in A. destruct (touched _ node a) eqn:T; [|exact A].
      apply touched_true in T. destruct T as ([x y] & I & T). cbn [fst snd] in T.
      apply (combos_members n) in I; auto. destruct I as (_ & _ & _ & _ & Nx & Ny & _).
      destruct T as [[T _]|[T _]]; congruence. }
    intros a b Ha Hb Aa Ab Na Nb Nab. apply ROW in Aa, Ab; auto.
    assert (La : In a (neighbours e node)) by (apply In_neighbours; rewrite (proj1 S); auto).
    assert (Lb : In b (neighbours e node)) by (apply In_neighbours; rewrite (proj1 S); auto).
    destruct (ei_01 _ _ EI a b Ha Hb) as [Z0|O1]; [|apply MONO; auto].
    unfold adj. rewrite G.
    destruct (pairs2_cover _ a b La Lb Nab) as [I|I].
    + rewrite (touched_intro _ a b); [reflexivity|]. apply In_combos. auto.
    + rewrite touched_sym, (touched_intro _ b a); [reflexivity|]. apply In_combos. split; auto.
      rewrite (ei_sym _ _ EI) by auto. exact Z0.
  - intros i j Hi Hj A. unfold adj in A. rewrite G in A. destruct (touched _ i j) eqn:T.
    + apply touched_true in T. destruct T as ([a b] & I & T). cbn [fst snd] in T.
      apply (combos_members n) in I; auto. destruct I as (Ha & Hb & Aa & Ab & _ & _ & _).
      assert (Can : conn n e a node).
      { apply conn_edge; auto. unfold adj in *. rewrite (ei_sym _ _ EI) by auto. exact Aa. }
      assert (Cnb : conn n e node b) by (apply conn_edge; auto).
      destruct T as [[-> ->]|[-> ->]].
      * eapply conn_trans; eauto.
      * apply (conn_sym _ _ EI). eapply conn_trans; eauto.
    + apply conn_edge; auto.
Qed.

(* ------------------------------------------------------------------ termination, completeness, errors *)
Definition measure (n : nat) (e : list (list Z)) (prev : list nat) : nat :=
  Z.to_nat (Z.of_nat (n * n) - msum e) * S n + (n - length prev).

Lemma prev_length n prev : NoDup prev -> (forall p, In p prev -> p < n) -> length prev <= n.
Proof.
  intros ND B. rewrite <- (seq_length n 0). apply NoDup_incl_length; auto.
  intros p I. apply in_seq. specialize (B p I). lia.
Qed.

Theorem fill_spec {A} (ops : fxops A) n : (Z.of_nat (n * n) <= 32767)%Z ->
  forall fuel arr e prev,
    einv n e -> NoDup prev -> (forall p, In p prev -> p < n /\ simplicial n e p) ->
    measure n e prev < fuel ->
    match fill ops fuel arr e prev with
    | Ok (arr', e') => einv n e' /\ complete n e' /\ (forall i j, conn n e' i j -> conn n e i j)
    | Err => ~ connected n e
    | Panic => False
    end.
Proof.
  intros Hn fuel. induction fuel as [|k IH]; intros arr e prev EI ND PS M; [lia|].
  pose proof (ei_sq _ _ EI) as S. pose proof (proj1 S) as L.
  pose proof (msum_bound _ _ EI) as MB.
  cbn [fill]. rewrite L.
  assert (OV : Z.ltb 32767 (msum e) = false) by (apply Z.ltb_ge; lia). rewrite OV.
  rewrite i16_wrap_small by lia.
  destruct (Z.eqb (msum e) (Z.of_nat (n * n))) eqn:ST.
  { apply Z.eqb_eq in ST. split; [exact EI|]. split; [apply msum_complete; auto|auto]. }
  apply Z.eqb_neq in ST.
  pose proof (max_by_key_last_spec (candidates e prev)) as MX.
  destruct (max_by_key_last (candidates e prev)) as [[v node]|].
  2:{ (* every node has been tried since the last progress: all simplicial *)
      intros CO. apply ST. apply msum_complete; auto. apply all_simplicial_complete; auto.
      intros w Hw. apply PS. apply (candidates_nil _ _ MX). rewrite L. exact Hw. }
  apply In_candidates in MX. rewrite L in MX. destruct MX as [Hnode Nprev].
  destruct (combos e node) as [|c cs] eqn:CE.
  - (* no progress: node joins prev *)
    assert (SN : simplicial n e node) by (apply combos_nil_simplicial; auto).
    assert (ND' : NoDup (node :: prev)) by (constructor; auto).
    assert (PS' : forall p, In p (node :: prev) -> p < n /\ simplicial n e p).
    { intros p [<-|I]; auto. }
    assert (LP : length (node :: prev) <= n).
    { apply prev_length; auto. intros p I. apply PS'; auto. }
    apply IH; auto. unfold measure in *. cbn [length] in *. lia.
  - (* progress *)
    assert (NE : combos e node <> []) by (rewrite CE; discriminate).
    destruct (progress_facts n e node EI Hnode NE) as (EI' & GR & SN & MONO & BACK).
    rewrite <- CE.
    destruct (fold_left (apply_combo ops node) (combos e node) (arr, e)) as [arr' e'] eqn:F.
    assert (E' : e' = add_edges (combos e node) e).
    { rewrite <- (fold_apply_snd ops node (combos e node) arr e). rewrite F. reflexivity. }
    rewrite <- E' in *. clear E'.
    pose proof (msum_bound _ _ EI') as MB'.
    assert (M' : measure n e' [node] < k).
    { unfold measure in *. cbn [length].
      assert (Z.to_nat (Z.of_nat (n * n) - msum e') + 1 <= Z.to_nat (Z.of_nat (n * n) - msum e)) by lia.
      assert (LP : length prev <= n) by (apply prev_length; auto; intros p I; apply PS; auto).
      nia. }
    specialize (IH arr' e' [node] EI' (NoDup_cons _ (@in_nil _ _) (NoDup_nil _))).
    assert (PS' : forall p, In p [node] -> p < n /\ simplicial n e' p).
    { intros p [<-|[]]. auto. }
    specialize (IH PS' M').
    destruct (fill ops k arr' e' [node]) as [[arr'' e'']| |].
    + destruct IH as (A1 & A2 & A3). split; [auto|]. split; [auto|].
      intros i j C. apply A3 in C. revert C. apply conn_sub. exact BACK.
    + intros CO. apply IH. intros i j Hi Hj. specialize (CO i j Hi Hj). revert CO.
      apply conn_sub. intros; apply conn_edge; auto.
    + exact IH.
Qed.

(* fuel supplied by the model always suffices *)
Lemma measure_initial n e : einv n e -> measure n e [] < fill_fuel n.
Proof.
  intros EI. unfold measure, fill_fuel. cbn [length].
  assert (0 <= msum e)%Z.
  { pose proof (ei_sq _ _ EI) as S.
    assert (F : Forall2 (Forall2 Z.le) (repeat (repeat 0%Z n) n) e).
    { apply (mat_le_intro n); [apply cmat_sq|exact S|].
      intros i j Hi Hj. rewrite mget_cmat by auto.
      destruct (ei_01 _ _ EI i j Hi Hj) as [->| ->]; lia. }
    apply msum_le in F. destruct F as [F _].
    assert (Z0 : msum (repeat (repeat 0%Z n) n) = 0%Z) by (unfold msum; rewrite map_repeat', !zsum_repeat; lia).
    lia. }
  assert (Z.to_nat (Z.of_nat (n * n) - msum e) <= n * n) by lia. nia.
Qed.

(* ------------------------------------------------------------------ entry-wise invariants *)
Section Invariant.
  Context {A : Type} (ops : fxops A) (n : nat).
  Context (I : nat -> nat -> A -> Prop).
  Hypothesis Hmul : forall a w b x y, a < n -> w < n -> b < n ->
    I a w x -> I w b y -> I a b (fmul ops x y).
  Hypothesis Hinv : forall a b x, a < n -> b < n -> I a b x -> I b a (finv ops x).

  Definition populated_ok (arr : list (list A)) (e : list (list Z)) : Prop :=
    sq n arr /\ forall i j, i < n -> j < n -> adj e i j -> I i j (mget (fzero ops) arr i j).

  Lemma apply_combos_ok node : node < n -> forall cs arr e,
    sq n e ->
    (forall c, In c cs -> fst c < n /\ snd c < n /\ adj e (fst c) node /\ adj e node (snd c)) ->
    populated_ok arr e ->
    populated_ok (fst (fold_left (apply_combo ops node) cs (arr, e)))
                 (snd (fold_left (apply_combo ops node) cs (arr, e))).
  Proof.
    intros Hnode. induction cs as [|[a b] cs IH]; intros arr e S B P; [exact P|].
    cbn [fold_left apply_combo].
    destruct (B (a, b) (or_introl eq_refl)) as (Ha & Hb & Aa & Ab). cbn [fst snd] in *.
    destruct P as [SA P].
    set (prod := fmul ops (mget (fzero ops) arr a node) (mget (fzero ops) arr node b)).
    set (arr1 := mset arr a b prod).
    set (arr2 := mset arr1 b a (finv ops (mget (fzero ops) arr1 a b))).
    set (e1 := mset (mset e a b 1%Z) b a 1%Z).
    destruct (add_edge_spec n e (a, b) S Ha Hb) as [S1 G1]. change (add_edge e (a, b)) with e1 in S1, G1.
    assert (SA1 : sq n arr1) by (apply mset_sq; exact SA).
    assert (M1 : mget (fzero ops) arr1 a b = prod) by (apply (mget_mset_same n); auto).
    assert (Iprod : I a b prod) by (apply (Hmul a node b); auto).
    apply IH; [exact S1| |].
    - intros c Ic. destruct (B c (or_intror Ic)) as (H1 & H2 & H3 & H4).
      repeat split; auto; unfold adj; rewrite G1.
      + destruct (touchb _ _ _); auto.
      + destruct (touchb _ _ _); auto.
    - split; [apply mset_sq; exact SA1|].
      intros i j Hi Hj Aij. unfold arr2. rewrite (mget_mset n) by auto. rewrite M1.
      destruct (Nat.eqb i b && Nat.eqb j a)%bool eqn:E1.
      { apply andb_true_iff in E1. destruct E1 as [E1 E2]. apply Nat.eqb_eq in E1, E2. subst.
        apply Hinv; auto. }
      unfold arr1. rewrite (mget_mset n) by auto.
      destruct (Nat.eqb i a && Nat.eqb j b)%bool eqn:E2.
      { apply andb_true_iff in E2. destruct E2 as [E2 E3]. apply Nat.eqb_eq in E2, E3. subst. exact Iprod. }
      apply P; auto. unfold adj in Aij. rewrite G1 in Aij. unfold touchb in Aij. cbn [fst snd] in Aij.
      rewrite E1, E2 in Aij. exact Aij.
  Qed.

  Theorem fill_invariant : forall fuel arr e prev arr' e',
    einv n e -> populated_ok arr e -> fill ops fuel arr e prev = Ok (arr', e') -> populated_ok arr' e'.
  Proof.
    induction fuel as [|k IH]; intros arr e prev arr' e' EI P F; [discriminate|].
    cbn [fill] in F.
    destruct (Z.ltb 32767 (msum e)); [discriminate|].
    destruct (Z.eqb _ _); [inversion F; subst; exact P|].
    pose proof (max_by_key_last_spec (candidates e prev)) as MX.
    destruct (max_by_key_last (candidates e prev)) as [[v node]|]; [|discriminate].
    pose proof (ei_sq _ _ EI) as S.
    apply In_candidates in MX. rewrite (proj1 S) in MX. destruct MX as [Hnode _].
    destruct (combos e node) as [|c cs] eqn:CE.
    - eapply IH; eauto.
    - assert (NE : combos e node <> []) by (rewrite CE; discriminate).
      destruct (progress_facts n e node EI Hnode NE) as (EI' & _).
      rewrite <- CE in F.
      assert (B : forall c, In c (combos e node) ->
                   fst c < n /\ snd c < n /\ adj e (fst c) node /\ adj e node (snd c)).
      { intros [a b] Ic. apply (combos_members n) in Ic; auto. cbn [fst snd].
        destruct Ic as (Ha & Hb & Aa & Ab & _). repeat split; auto.
        unfold adj in *. rewrite (ei_sym _ _ EI) by auto. exact Aa. }
      pose proof (apply_combos_ok node Hnode (combos e node) arr e S B P) as P'.
      pose proof (fold_apply_snd ops node (combos e node) arr e) as SE.
      destruct (fold_left (apply_combo ops node) (combos e node) (arr, e)) as [arr1 e1].
      cbn [fst snd] in *. subst e1. eapply IH; eauto.
  Qed.
End Invariant.
