(* C10, part 1: the filled array as ratios of a potential in ANY abelian group related to the element
   type (values, first-order jets, second-order jets), and the first-order sensitivity formula. *)
From Coq Require Import Reals ZArith List Bool Lia Lra Arith Permutation.
From RL Require Import Base.Num Base.Str Base.NumR Base.Outcome Model.Dual Model.Number Model.FX
  Proofs.NumRP Proofs.DualP Proofs.AD1 Proofs.FXMat Proofs.FXFill Proofs.FXTree Proofs.FXCreate Proofs.FXP.
Import ListNotations.
Local Open Scope nat_scope.

(* ------------------------------------------------------------------ packaged group laws *)
Record group_ok {G : Type} (gmul : G -> G -> G) (ginv : G -> G) (gone : G) (U : G -> Prop) : Prop := {
  go_mul : forall x y, U x -> U y -> U (gmul x y);
  go_inv : forall x, U x -> U (ginv x);
  go_one : U gone;
  go_assoc : forall x y z, U x -> U y -> U z -> gmul x (gmul y z) = gmul (gmul x y) z;
  go_comm : forall x y, U x -> U y -> gmul x y = gmul y x;
  go_unit : forall x, U x -> gmul x gone = x;
  go_inverse : forall x, U x -> gmul x (ginv x) = gone }.

Arguments go_mul {G gmul ginv gone U} _.
Arguments go_inv {G gmul ginv gone U} _.
Arguments go_one {G gmul ginv gone U} _.
Arguments go_assoc {G gmul ginv gone U} _.
Arguments go_comm {G gmul ginv gone U} _.
Arguments go_unit {G gmul ginv gone U} _.
Arguments go_inverse {G gmul ginv gone U} _.

Section GroupFacts.
  Context {G : Type} {gmul : G -> G -> G} {ginv : G -> G} {gone : G} {U : G -> Prop}.
  Context (K : group_ok gmul ginv gone U).
  Lemma k_telescope a w b : U a -> U w -> U b ->
    gmul (gmul a (ginv w)) (gmul w (ginv b)) = gmul a (ginv b).
  Proof. destruct K. apply (g_telescope gmul ginv gone U); auto. Qed.
  Lemma k_inv_ratio a b : U a -> U b -> ginv (gmul a (ginv b)) = gmul b (ginv a).
  Proof. destruct K. apply (g_inv_ratio gmul ginv gone U); auto. Qed.
  Lemma k_potential_exists {T} `{Num T} (gval : fxrate T -> G) cs qs :
    tree_quotes cs qs -> (forall q, In q qs -> U (gval q)) -> exists v, potential gmul ginv U gval qs v.
  Proof. destruct K. apply (potential_exists gmul ginv gone U); auto. Qed.
  Lemma k_path_telescopes {T} `{Num T} (gval : fxrate T -> G) qs v :
    potential gmul ginv U gval qs v ->
    forall a b steps, qpath qs a b steps -> path_prod gmul ginv gone gval steps = gmul (v a) (ginv (v b)).
  Proof. destruct K. apply (path_telescopes gmul ginv gone U); auto. Qed.
End GroupFacts.

Lemma Forall2_impl_in {X Y} (P Q : X -> Y -> Prop) l1 l2 :
  Forall2 P l1 l2 -> (forall x y, In x l1 -> P x y -> Q x y) -> Forall2 Q l1 l2.
Proof.
  induction 1; intros Hi; constructor.
  - apply Hi; [left; reflexivity|assumption].
  - apply IHForall2. intros a b Ia. apply Hi. right; exact Ia.
Qed.

(* ------------------------------------------------------------------ the array as potential ratios *)
Section GenPot.
  Context {A : Type} (ops : fxops A) {G : Type} {gmul : G -> G -> G} {ginv : G -> G} {gone : G} {U : G -> Prop}.
  Context (K : group_ok gmul ginv gone U) (rel : A -> G -> Prop).
  Hypothesis Rmul : forall x y g h, U g -> U h -> rel x g -> rel y h -> rel (fmul ops x y) (gmul g h).
  Hypothesis Rinv : forall x g, U g -> rel x g -> rel (finv ops x) (ginv g).
  Hypothesis Rone : rel (fone ops) gone.

  Lemma create_gen_rel cs pairs rates (V : name -> G) :
    (forall c, U (V c)) -> (length cs <= 181) -> members_in cs pairs ->
    Forall2 (fun p x => rel x (gmul (V (p0 p)) (ginv (V (p1 p))))) pairs rates ->
    forall arr, create_gen ops cs pairs rates = Ok arr ->
    forall a b, In a cs -> In b cs ->
      rel (mget (fzero ops) arr (idx cs a) (idx cs b)) (gmul (V a) (ginv (V b))).
  Proof.
    intros UV Hn M F arr E a b Ia Ib.
    pose (I := fun (i j : nat) (x : A) => rel x (gmul (V (nth i cs [])) (ginv (V (nth j cs []))))).
    pose proof (create_gen_spec ops cs pairs rates I (small_square _ Hn)) as CS. cbv zeta in CS.
    assert (UR : forall i j, U (gmul (V (nth i cs [])) (ginv (V (nth j cs []))))).
    { intros i j. apply (go_mul K); [apply UV|apply (go_inv K), UV]. }
    specialize (CS
      ltac:(intros i w j x y _ _ _ Hx Hy; unfold I in *;
            rewrite <- (k_telescope K _ (V (nth w cs [])) _) by apply UV; apply Rmul; auto)
      ltac:(intros i j x _ _ Hx; unfold I in *;
            rewrite <- (k_inv_ratio K) by apply UV; apply Rinv; auto)
      ltac:(intros i _; unfold I; rewrite (go_inverse K) by apply UV; exact Rone)
      M).
    specialize (CS ltac:(apply (Forall2_impl_in _ _ _ _ F); intros p x Ip Hp; unfold I;
                         destruct (M p Ip) as [M0 M1]; rewrite !nth_idx by auto; exact Hp)).
    rewrite E in CS. destruct CS as (_ & _ & VAL).
    specialize (VAL (idx cs a) (idx cs b) (idx_lt _ _ Ia) (idx_lt _ _ Ib)). unfold I in VAL.
    rewrite !nth_idx in VAL by auto. exact VAL.
  Qed.
End GenPot.

Local Open Scope R_scope.

(* ------------------------------------------------------------------ first-order jets *)
Definition J1 : Type := (R * R)%type.
Definition j1mul (a b : J1) : J1 := (fst a * fst b, snd a * fst b + snd b * fst a).
Definition j1inv (a : J1) : J1 := (/ fst a, - snd a / (fst a * fst a)).
Definition j1one : J1 := (1, 0).
Definition j1U (a : J1) : Prop := fst a <> 0.

Lemma J1_group : group_ok j1mul j1inv j1one j1U.
Proof.
  constructor; unfold j1mul, j1inv, j1one, j1U.
  - intros [x x'] [y y'] Hx Hy. cbn in *. apply Rmult_integral_contrapositive_currified; auto.
  - intros [x x'] Hx. cbn in *. apply Rinv_neq_0_compat; auto.
  - cbn. lra.
  - intros [x x'] [y y'] [z z'] _ _ _. cbn. f_equal; ring.
  - intros [x x'] [y y'] _ _. cbn. f_equal; ring.
  - intros [x x'] _. cbn. f_equal; ring.
  - intros [x x'] Hx. cbn in *. f_equal; field; auto.
Qed.

Definition number_wf (x : number R) : Prop :=
  match x with NF _ => True | ND d => wf d | ND2 d => NoDup (vs2 d) /\ length (du2 d) = length (vs2 d) end.
Definition quotes_wf (qs : list quoteR) : Prop := forall q, In q qs -> number_wf (rate q).

Lemma wf_lift1 q : number_wf (rate q) -> wf (lift1 q).
Proof.
  unfold lift1. destruct (rate q) as [f|d|d]; cbn.
  - intros _. apply wf_dual_new.
  - auto.
  - intros [N L]. split; cbn; auto.
Qed.

Definition jet1 (v : name) (d : dual R) : J1 := (re d, coef d v).
Definition rel1 (v : name) (d : dual R) (g : J1) : Prop := wf d /\ jet1 v d = g.

Lemma pfalse_d (x y : dual R) : false = true -> vs x = vs y.
Proof. discriminate. Qed.

Lemma rel1_mul v x y g h : j1U g -> j1U h -> rel1 v x g -> rel1 v y h -> rel1 v (fmul ops_d x y) (j1mul g h).
Proof.
  intros _ _ [Wx <-] [Wy <-]. cbn [fmul ops_d].
  destruct (dmul_spec false x y Wx Wy (pfalse_d x y)) as (W & R1 & C & _).
  split; [exact W|]. unfold jet1, j1mul. cbn [fst snd]. rewrite R1, C. reflexivity.
Qed.
Lemma wf_fdiv_d r a : wf a -> wf (fdiv_d r a).
Proof. intros W. unfold fdiv_d, dmul_f, vscale_l. rewrite dpow_unguard. apply (wf_map _ _ (mkDual _ (vs a) _)). apply wf_map. exact W. Qed.
Lemma coef_fdiv_d (a : dual R) v : re a <> 0 ->
  coef (fdiv_d 1 a) v = - coef a v / (re a * re a).
Proof.
  intros N. unfold fdiv_d, dmul_f, vscale_l. rewrite dpow_unguard.
  rewrite (coef_map _ _ (mkDual _ (vs a) _)) by (cbn; ring).
  rewrite coef_map by (cbn; ring).
  rewrite npow_m2 by exact N. cbn [nmul NumR]. unfold nm1. cbn [nneg n1 NumR]. field. exact N.
Qed.
Lemma rel1_inv v x g : j1U g -> rel1 v x g -> rel1 v (finv ops_d x) (j1inv g).
Proof.
  intros Ug [Wx <-]. unfold j1U, jet1 in Ug. cbn [fst] in Ug. cbn [finv ops_d].
  split; [apply wf_fdiv_d; exact Wx|]. unfold jet1, j1inv. cbn [fst snd].
  change n1 with 1. rewrite re_finv_d by exact Ug. rewrite coef_fdiv_d by exact Ug. reflexivity.
Qed.
Lemma rel1_one v : rel1 v (fone ops_d) j1one.
Proof. split; [apply wf_dual_new|reflexivity]. Qed.

Definition gval1 (v : name) (q : quoteR) : J1 := jet1 v (lift1 q).

(* sum of the signed log-derivatives of the quotes along a walk *)
Fixpoint logsum (v : name) (steps : list (quoteR * bool)) : R :=
  match steps with
  | [] => 0
  | (q, d) :: r => (if d then 1 else -1) * coef (lift1 q) v / qval q + logsum v r
  end.

Lemma j1_path_prod v steps : (forall q d, In (q, d) steps -> qval q <> 0) ->
  path_prod j1mul j1inv j1one (gval1 v) steps = (Rpath_prod steps, Rpath_prod steps * logsum v steps).
Proof.
  induction steps as [|[q d] r IH]; intros NZ.
  - unfold Rpath_prod. cbn. unfold j1one. f_equal. ring.
  - assert (N : qval q <> 0) by (apply (NZ q d); left; reflexivity).
    specialize (IH (fun q' d' I => NZ q' d' (or_intror I))).
    unfold Rpath_prod in *. destruct d; cbn [path_prod logsum]; rewrite IH;
      unfold j1mul, j1inv, gval1, jet1; cbn [fst snd]; rewrite re_lift1; f_equal; field; exact N.
Qed.

Lemma steps_in_qs (qs : list quoteR) a b steps : qpath qs a b steps -> forall q d, In (q, d) steps -> In q qs.
Proof.
  induction 1; intros x d I0; cbn in I0; [contradiction| |];
    (destruct I0 as [E|I0]; [inversion E; subst; auto|eauto]).
Qed.

(* --- first-order sensitivities of every cross of a tree market *)
Theorem market_gradient cs0 (qs : list quoteR) base fx :
  tree_quotes cs0 qs -> base_ok cs0 base -> (length cs0 <= 181)%nat -> quotes_nonzero qs -> quotes_wf qs ->
  fx_try_new qs base = Ok fx ->
  forall a b steps v, In a cs0 -> qpath qs a b steps ->
    exists d, fx_rate fx a b = Some (ND d) /\ wf d /\ re d = Rpath_prod steps /\
              coef d v = re d * logsum v steps.
Proof.
  intros TQ BO Hn NZ WF E a b steps v Ia P.
  assert (Ib : In b cs0).
  { eapply (qpath_ends cs0 qs); eauto. intros q Iq. destruct (tree_members _ _ TQ q Iq) as (A & B & _). auto. }
  destruct (try_new_ok_inv _ _ _ E) as (NE & L & SC).
  pose proof (tree_index_perm cs0 qs base TQ NE BO) as PM.
  rewrite (fx_try_new_unfold qs base NE L SC) in E. rewrite create_OOne in E.
  set (cs := ccy_index qs base) in *.
  assert (UQ : forall q, In q qs -> j1U (gval1 v q)).
  { intros q Iq. unfold j1U, gval1, jet1. cbn [fst]. rewrite re_lift1. apply NZ. exact Iq. }
  destruct (k_potential_exists J1_group (gval1 v) cs0 qs TQ UQ) as (V & UV & PV).
  assert (Hn' : (length cs <= 181)%nat) by (rewrite (Permutation_length PM); exact Hn).
  assert (M : members_in cs (map pair qs)) by (apply members_of_quotes, ccy_index_members).
  destruct (create_gen ops_d cs (map pair qs) (map num_to_dual (lifted_rates qs OOne))) as [arr| |] eqn:CE;
    cbn [omap obind] in E; try discriminate.
  inversion E; subst fx; clear E.
  assert (Ia' : In a cs) by (eapply Permutation_in; [apply Permutation_sym|]; eauto).
  assert (Ib' : In b cs) by (eapply Permutation_in; [apply Permutation_sym|]; eauto).
  pose proof (create_gen_rel ops_d J1_group (rel1 v) (rel1_mul v) (rel1_inv v) (rel1_one v)
                cs (map pair qs) (map num_to_dual (lifted_rates qs OOne)) V UV Hn' M) as CR.
  assert (F : Forall2 (fun p x => rel1 v x (j1mul (V (p0 p)) (j1inv (V (p1 p)))))
                      (map pair qs) (map num_to_dual (lifted_rates qs OOne))).
  { clear -PV WF. induction qs as [|q qs' IH]; cbn; constructor.
    - split; [apply wf_lift1, WF; left; reflexivity|]. apply (PV q). left; reflexivity.
    - apply IH; [intros x Ix; apply WF; right; exact Ix|intros x Ix; apply PV; right; exact Ix]. }
  specialize (CR F arr CE a b Ia' Ib'). destruct CR as [Wd Jd].
  exists (mget dzero arr (idx cs a) (idx cs b)). unfold fx_rate. cbn [currencies fx_array].
  rewrite (index_of_idx _ _ Ia'), (index_of_idx _ _ Ib'). split; [reflexivity|]. split; [exact Wd|].
  rewrite <- (k_path_telescopes J1_group (gval1 v) qs V (conj UV PV) a b steps P) in Jd.
  rewrite j1_path_prod in Jd.
  - unfold jet1 in Jd. cbn [fzero ops_d] in Jd. inversion Jd as [[J1' J2']]. rewrite J2', J1'. auto.
  - intros q d I. apply NZ. eapply steps_in_qs; eauto.
Qed.

(* ------------------------------------------------------------------ plain quotes: names and signs *)
Lemma coef_lift1_plain q r v : rate q = NF r ->
  coef (lift1 q) v = if name_eqb v (fx_var (pair q)) then 1 else 0.
Proof. intros E. unfold lift1. rewrite E. cbn [set_order_clone set_order num_to_dual]. apply coef_var. Qed.
Lemma lift1_dual q d : rate q = ND d -> lift1 q = d.
Proof. intros E. unfold lift1. rewrite E. reflexivity. Qed.
Lemma lift1_dual2 q d : rate q = ND2 d -> lift1 q = dual_of_dual2 d.
Proof. intros E. unfold lift1. rewrite E. reflexivity. Qed.

(* a currency code as Ccy::try_new accepts it: three bytes *)
Definition ccy_ok (c : name) : Prop := str_bytes c = 3%Z.
Lemma utf8_len_pos c : (1 <= utf8_len c)%Z.
Proof. unfold utf8_len. destruct (Z.ltb c 128), (Z.ltb c 2048), (Z.ltb c 65536); lia. Qed.
Lemma str_bytes_nonneg s : (0 <= str_bytes s)%Z.
Proof. induction s as [|c s IH]; cbn; [lia|]. pose proof (utf8_len_pos c). unfold str_bytes in IH. lia. Qed.
Lemma app_inj_bytes (x : name) : forall x' y y', str_bytes x = str_bytes x' -> x ++ y = x' ++ y' -> x = x' /\ y = y'.
Proof.
  induction x as [|c x IH]; intros [|c' x'] y y' B E.
  - auto.
  - exfalso. cbn in B. pose proof (utf8_len_pos c'). pose proof (str_bytes_nonneg x'). unfold str_bytes in *. lia.
  - exfalso. cbn in B. pose proof (utf8_len_pos c). pose proof (str_bytes_nonneg x). unfold str_bytes in *. lia.
  - cbn in E. inversion E as [[E1 E2]]. subst c'. cbn in B.
    destruct (IH x' y y') as [-> ->]; [unfold str_bytes in *; lia|exact E2|]. auto.
Qed.
Lemma fx_var_inj p p' : ccy_ok (p0 p) -> ccy_ok (p0 p') -> fx_var p = fx_var p' -> p = p'.
Proof.
  intros O O' E. unfold fx_var, pair_name in E. apply app_inv_head in E.
  destruct (app_inj_bytes _ _ _ _ (eq_trans O (eq_sym O')) E) as [E0 E1].
  destruct p, p'. cbn in *. congruence.
Qed.

Lemma logsum_zero v steps : (forall q d, In (q, d) steps -> coef (lift1 q) v = 0) -> logsum v steps = 0.
Proof.
  induction steps as [|[q d] r IH]; intros Z; cbn; [reflexivity|].
  rewrite (Z q d) by (left; reflexivity). rewrite IH by (intros; eapply Z; right; eauto).
  unfold Rdiv. ring.
Qed.
Lemma logsum_single v steps q d : In (q, d) steps -> NoDup (map fst steps) ->
  (forall q' d', In (q', d') steps -> q' <> q -> coef (lift1 q') v = 0) ->
  logsum v steps = (if d then 1 else -1) * coef (lift1 q) v / qval q.
Proof.
  induction steps as [|[x e] r IH]; intros I ND Z; [contradiction|].
  cbn [map fst] in ND. inversion ND as [|? ? NI ND']; subst. cbn [logsum]. destruct I as [E|I].
  - inversion E; subst x e. rewrite logsum_zero; [ring|].
    intros q' d' I'. apply (Z q' d'); [right; exact I'|]. intros ->. apply NI.
    change q with (fst (q, d')). apply in_map. exact I'.
  - rewrite IH; auto; [|intros q' d' I' N; apply (Z q' d'); [right; exact I'|exact N]].
    rewrite (Z x e); [unfold Rdiv; ring|left; reflexivity|].
    intros ->. apply NI. change q with (fst (q, d)). apply in_map. exact I.
Qed.

(* a plain quote on the walk: sensitivity = +- cross / quote, reported under "fx_" ++ pair *)
Theorem gradient_plain_on_path cs0 (qs : list quoteR) base fx :
  tree_quotes cs0 qs -> base_ok cs0 base -> (length cs0 <= 181)%nat -> quotes_nonzero qs -> quotes_wf qs ->
  fx_try_new qs base = Ok fx ->
  forall a b steps q dir r, In a cs0 -> qpath qs a b steps -> NoDup (map fst steps) ->
    In (q, dir) steps -> rate q = NF r ->
    (forall q' d', In (q', d') steps -> q' <> q -> coef (lift1 q') (fx_var (pair q)) = 0) ->
    exists d, fx_rate fx a b = Some (ND d) /\ wf d /\ re d = Rpath_prod steps /\
              coef d (fx_var (pair q)) = (if dir then 1 else -1) * re d / r.
Proof.
  intros TQ BO Hn NZ WF E a b steps q dir r Ia P ND I ER Z.
  destruct (market_gradient cs0 qs base fx TQ BO Hn NZ WF E a b steps (fx_var (pair q)) Ia P)
    as (d & Ed & Wd & Rd & Cd).
  exists d. split; [exact Ed|]. split; [exact Wd|]. split; [exact Rd|].
  rewrite Cd, (logsum_single _ _ q dir I ND Z).
  rewrite (coef_lift1_plain q r _ ER), name_eqb_refl. unfold qval. rewrite ER. cbn [num_real].
  unfold Rdiv. ring.
Qed.

(* a name carried by no quote on the walk has sensitivity zero *)
Theorem gradient_off_path cs0 (qs : list quoteR) base fx :
  tree_quotes cs0 qs -> base_ok cs0 base -> (length cs0 <= 181)%nat -> quotes_nonzero qs -> quotes_wf qs ->
  fx_try_new qs base = Ok fx ->
  forall a b steps v, In a cs0 -> qpath qs a b steps ->
    (forall q d, In (q, d) steps -> coef (lift1 q) v = 0) ->
    exists d, fx_rate fx a b = Some (ND d) /\ wf d /\ coef d v = 0.
Proof.
  intros TQ BO Hn NZ WF E a b steps v Ia P Z.
  destruct (market_gradient cs0 qs base fx TQ BO Hn NZ WF E a b steps v Ia P) as (d & Ed & Wd & Rd & Cd).
  exists d. split; [exact Ed|]. split; [exact Wd|]. rewrite Cd, (logsum_zero _ _ Z). ring.
Qed.

(* the side condition of the two theorems for the other PLAIN quotes of a tree with valid codes *)
Lemma other_plain_quote_zero cs0 (qs : list quoteR) q q' r' :
  tree_quotes cs0 qs -> (forall c, In c cs0 -> ccy_ok c) -> In q qs -> In q' qs -> q' <> q ->
  rate q' = NF r' -> coef (lift1 q') (fx_var (pair q)) = 0.
Proof.
  intros TQ OK Iq Iq' N ER. rewrite (coef_lift1_plain q' r' _ ER).
  destruct (name_eqb (fx_var (pair q)) (fx_var (pair q'))) eqn:E; [|reflexivity].
  apply name_eqb_eq in E. exfalso. apply N.
  apply (NoDup_map_inj_in pair qs (tree_pairs_NoDup _ _ TQ)); auto. symmetry.
  apply fx_var_inj; auto; apply OK; [apply (tree_members _ _ TQ q Iq)|apply (tree_members _ _ TQ q' Iq')].
Qed.
