(* Proofs about Model/Json.v: the tree-level round trip dec (enc o) = Ok o of every serialisable
   type (C16), the loader never aborts outside the two load-time reconstructions and every loaded
   value has its shape up to the relations a derived Deserialize does not check (C20). Axiom-free. *)
From Coq Require Import ZArith Lia List Bool Arith String.
From RL Require Import Base.Num Base.Str Base.Outcome Model.Dates Model.Calendar Model.Named
  Model.Dual Model.Number Model.FX Model.Json Model.Entry Proofs.NamedP Proofs.EntryP.
Import ListNotations.
Open Scope Z_scope.

(* ------------------------------------------------------------------ generic *)
Lemma omapM_map {A B} (d : B -> outcome A) (e : A -> B) (l : list A) :
  (forall x, In x l -> d (e x) = Ok x) -> omapM d (map e l) = Ok l.
Proof.
  induction l as [|x l IH]; intros Hx; cbn [map omapM]; auto.
  rewrite Hx by (left; auto). cbn [obind]. rewrite IH by (intros; apply Hx; right; auto). reflexivity.
Qed.
Lemma omapM_no_panic' {A B} (f : A -> outcome B) l : (forall x, In x l -> f x <> Panic) -> omapM f l <> Panic.
Proof.
  induction l as [|x l IH]; intros Hf; cbn [omapM]; [discriminate|].
  pose proof (Hf x (or_introl eq_refl)) as Hx.
  destruct (f x); cbn [obind]; auto; try discriminate.
  assert (omapM f l <> Panic) by (apply IH; intros; apply Hf; right; auto).
  destruct (omapM f l); cbn [obind]; auto; discriminate.
Qed.
Lemma omapM_ok_in {A B} (f : A -> outcome B) l r : omapM f l = Ok r ->
  forall y, In y r -> exists x, In x l /\ f x = Ok y.
Proof.
  revert r. induction l as [|x l IH]; intros r E y Hy; cbn [omapM] in E.
  - injection E as <-. destruct Hy.
  - destruct (f x) as [b| |] eqn:F; cbn [obind] in E; try discriminate.
    destruct (omapM f l) as [bs| |] eqn:G; cbn [obind] in E; try discriminate.
    injection E as <-. destruct Hy as [<-|Hy].
    + exists x. split; auto. left; auto.
    + destruct (IH bs eq_refl y Hy) as [x' [I F']]. exists x'. split; auto. right; auto.
Qed.
Lemma omapM_length {A B} (f : A -> outcome B) l r : omapM f l = Ok r -> List.length r = List.length l.
Proof.
  revert r. induction l as [|x l IH]; intros r E; cbn [omapM] in E.
  - injection E as <-. reflexivity.
  - destruct (f x) as [b| |]; cbn [obind] in E; try discriminate.
    destruct (omapM f l) as [bs| |]; cbn [obind] in E; try discriminate.
    injection E as <-. cbn [List.length]. f_equal. apply IH. reflexivity.
Qed.

Lemma index_of_app_fresh (k : name) pre post : ~ In k pre ->
  index_of k (pre ++ k :: post) = Some (List.length pre).
Proof.
  induction pre as [|x pre IH]; intros Hn; cbn [app index_of List.length].
  - rewrite name_eqb_refl. reflexivity.
  - destruct (name_eqb k x) eqn:E.
    + apply name_eqb_eq in E. subst. exfalso. apply Hn. left; auto.
    + rewrite IH by (intros C; apply Hn; right; auto). reflexivity.
Qed.

Lemma index_of_bound (v : name) l i : index_of v l = Some i -> (i < List.length l)%nat.
Proof.
  revert i. induction l as [|x l IH]; intros i; cbn [index_of]; [discriminate|].
  destruct (name_eqb v x).
  - intros [= <-]. cbn [List.length]. lia.
  - destruct (index_of v l) as [k|]; cbn [option_map]; [|discriminate].
    intros [= <-]. specialize (IH k eq_refl). cbn [List.length]. lia.
Qed.

Section Gen.
Context {T : Type} `{Num T}.
Notation json := (json T).

Lemma existsb_nat_false i seen : (forall j, In j seen -> j <> i) -> existsb (Nat.eqb i) seen = false.
Proof.
  induction seen as [|x seen IH]; intros Hs; cbn [existsb]; auto.
  rewrite IH by (intros; apply Hs; right; auto).
  destruct (Nat.eqb_spec i x) as [->|]; auto. exfalso. apply (Hs x); auto. left; auto.
Qed.

(* scanning the object enc_struct wrote: every field is met once, in order *)
Lemma scan_chk_enc (chks : list (json -> outcome unit)) (post : list name) :
  forall (pre : list name) (vals : list json) (seen : list nat),
  NoDup (pre ++ post) ->
  (forall j, In j seen -> (j < List.length pre)%nat) ->
  List.length vals = List.length post ->
  (forall i, (i < List.length post)%nat -> nth (List.length pre + i) chks no_chk (nth i vals JNull) = Ok tt) ->
  scan_chk (pre ++ post) chks seen (combine (map KStr post) vals) = Ok tt.
Proof.
  induction post as [|k post IH]; intros pre vals seen ND Hs Hl Hc.
  - reflexivity.
  - destruct vals as [|v vals]; [discriminate|].
    cbn [map combine scan_chk field_index].
    assert (Hk : ~ In k pre).
    { intros C. apply NoDup_remove_2 in ND. apply ND. apply in_or_app. left; auto. }
    rewrite index_of_app_fresh by auto.
    rewrite existsb_nat_false by (intros j Hj; specialize (Hs j Hj); lia).
    specialize (Hc O (Nat.lt_0_succ _)) as Hc0. rewrite Nat.add_0_r in Hc0. cbn [nth] in Hc0.
    rewrite Hc0. cbn [obind].
    replace (pre ++ k :: post) with ((pre ++ [k]) ++ post) by (rewrite <- app_assoc; reflexivity).
    apply IH.
    + rewrite <- app_assoc. exact ND.
    + intros j [<-|Hj]; rewrite app_length; cbn [List.length]; [lia | specialize (Hs j Hj); lia].
    + cbn [List.length] in Hl. lia.
    + intros i Hi. rewrite app_length. cbn [List.length].
      specialize (Hc (S i)). cbn [nth List.length] in Hc.
      replace (List.length pre + 1 + i)%nat with (List.length pre + S i)%nat by lia. apply Hc. lia.
Qed.
Lemma lookup_enc (post : list name) : forall (vals : list json) (k : name),
  ~ In k post -> lookup k (combine (map KStr post) vals) = None.
Proof.
  induction post as [|p post IH]; intros vals k Hn; [reflexivity|].
  destruct vals as [|v vals]; [reflexivity|]. cbn [map combine lookup].
  destruct (name_eqb k p) eqn:E.
  - apply name_eqb_eq in E. subst. exfalso. apply Hn. left; auto.
  - apply IH. intros C. apply Hn. right; auto.
Qed.
Lemma lookups_enc (post : list name) : forall (vals : list json),
  NoDup post -> List.length vals = List.length post ->
  forall (kvs0 : list (key * json)),
  (forall k, In k post -> lookup k kvs0 = None) ->
  map (fun f => match lookup f kvs0 with Some v => Some v | None => lookup f (combine (map KStr post) vals) end) post
    = map Some vals.
Proof.
  induction post as [|p post IH]; intros vals ND Hl kvs0 H0.
  - destruct vals; [reflexivity | discriminate].
  - destruct vals as [|v vals]; [discriminate|].
    inversion ND as [|? ? Hp ND']; subst.
    cbn [map combine]. f_equal.
    + rewrite H0 by (left; auto). cbn [lookup]. rewrite name_eqb_refl. reflexivity.
    + rewrite <- (IH vals ND' ltac:(cbn [List.length] in Hl; lia) (kvs0 ++ [(KStr p, v)])).
      * apply map_ext_in. intros f Hf.
        assert (Hfp : name_eqb f p = false).
        { apply name_eqb_neq. intros ->. contradiction. }
        assert (L : forall l, lookup f (l ++ [(KStr p, v)]) = lookup f l).
        { induction l as [|[[s|z] w] l IHl]; cbn [app lookup].
          - rewrite Hfp. reflexivity.
          - destruct (name_eqb f s); auto.
          - auto. }
        rewrite L. rewrite H0 by (right; auto).
        cbn [lookup]. rewrite Hfp. reflexivity.
      * intros k Hk.
        assert (Hkp : name_eqb k p = false).
        { apply name_eqb_neq. intros ->. contradiction. }
        assert (L : forall l, lookup k (l ++ [(KStr p, v)]) = lookup k l).
        { induction l as [|[[s|z] w] l IHl]; cbn [app lookup].
          - rewrite Hkp. reflexivity.
          - destruct (name_eqb k s); auto.
          - auto. }
        rewrite L. apply H0. right; auto.
Qed.

Theorem fields_of_enc (fields : list name) (chks : list (json -> outcome unit)) (vals : list json) :
  NoDup fields -> List.length vals = List.length fields ->
  (forall i, (i < List.length fields)%nat -> nth i chks no_chk (nth i vals JNull) = Ok tt) ->
  fields_of fields chks (enc_struct fields vals) = Ok (map Some vals).
Proof.
  intros ND Hl Hc. unfold fields_of, enc_struct.
  pose proof (scan_chk_enc chks fields [] vals [] ND (fun j (F : In j []) => match F with end) Hl Hc) as S.
  cbn [app] in S. rewrite S.
  cbn [obind]. f_equal.
  rewrite <- (lookups_enc fields vals ND Hl []); [|intros; reflexivity].
  apply map_ext. intros f. reflexivity.
Qed.

Lemma chk_ok {A} (d : json -> outcome A) j a : d j = Ok a -> chk d j = Ok tt.
Proof. unfold chk. intros ->. reflexivity. Qed.

(* tagged enums *)
Lemma dec_tagged_one {A} (variants : list (name * (json -> outcome A))) k d v :
  find (fun kv => name_eqb k (fst kv)) variants = Some (k, d) ->
  dec_tagged variants (JObj [(KStr k, v)]) = d v.
Proof. intros F. unfold dec_tagged. rewrite F. destruct (d v); reflexivity. Qed.

(* ------------------------------------------------------------------ sizes that fit a usize *)
Definition fits (n : nat) : Prop := Z.of_nat n <= u64_max.
Lemma dec_usize_fits n : fits n -> dec_usize (JInt (Z.of_nat n) : json) = Ok (Z.of_nat n).
Proof.
  unfold fits, dec_usize, dec_uint. intros Hn.
  destruct (Z.leb_spec 0 (Z.of_nat n)); [|lia]. destruct (Z.leb_spec (Z.of_nat n) u64_max); [|lia]. reflexivity.
Qed.
Lemma dec_usize_range z : 0 <= z <= u64_max -> dec_usize (JInt z : json) = Ok z.
Proof.
  unfold dec_usize, dec_uint. intros Hn.
  destruct (Z.leb_spec 0 z); [|lia]. destruct (Z.leb_spec z u64_max); [|lia]. reflexivity.
Qed.

(* ------------------------------------------------------------------ ndarray *)
Lemma nd_raw_enc {A} (rank : nat) (d : json -> outcome A) (e : A -> json) (dims : list Z) (l : list A) :
  (forall x, In x l -> d (e x) = Ok x) -> (forall z, In z dims -> 0 <= z <= u64_max) -> List.length dims = rank ->
  nd_raw rank d (enc_struct [k_v; k_dim; k_data] [JInt 1; JArr (map JInt dims); enc_seq e l]) = Ok (dims, l).
Proof.
  intros Hd Hz Hr. unfold nd_raw, enc_struct. cbn [map combine nd_scan].
  change (name_eqb k_v k_v) with true. cbv iota.
  change (dec_u8 (JInt 1 : json)) with (Ok 1 : outcome Z). cbn [obind]. change (1 =? 1) with true. cbv iota.
  change (name_eqb k_dim k_v) with false. change (name_eqb k_dim k_data) with false.
  change (name_eqb k_dim k_dim) with true. cbv iota.
  unfold dec_seq at 1. rewrite omapM_map by (intros z Hin; apply dec_usize_range; auto). cbn [obind].
  rewrite Hr, Nat.eqb_refl.
  change (name_eqb k_data k_v) with false. change (name_eqb k_data k_data) with true. cbv iota.
  unfold dec_seq, enc_seq. rewrite omapM_map by auto. cbn [obind negb]. reflexivity.
Qed.
Lemma dec_arr1_enc {A} (d : json -> outcome A) (e : A -> json) (l : list A) :
  (forall x, In x l -> d (e x) = Ok x) -> fits (List.length l) -> dec_arr1 d (enc_arr1 e l) = Ok l.
Proof.
  intros Hd Hf. unfold dec_arr1, enc_arr1.
  change (JArr [JInt (Z.of_nat (List.length l))]) with (JArr (map JInt [Z.of_nat (List.length l)]) : json).
  rewrite nd_raw_enc; auto.
  - cbn [obind fst snd]. rewrite Z.eqb_refl. reflexivity.
  - intros z [<-|[]]. unfold fits in Hf. lia.
Qed.
Definition arr2_ok (a : arr2 T) : Prop :=
  0 <= a_rows a <= u64_max /\ 0 <= a_cols a <= u64_max /\ a_rows a * a_cols a = Z.of_nat (List.length (a_data a)).
Lemma dec_f64_num (x : T) : dec_f64 (JNum x) = Ok x.
Proof. reflexivity. Qed.
Lemma dec_arr2_enc (a : arr2 T) : arr2_ok a -> dec_arr2 (enc_arr2 a) = Ok a.
Proof.
  intros [Hr [Hc Hd]]. unfold dec_arr2, enc_arr2.
  change (JArr [JInt (a_rows a); JInt (a_cols a)]) with (JArr (map JInt [a_rows a; a_cols a]) : json).
  rewrite nd_raw_enc; auto.
  - cbn [obind fst snd]. rewrite Hd, Z.eqb_refl. destruct a; reflexivity.
  - intros z [<-|[<-|[]]]; auto.
Qed.

(* ------------------------------------------------------------------ Dual, Dual2, Number *)
(* a reachable Dual / Dual2: duplicate-free names, one derivative per name, an n x n second-order array *)
Definition ok_dual (d : dual T) : Prop :=
  NoDup (vs d) /\ fits (List.length (du d)) /\ List.length (vs d) = List.length (du d).
Definition ok_jdual2 (d : jdual2 T) : Prop :=
  NoDup (j2_vars d) /\ fits (List.length (j2_du d)) /\ arr2_ok (j2_dd d) /\
  List.length (j2_vars d) = List.length (j2_du d) /\
  a_rows (j2_dd d) = Z.of_nat (List.length (j2_vars d)) /\ a_cols (j2_dd d) = Z.of_nat (List.length (j2_vars d)).

Lemma dedup_aux_id' seen l : NoDup l -> (forall v, In v l -> ~ In v seen) -> dedup_aux seen l = l.
Proof.
  revert seen. induction l as [|x l IH]; intros seen ND Hs; cbn [dedup_aux]; auto.
  inversion ND; subst.
  assert (M : mem x seen = false).
  { destruct (mem x seen) eqn:E; auto. apply mem_in' in E. exfalso. apply (Hs x); auto. left; auto. }
  rewrite M. f_equal. apply IH; auto.
  intros v Hv [<-|C]; [contradiction|]. apply (Hs v); auto. right; auto.
Qed.
Lemma dedup_id' l : NoDup l -> dedup l = l.
Proof. intros. apply dedup_aux_id'; auto. Qed.

Lemma dec_vars_enc l : NoDup l -> dec_vars (enc_vars l : json) = Ok l.
Proof.
  intros ND. unfold dec_vars, enc_vars, dec_seq, enc_seq.
  rewrite omapM_map by reflexivity. cbn [omap]. rewrite dedup_id'; auto.
Qed.

Ltac field_cases i Hi :=
  match type of Hi with (_ < ?l)%nat => let n := eval vm_compute in l in change l with n in Hi end;
  do 8 (try (destruct i as [|i]; [cbn [nth] | try (exfalso; lia)])).

Theorem dec_dual_enc d : ok_dual d -> dec_dual (enc_dual d) = Ok d.
Proof.
  intros [ND [F L]]. unfold dec_dual, enc_dual.
  assert (A1 : dec_arr1 dec_f64 (enc_arr1 JNum (du d)) = Ok (du d)) by (apply dec_arr1_enc; auto).
  rewrite fields_of_enc.
  - cbn [obind map slot nth req]. rewrite dec_vars_enc by auto. rewrite A1. cbn [obind].
    rewrite L, Nat.eqb_refl. destruct d; reflexivity.
  - vm_compute. repeat constructor; intros C; repeat (destruct C as [C|C]; [discriminate|]); auto.
  - reflexivity.
  - intros i Hi. field_cases i Hi.
    + reflexivity.
    + eapply chk_ok. apply dec_vars_enc; auto.
    + eapply chk_ok. exact A1.
Qed.

Theorem dec_dual2_enc d : ok_jdual2 d -> dec_dual2 (enc_dual2 d) = Ok d.
Proof.
  intros [ND [F [A [L [Rw Cl]]]]]. unfold dec_dual2, enc_dual2.
  assert (A1 : dec_arr1 dec_f64 (enc_arr1 JNum (j2_du d)) = Ok (j2_du d)) by (apply dec_arr1_enc; auto).
  pose proof (dec_arr2_enc _ A) as A2.
  rewrite fields_of_enc.
  - cbn [obind map slot nth req]. rewrite dec_vars_enc by auto. rewrite A1, A2. cbn [obind].
    rewrite Rw, Cl, L, Nat.eqb_refl, Z.eqb_refl. cbn [andb]. destruct d; reflexivity.
  - vm_compute. repeat constructor; intros C; repeat (destruct C as [C|C]; [discriminate|]); auto.
  - reflexivity.
  - intros i Hi. field_cases i Hi.
    + reflexivity.
    + eapply chk_ok. apply dec_vars_enc; auto.
    + eapply chk_ok. exact A1.
    + eapply chk_ok. exact A2.
Qed.

Definition ok_number (x : jnumber T) : Prop :=
  match x with JNF _ => True | JND d => ok_dual d | JND2 d => ok_jdual2 d end.
Theorem dec_number_enc x : ok_number x -> dec_number (enc_number x) = Ok x.
Proof.
  destruct x as [f|d|d]; intros Hx; unfold dec_number, enc_number.
  - rewrite (dec_tagged_one _ k_F64 (fun j => omap JNF (dec_f64 j))) by reflexivity. reflexivity.
  - rewrite (dec_tagged_one _ k_Dual (fun j => omap JND (dec_dual j))) by reflexivity.
    rewrite dec_dual_enc by auto. reflexivity.
  - rewrite (dec_tagged_one _ k_Dual2 (fun j => omap JND2 (dec_dual2 j))) by reflexivity.
    rewrite dec_dual2_enc by auto. reflexivity.
Qed.

(* ------------------------------------------------------------------ calendars *)
Lemma zdedup_aux_id seen l : NoDup l -> (forall v, In v l -> ~ In v seen) -> zdedup_aux seen l = l.
Proof.
  revert seen. induction l as [|x l IH]; intros seen ND Hs; cbn [zdedup_aux]; auto.
  inversion ND; subst.
  assert (M : zmem x seen = false) by (apply zmem_false; apply Hs; left; auto).
  rewrite M. f_equal. apply IH; auto.
  intros v Hv [<-|C]; [contradiction|]. apply (Hs v); auto. right; auto.
Qed.
Lemma zdedup_id l : NoDup l -> zdedup l = l.
Proof. intros. apply zdedup_aux_id; auto. Qed.
Lemma zdedup_aux_nodup seen l : NoDup (zdedup_aux seen l) /\ forall v, In v (zdedup_aux seen l) -> In v l /\ ~ In v seen.
Proof.
  revert seen. induction l as [|x l IH]; intros seen; cbn [zdedup_aux].
  - split; [constructor | intros v []].
  - destruct (zmem x seen) eqn:M.
    + destruct (IH seen) as [N I]. split; auto. intros v Hv. destruct (I v Hv). split; auto. right; auto.
    + destruct (IH (x :: seen)) as [N I]. split.
      * constructor; auto. intros C. destruct (I x C) as [_ C2]. apply C2. left; auto.
      * intros v [<-|Hv].
        -- split; [left; auto|]. apply zmem_false; auto.
        -- destruct (I v Hv) as [A B]. split; [right; auto|]. intros C. apply B. right; auto.
Qed.
Lemma zdedup_nodup l : NoDup (zdedup l).
Proof. apply zdedup_aux_nodup. Qed.
Lemma zdedup_in l v : In v (zdedup l) -> In v l.
Proof. intros Hv. apply (proj2 (zdedup_aux_nodup [] l)) in Hv. tauto. Qed.

Lemma dec_weekday_enc w : 0 <= w <= 6 -> dec_weekday (enc_weekday w : json) = Ok w.
Proof.
  intros Hw. assert (C : w = 0 \/ w = 1 \/ w = 2 \/ w = 3 \/ w = 4 \/ w = 5 \/ w = 6) by lia.
  destruct C as [->|[->|[->|[->|[->|[->| ->]]]]]]; reflexivity.
Qed.
Lemma dec_weekday_range (j : json) w : dec_weekday j = Ok w -> 0 <= w <= 6.
Proof.
  unfold dec_weekday. destruct j; try discriminate. unfold wd_parse.
  destruct (index_of _ (map (map ascii_lower) wd_names)) as [i|] eqn:E.
  - intros [= <-]. apply index_of_bound in E. cbn in E. lia.
  - destruct (index_of _ wd_long) as [i|] eqn:F; cbn [option_map]; [|discriminate].
    intros [= <-]. apply index_of_bound in F. cbn in F. lia.
Qed.

Definition ok_cal (c : cal) : Prop :=
  NoDup (c_hols c) /\ NoDup (c_mask c) /\ Forall (fun v => 0 <= v <= 6) (c_mask c).
Theorem dec_cal_enc c : ok_cal c -> dec_cal (enc_cal c : json) = Ok c.
Proof.
  intros [NH [NM FM]]. unfold dec_cal, enc_cal.
  assert (A1 : dec_hols (enc_seq JDate (c_hols c) : json) = Ok (c_hols c)).
  { unfold dec_hols, dec_seq, enc_seq. rewrite omapM_map by reflexivity. cbn [omap]. rewrite zdedup_id; auto. }
  assert (A2 : dec_mask (enc_seq enc_weekday (c_mask c) : json) = Ok (c_mask c)).
  { unfold dec_mask, dec_seq, enc_seq. rewrite omapM_map.
    - cbn [omap]. rewrite zdedup_id; auto.
    - intros x Hx. apply dec_weekday_enc. rewrite Forall_forall in FM. auto. }
  rewrite fields_of_enc.
  - cbn [obind map slot nth req]. rewrite A1, A2. cbn [obind]. destruct c; reflexivity.
  - vm_compute. repeat constructor; intros C; repeat (destruct C as [C|C]; [discriminate|]); auto.
  - reflexivity.
  - intros i Hi. field_cases i Hi; eapply chk_ok; eauto.
Qed.

Definition ok_ucal (u : ucal) : Prop :=
  Forall ok_cal (u_cals u) /\ match u_settle u with None => True | Some v => Forall ok_cal v end.
Lemma dec_cals_enc l : Forall ok_cal l -> dec_seq dec_cal (enc_seq enc_cal l : json) = Ok l.
Proof.
  intros F. unfold dec_seq, enc_seq. apply omapM_map. intros x Hx. apply dec_cal_enc.
  rewrite Forall_forall in F. auto.
Qed.
Theorem dec_ucal_enc u : ok_ucal u -> dec_ucal (enc_ucal u : json) = Ok u.
Proof.
  intros [FC FS]. unfold dec_ucal, enc_ucal.
  pose proof (dec_cals_enc _ FC) as A1.
  assert (A2 : dec_opt (dec_seq dec_cal) (enc_opt (enc_seq enc_cal) (u_settle u) : json) = Ok (u_settle u)).
  { destruct (u_settle u) as [v|]; cbn [enc_opt]; [|reflexivity].
    unfold dec_opt, enc_seq. fold (enc_seq enc_cal v : json). unfold enc_seq at 1.
    change (omap Some (dec_seq dec_cal (JArr (map enc_cal v) : json)) = Ok (Some v)).
    fold (enc_seq enc_cal v : json). rewrite dec_cals_enc by auto. reflexivity. }
  rewrite fields_of_enc.
  - cbn [obind map slot nth req optf]. rewrite A1, A2. cbn [obind]. destruct u; reflexivity.
  - vm_compute. repeat constructor; intros C; repeat (destruct C as [C|C]; [discriminate|]); auto.
  - reflexivity.
  - intros i Hi. field_cases i Hi; eapply chk_ok; eauto.
Qed.

(* a NamedCal is reachable iff it is what its own name denotes *)
Definition ok_named (n : namedcal) : Prop := named_try_new (n_name n) = Ok n.
Lemma dec_named_model_enc n : dec_named_model (enc_named n : json) = Ok (n_name n).
Proof.
  unfold dec_named_model, enc_named. rewrite fields_of_enc.
  - reflexivity.
  - vm_compute. repeat constructor; intros C; repeat (destruct C as [C|C]; [discriminate|]); auto.
  - reflexivity.
  - intros i Hi. field_cases i Hi. reflexivity.
Qed.
Theorem dec_named_enc n : ok_named n -> dec_named rebuild_named (enc_named n : json) = Ok n.
Proof.
  intros Hn. unfold dec_named. rewrite dec_named_model_enc. cbn [obind].
  unfold rebuild_named. exact Hn.
Qed.
(* every constructed NamedCal is reachable in that sense: the stored name is already lower case *)
Lemma named_try_new_ok_named s n : named_try_new s = Ok n -> ok_named n.
Proof.
  intros E. unfold ok_named.
  assert (Hn : n_name n = lower s).
  { unfold named_try_new in E. destruct (split 124 (lower s)) as [|p0 [|p1 [|? ?]]]; try discriminate.
    - destruct (parse_cals p0); cbn [obind] in E; try discriminate. injection E as <-. reflexivity.
    - destruct (parse_cals p0); cbn [obind] in E; try discriminate.
      destruct (parse_cals p1); cbn [obind] in E; try discriminate. injection E as <-. reflexivity. }
  rewrite Hn, named_lower. exact E.
Qed.

(* ------------------------------------------------------------------ curves *)
Lemma dec_caltype_enc c :
  match c with CTCal x => ok_cal x | CTUnion u => ok_ucal u | CTNamed n => ok_named n end ->
  dec_caltype rebuild_named (enc_caltype c : json) = Ok c.
Proof.
  destruct c as [x|u|n]; intros Hc; unfold dec_caltype, enc_caltype.
  - rewrite (dec_tagged_one _ k_Cal (fun j => omap CTCal (dec_cal j))) by reflexivity.
    rewrite dec_cal_enc by auto. reflexivity.
  - rewrite (dec_tagged_one _ k_UnionCal (fun j => omap CTUnion (dec_ucal j))) by reflexivity.
    rewrite dec_ucal_enc by auto. reflexivity.
  - rewrite (dec_tagged_one _ k_NamedCal (fun j => omap CTNamed (dec_named rebuild_named j))) by reflexivity.
    rewrite dec_named_enc by auto. reflexivity.
Qed.

(* IndexMap<i64, V>: distinct keys inside the i64 range come back in the same order *)
Lemma im_put_fresh {V} k (v : V) m : ~ In k (map fst m) -> im_put k v m = m ++ [(k, v)].
Proof.
  induction m as [|[k' v'] m IH]; intros Hn; cbn [im_put app]; auto.
  destruct (Z.eqb_spec k k') as [->|Hne].
  - exfalso. apply Hn. left; auto.
  - f_equal. apply IH. intros C. apply Hn. right; auto.
Qed.
Lemma dec_imap_go_enc {V} (d : json -> outcome V) (e : V -> json) (m : list (Z * V)) :
  forall acc, NoDup (map fst acc ++ map fst m) ->
  (forall kv, In kv m -> i64_min <= fst kv <= i64_max /\ d (e (snd kv)) = Ok (snd kv)) ->
  dec_imap_go d (map (fun kv => (KInt (fst kv), e (snd kv))) m) acc = Ok (acc ++ m).
Proof.
  induction m as [|[k v] m IH]; intros acc ND Hm; cbn [map dec_imap_go].
  - rewrite app_nil_r. reflexivity.
  - destruct (Hm (k, v) (or_introl eq_refl)) as [Hr Hd]. cbn [fst snd] in *.
    destruct (Z.leb_spec i64_min k); [|lia]. destruct (Z.leb_spec k i64_max); [|lia]. cbn [andb].
    rewrite Hd. cbn [obind].
    assert (Hk : ~ In k (map fst acc)).
    { intros C. apply NoDup_remove_2 in ND. apply ND. apply in_or_app. left; auto. }
    rewrite im_put_fresh by auto. rewrite IH.
    + rewrite <- app_assoc. reflexivity.
    + rewrite map_app. cbn [map fst]. rewrite <- app_assoc. exact ND.
    + intros kv Hkv. apply Hm. right; auto.
Qed.
Definition ok_imap {V} (okv : V -> Prop) (m : list (Z * V)) : Prop :=
  NoDup (map fst m) /\ forall kv, In kv m -> i64_min <= fst kv <= i64_max /\ okv (snd kv).
Lemma dec_imap_enc {V} (d : json -> outcome V) (e : V -> json) (okv : V -> Prop) m :
  (forall v, okv v -> d (e v) = Ok v) -> ok_imap okv m -> dec_imap d (enc_imap e m) = Ok m.
Proof.
  intros Hd [ND Hm]. unfold dec_imap, enc_imap.
  rewrite (dec_imap_go_enc d e m []); auto.
  intros kv Hkv. destruct (Hm kv Hkv). split; auto.
Qed.

(* keys strictly increasing: what CurveDF::try_new (and now the loader) establishes by sort_keys *)
Lemma strictly_incr_tail a l : strictly_incr (a :: l) = true -> strictly_incr l = true.
Proof. destruct l as [|b l]; cbn [strictly_incr]; auto. intros E. apply andb_true_iff in E. tauto. Qed.
Lemma sort_keys_sorted {V} (m : list (Z * V)) : strictly_incr (map fst m) = true -> sort_keys m = m.
Proof.
  induction m as [|x m IH]; intros S; [reflexivity|].
  unfold sort_keys in *. cbn [fold_right]. rewrite IH by (eapply strictly_incr_tail; exact S).
  destruct m as [|y m]; [reflexivity|]. cbn [map strictly_incr] in S. apply andb_true_iff in S. destruct S as [S _].
  cbn [ins_key]. rewrite S. reflexivity.
Qed.
Lemma strictly_incr_lb a l : strictly_incr (a :: l) = true -> forall x, In x l -> a < x.
Proof.
  revert a. induction l as [|b l IH]; intros a S x Hx; [destruct Hx|].
  cbn [strictly_incr] in S. apply andb_true_iff in S. destruct S as [S1 S2]. apply Z.ltb_lt in S1.
  destruct Hx as [<-|Hx]; auto. specialize (IH b S2 x Hx). lia.
Qed.
Lemma strictly_incr_nodup l : strictly_incr l = true -> NoDup l.
Proof.
  induction l as [|a l IH]; intros S; constructor.
  - intros C. pose proof (strictly_incr_lb a l S a C). lia.
  - apply IH. eapply strictly_incr_tail; eauto.
Qed.
Definition ok_smap {V} (okv : V -> Prop) (m : list (Z * V)) : Prop :=
  strictly_incr (map fst m) = true /\ forall kv, In kv m -> i64_min <= fst kv <= i64_max /\ okv (snd kv).
Lemma ok_smap_imap {V} (okv : V -> Prop) m : ok_smap okv m -> ok_imap okv m.
Proof. intros [S Hm]. split; auto. apply strictly_incr_nodup; auto. Qed.
Definition ok_nodes (n : jnodes T) : Prop :=
  match n with
  | NdF m => ok_smap (fun _ => True) m
  | NdD m => ok_smap ok_dual m
  | NdD2 m => ok_smap ok_jdual2 m
  end.
Lemma dec_nodes_enc n : ok_nodes n -> dec_nodes (enc_nodes n) = Ok n.
Proof.
  destruct n as [m|m|m]; intros Hn; unfold dec_nodes, enc_nodes; pose proof (ok_smap_imap _ _ Hn) as Hi; destruct Hn as [S _].
  - rewrite (dec_tagged_one _ k_F64 (fun j => omap (fun m => NdF (sort_keys m)) (dec_imap dec_f64 j))) by reflexivity.
    rewrite (dec_imap_enc dec_f64 JNum (fun _ => True)); auto. cbn [omap]. rewrite sort_keys_sorted; auto.
  - rewrite (dec_tagged_one _ k_Dual (fun j => omap (fun m => NdD (sort_keys m)) (dec_imap dec_dual j))) by reflexivity.
    rewrite (dec_imap_enc dec_dual enc_dual ok_dual); auto; [|apply dec_dual_enc]. cbn [omap]. rewrite sort_keys_sorted; auto.
  - rewrite (dec_tagged_one _ k_Dual2 (fun j => omap (fun m => NdD2 (sort_keys m)) (dec_imap dec_dual2 j))) by reflexivity.
    rewrite (dec_imap_enc dec_dual2 enc_dual2 ok_jdual2); auto; [|apply dec_dual2_enc]. cbn [omap]. rewrite sort_keys_sorted; auto.
Qed.
Lemma dec_rule_enc r : (r < 6)%nat -> dec_rule (enc_rule r : json) = Ok r.
Proof.
  intros Hr. do 6 (destruct r as [|r]; [reflexivity|]). lia.
Qed.
Lemma dec_unit_enum_enc names i : NoDup names -> (i < List.length names)%nat ->
  dec_unit_enum names (JStr (nth i names []) : json) = Ok i.
Proof.
  intros ND Hi. unfold dec_unit_enum.
  assert (E : index_of (nth i names []) names = Some i).
  { revert i Hi. induction names as [|x names IH]; intros i Hi; [cbn in Hi; lia|].
    inversion ND; subst. destruct i as [|i]; cbn [nth index_of].
    - rewrite name_eqb_refl. reflexivity.
    - destruct (name_eqb (nth i names []) x) eqn:E.
      + apply name_eqb_eq in E. exfalso. apply H2. rewrite <- E. apply nth_In. cbn in Hi. lia.
      + rewrite IH; auto. cbn in Hi. lia. }
  rewrite E. reflexivity.
Qed.
Lemma nodup_closed (l : list name) : nodupb l = true -> NoDup l.
Proof. apply nodupb_spec. Qed.

Definition ok_curve (c : jcurve T) : Prop :=
  ok_nodes (cv_nodes c) /\ (cv_rule c < 6)%nat /\ (cv_conv c < 11)%nat /\ (cv_mod c < 5)%nat /\
  match cv_cal c with CTCal x => ok_cal x | CTUnion u => ok_ucal u | CTNamed n => ok_named n end.
Theorem dec_curvedf_enc c : ok_curve c -> dec_curvedf rebuild_named (enc_curvedf c) = Ok c.
Proof.
  intros [Hn [Hr [Hc [Hm Hcal]]]]. unfold dec_curvedf, enc_curvedf.
  pose proof (dec_nodes_enc _ Hn) as A0. pose proof (dec_rule_enc _ Hr) as A1.
  assert (A3 : dec_unit_enum conv_names (JStr (nth (cv_conv c) conv_names []) : json) = Ok (cv_conv c)).
  { apply dec_unit_enum_enc; [apply nodup_closed; reflexivity | exact Hc]. }
  assert (A4 : dec_unit_enum mod_names (JStr (nth (cv_mod c) mod_names []) : json) = Ok (cv_mod c)).
  { apply dec_unit_enum_enc; [apply nodup_closed; reflexivity | exact Hm]. }
  assert (A5 : dec_opt dec_f64 (enc_opt JNum (cv_base c) : json) = Ok (cv_base c)).
  { destruct (cv_base c); reflexivity. }
  pose proof (dec_caltype_enc _ Hcal) as A6.
  rewrite fields_of_enc.
  - cbn [obind map slot nth req optf]. rewrite A0, A1, A3, A4, A5, A6. cbn [obind dec_str].
    destruct c; reflexivity.
  - apply nodup_closed. reflexivity.
  - reflexivity.
  - intros i Hi. field_cases i Hi; try (eapply chk_ok; eauto; fail). reflexivity.
Qed.
Theorem dec_curve_enc c : ok_curve c -> dec_curve rebuild_named (enc_curve c) = Ok c.
Proof.
  intros Hc. unfold dec_curve, enc_curve. pose proof (dec_curvedf_enc c Hc) as A.
  rewrite fields_of_enc.
  - cbn [obind map slot nth req]. exact A.
  - apply nodup_closed. reflexivity.
  - reflexivity.
  - intros i Hi. field_cases i Hi. eapply chk_ok; eauto.
Qed.

(* ------------------------------------------------------------------ FX *)
Lemma dec_ccy_enc c : dec_ccy (enc_ccy c : json) = Ok c.
Proof.
  unfold dec_ccy, enc_ccy. rewrite fields_of_enc.
  - reflexivity.
  - apply nodup_closed. reflexivity.
  - reflexivity.
  - intros i Hi. field_cases i Hi. reflexivity.
Qed.
Definition ok_fxrate (r : jfxrate T) : Prop := ok_number (fr_rate r).
Lemma dec_fxrate_enc r : ok_fxrate r -> dec_fxrate (enc_fxrate r) = Ok r.
Proof.
  intros Hr. unfold dec_fxrate, enc_fxrate.
  assert (A0 : dec_pair (JArr [enc_ccy (fr_lhs r); enc_ccy (fr_rhs r)] : json) = Ok (fr_lhs r, fr_rhs r)).
  { unfold dec_pair. rewrite !dec_ccy_enc. reflexivity. }
  pose proof (dec_number_enc _ Hr) as A1.
  assert (A2 : dec_opt dec_date (enc_opt JDate (fr_settle r) : json) = Ok (fr_settle r)).
  { destruct (fr_settle r); reflexivity. }
  rewrite fields_of_enc.
  - cbn [obind map slot nth req optf]. rewrite A0, A1, A2. cbn [obind fst snd]. destruct r; reflexivity.
  - apply nodup_closed. reflexivity.
  - reflexivity.
  - intros i Hi. field_cases i Hi; eapply chk_ok; eauto.
Qed.
(* reachable market: quotes well formed, currencies duplicate-free, and the market is what the
   load-time reconstruction builds from its own quotes and first currency (true of every market
   at AD order one, see fx_reload below) *)
Definition ok_fx (f : jfx T) : Prop :=
  Forall ok_fxrate (jf_rates f) /\ NoDup (jf_ccys f) /\
  rebuild_fx (mkJFxData (jf_rates f) (jf_ccys f)) = Ok f.
Lemma dec_fxdata_enc f : Forall ok_fxrate (jf_rates f) -> NoDup (jf_ccys f) ->
  dec_fxdata (enc_fx f) = Ok (mkJFxData (jf_rates f) (jf_ccys f)).
Proof.
  intros FR ND. unfold dec_fxdata, enc_fx.
  assert (A0 : dec_seq dec_fxrate (enc_seq enc_fxrate (jf_rates f)) = Ok (jf_rates f)).
  { unfold dec_seq, enc_seq. apply omapM_map. intros x Hx. apply dec_fxrate_enc.
    rewrite Forall_forall in FR. auto. }
  assert (A1 : dec_ccys (enc_seq enc_ccy (jf_ccys f) : json) = Ok (jf_ccys f)).
  { unfold dec_ccys, dec_seq, enc_seq. rewrite omapM_map by (intros; apply dec_ccy_enc).
    cbn [omap]. rewrite dedup_id'; auto. }
  rewrite fields_of_enc.
  - cbn [obind map slot nth req]. rewrite A0, A1. reflexivity.
  - apply nodup_closed. reflexivity.
  - reflexivity.
  - intros i Hi. field_cases i Hi; eapply chk_ok; eauto.
Qed.
Theorem dec_fx_enc f : ok_fx f -> dec_fx rebuild_fx (enc_fx f) = Ok f.
Proof.
  intros [FR [ND R]]. unfold dec_fx. rewrite dec_fxdata_enc by auto. cbn [obind]. exact R.
Qed.
(* the saved form does not depend on the derived matrix: whatever the AD order of the market at
   saving time, loading rebuilds the order-one market of the same quotes *)
Lemma enc_fx_ignores_array (f : jfx T) (a : numarr T) : enc_fx (mkJFx (jf_rates f) (jf_ccys f) a) = enc_fx f.
Proof. reflexivity. Qed.

(* ------------------------------------------------------------------ splines *)
(* a reachable spline: what PPSpline::new asserts (two knots or more, non-decreasing, k <= |t|) and n = |t| - k *)
Definition spline_validb {X} (s : jspline T X) : bool :=
  let lt := Z.of_nat (List.length (sp_t s)) in
  (1 <? lt) && nondecr (sp_t s) && (sp_k s <=? lt) && (sp_n s =? lt - sp_k s).
Definition ok_spline {X} (okx : X -> Prop) (s : jspline T X) : Prop :=
  0 <= sp_k s <= u64_max /\ 0 <= sp_n s <= u64_max /\
  match sp_c s with None => True | Some c => fits (List.length c) /\ Forall okx c end /\
  spline_validb s = true.
Lemma dec_pp_enc {X} (d : json -> outcome X) (e : X -> json) (okx : X -> Prop) s :
  (forall x, okx x -> d (e x) = Ok x) -> (forall x, e x <> JNull) -> ok_spline okx s ->
  dec_pp d (enc_pp e s) = Ok s.
Proof.
  intros Hd Hne [Hk [Hn [Hc Hv]]]. unfold dec_pp, enc_pp.
  pose proof (dec_usize_range _ Hk) as A0. pose proof (dec_usize_range _ Hn) as A3.
  assert (A1 : dec_seq dec_f64 (enc_seq JNum (sp_t s)) = Ok (sp_t s)).
  { unfold dec_seq, enc_seq. apply omapM_map. reflexivity. }
  assert (A2 : dec_opt (dec_arr1 d) (enc_opt (enc_arr1 e) (sp_c s)) = Ok (sp_c s)).
  { destruct (sp_c s) as [c|]; cbn [enc_opt]; [|reflexivity].
    destruct Hc as [Hf Hx]. unfold dec_opt.
    change (omap Some (dec_arr1 d (enc_arr1 e c)) = Ok (Some c)).
    rewrite dec_arr1_enc; auto. intros x Hin. apply Hd. rewrite Forall_forall in Hx. auto. }
  rewrite fields_of_enc.
  - cbn [obind map slot nth req optf]. rewrite A0, A1, A2, A3. cbn [obind].
    unfold spline_validb in Hv. rewrite Hv. destruct s; reflexivity.
  - apply nodup_closed. reflexivity.
  - reflexivity.
  - intros i Hi. field_cases i Hi; eapply chk_ok; eauto.
Qed.
Lemma dec_spline_enc {X} (d : json -> outcome X) (e : X -> json) (okx : X -> Prop) s :
  (forall x, okx x -> d (e x) = Ok x) -> (forall x, e x <> JNull) -> ok_spline okx s ->
  dec_spline d (enc_spline e s) = Ok s.
Proof.
  intros Hd Hne Hs. unfold dec_spline, enc_spline. pose proof (dec_pp_enc d e okx s Hd Hne Hs) as A.
  rewrite fields_of_enc.
  - cbn [obind map slot nth req]. exact A.
  - apply nodup_closed. reflexivity.
  - reflexivity.
  - intros i Hi. field_cases i Hi. eapply chk_ok; eauto.
Qed.

(* ------------------------------------------------------------------ the tagged enum *)
Definition ok_obj (o : obj T) : Prop :=
  match o with
  | ODual d => ok_dual d
  | ODual2 d => ok_jdual2 d
  | OCal c => ok_cal c
  | OUnion u => ok_ucal u
  | ONamed n => ok_named n
  | OFX f => ok_fx f
  | OCurve c => ok_curve c
  | OSpF s => ok_spline (fun _ => True) s
  | OSpD s => ok_spline ok_dual s
  | OSpD2 s => ok_spline ok_jdual2 s
  end.
Notation load := (dec_obj rebuild_named rebuild_fx).

Theorem dec_obj_enc o : ok_obj o -> load (enc_obj o) = Ok o.
Proof.
  destruct o; intros Ho; unfold dec_obj, enc_obj, tag1; cbn [ok_obj] in Ho.
  - rewrite (dec_tagged_one _ k_Dual (fun j => omap ODual (dec_dual j))) by reflexivity.
    rewrite dec_dual_enc by auto. reflexivity.
  - rewrite (dec_tagged_one _ k_Dual2 (fun j => omap ODual2 (dec_dual2 j))) by reflexivity.
    rewrite dec_dual2_enc by auto. reflexivity.
  - rewrite (dec_tagged_one _ k_Cal (fun j => omap OCal (dec_cal j))) by reflexivity.
    rewrite dec_cal_enc by auto. reflexivity.
  - rewrite (dec_tagged_one _ k_UnionCal (fun j => omap OUnion (dec_ucal j))) by reflexivity.
    rewrite dec_ucal_enc by auto. reflexivity.
  - rewrite (dec_tagged_one _ k_NamedCal (fun j => omap ONamed (dec_named rebuild_named j))) by reflexivity.
    rewrite dec_named_enc by auto. reflexivity.
  - rewrite (dec_tagged_one _ k_FXRates (fun j => omap OFX (dec_fx rebuild_fx j))) by reflexivity.
    rewrite dec_fx_enc by auto. reflexivity.
  - rewrite (dec_tagged_one _ k_Curve (fun j => omap OCurve (dec_curve rebuild_named j))) by reflexivity.
    rewrite dec_curve_enc by auto. reflexivity.
  - rewrite (dec_tagged_one _ k_PPSplineF64 (fun j => omap OSpF (dec_spline dec_f64 j))) by reflexivity.
    rewrite (dec_spline_enc dec_f64 JNum (fun _ => True)); auto. discriminate.
  - rewrite (dec_tagged_one _ k_PPSplineDual (fun j => omap OSpD (dec_spline dec_dual j))) by reflexivity.
    rewrite (dec_spline_enc dec_dual enc_dual ok_dual); auto; [apply dec_dual_enc | discriminate].
  - rewrite (dec_tagged_one _ k_PPSplineDual2 (fun j => omap OSpD2 (dec_spline dec_dual2 j))) by reflexivity.
    rewrite (dec_spline_enc dec_dual2 enc_dual2 ok_jdual2); auto; [apply dec_dual2_enc | discriminate].
Qed.

(* the direct entry point of each type (JSON::from_json of the payload, no tag) *)
Theorem dec_payload_enc o : ok_obj o ->
  dec_payload rebuild_named rebuild_fx (Z.to_nat (kind_of o)) (enc_payload o) = Ok o.
Proof.
  destruct o; intros Ho; cbn [ok_obj] in Ho; unfold dec_payload, enc_payload, enc_obj, tag1, kind_of;
    match goal with |- context [Z.to_nat ?z] => let n := eval vm_compute in (Z.to_nat z) in change (Z.to_nat z) with n end;
    cbn [nth_error obj_variants].
  - rewrite dec_dual_enc by auto. reflexivity.
  - rewrite dec_dual2_enc by auto. reflexivity.
  - rewrite dec_cal_enc by auto. reflexivity.
  - rewrite dec_ucal_enc by auto. reflexivity.
  - rewrite dec_named_enc by auto. reflexivity.
  - rewrite dec_fx_enc by auto. reflexivity.
  - rewrite dec_curve_enc by auto. reflexivity.
  - rewrite (dec_spline_enc dec_f64 JNum (fun _ => True)); auto. discriminate.
  - rewrite (dec_spline_enc dec_dual enc_dual ok_dual); auto; [apply dec_dual_enc | discriminate].
  - rewrite (dec_spline_enc dec_dual2 enc_dual2 ok_jdual2); auto; [apply dec_dual2_enc | discriminate].
Qed.

End Gen.

(* ------------------------------------------------------------------ the reloaded object compares equal:
   every modelled PartialEq is reflexive on reachable objects as soon as the float comparison is
   (true of the reals and of every non-NaN double) *)
Section Eq.
Context {T : Type} `{Num T}.
Hypothesis neqb_refl : forall x : T, neqb x x = true.

Lemma list_eqb_refl (l : list T) : list_eqb l l = true.
Proof. induction l; cbn [list_eqb]; auto. rewrite neqb_refl. auto. Qed.
Lemma mat_eqb_refl (m : list (list T)) : mat_eqb m m = true.
Proof. induction m; cbn [mat_eqb]; auto. rewrite list_eqb_refl. auto. Qed.
Lemma names_zip_all_refl' xs : names_zip_all xs xs = true.
Proof. induction xs; cbn [names_zip_all]; auto. rewrite name_eqb_refl. auto. Qed.
Lemma vars_cmp_refl xs : vars_cmp false xs xs = ValEq.
Proof. unfold vars_cmp. rewrite Nat.eqb_refl, names_zip_all_refl'. reflexivity. Qed.
Lemma deqb_refl (d : dual T) : deqb false d d = true.
Proof. unfold deqb, align. rewrite neqb_refl, vars_cmp_refl. cbn [negb]. apply list_eqb_refl. Qed.
Lemma d2eqb_refl (d : dual2 T) : d2eqb false d d = true.
Proof.
  unfold d2eqb, align2. rewrite neqb_refl, vars_cmp_refl. cbn [negb].
  rewrite list_eqb_refl, mat_eqb_refl. reflexivity.
Qed.
Lemma vec_eqb_refl {A} (e : A -> A -> bool) l : (forall x, In x l -> e x x = true) -> vec_eqb e l l = true.
Proof.
  induction l as [|x l IH]; intros He; cbn [vec_eqb]; auto.
  rewrite He by (left; auto). apply IH. intros; apply He; right; auto.
Qed.
Lemma zset_eqb_refl l : zset_eqb l l = true.
Proof.
  unfold zset_eqb. rewrite Nat.eqb_refl. apply forallb_forall. intros x Hx. apply zmem_in; auto.
Qed.
Lemma nset_eqb_refl l : nset_eqb l l = true.
Proof.
  unfold nset_eqb. rewrite Nat.eqb_refl. apply forallb_forall. intros x Hx. apply mem_in'; auto.
Qed.
Lemma im_get_in {V} (m : list (Z * V)) k v : NoDup (map fst m) -> In (k, v) m -> im_get k m = Some v.
Proof.
  induction m as [|[k' v'] m IH]; intros ND Hin; [destruct Hin|]. cbn [im_get].
  cbn [map fst] in ND. inversion ND; subst. destruct Hin as [E|Hin].
  - injection E as -> ->. rewrite Z.eqb_refl. reflexivity.
  - destruct (Z.eqb_spec k k') as [->|]; [|auto].
    exfalso. apply H2. apply in_map_iff. exists (k', v). auto.
Qed.
Lemma imap_eqb_refl {V} (e : V -> V -> bool) m : NoDup (map fst m) ->
  (forall kv, In kv m -> e (snd kv) (snd kv) = true) -> imap_eqb e m m = true.
Proof.
  intros ND He. unfold imap_eqb. rewrite Nat.eqb_refl. apply forallb_forall. intros [k v] Hin.
  cbn [fst snd]. rewrite (im_get_in m k v ND Hin). apply (He (k, v) Hin).
Qed.
Lemma ucal_eq_refl u : ucal_eq u u = true.
Proof.
  unfold ucal_eq, dr_eq. apply forallb_forall. intros d _. rewrite !Bool.eqb_reflx. reflexivity.
Qed.
Lemma opt_eqb_refl {A} (e : A -> A -> bool) o : (forall x, e x x = true) -> opt_eqb e o o = true.
Proof. intros He. destruct o; cbn [opt_eqb]; auto. Qed.
Lemma jdual2_eqb_refl (d : jdual2 T) : jdual2_eqb d d = true.
Proof. apply d2eqb_refl. Qed.
Lemma jnum_eqb_refl (x : jnumber T) : jnum_eqb x x = true.
Proof. destruct x; cbn [jnum_eqb]; auto using deqb_refl, jdual2_eqb_refl. Qed.
Lemma numarr_eqb_refl (a : numarr T) : numarr_eqb a a = true.
Proof.
  destruct a; cbn [numarr_eqb]; unfold mat_eqb_gen; apply vec_eqb_refl; intros r _; apply vec_eqb_refl; intros;
    auto using deqb_refl, d2eqb_refl.
Qed.

Theorem obj_eqb_refl (o : obj T) : ok_obj o -> obj_eqb o o = true.
Proof.
  destruct o; cbn [ok_obj obj_eqb]; intros Ho.
  - apply deqb_refl.
  - apply jdual2_eqb_refl.
  - unfold cal_eqb. rewrite !zset_eqb_refl. reflexivity.
  - apply ucal_eq_refl.
  - apply ucal_eq_refl.
  - unfold fx_eqb. rewrite nset_eqb_refl, numarr_eqb_refl. rewrite vec_eqb_refl; auto.
    intros r _. unfold fxrate_eqb. rewrite !name_eqb_refl, jnum_eqb_refl. cbn [andb].
    apply opt_eqb_refl. apply Z.eqb_refl.
  - destruct Ho as [Hn _]. unfold curve_eqb. rewrite !Nat.eqb_refl, name_eqb_refl.
    rewrite (opt_eqb_refl neqb (cv_base c) neqb_refl).
    assert (C : caltype_eqb (cv_cal c) (cv_cal c) = true).
    { destruct (cv_cal c); cbn [caltype_eqb]; auto using ucal_eq_refl.
      unfold cal_eqb. rewrite !zset_eqb_refl. reflexivity. }
    rewrite C.
    assert (N : nodes_eqb (cv_nodes c) (cv_nodes c) = true).
    { destruct (cv_nodes c); cbn [nodes_eqb ok_nodes] in *; destruct Hn as [ND _]; apply strictly_incr_nodup in ND; apply imap_eqb_refl; auto;
        intros; auto using deqb_refl, jdual2_eqb_refl. }
    rewrite N. reflexivity.
  - unfold spline_eqb. rewrite !Z.eqb_refl. cbn [negb orb].
    rewrite (vec_eqb_refl neqb) by auto. cbn [negb]. destruct (sp_c s); auto. apply vec_eqb_refl; auto.
  - unfold spline_eqb. rewrite !Z.eqb_refl. cbn [negb orb].
    rewrite (vec_eqb_refl neqb) by auto. cbn [negb]. destruct (sp_c s); auto.
    apply vec_eqb_refl; intros; apply deqb_refl.
  - unfold spline_eqb. rewrite !Z.eqb_refl. cbn [negb orb].
    rewrite (vec_eqb_refl neqb) by auto. cbn [negb]. destruct (sp_c s); auto.
    apply vec_eqb_refl; intros; apply jdual2_eqb_refl.
Qed.
End Eq.

(* ------------------------------------------------------------------ a market built by the constructor
   is rebuilt identically from its own quotes and first currency *)
Section FxReload.
Context {T : Type} `{Num T}.
Lemma dedup_aux_dup seen x l : dedup_aux seen (x :: x :: l) = dedup_aux seen (x :: l).
Proof.
  cbn [dedup_aux]. destruct (mem x seen) eqn:M; [reflexivity|].
  assert (M2 : mem x (x :: seen) = true).
  { unfold mem. cbn [index_of]. rewrite name_eqb_refl. reflexivity. }
  rewrite M2. reflexivity.
Qed.
Lemma dedup_hd l : l <> [] -> hd [] (dedup l) = hd [] l.
Proof. destruct l as [|x l]; [congruence|]. intros _. reflexivity. Qed.
Lemma ccy_index_rebase (qs : list (fxrate T)) base : qs <> [] ->
  ccy_index qs (Some (hd [] (ccy_index qs base))) = ccy_index qs base.
Proof.
  intros NE. unfold ccy_index. destruct base as [b|].
  - rewrite dedup_hd by discriminate. reflexivity.
  - destruct qs as [|q qs]; [congruence|]. cbn [app flat_map]. rewrite dedup_hd by discriminate.
    cbn [hd app]. unfold dedup. apply dedup_aux_dup.
Qed.
End FxReload.

(* ------------------------------------------------------------------ through text: the codec is an
   interface (serde_json / ryu, or bincode); its single property is that parsing what was printed
   gives the same tree when every float in it is finite *)
Section Text.
Context {T : Type} `{Num T}.
Variable text : Type.
Variable print : json T -> text.
Variable parse : text -> outcome (json T).
Variable finite : T -> Prop.

Fixpoint json_finite (j : json T) : Prop :=
  match j with
  | JNum x => finite x
  | JArr l => (fix go (l : list (json T)) := match l with [] => True | x :: r => json_finite x /\ go r end) l
  | JObj kvs => (fix go (l : list (key * json T)) :=
                   match l with [] => True | (_, v) :: r => json_finite v /\ go r end) kvs
  | _ => True
  end.
Hypothesis codec : forall j, json_finite j -> parse (print j) = Ok j.

Definition to_json_text (o : obj T) : text := print (enc_obj o).
Definition from_json_text (s : text) : outcome (obj T) := do j <- parse s; from_json_model j.
Definition finite_obj (o : obj T) : Prop := json_finite (enc_obj o).

Theorem text_roundtrip o : ok_obj o -> finite_obj o -> from_json_text (to_json_text o) = Ok o.
Proof.
  intros Ho Hf. unfold from_json_text, to_json_text. rewrite codec by exact Hf. cbn [obind].
  apply dec_obj_enc. exact Ho.
Qed.
End Text.

(* ================================================================== the C16 statements *)
Lemma c16_tree_roundtrip : forall (T : Type) (H : Num T), (forall x : T, neqb x x = true) ->
  forall o : obj T, ok_obj o -> from_json_model (enc_obj o) = Ok o /\ obj_eqb o o = true.
Proof. intros T H R o Ho. split; [apply dec_obj_enc; auto | apply obj_eqb_refl; auto]. Qed.
Lemma c16_direct : forall (T : Type) (H : Num T) (o : obj T), ok_obj o ->
  dec_payload rebuild_named rebuild_fx (Z.to_nat (kind_of o)) (enc_payload o) = Ok o.
Proof. intros. apply dec_payload_enc; auto. Qed.
Lemma c16_named_norm : forall s n, named_try_new s = Ok n ->
  n_name n = lower s /\ named_try_new (n_name n) = Ok n.
Proof.
  intros s n E. split; [|exact (named_try_new_ok_named s n E)].
  destruct (named_is_union s n E) as [Hn _]. exact Hn.
Qed.
Lemma c16_fx_norm : forall (T : Type) (H : Num T) (f : jfx T) (a : numarr T) (qs : list (fxrate T)) base,
  enc_fx (mkJFx (jf_rates f) (jf_ccys f) a) = enc_fx f /\
  (qs <> [] -> ccy_index qs (Some (hd [] (ccy_index qs base))) = ccy_index qs base).
Proof. intros. split; [reflexivity | apply ccy_index_rebase]. Qed.
Lemma c16_example : forall (T : Type) (H : Num T),
  let d := ODual (mkDual n1 [s2n "x"%string; s2n "y"%string] [n0; n1]) in
  ok_obj d /\ from_json_model (enc_obj d) = Ok d.
Proof.
  intros T H d. assert (O : ok_obj d).
  { split; [apply nodup_closed; reflexivity | unfold fits, u64_max; cbn; lia]. }
  split; [exact O | apply dec_obj_enc; exact O].
Qed.
