(* C13: the solver is relationally parametric in its element operations (part 1), and the concrete
   list-based dual numbers of Model/Dual.v with `ops_dual` / `ops_dual2` are related to the abstract
   dual rings D1 / D2 of Proofs/LinalgI.v with `ops_cring cmp1` / `ops_cring cmp2` (part 2).  Hence
   every theorem proved on the abstract rings transfers to the solver as the code runs it (part 3). *)
From Coq Require Import Reals List Arith Bool Lia Lra FunctionalExtensionality.
From RL Require Import Base.Outcome Base.Num Base.NumR Base.Str Model.Dual Model.Linalg
  Proofs.NumRP Proofs.DualP Proofs.Dual2P Proofs.LayoutP
  Proofs.LinalgL Proofs.LinalgP Proofs.LinalgT Proofs.LinalgH Proofs.LinalgI.
Import ListNotations.
Local Open Scope nat_scope.

(* ================================================================== part 1: parametricity *)
Definition orel {A B} (R : A -> B -> Prop) (x : outcome A) (y : outcome B) : Prop :=
  match x, y with
  | Ok a, Ok b => R a b
  | Err, Err => True
  | Panic, Panic => True
  | _, _ => False
  end.

(* two element types whose operations correspond along a relation *)
Record OpsRel {T1 T2} (O1 : Ops T1) (O2 : Ops T2) (Rel : T1 -> T2 -> Prop) : Prop := {
  rel_add : forall a a' b b', Rel a a' -> Rel b b' -> Rel (oadd a b) (oadd a' b');
  rel_sub : forall a a' b b', Rel a a' -> Rel b b' -> Rel (osub a b) (osub a' b');
  rel_mul : forall a a' b b', Rel a a' -> Rel b b' -> Rel (omul a b) (omul a' b');
  rel_div : forall a a' b b', Rel a a' -> Rel b b' -> Rel (odiv a b) (odiv a' b');
  rel_zero : Rel ozero ozero;
  rel_one : Rel oone oone;
  rel_sum0 : Rel osum0 osum0;
  rel_cmp : forall a a' b b', Rel a a' -> Rel b b' -> ocmp_abs a b = ocmp_abs a' b' }.

Section ListRel.
  Context {A B : Type} (R : A -> B -> Prop).
  Lemma F2_length l l' : Forall2 R l l' -> length l = length l'.
  Proof. induction 1; cbn; auto. Qed.
  Lemma F2_nth l l' d d' i : Forall2 R l l' -> R d d' -> R (nth i l d) (nth i l' d').
  Proof. intros H Hd. revert i. induction H; intros [|i]; cbn; auto. Qed.
  Lemma F2_vset l l' i x x' : Forall2 R l l' -> R x x' -> Forall2 R (vset l i x) (vset l' i x').
  Proof. intros H Hx. revert i. induction H; intros [|i]; cbn; auto. Qed.
  Lemma F2_skipn l l' s : Forall2 R l l' -> Forall2 R (skipn s l) (skipn s l').
  Proof. intros H. revert s. induction H; intros [|s]; cbn; auto. Qed.
  Lemma F2_repeat x x' n : R x x' -> Forall2 R (repeat x n) (repeat x' n).
  Proof. intros H. induction n; cbn; auto. Qed.
  Lemma F2_map_seq (f : nat -> A) (g : nat -> B) l : (forall k, R (f k) (g k)) ->
    Forall2 R (map f l) (map g l).
  Proof. intros H. induction l; cbn; auto. Qed.
End ListRel.
Lemma F2_map {A B C D} (R : A -> B -> Prop) (S : C -> D -> Prop) (f : A -> C) (g : B -> D) l l' :
  (forall a b, R a b -> S (f a) (g b)) -> Forall2 R l l' -> Forall2 S (map f l) (map g l').
Proof. intros H. induction 1; cbn; auto. Qed.

Notation MR R := (Forall2 (Forall2 R)).

Section MatRel.
  Context {A B : Type} (R : A -> B -> Prop).
  Lemma MR_row (a : list (list A)) (a' : list (list B)) i : MR R a a' -> Forall2 R (nth i a []) (nth i a' []).
  Proof. intros H. apply F2_nth; auto. Qed.
  Lemma MR_mget a a' d d' i j : MR R a a' -> R d d' -> R (mget d a i j) (mget d' a' i j).
  Proof. intros H Hd. unfold mget. apply F2_nth; auto. apply MR_row; auto. Qed.
  Lemma MR_mset a a' i j x x' : MR R a a' -> R x x' -> MR R (mset a i j x) (mset a' i j x').
  Proof. intros H Hx. unfold mset. apply F2_vset; auto. apply F2_vset; auto. apply MR_row; auto. Qed.
  Lemma MR_is_square a a' : MR R a a' -> is_square a = is_square a'.
  Proof.
    intros H. unfold is_square. rewrite (F2_length _ _ _ H). generalize (length a').
    induction H; intros n; cbn; auto. rewrite (F2_length _ _ _ H), IHForall2. reflexivity.
  Qed.
  Lemma MR_ncols a a' : MR R a a' -> ncols a = ncols a'.
  Proof. intros H. destruct H; cbn; auto. eapply F2_length; eauto. Qed.
  Lemma MR_mtranspose a a' d d' c : MR R a a' -> R d d' -> MR R (mtranspose d c a) (mtranspose d' c a').
  Proof.
    intros H Hd. unfold mtranspose. apply F2_map_seq. intros k.
    eapply F2_map; [|exact H]. intros r r' Hr. apply F2_nth; auto.
  Qed.
  Lemma MR_row_swap a a' j k : MR R a a' -> orel (MR R) (row_swap a j k) (row_swap a' j k).
  Proof.
    intros H. unfold row_swap. rewrite (F2_length _ _ _ H).
    destruct ((j <? k) && (k <? length a')); cbn; auto.
    apply F2_vset; [apply F2_vset; auto|]; apply MR_row; auto.
  Qed.
  Lemma F2_el_swap l l' d d' j k : Forall2 R l l' -> R d d' ->
    orel (Forall2 R) (el_swap d l j k) (el_swap d' l' j k).
  Proof.
    intros H Hd. unfold el_swap. rewrite (F2_length _ _ _ H).
    destruct ((j <? k) && (k <? length l')); cbn; auto.
    apply F2_vset; [apply F2_vset; auto|]; apply F2_nth; auto.
  Qed.
End MatRel.

Lemma orel_bind {A B C D} (R : A -> B -> Prop) (S : C -> D -> Prop) x y f g :
  orel R x y -> (forall a b, R a b -> orel S (f a) (g b)) -> orel S (obind x f) (obind y g).
Proof. destruct x, y; cbn; intros H K; auto; contradiction. Qed.

Section Param.
  Context {F1 F2 E1 E2 : Type} {OF1 : Ops F1} {OF2 : Ops F2} {OE1 : Ops E1} {OE2 : Ops E2}.
  Variable RF : F1 -> F2 -> Prop.
  Variable RE : E1 -> E2 -> Prop.
  Hypothesis HF : OpsRel OF1 OF2 RF.
  Hypothesis HE : OpsRel OE1 OE2 RE.
  Variable xmul1 : F1 -> E1 -> E1.
  Variable xmul2 : F2 -> E2 -> E2.
  Hypothesis Hxmul : forall f f' e e', RF f f' -> RE e e' -> RE (xmul1 f e) (xmul2 f' e').
  Variable xdiv1 : E1 -> F1 -> E1.
  Variable xdiv2 : E2 -> F2 -> E2.
  Hypothesis Hxdiv : forall v v' u u', RE v v' -> RF u u' -> RE (xdiv1 v u) (xdiv2 v' u').

  Lemma gdot_rel a a' b b' : Forall2 RF a a' -> Forall2 RE b b' -> RE (gdot xmul1 a b) (gdot xmul2 a' b').
  Proof.
    intros Ha Hb. unfold gdot.
    assert (G : forall acc acc', RE acc acc' ->
              RE (fold_left (fun acc p => oadd acc (xmul1 (fst p) (snd p))) (combine a b) acc)
                 (fold_left (fun acc p => oadd acc (xmul2 (fst p) (snd p))) (combine a' b') acc')).
    { revert b b' Hb. induction Ha as [|x x' a a' Hx Ha IH]; intros b b' Hb acc acc' Hacc; cbn; auto.
      destruct Hb as [|y y' b b' Hy Hb]; cbn; auto.
      apply IH; auto. apply (rel_add _ _ _ HE); auto. }
    apply G. apply (rel_sum0 _ _ _ HE).
  Qed.
  Lemma gmat_vec_rel a a' b b' : MR RF a a' -> Forall2 RE b b' ->
    Forall2 RE (gmat_vec xmul1 a b) (gmat_vec xmul2 a' b').
  Proof.
    intros Ha Hb. unfold gmat_vec. eapply F2_map; [|exact Ha]. intros r r' Hr. apply gdot_rel; auto.
  Qed.
  Lemma gmul21_rel a a' b b' : MR RF a a' -> Forall2 RE b b' ->
    orel (Forall2 RE) (gmul21 xmul1 a b) (gmul21 xmul2 a' b').
  Proof.
    intros Ha Hb. unfold gmul21. rewrite (MR_ncols _ _ _ Ha), (F2_length _ _ _ Hb).
    destruct (ncols a' =? length b'); cbn; auto. apply gmat_vec_rel; auto.
  Qed.

  Lemma rowop_rel j n l scl scl' a a' : RF scl scl' -> MR RF a a' ->
    MR RF (rowop j n l scl a) (rowop j n l scl' a').
  Proof.
    intros Hs Ha. unfold rowop.
    assert (H0 : MR RF (mset a l j ozero) (mset a' l j ozero)).
    { apply MR_mset; auto. apply (rel_zero _ _ _ HF). }
    revert H0. generalize (mset a l j ozero) (mset a' l j ozero).
    induction (seq (S j) (n - S j)) as [|m ms IH]; intros x x' Hx; cbn [fold_left]; auto.
    apply IH. apply MR_mset; auto.
    apply (rel_sub _ _ _ HF); [|apply (rel_mul _ _ _ HF); auto];
      apply MR_mget; auto; apply (rel_zero _ _ _ HF).
  Qed.
  Definition SR (s : list (list F1) * list E1) (s' : list (list F2) * list E2) : Prop :=
    MR RF (fst s) (fst s') /\ Forall2 RE (snd s) (snd s').
  Lemma step_l_rel j n s s' l : SR s s' -> SR (step_l xmul1 j n s l) (step_l xmul2 j n s' l).
  Proof.
    destruct s as [a b], s' as [a' b']. intros [Ha Hb]. cbn [fst snd] in *. unfold step_l.
    assert (Hs : RF (odiv (mget ozero a l j) (mget ozero a j j)) (odiv (mget ozero a' l j) (mget ozero a' j j))).
    { apply (rel_div _ _ _ HF); apply MR_mget; auto; apply (rel_zero _ _ _ HF). }
    split; cbn [fst snd].
    - apply rowop_rel; auto.
    - apply F2_vset; auto. apply (rel_sub _ _ _ HE).
      + apply F2_nth; auto. apply (rel_zero _ _ _ HE).
      + apply Hxmul; auto. apply F2_nth; auto. apply (rel_zero _ _ _ HE).
  Qed.
  Lemma argabsmax_go_rel l l' : Forall2 RF l l' -> forall best best' bi i, RF best best' ->
    argabsmax_go best bi i l = argabsmax_go best' bi i l'.
  Proof.
    induction 1 as [|y y' l l' Hy Hl IH]; intros best best' bi i Hb; cbn [argabsmax_go]; auto.
    rewrite (rel_cmp _ _ _ HF best best' y y' Hb Hy).
    destruct (ocmp_abs best' y') as [[| |]|]; auto.
  Qed.
  Lemma argabsmax_rel l l' : Forall2 RF l l' -> argabsmax l = argabsmax l'.
  Proof. destruct 1; cbn [argabsmax]; auto. apply argabsmax_go_rel; auto. Qed.
  Lemma pivot_col_rel a a' j : MR RF a a' -> Forall2 RF (pivot_col a j) (pivot_col a' j).
  Proof.
    intros Ha. unfold pivot_col. eapply F2_map; [|apply F2_skipn; exact Ha].
    intros r r' Hr. apply F2_nth; auto. apply (rel_zero _ _ _ HF).
  Qed.
  Lemma step_j_rel n s s' j : SR s s' -> orel SR (step_j xmul1 n s j) (step_j xmul2 n s' j).
  Proof.
    destruct s as [a b], s' as [a' b']. intros [Ha Hb]. cbn [fst snd] in *. unfold step_j.
    rewrite (argabsmax_rel _ _ (pivot_col_rel a a' j Ha)).
    destruct (argabsmax (pivot_col a' j)) as [k0| |]; cbn [obind orel]; auto.
    eapply orel_bind with (R := SR).
    - destruct (j =? k0 + j); [cbn; split; auto|].
      eapply orel_bind; [apply MR_row_swap; exact Ha|]. intros x x' Hx.
      eapply orel_bind; [apply F2_el_swap; [exact Hb|apply (rel_zero _ _ _ HE)]|].
      intros y y' Hy. cbn. split; auto.
    - intros st st' Hst. cbn [orel].
      revert st st' Hst. induction (seq (S j) (n - S j)) as [|l ls IH]; intros st st' Hst; cbn [fold_left]; auto.
      apply IH. apply step_l_rel; auto.
  Qed.
  Lemma eliminate_rel n a a' b b' : MR RF a a' -> Forall2 RE b b' ->
    orel SR (eliminate xmul1 n a b) (eliminate xmul2 n a' b').
  Proof.
    intros Ha Hb. unfold eliminate.
    assert (H0 : SR (a, b) (a', b')) by (split; auto).
    revert H0. generalize (a, b) (a', b').
    induction (seq 0 n) as [|j js IH]; intros s s' Hs; cbn [ofold]; auto.
    eapply orel_bind; [apply step_j_rel; exact Hs|]. intros t t' Ht. apply IH; auto.
  Qed.
  Lemma gsolve_upper_rel n u u' b b' : MR RF u u' -> Forall2 RE b b' ->
    Forall2 RE (gsolve_upper xmul1 xdiv1 n u b) (gsolve_upper xmul2 xdiv2 n u' b').
  Proof.
    intros Hu Hb. unfold gsolve_upper.
    assert (H0 : Forall2 RE (repeat (@ozero E1 OE1) n) (repeat (@ozero E2 OE2) n)).
    { apply F2_repeat. apply (rel_zero _ _ _ HE). }
    revert H0. generalize (repeat (@ozero E1 OE1) n) (repeat (@ozero E2 OE2) n).
    induction (rev (seq 0 n)) as [|i is IH]; intros x x' Hx; cbn [fold_left]; auto.
    apply IH. unfold step_u. apply F2_vset; auto. apply Hxdiv.
    - apply (rel_sub _ _ _ HE).
      + apply F2_nth; auto. apply (rel_zero _ _ _ HE).
      + apply gdot_rel; apply F2_skipn; auto. apply MR_row; auto.
    - apply MR_mget; auto. apply (rel_zero _ _ _ HF).
  Qed.
  Theorem gsolve21_rel a a' b b' : MR RF a a' -> Forall2 RE b b' ->
    orel (Forall2 RE) (gsolve21 xmul1 xdiv1 a b) (gsolve21 xmul2 xdiv2 a' b').
  Proof.
    intros Ha Hb. unfold gsolve21.
    rewrite (MR_is_square _ _ _ Ha), (F2_length _ _ _ Ha), (F2_length _ _ _ Hb).
    destruct (negb (is_square a')); cbn [orel]; auto.
    destruct (negb (length b' =? length a')); cbn [orel]; auto.
    eapply orel_bind; [apply eliminate_rel; eauto|].
    intros [u c] [u' c'] [Hu Hc]. cbn [orel fst snd] in *. apply gsolve_upper_rel; auto.
  Qed.
End Param.

(* the Rust entry points *)
Section ParamDsolve.
  Context {T1 T2 : Type} {O1 : Ops T1} {O2 : Ops T2}.
  Variable Rel : T1 -> T2 -> Prop.
  Hypothesis H : OpsRel O1 O2 Rel.
  Lemma mat_mul_rel a a' b b' : MR Rel a a' -> MR Rel b b' -> MR Rel (mat_mul a b) (mat_mul a' b').
  Proof.
    intros Ha Hb. unfold mat_mul. rewrite (MR_ncols _ _ _ Hb).
    eapply F2_map; [|exact Ha]. intros r r' Hr.
    eapply F2_map; [|apply MR_mtranspose; [exact Hb|apply (rel_zero _ _ _ H)]].
    intros c c' Hc. apply (gdot_rel Rel Rel H omul omul (rel_mul _ _ _ H)); auto.
  Qed.
  Lemma dmul22_rel a a' b b' : MR Rel a a' -> MR Rel b b' -> orel (MR Rel) (dmul22_ a b) (dmul22_ a' b').
  Proof.
    intros Ha Hb. unfold dmul22_. rewrite (MR_ncols _ _ _ Ha), (F2_length _ _ _ Hb).
    destruct (ncols a' =? length b'); cbn; auto. apply mat_mul_rel; auto.
  Qed.
  Theorem dsolve_rel a a' b b' lsq : MR Rel a a' -> Forall2 Rel b b' ->
    orel (Forall2 Rel) (dsolve a b lsq) (dsolve a' b' lsq).
  Proof.
    intros Ha Hb. unfold dsolve, dsolve21_, dmul21_. destruct lsq.
    - rewrite (MR_ncols _ _ _ Ha).
      assert (Ht : MR Rel (mtranspose ozero (ncols a') a) (mtranspose ozero (ncols a') a')).
      { apply MR_mtranspose; auto. apply (rel_zero _ _ _ H). }
      eapply orel_bind; [apply dmul22_rel; eauto|]. intros m m' Hm.
      eapply orel_bind; [apply (gmul21_rel Rel Rel H omul omul (rel_mul _ _ _ H)); eauto|]. intros v v' Hv.
      apply (gsolve21_rel Rel Rel H H omul omul (rel_mul _ _ _ H) odiv odiv (rel_div _ _ _ H)); auto.
    - apply (gsolve21_rel Rel Rel H H omul omul (rel_mul _ _ _ H) odiv odiv (rel_div _ _ _ H)); auto.
  Qed.
  Theorem mat_vec_rel a a' b b' : MR Rel a a' -> Forall2 Rel b b' -> Forall2 Rel (mat_vec a b) (mat_vec a' b').
  Proof. apply (gmat_vec_rel Rel Rel H omul omul (rel_mul _ _ _ H)). Qed.
End ParamDsolve.

Section ParamFdsolve.
  Context {F1 F2 T1 T2 : Type} {OF1 : Ops F1} {OF2 : Ops F2} {OT1 : Ops T1} {OT2 : Ops T2}.
  Variable RF : F1 -> F2 -> Prop.
  Variable RT : T1 -> T2 -> Prop.
  Hypothesis HF : OpsRel OF1 OF2 RF.
  Hypothesis HT : OpsRel OT1 OT2 RT.
  Variable xmul1 : F1 -> T1 -> T1.
  Variable xmul2 : F2 -> T2 -> T2.
  Hypothesis Hxmul : forall f f' e e', RF f f' -> RT e e' -> RT (xmul1 f e) (xmul2 f' e').
  Lemma fxdiv_rel v v' u u' : RT v v' -> RF u u' -> RT (fxdiv xmul1 v u) (fxdiv xmul2 v' u').
  Proof.
    intros Hv Hu. unfold fxdiv. apply Hxmul; auto. apply (rel_div _ _ _ HF); auto. apply (rel_one _ _ _ HF).
  Qed.
  Theorem fdsolve_rel a a' b b' lsq : MR RF a a' -> Forall2 RT b b' ->
    orel (Forall2 RT) (fdsolve xmul1 a b lsq) (fdsolve xmul2 a' b' lsq).
  Proof.
    intros Ha Hb. unfold fdsolve, fdsolve21_, fdmul21_. destruct lsq.
    - rewrite (MR_ncols _ _ _ Ha).
      assert (Ht : MR RF (mtranspose ozero (ncols a') a) (mtranspose ozero (ncols a') a')).
      { apply MR_mtranspose; auto. apply (rel_zero _ _ _ HF). }
      eapply orel_bind; [apply (dmul22_rel RF HF); eauto|]. intros m m' Hm.
      eapply orel_bind; [apply (gmul21_rel RF RT HT xmul1 xmul2 Hxmul); eauto|]. intros v v' Hv.
      apply (gsolve21_rel RF RT HF HT xmul1 xmul2 Hxmul _ _ fxdiv_rel); auto.
    - apply (gsolve21_rel RF RT HF HT xmul1 xmul2 Hxmul _ _ fxdiv_rel); auto.
  Qed.
  Theorem fmat_vec_rel a a' b b' : MR RF a a' -> Forall2 RT b b' ->
    Forall2 RT (fmat_vec xmul1 a b) (fmat_vec xmul2 a' b').
  Proof. apply (gmat_vec_rel RF RT HT xmul1 xmul2 Hxmul). Qed.
End ParamFdsolve.

(* ================================================================== part 2: concrete duals ~ D1 / D2 *)
Local Open Scope R_scope.

Lemma opsrel_R : OpsRel (@ops_num R NumR) (ops_cring (CR := CRing_R) cmpR) eq.
Proof. rewrite ops_num_R. constructor; intros; subst; reflexivity. Qed.

Lemma pf1 (x y : dual R) : false = true -> vs x = vs y. Proof. discriminate. Qed.
Lemma pf2 (x y : dual2 R) : false = true -> vs2 x = vs2 y. Proof. discriminate. Qed.

(* ---------------------------------------------------------------- first order *)
Definition abs1 (d : dual R) : D1 := (re d, coef d).
Definition Rel1 (d : dual R) (a : D1) : Prop := wf d /\ a = abs1 d.

Lemma re_dabs (a : dual R) : re (dabs a) = Rabs (re a).
Proof.
  unfold dabs. cbn [nltb n0 NumR]. unfold Rltb. destruct (Rlt_dec 0 (re a)); cbn [re nneg NumR].
  - rewrite Rabs_right; lra.
  - rewrite Rabs_left1; lra.
Qed.
Lemma abs1_zero : abs1 dzero = d1zero.
Proof. apply d1_eq; [reflexivity|]. intros v. reflexivity. Qed.
Lemma abs1_one : abs1 done = d1one.
Proof. apply d1_eq; [reflexivity|]. intros v. reflexivity. Qed.

Lemma opsrel_dual1 : OpsRel (@ops_dual R NumR) (ops_cring (CR := CRing_D1) cmp1) Rel1.
Proof.
  constructor.
  - intros a a' b b' [Wa ->] [Wb ->]. cbn [oadd ops_dual ops_cring radd CRing_D1].
    destruct (dadd_spec false a b Wa Wb (pf1 _ _)) as (W & R1 & C & _).
    split; [exact W|]. apply d1_eq; cbn; [rewrite R1; reflexivity | intros v; rewrite C; reflexivity].
  - intros a a' b b' [Wa ->] [Wb ->]. cbn [osub ops_dual ops_cring rsub CRing_D1].
    destruct (dsub_spec false a b Wa Wb (pf1 _ _)) as (W & R1 & C & _).
    split; [exact W|]. apply d1_eq; cbn; [rewrite R1; reflexivity | intros v; rewrite C; reflexivity].
  - intros a a' b b' [Wa ->] [Wb ->]. cbn [omul ops_dual ops_cring rmul CRing_D1].
    destruct (dmul_spec false a b Wa Wb (pf1 _ _)) as (W & R1 & C & _).
    split; [exact W|]. apply d1_eq; cbn; [rewrite R1; reflexivity | intros v; rewrite C; reflexivity].
  - intros a a' b b' [Wa ->] [Wb ->]. cbn [odiv ops_dual ops_cring rmul rinv CRing_D1].
    destruct (ddiv_spec false a b Wa Wb (pf1 _ _)) as (W & R1 & C & _).
    split; [exact W|]. apply d1_eq; cbn; [rewrite R1; unfold Rdiv; ring | intros v; rewrite C; unfold Rdiv; ring].
  - split; [apply wf_dual_new | symmetry; apply abs1_zero].
  - split; [apply wf_dual_new | symmetry; apply abs1_one].
  - split; [apply wf_dual_new | symmetry; apply abs1_zero].
  - intros a a' b b' [Wa ->] [Wb ->]. cbn [ocmp_abs ops_dual ops_cring]. unfold cmp1, cmpR.
    rewrite !re_dabs. reflexivity.
Qed.
Lemma xmul_rel1 : forall f f' (e : dual R) e', f = f' -> Rel1 e e' -> Rel1 (xmul_dual f e) (d1scale f' e').
Proof.
  intros f f' e e' <- [We ->]. unfold xmul_dual, dmul_f, vscale_l. split.
  - apply wf_map; auto.
  - apply d1_eq; cbn [fst snd abs1 d1scale re]; [reflexivity|].
    intros v. rewrite coef_map by (cbn; ring). reflexivity.
Qed.

Lemma F2_abs {A B} (W : A -> Prop) (f : A -> B) l : Forall W l -> Forall2 (fun d a => W d /\ a = f d) l (map f l).
Proof. induction 1; cbn; auto. Qed.
Lemma F2_abs_inv {A B} (W : A -> Prop) (f : A -> B) l l' :
  Forall2 (fun d a => W d /\ a = f d) l l' -> Forall W l /\ l' = map f l.
Proof. induction 1 as [|x y l l' [Wx ->] H [IH1 ->]]; cbn; auto. Qed.
Lemma MR_abs {A B} (W : A -> Prop) (f : A -> B) a :
  Forall (Forall W) a -> MR (fun d x => W d /\ x = f d) a (map (map f) a).
Proof. induction 1; cbn; auto. constructor; auto. apply F2_abs; auto. Qed.
Lemma mget_map {A B} (f : A -> B) d (a : list (list A)) i k :
  mget (f d) (map (map f) a) i k = f (mget d a i k).
Proof.
  unfold mget. rewrite (map_nth (map f) a [] i : nth i (map (map f) a) [] = map f (nth i a [])).
  apply map_nth.
Qed.

Theorem solve_concrete_dual1 n (A : list (list (dual R))) (b : list (dual R)) :
  shape n A -> length b = n -> Forall (Forall wf) A -> Forall wf b ->
  nonsingular n (map (map (@re R)) A) ->
  exists x, dsolve (O := @ops_dual R NumR) A b false = Ok x /\ length x = n /\ Forall wf x /\
    mat_vec (O := ops_cring cmp1) (map (map abs1) A) (map abs1 x) = map abs1 b /\
    forall y : list D1, length y = n ->
      mat_vec (O := ops_cring cmp1) (map (map abs1) A) y = map abs1 b -> y = map abs1 x.
Proof.
  intros Sh Lb WA Wb NS.
  assert (NS' : nonsingular n (map (map fst) (map (map abs1) A))).
  { rewrite map_map. erewrite map_ext; [exact NS|]. intros r. rewrite map_map. reflexivity. }
  destruct (solve_dual1 n (map (map abs1) A) (map abs1 b) (shape_map abs1 n A Sh)
              ltac:(rewrite map_length; exact Lb) NS') as (x' & E & Lx & Hx & Ux).
  pose proof (dsolve_rel Rel1 opsrel_dual1 A (map (map abs1) A) b (map abs1 b) false
                (MR_abs wf abs1 A WA) (F2_abs wf abs1 b Wb)) as HR.
  rewrite E in HR. destruct (dsolve A b false) as [x| |]; cbn in HR; try contradiction.
  destruct (F2_abs_inv wf abs1 x x' HR) as [Wx ->].
  exists x. rewrite map_length in Lx. repeat split; auto.
Qed.

(* the abstract equation, read on the concrete numbers: value and the coefficient of every name *)
Theorem concrete_dual1_meaning n (A : list (list (dual R))) (b x : list (dual R)) :
  shape n A -> length b = n -> length x = n ->
  mat_vec (O := ops_cring cmp1) (map (map abs1) A) (map abs1 x) = map abs1 b ->
  forall i, (i < n)%nat ->
    Rsum (seq 0 n) (fun k => re (mget dzero A i k) * re (nth k x dzero)) = re (nth i b dzero) /\
    forall v, Rsum (seq 0 n) (fun k => coef (mget dzero A i k) v * re (nth k x dzero)
                                        + coef (nth k x dzero) v * re (mget dzero A i k))
              = coef (nth i b dzero) v.
Proof.
  intros Sh Lb Lx H i Hi.
  destruct (dual1_meaning cmp1 n (map (map abs1) A) (map abs1 b) (map abs1 x) (shape_map abs1 n A Sh)
              ltac:(rewrite map_length; exact Lb) ltac:(rewrite map_length; exact Lx) H i Hi) as [V D].
  unfold A1, V1 in V, D. rewrite <- abs1_zero in V, D.
  rewrite (map_nth abs1) in V, D.
  assert (EA : forall k, mget (abs1 dzero) (map (map abs1) A) i k = abs1 (mget dzero A i k))
    by (intros; apply mget_map).
  assert (EX : forall k, nth k (map abs1 x) (abs1 dzero) = abs1 (nth k x dzero))
    by (intros; apply map_nth).
  split.
  - etransitivity; [|exact V]. f_equal. apply functional_extensionality. intros k. rewrite EA, EX. reflexivity.
  - intros v. etransitivity; [|exact (D v)]. f_equal. apply functional_extensionality. intros k.
    rewrite EA, EX. reflexivity.
Qed.

(* least squares on concrete duals: normal equations with the Gram matrix of the real parts non-singular *)
Lemma opsrel_fst : OpsRel (ops_cring (CR := CRing_D1) cmp1) (ops_cring (CR := CRing_R) cmpR) (fun a r => r = fst a).
Proof. constructor; intros; subst; reflexivity. Qed.
Lemma MR_map {A B} (f : A -> B) (a : list (list A)) : MR (fun x y => y = f x) a (map (map f) a).
Proof. induction a; cbn; constructor; auto. induction a; cbn; auto. Qed.
Lemma MR_map_inv {A B} (f : A -> B) (a : list (list A)) a' : MR (fun x y => y = f x) a a' -> a' = map (map f) a.
Proof.
  induction 1 as [|r r' a a' Hr H IH]; cbn; auto. rewrite IH. f_equal.
  clear -Hr. induction Hr; cbn; auto. subst. reflexivity.
Qed.

Theorem lsq_concrete_dual1 c (A : list (list (dual R))) (b : list (dual R)) :
  is_rect c A = true -> (1 <= c)%nat -> (1 <= length A)%nat -> length b = length A ->
  Forall (Forall wf) A -> Forall wf b ->
  let reA := map (map (@re R)) A in
  nonsingular c (mat_mul (O := @ops_num R NumR) (mtranspose 0 c reA) reA) ->
  let A' := map (map abs1) A in
  let At := mtranspose d1zero c A' in
  exists x, dsolve (O := @ops_dual R NumR) A b true = Ok x /\ length x = c /\ Forall wf x /\
    mat_vec (O := ops_cring cmp1) (mat_mul (O := ops_cring cmp1) At A') (map abs1 x)
      = mat_vec (O := ops_cring cmp1) At (map abs1 b) /\
    forall y : list D1, length y = c ->
      mat_vec (O := ops_cring cmp1) (mat_mul (O := ops_cring cmp1) At A') y
        = mat_vec (O := ops_cring cmp1) At (map abs1 b) -> y = map abs1 x.
Proof.
  intros HR Hc Hr Lb WA Wb reA NS A' At.
  assert (HR' : is_rect c A' = true).
  { unfold A', is_rect in *. rewrite forallb_forall in *. intros r Hin.
    apply in_map_iff in Hin. destruct Hin as (r0 & <- & Hin). rewrite map_length. auto. }
  assert (Sh : shape c (mat_mul (O := ops_cring cmp1) At A')).
  { exact (mat_mul_shape (O := ops_cring cmp1) c A' HR' ltac:(unfold A'; rewrite map_length; exact Hr)). }
  (* the real part of the abstract Gram matrix is the Gram matrix of the real parts *)
  assert (EG : map (map fst) (mat_mul (O := ops_cring cmp1) At A')
             = mat_mul (O := @ops_num R NumR) (mtranspose 0 c reA) reA).
  { rewrite ops_num_R.
    assert (EA : reA = map (map fst) A').
    { unfold reA, A'. rewrite map_map. apply map_ext. intros r. rewrite map_map. reflexivity. }
    rewrite EA. symmetry. apply MR_map_inv.
    apply (mat_mul_rel (fun a r => r = fst a) opsrel_fst).
    - apply (MR_mtranspose (fun a r => r = fst a)); [apply MR_map|reflexivity].
    - apply MR_map. }
  assert (HP : pivots_are_units (CF := CRing_D1) cmp1 c (mat_mul (O := ops_cring cmp1) At A')).
  { apply pivots_dual1; auto. rewrite EG. exact NS. }
  destruct (dsolve_lsq cmp1 c A' (map abs1 b) HR' Hc ltac:(unfold A'; rewrite map_length; exact Hr)
              ltac:(unfold A'; rewrite !map_length; exact Lb) HP) as (x' & E & Lx & Hx & Ux).
  pose proof (dsolve_rel Rel1 opsrel_dual1 A A' b (map abs1 b) true
                (MR_abs wf abs1 A WA) (F2_abs wf abs1 b Wb)) as HRl.
  pose proof (E : dsolve (O := ops_cring (CR := CRing_D1) cmp1) A' (map abs1 b) true = Ok x') as E'.
  rewrite E' in HRl. destruct (dsolve A b true) as [x| |]; cbn in HRl; try contradiction.
  destruct (F2_abs_inv wf abs1 x x' HRl) as [Wx ->].
  exists x. rewrite map_length in Lx. repeat split; auto.
Qed.

(* fdsolve: real matrix, concrete Dual right-hand side *)
Theorem mixed_concrete_dual1 n (A : list (list R)) (b : list (dual R)) :
  shape n A -> length b = n -> Forall wf b -> nonsingular n A ->
  exists x, fdsolve (OF := @ops_num R NumR) (OT := @ops_dual R NumR) xmul_dual A b false = Ok x /\
    length x = n /\ Forall wf x /\
    fmat_vec (OT := ops_cring cmp1) d1scale A (map abs1 x) = map abs1 b /\
    forall y : list D1, length y = n -> fmat_vec (OT := ops_cring cmp1) d1scale A y = map abs1 b -> y = map abs1 x.
Proof.
  intros Sh Lb Wb NS.
  destruct (mixed_dual1 cmp1 n A (map abs1 b) Sh ltac:(rewrite map_length; exact Lb) NS) as (x' & E & Lx & Hx & Ux).
  assert (MA : MR eq A A).
  { clear. induction A; constructor; auto. clear. induction a; constructor; auto. }
  pose proof (fdsolve_rel eq Rel1 opsrel_R opsrel_dual1 xmul_dual d1scale xmul_rel1 A A b (map abs1 b) false
                MA (F2_abs wf abs1 b Wb)) as HR.
  rewrite E in HR.
  destruct (fdsolve xmul_dual A b false) as [x| |]; cbn in HR; try contradiction.
  destruct (F2_abs_inv wf abs1 x x' HR) as [Wx ->].
  exists x. rewrite map_length in Lx. repeat split; auto.
Qed.

(* ---------------------------------------------------------------- second order *)
Definition abs2 (d : dual2 R) : D2 := mk2 (re2 d) (coef1 d) (coef2 d).
Definition Rel2 (d : dual2 R) (a : D2) : Prop := wf2 d /\ a = abs2 d.

Lemma re_d2abs (a : dual2 R) : re2 (d2abs a) = Rabs (re2 a).
Proof.
  unfold d2abs. cbn [nltb n0 NumR]. unfold Rltb. destruct (Rlt_dec 0 (re2 a)); cbn [re2 nneg NumR].
  - rewrite Rabs_right; lra.
  - rewrite Rabs_left1; lra.
Qed.
Lemma wf2_new r l : wf2 (dual2_new r l).
Proof. split; [apply dedup_NoDup|]. split; [apply repeat_length|apply square_mzeros]. Qed.
Lemma abs2_zero : abs2 d2zero = d2zero_.
Proof. apply d2_eq; [reflexivity| intros v; reflexivity | intros u v; reflexivity]. Qed.
Lemma abs2_one : abs2 d2one = d2one_.
Proof. apply d2_eq; [reflexivity| intros v; reflexivity | intros u v; reflexivity]. Qed.

(* powf at -1, -2, -3 on all reals (with / 0 = 0, as Rpowf 0 p = 0 for p <> 0) *)
Lemma Rpowf_zero p : p <> 0 -> Rpowf 0 p = 0.
Proof.
  intros N. unfold Rpowf. destruct (Rlt_dec 0 0); [lra|]. destruct (Rlt_dec 0 0); [lra|].
  destruct (Req_EM_T p 0); [contradiction|reflexivity].
Qed.
Lemma Rpowf_m1' x : Rpowf x (-1) = / x.
Proof.
  destruct (Req_dec x 0) as [->|N]; [rewrite Rinv_0; apply Rpowf_zero; lra | apply Rpowf_m1; auto].
Qed.
Lemma Rpowf_m2' x : Rpowf x (-1 - 1) = / (x * x).
Proof.
  destruct (Req_dec x 0) as [->|N]; [|apply Rpowf_m2; auto].
  rewrite Rmult_0_l, Rinv_0. apply Rpowf_zero; lra.
Qed.
Lemma Rpowf_m3' x : Rpowf x (-1 - 2) = / (x * x * x).
Proof.
  destruct (Req_dec x 0) as [->|N]; [|apply Rpowf_m3; auto].
  rewrite !Rmult_0_l, Rinv_0. apply Rpowf_zero; lra.
Qed.

Lemma opsrel_dual2 : OpsRel (@ops_dual2 R NumR) (ops_cring (CR := CRing_D2) cmp2) Rel2.
Proof.
  constructor.
  - intros a a' b b' [Wa ->] [Wb ->]. cbn [oadd ops_dual2 ops_cring radd CRing_D2].
    destruct (d2add_spec false a b Wa Wb (pf2 _ _)) as (W & R1 & C & H & _).
    split; [exact W|]. apply d2_eq; cbn;
      [rewrite R1; reflexivity | intros v; rewrite C; reflexivity | intros u v; rewrite H; reflexivity].
  - intros a a' b b' [Wa ->] [Wb ->]. cbn [osub ops_dual2 ops_cring rsub CRing_D2].
    destruct (d2sub_spec false a b Wa Wb (pf2 _ _)) as (W & R1 & C & H & _).
    split; [exact W|]. apply d2_eq; cbn;
      [rewrite R1; reflexivity | intros v; rewrite C; reflexivity | intros u v; rewrite H; reflexivity].
  - intros a a' b b' [Wa ->] [Wb ->]. cbn [omul ops_dual2 ops_cring rmul CRing_D2].
    destruct (d2mul_spec false a b Wa Wb (pf2 _ _)) as (W & R1 & C & H & _).
    split; [exact W|]. apply d2_eq; cbn;
      [rewrite R1; reflexivity | intros v; rewrite C; reflexivity | intros u v; rewrite H; ring].
  - intros a a' b b' [Wa ->] [Wb ->]. cbn [odiv ops_dual2 ops_cring rmul rinv CRing_D2].
    destruct (d2div_spec false a b Wa Wb (pf2 _ _)) as (W & R1 & C & H & _).
    split; [exact W|]. rewrite Rpowf_m1', Rpowf_m2', Rpowf_m3' in *.
    assert (K : / 2 * -1 * (-1 - 1) = 1) by lra. rewrite K in H.
    apply d2_eq; cbn;
      [rewrite R1; reflexivity | intros v; rewrite C; ring | intros u v; rewrite H; ring].
  - split; [apply wf2_new | symmetry; apply abs2_zero].
  - split; [apply wf2_new | symmetry; apply abs2_one].
  - split; [apply wf2_new | symmetry; apply abs2_zero].
  - intros a a' b b' [Wa ->] [Wb ->]. cbn [ocmp_abs ops_dual2 ops_cring]. unfold cmp2, cmpR.
    rewrite !re_d2abs. reflexivity.
Qed.
Lemma xmul_rel2 : forall f f' (e : dual2 R) e', f = f' -> Rel2 e e' -> Rel2 (xmul_dual2 f e) (d2scale f' e').
Proof.
  intros f f' e e' <- [We ->]. unfold xmul_dual2, d2mul_f, vscale_l.
  destruct (Dual2P.d2scale_spec e (nmul (re2 e) f) f (fun x => nmul f x) (fun x => nmul f x) We)
    as (W & R1 & C & H); try (intros; reflexivity).
  split; [exact W|].
  apply d2_eq; cbn [re_ gr_ hs_ fst snd abs2 mk2 d2scale];
    [symmetry; exact R1 | intros v; symmetry; apply C | intros u v; symmetry; apply H].
Qed.

Theorem solve_concrete_dual2 n (A : list (list (dual2 R))) (b : list (dual2 R)) :
  shape n A -> length b = n -> Forall (Forall wf2) A -> Forall wf2 b ->
  nonsingular n (map (map (@re2 R)) A) ->
  exists x, dsolve (O := @ops_dual2 R NumR) A b false = Ok x /\ length x = n /\ Forall wf2 x /\
    mat_vec (O := ops_cring cmp2) (map (map abs2) A) (map abs2 x) = map abs2 b /\
    forall y : list D2, length y = n ->
      mat_vec (O := ops_cring cmp2) (map (map abs2) A) y = map abs2 b -> y = map abs2 x.
Proof.
  intros Sh Lb WA Wb NS.
  assert (NS' : nonsingular n (map (map re_) (map (map abs2) A))).
  { rewrite map_map. erewrite map_ext; [exact NS|]. intros r. rewrite map_map. reflexivity. }
  destruct (solve_dual2 n (map (map abs2) A) (map abs2 b) (shape_map abs2 n A Sh)
              ltac:(rewrite map_length; exact Lb) NS') as (x' & E & Lx & Hx & Ux).
  pose proof (dsolve_rel Rel2 opsrel_dual2 A (map (map abs2) A) b (map abs2 b) false
                (MR_abs wf2 abs2 A WA) (F2_abs wf2 abs2 b Wb)) as HR.
  rewrite E in HR. destruct (dsolve A b false) as [x| |]; cbn in HR; try contradiction.
  destruct (F2_abs_inv wf2 abs2 x x' HR) as [Wx ->].
  exists x. rewrite map_length in Lx. repeat split; auto.
Qed.

Theorem concrete_dual2_meaning n (A : list (list (dual2 R))) (b x : list (dual2 R)) :
  shape n A -> length b = n -> length x = n ->
  mat_vec (O := ops_cring cmp2) (map (map abs2) A) (map abs2 x) = map abs2 b ->
  forall i, (i < n)%nat ->
    let a k := mget d2zero A i k in
    let xk k := nth k x d2zero in
    let bi := nth i b d2zero in
    Rsum (seq 0 n) (fun k => re2 (a k) * re2 (xk k)) = re2 bi /\
    (forall v, Rsum (seq 0 n) (fun k => coef1 (a k) v * re2 (xk k) + coef1 (xk k) v * re2 (a k)) = coef1 bi v) /\
    (forall u v, Rsum (seq 0 n) (fun k =>
         coef2 (a k) u v * re2 (xk k) + coef2 (xk k) u v * re2 (a k)
         + / 2 * (coef1 (a k) u * coef1 (xk k) v + coef1 (a k) v * coef1 (xk k) u)) = coef2 bi u v).
Proof.
  intros Sh Lb Lx H i Hi a xk bi.
  destruct (dual2_meaning cmp2 n (map (map abs2) A) (map abs2 b) (map abs2 x) (shape_map abs2 n A Sh)
              ltac:(rewrite map_length; exact Lb) ltac:(rewrite map_length; exact Lx) H i Hi) as (V & D & HH).
  unfold A2, V2 in V, D, HH. rewrite <- abs2_zero in V, D, HH.
  rewrite (map_nth abs2) in V, D, HH.
  assert (EA : forall k, mget (abs2 d2zero) (map (map abs2) A) i k = abs2 (a k))
    by (intros; apply mget_map).
  assert (EX : forall k, nth k (map abs2 x) (abs2 d2zero) = abs2 (xk k))
    by (intros; apply map_nth).
  split; [|split].
  - etransitivity; [|exact V]. f_equal. apply functional_extensionality. intros k. rewrite EA, EX. reflexivity.
  - intros v. etransitivity; [|exact (D v)]. f_equal. apply functional_extensionality. intros k.
    rewrite EA, EX. reflexivity.
  - intros u v. etransitivity; [|exact (HH u v)]. f_equal. apply functional_extensionality. intros k.
    rewrite EA, EX. reflexivity.
Qed.

Lemma opsrel_re2 : OpsRel (ops_cring (CR := CRing_D2) cmp2) (ops_cring (CR := CRing_R) cmpR) (fun a r => r = re_ a).
Proof. constructor; intros; subst; reflexivity. Qed.

Theorem lsq_concrete_dual2 c (A : list (list (dual2 R))) (b : list (dual2 R)) :
  is_rect c A = true -> (1 <= c)%nat -> (1 <= length A)%nat -> length b = length A ->
  Forall (Forall wf2) A -> Forall wf2 b ->
  let reA := map (map (@re2 R)) A in
  nonsingular c (mat_mul (O := @ops_num R NumR) (mtranspose 0 c reA) reA) ->
  let A' := map (map abs2) A in
  let At := mtranspose d2zero_ c A' in
  exists x, dsolve (O := @ops_dual2 R NumR) A b true = Ok x /\ length x = c /\ Forall wf2 x /\
    mat_vec (O := ops_cring cmp2) (mat_mul (O := ops_cring cmp2) At A') (map abs2 x)
      = mat_vec (O := ops_cring cmp2) At (map abs2 b) /\
    forall y : list D2, length y = c ->
      mat_vec (O := ops_cring cmp2) (mat_mul (O := ops_cring cmp2) At A') y
        = mat_vec (O := ops_cring cmp2) At (map abs2 b) -> y = map abs2 x.
Proof.
  intros HR Hc Hr Lb WA Wb reA NS A' At.
  assert (HR' : is_rect c A' = true).
  { unfold A', is_rect in *. rewrite forallb_forall in *. intros r Hin.
    apply in_map_iff in Hin. destruct Hin as (r0 & <- & Hin). rewrite map_length. auto. }
  assert (Sh : shape c (mat_mul (O := ops_cring cmp2) At A')).
  { exact (mat_mul_shape (O := ops_cring cmp2) c A' HR' ltac:(unfold A'; rewrite map_length; exact Hr)). }
  assert (EG : map (map re_) (mat_mul (O := ops_cring cmp2) At A')
             = mat_mul (O := @ops_num R NumR) (mtranspose 0 c reA) reA).
  { rewrite ops_num_R.
    assert (EA : reA = map (map re_) A').
    { unfold reA, A'. rewrite map_map. apply map_ext. intros r. rewrite map_map. reflexivity. }
    rewrite EA. symmetry. apply MR_map_inv.
    apply (mat_mul_rel (fun a r => r = re_ a) opsrel_re2).
    - apply (MR_mtranspose (fun a r => r = re_ a)); [apply MR_map|reflexivity].
    - apply MR_map. }
  assert (HP : pivots_are_units (CF := CRing_D2) cmp2 c (mat_mul (O := ops_cring cmp2) At A')).
  { apply pivots_dual2; auto. rewrite EG. exact NS. }
  destruct (dsolve_lsq cmp2 c A' (map abs2 b) HR' Hc ltac:(unfold A'; rewrite map_length; exact Hr)
              ltac:(unfold A'; rewrite !map_length; exact Lb) HP) as (x' & E & Lx & Hx & Ux).
  pose proof (dsolve_rel Rel2 opsrel_dual2 A A' b (map abs2 b) true
                (MR_abs wf2 abs2 A WA) (F2_abs wf2 abs2 b Wb)) as HRl.
  pose proof (E : dsolve (O := ops_cring (CR := CRing_D2) cmp2) A' (map abs2 b) true = Ok x') as E'.
  rewrite E' in HRl. destruct (dsolve A b true) as [x| |]; cbn in HRl; try contradiction.
  destruct (F2_abs_inv wf2 abs2 x x' HRl) as [Wx ->].
  exists x. rewrite map_length in Lx. repeat split; auto.
Qed.

Theorem mixed_concrete_dual2 n (A : list (list R)) (b : list (dual2 R)) :
  shape n A -> length b = n -> Forall wf2 b -> nonsingular n A ->
  exists x, fdsolve (OF := @ops_num R NumR) (OT := @ops_dual2 R NumR) xmul_dual2 A b false = Ok x /\
    length x = n /\ Forall wf2 x /\
    fmat_vec (OT := ops_cring cmp2) d2scale A (map abs2 x) = map abs2 b /\
    forall y : list D2, length y = n -> fmat_vec (OT := ops_cring cmp2) d2scale A y = map abs2 b -> y = map abs2 x.
Proof.
  intros Sh Lb Wb NS.
  destruct (mixed_dual2 cmp2 n A (map abs2 b) Sh ltac:(rewrite map_length; exact Lb) NS) as (x' & E & Lx & Hx & Ux).
  assert (MA : MR eq A A).
  { clear. induction A; constructor; auto. clear. induction a; constructor; auto. }
  pose proof (fdsolve_rel eq Rel2 opsrel_R opsrel_dual2 xmul_dual2 d2scale xmul_rel2 A A b (map abs2 b) false
                MA (F2_abs wf2 abs2 b Wb)) as HR.
  rewrite E in HR.
  destruct (fdsolve xmul_dual2 A b false) as [x| |]; cbn in HR; try contradiction.
  destruct (F2_abs_inv wf2 abs2 x x' HR) as [Wx ->].
  exists x. rewrite map_length in Lx. repeat split; auto.
Qed.

(* fdsolve, least-squares branch: real r x c matrix, concrete Dual / Dual2 right-hand side *)
Lemma MR_eq_refl {A} (a : list (list A)) : MR eq a a.
Proof. induction a as [|r a IH]; constructor; auto. induction r; constructor; auto. Qed.

Theorem mixed_lsq_concrete_dual1 c (A : list (list R)) (b : list (dual R)) :
  is_rect c A = true -> (1 <= c)%nat -> (1 <= length A)%nat -> length b = length A -> Forall wf b ->
  let At := mtranspose 0 c A in
  let G := mat_mul (O := ops_cring cmpR) At A in
  nonsingular c G ->
  exists x, fdsolve (OF := @ops_num R NumR) (OT := @ops_dual R NumR) xmul_dual A b true = Ok x /\
    length x = c /\ Forall wf x /\
    fmat_vec (OT := ops_cring cmp1) d1scale G (map abs1 x) = fmat_vec (OT := ops_cring cmp1) d1scale At (map abs1 b) /\
    forall y : list D1, length y = c ->
      fmat_vec (OT := ops_cring cmp1) d1scale G y = fmat_vec (OT := ops_cring cmp1) d1scale At (map abs1 b) ->
      y = map abs1 x.
Proof.
  intros HR Hc Hr Lb Wb At G NS.
  assert (Sh : shape c G) by exact (mat_mul_shape (O := ops_cring cmpR) c A HR Hr).
  unfold nonsingular in NS. rewrite ops_num_R in NS.
  pose proof (nonsingular_R c G Sh NS) as HP.
  destruct (fdsolve_lsq (CF := CRing_R) (CE := CRing_D1) cmpR cmp1 d1const d1const_add d1const_mul d1const_one d1scale d1scale_spec
              c A (map abs1 b) HR Hc Hr ltac:(rewrite map_length; exact Lb) HP) as (x' & E & Lx & Hx & Ux).
  pose proof (fdsolve_rel eq Rel1 opsrel_R opsrel_dual1 xmul_dual d1scale xmul_rel1 A A b (map abs1 b) true
                (MR_eq_refl A) (F2_abs wf abs1 b Wb)) as HRl.
  pose proof (E : fdsolve (OF := ops_cring (CR := CRing_R) cmpR) (OT := ops_cring (CR := CRing_D1) cmp1)
                    d1scale A (map abs1 b) true = Ok x') as E'.
  rewrite E' in HRl. destruct (fdsolve xmul_dual A b true) as [x| |]; cbn in HRl; try contradiction.
  destruct (F2_abs_inv wf abs1 x x' HRl) as [Wx ->].
  exists x. rewrite map_length in Lx. repeat split; auto.
Qed.
Theorem mixed_lsq_concrete_dual2 c (A : list (list R)) (b : list (dual2 R)) :
  is_rect c A = true -> (1 <= c)%nat -> (1 <= length A)%nat -> length b = length A -> Forall wf2 b ->
  let At := mtranspose 0 c A in
  let G := mat_mul (O := ops_cring cmpR) At A in
  nonsingular c G ->
  exists x, fdsolve (OF := @ops_num R NumR) (OT := @ops_dual2 R NumR) xmul_dual2 A b true = Ok x /\
    length x = c /\ Forall wf2 x /\
    fmat_vec (OT := ops_cring cmp2) d2scale G (map abs2 x) = fmat_vec (OT := ops_cring cmp2) d2scale At (map abs2 b) /\
    forall y : list D2, length y = c ->
      fmat_vec (OT := ops_cring cmp2) d2scale G y = fmat_vec (OT := ops_cring cmp2) d2scale At (map abs2 b) ->
      y = map abs2 x.
Proof.
  intros HR Hc Hr Lb Wb At G NS.
  assert (Sh : shape c G) by exact (mat_mul_shape (O := ops_cring cmpR) c A HR Hr).
  unfold nonsingular in NS. rewrite ops_num_R in NS.
  pose proof (nonsingular_R c G Sh NS) as HP.
  destruct (fdsolve_lsq (CF := CRing_R) (CE := CRing_D2) cmpR cmp2 d2const d2const_add d2const_mul d2const_one d2scale LinalgI.d2scale_spec
              c A (map abs2 b) HR Hc Hr ltac:(rewrite map_length; exact Lb) HP) as (x' & E & Lx & Hx & Ux).
  pose proof (fdsolve_rel eq Rel2 opsrel_R opsrel_dual2 xmul_dual2 d2scale xmul_rel2 A A b (map abs2 b) true
                (MR_eq_refl A) (F2_abs wf2 abs2 b Wb)) as HRl.
  pose proof (E : fdsolve (OF := ops_cring (CR := CRing_R) cmpR) (OT := ops_cring (CR := CRing_D2) cmp2)
                    d2scale A (map abs2 b) true = Ok x') as E'.
  rewrite E' in HRl. destruct (fdsolve xmul_dual2 A b true) as [x| |]; cbn in HRl; try contradiction.
  destruct (F2_abs_inv wf2 abs2 x x' HRl) as [Wx ->].
  exists x. rewrite map_length in Lx. repeat split; auto.
Qed.
