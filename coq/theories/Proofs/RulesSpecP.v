(* Facts about the rule specification Model/Rules.v itself (independent of the generated tables). Axiom-free. *)
From Coq Require Import ZArith Lia List Bool String.
From RL Require Import Model.Dates Model.Calendar Model.Rules Proofs.DatesP Proofs.CalendarP.
Import ListNotations.
Open Scope Z_scope.

Lemma forallb_days' P a b : forallb P (cal_date_range a b) = true -> forall d, a <= d <= b -> P d = true.
Proof.
  intros H d Hd. rewrite forallb_forall in H. apply H. unfold cal_date_range. apply cal_range_f_in. lia.
Qed.

(* ---------- the computus: Easter Sunday is a Sunday between 22 March and 25 April ---------- *)
Definition easter_ok (y : Z) : bool :=
  let e := easter y in (weekday e =? 6) && (days_from_civil y 3 22 <=? e) && (e <=? days_from_civil y 4 25) &&
  (year_of e =? y).
Lemma easter_bounds : forall y, 1970 <= y <= 2200 ->
  weekday (easter y) = 6 /\ days_from_civil y 3 22 <= easter y <= days_from_civil y 4 25 /\ year_of (easter y) = y.
Proof.
  assert (H : forallb easter_ok (cal_date_range 1970 2200) = true) by (vm_compute; reflexivity).
  intros y Hy. pose proof (forallb_days' _ _ _ H y Hy) as A. unfold easter_ok in A.
  apply andb_true_iff in A. destruct A as [A A4]. apply andb_true_iff in A. destruct A as [A A3].
  apply andb_true_iff in A. destruct A as [A1 A2].
  apply Z.eqb_eq in A1, A4. apply Z.leb_le in A2, A3. auto.
Qed.

(* all rule sets satisfy the side conditions of Model/Rules.v *)
Lemma all_rules_wf : forallb (fun nr => rules_wf (snd nr)) (full_rules ++ partial_rules) = true.
Proof. vm_compute. reflexivity. Qed.

Ltac Zify.zify_post_hook ::= Z.div_mod_to_equations.

(* ---------- the reading of `Fixed m dd o` is the pandas one ---------- *)
Lemma dim_1970_le y m : dim 1970 m <= dim y m.
Proof.
  unfold dim.
  destruct ((m =? 1) || (m =? 3) || (m =? 5) || (m =? 7) || (m =? 8) || (m =? 10) || (m =? 12)); [lia|].
  destruct ((m =? 4) || (m =? 6) || (m =? 9) || (m =? 11)); [lia|].
  destruct (m =? 2); [|lia]. replace (is_leap_greg 1970) with false by (vm_compute; reflexivity).
  destruct (is_leap_greg y); lia.
Qed.
Lemma wd_back_spec n k : -1 <= k <= 2 -> wd_back (weekday n) k = weekday (n - k).
Proof.
  intros Hk. unfold wd_back, weekday.
  destruct (Z.ltb_spec ((n + 3) mod 7 - k) 0); [lia|].
  destruct (Z.ltb_spec 6 ((n + 3) mod 7 - k)); lia.
Qed.
Lemma obs_shift_range o w : -1 <= obs_shift o w <= 2.
Proof.
  unfold obs_shift. destruct o; try lia.
  - destruct (w =? 6); lia.
  - destruct (w =? 5); [lia|]. destruct (w =? 6); lia.
  - destruct (w =? 5); [lia|]. destruct (w =? 6); lia.
  - destruct ((w =? 5) || (w =? 6)); [lia|]. destruct (w =? 0); lia.
Qed.
Lemma fixed_wf_shift m dd o w : kind_wf (Fixed m dd o) = true -> 0 <= w <= 6 ->
  1 <= m <= 12 /\ 1 <= dd <= dim 1970 m /\ (1 <= dd + obs_shift o w <= 28 \/ obs_shift o w = 0).
Proof.
  cbn [kind_wf]. intros H Hw.
  apply andb_true_iff in H. destruct H as [H H5]. apply andb_true_iff in H. destruct H as [H H4].
  apply andb_true_iff in H. destruct H as [H H3]. apply andb_true_iff in H. destruct H as [H1 H2].
  apply Z.leb_le in H1, H2, H3, H4. split; [lia|]. split; [lia|].
  destruct o; try (right; reflexivity); left;
    (rewrite forallb_forall in H5;
     assert (Hin : In w [0; 1; 2; 3; 4; 5; 6]) by (cbn [In]; lia);
     specialize (H5 w Hin); apply andb_true_iff in H5; destruct H5 as [A B]; apply Z.leb_le in A, B; lia).
Qed.

Theorem fixed_hit_spec m dd o n : kind_wf (Fixed m dd o) = true ->
  (fixed_hit m dd o (dctx_of n) = true <->
   exists b, month_of b = m /\ day_of b = dd /\ n = b + obs_shift o (weekday b)).
Proof.
  intros WF. unfold dctx_of. rewrite (civil_fields n). unfold fixed_hit. cbn [x_m x_d x_wd x_n].
  pose proof (civil_valid n) as [[Vm Vd] Vn].
  split.
  - destruct (Z.eqb_spec (month_of n) m) as [Em|]; [|discriminate].
    intros H. apply existsb_exists in H. destruct H as [k [Hk H]].
    destruct (Z.eqb_spec (day_of n) (dd + k)) as [Ed|]; [|discriminate]. apply Z.eqb_eq in H.
    assert (Kr : -1 <= k <= 2) by (cbn [In] in Hk; lia).
    rewrite (wd_back_spec n k Kr) in H.
    destruct (fixed_wf_shift m dd o (weekday (n - k)) WF (weekday_range _)) as [M [D _]].
    exists (n - k).
    assert (Eb : n - k = days_from_civil (year_of n) m dd).
    { rewrite <- Vn at 1. rewrite Em, Ed, dfc_day_linear. lia. }
    assert (V : valid_ymd (year_of n) m dd).
    { split; [lia|]. pose proof (dim_1970_le (year_of n) m). lia. }
    pose proof (civil_roundtrip_conv _ _ _ V) as C. rewrite <- Eb in C. rewrite civil_fields in C.
    injection C as _ C2 C3. split; auto. split; auto. lia.
  - intros [b [Hm [Hd Hn]]].
    pose proof (civil_valid b) as [[Bm Bd] Bn]. rewrite Hm, Hd in *.
    set (s := obs_shift o (weekday b)) in *.
    destruct (fixed_wf_shift m dd o (weekday b) WF (weekday_range _)) as [M [D S]]. fold s in S.
    pose proof (obs_shift_range o (weekday b)) as Sr. fold s in Sr.
    assert (V : valid_ymd (year_of b) m (dd + s)).
    { split; [lia|]. pose proof (dim_bounds (year_of b) m M). destruct S as [S|S]; lia. }
    assert (En : n = days_from_civil (year_of b) m (dd + s)) by (rewrite dfc_day_linear; lia).
    pose proof (civil_roundtrip_conv _ _ _ V) as C. rewrite <- En in C. rewrite civil_fields in C.
    injection C as C1 C2 C3. rewrite C2, C3. rewrite Z.eqb_refl.
    apply existsb_exists. exists s. split; [cbn [In]; lia|].
    rewrite Z.eqb_refl. rewrite (wd_back_spec n s Sr). replace (n - s) with b by lia. fold s. apply Z.eqb_refl.
Qed.
