(* Facts about the rule specification Model/Rules.v itself (independent of the generated tables). Axiom-free. *)
From Coq Require Import ZArith Lia List Bool String.
From RL Require Import Model.Dates Model.Calendar Model.Rules Proofs.DatesP Proofs.CalendarP.
Import ListNotations.
Open Scope Z_scope.

Lemma forallb_days' P a b : forallb P (cal_date_range a b) = true -> forall d, a <= d <= b -> P d = true.
Proof.
  intros H d Hd. rewrite forallb_forall in H. apply H. unfold cal_date_range. apply cal_range_f_in. lia.
Qed.

(* ---------- the computus: Easter Sunday is a Sunday between 22 March and 25 April ---------- *)
Definition easter_ok (y : Z) : bool :=
  let e := easter y in (weekday e =? 6) && (days_from_civil y 3 22 <=? e) && (e <=? days_from_civil y 4 25) &&
  (year_of e =? y).
Lemma easter_bounds : forall y, 1970 <= y <= 2200 ->
  weekday (easter y) = 6 /\ days_from_civil y 3 22 <= easter y <= days_from_civil y 4 25 /\ year_of (easter y) = y.
Proof.
  assert (H : forallb easter_ok (cal_date_range 1970 2200) = true) by (vm_compute; reflexivity).
  intros y Hy. pose proof (forallb_days' _ _ _ H y Hy) as A. unfold easter_ok in A.
  apply andb_true_iff in A. destruct A as [A A4]. apply andb_true_iff in A. destruct A as [A A3].
  apply andb_true_iff in A. destruct A as [A1 A2].
  apply Z.eqb_eq in A1, A4. apply Z.leb_le in A2, A3. auto.
Qed.

(* all rule sets satisfy the side conditions of Model/Rules.v *)
Lemma all_rules_wf : forallb (fun nr => rules_wf (snd nr)) (full_rules ++ partial_rules) = true.
Proof. vm_compute. reflexivity. Qed.
