(* Proofs about Model/Named.v (named calendars) over the GENERATED wiring. Axiom-free. *)
From Coq Require Import ZArith Lia List Bool String.
From RL Require Import Base.Outcome Model.Dates Model.Calendar Model.Named Gen.NamedTables Gen.NameWiring
  Proofs.CalendarP.
Import ListNotations.
Open Scope Z_scope.

(* ---------- lower-casing ---------- *)
Lemma lower_cp_stable c x : In x (lower_cp c) -> lower_cp x = [x].
Proof.
  unfold lower_cp. intros H.
  destruct ((65 <=? c) && (c <=? 90)) eqn:E1.
  - destruct H as [<-|[]]. apply andb_true_iff in E1. destruct E1 as [A B].
    apply Z.leb_le in A, B.
    destruct (Z.leb_spec 65 (c + 32)), (Z.leb_spec (c + 32) 90); cbn [andb]; try lia.
    destruct (Z.eqb_spec (c + 32) 8490); try lia. destruct (Z.eqb_spec (c + 32) 304); try lia. reflexivity.
  - destruct (Z.eqb_spec c 8490).
    + destruct H as [<-|[]]. reflexivity.
    + destruct (Z.eqb_spec c 304).
      * destruct H as [<-|[<-|[]]]; reflexivity.
      * destruct H as [<-|[]]. rewrite E1.
        destruct (Z.eqb_spec c 8490); try lia. destruct (Z.eqb_spec c 304); try lia. reflexivity.
Qed.
Lemma lower_idem s : lower (lower s) = lower s.
Proof.
  unfold lower. induction s as [|c r IH]; [reflexivity|].
  cbn [flat_map]. rewrite flat_map_app, IH. f_equal.
  pose proof (lower_cp_stable c) as H. induction (lower_cp c) as [|x l IHl]; [reflexivity|].
  cbn [flat_map]. rewrite (H x) by (left; auto). cbn [app]. f_equal. apply IHl. intros y Hy. apply H. right; auto.
Qed.

Theorem named_case_insensitive s1 s2 : lower s1 = lower s2 -> named_try_new s1 = named_try_new s2.
Proof. intros H. unfold named_try_new. rewrite H. reflexivity. Qed.
Theorem named_lower s : named_try_new (lower s) = named_try_new s.
Proof. apply named_case_insensitive. apply lower_idem. Qed.

(* ---------- lookup never aborts: every wired week mask is within 0..6 (checked on the generated table) ---------- *)
Definition mask_ok (m : list Z) : bool := forallb (fun v => (0 <=? v) && (v <=? 6)) m.
Lemma wiring_masks_ok : forallb (fun kv => mask_ok (snd kv)) wiring_mask = true.
Proof. vm_compute. reflexivity. Qed.

Lemma assoc_last_in {A} name (l : list (string * A)) acc v :
  assoc_last name l acc = Some v -> acc = Some v \/ exists k, In (k, v) l.
Proof.
  revert acc. induction l as [|[k w] r IH]; intros acc H; cbn [assoc_last] in H; [left; auto|].
  apply IH in H. destruct H as [H|[k' H]].
  - destruct (str_eqb name (str_of_string k)).
    + injection H as <-. right. exists k. left; auto.
    + left; auto.
  - right. exists k'. right; auto.
Qed.

Lemma get_calendar_by_name_no_panic name : get_calendar_by_name name <> Panic.
Proof.
  unfold get_calendar_by_name, get_holidays_by_name, get_weekmask_by_name.
  destruct (assoc_last name wiring_hols None) as [h|]; cbn [obind]; [|discriminate].
  destruct (assoc_last name wiring_mask None) as [m|] eqn:E; cbn [obind]; [|discriminate].
  apply assoc_last_in in E. destruct E as [E|[k E]]; [discriminate|].
  pose proof wiring_masks_ok as W. rewrite forallb_forall in W. specialize (W _ E). cbn [snd] in W.
  unfold cal_new. unfold mask_ok in W. rewrite W. discriminate.
Qed.

Definition known (name : str) : bool :=
  match assoc_last name wiring_hols None, assoc_last name wiring_mask None with
  | Some _, Some _ => true | _, _ => false end.

Lemma get_calendar_by_name_err name : get_calendar_by_name name = Err <-> known name = false.
Proof.
  unfold known. pose proof (get_calendar_by_name_no_panic name) as NP.
  unfold get_calendar_by_name, get_holidays_by_name, get_weekmask_by_name in *.
  destruct (assoc_last name wiring_hols None) as [h|]; cbn [obind] in *; [|tauto].
  destruct (assoc_last name wiring_mask None) as [m|]; cbn [obind] in *; [|tauto].
  unfold cal_new in *. destruct (forallb _ m).
  - split; intros H; discriminate.
  - exfalso. apply NP. reflexivity.
Qed.
Lemma get_calendar_by_name_ok name c : get_calendar_by_name name = Ok c ->
  exists h m, assoc_last name wiring_hols None = Some h /\ assoc_last name wiring_mask None = Some m /\
              c = mkCal m h.
Proof.
  unfold get_calendar_by_name, get_holidays_by_name, get_weekmask_by_name.
  destruct (assoc_last name wiring_hols None) as [h|]; cbn [obind]; [|discriminate].
  destruct (assoc_last name wiring_mask None) as [m|]; cbn [obind]; [|discriminate].
  unfold cal_new. destruct (forallb _ m); [|discriminate]. intros H. injection H as <-. eauto.
Qed.

Lemma omapM_no_panic {A B} (f : A -> outcome B) l : (forall x, f x <> Panic) -> omapM f l <> Panic.
Proof.
  intros Hf. induction l as [|x r IH]; cbn [omapM]; [discriminate|].
  specialize (Hf x). destruct (f x); cbn [obind]; try congruence.
  destruct (omapM f r); cbn [obind]; congruence.
Qed.
Lemma omapM_err {A B} (f : A -> outcome B) l : (forall x, f x <> Panic) ->
  (omapM f l = Err <-> exists x, In x l /\ f x = Err).
Proof.
  intros Hf. induction l as [|x r IH]; cbn [omapM].
  - split; [discriminate | intros [x [[] _]]].
  - pose proof (Hf x) as Hx. pose proof (omapM_no_panic f r Hf) as Hr.
    destruct (f x) eqn:E; cbn [obind]; try congruence.
    + destruct (omapM f r) eqn:E2; cbn [obind]; try congruence.
      * split; [discriminate|]. intros [y [[<-|Hy] Ey]]; [congruence|].
        destruct IH as [_ IH]. assert (X : Ok a0 = Err :> outcome (list B)) by (apply IH; eauto). discriminate X.
      * split; auto. intros _. destruct IH as [IH _]. destruct (IH eq_refl) as [y [Hy Ey]]. exists y. split; [right|]; auto.
    + split; auto. intros _. exists x. split; [left|]; auto.
Qed.
Lemma omapM_ok {A B} (f : A -> outcome B) l r : omapM f l = Ok r -> Forall2 (fun x y => f x = Ok y) l r.
Proof.
  revert r. induction l as [|x t IH]; cbn [omapM]; intros r H.
  - injection H as <-. constructor.
  - destruct (f x) eqn:E; cbn [obind] in H; try discriminate.
    destruct (omapM f t) eqn:E2; cbn [obind] in H; try discriminate.
    injection H as <-. constructor; auto.
Qed.

(* errors: more than one '|' or an unknown (possibly empty) part — and nothing else *)
Lemma parse_cals_err p : parse_cals p = Err <-> exists name, In name (split 44 p) /\ known name = false.
Proof.
  unfold parse_cals. rewrite (omapM_err get_calendar_by_name (split 44 p) get_calendar_by_name_no_panic).
  split; intros [name [H1 H2]]; exists name; split; auto; apply get_calendar_by_name_err; auto.
Qed.
Lemma parse_cals_no_panic p : parse_cals p <> Panic.
Proof. apply omapM_no_panic. apply get_calendar_by_name_no_panic. Qed.

Theorem named_err_spec s : named_try_new s = Err <->
  (2 < List.length (split 124 (lower s)))%nat \/
  exists p name, In p (firstn 2 (split 124 (lower s))) /\ In name (split 44 p) /\ known name = false.
Proof.
  unfold named_try_new.
  assert (Hne : split 124 (lower s) <> []).
  { destruct (lower s) as [|c r]; cbn [split]; [discriminate|].
    destruct (c =? 124); [discriminate|]. destruct (split 124 r); discriminate. }
  destruct (split 124 (lower s)) as [|p0 [|p1 [|p2 r]]]; [congruence| | |].
  - pose proof (parse_cals_err p0) as H0. pose proof (parse_cals_no_panic p0) as N0.
    destruct (parse_cals p0) eqn:E; cbn [obind]; [| |congruence].
    + split; [discriminate|]. intros [Hl|[p [name [Hp [Hn Hk]]]]]; [simpl in Hl; lia|].
      destruct Hp as [<-|[]]. destruct H0 as [_ H0].
      assert (X : Ok a = Err :> outcome (list cal)) by (apply H0; eauto). discriminate X.
    + split; auto. intros _. right. destruct H0 as [H0 _]. destruct (H0 eq_refl) as [name [Hn Hk]].
      exists p0, name. split; [left; auto|]. auto.
  - pose proof (parse_cals_err p0) as H0. pose proof (parse_cals_no_panic p0) as N0.
    pose proof (parse_cals_err p1) as H1. pose proof (parse_cals_no_panic p1) as N1.
    destruct (parse_cals p0) eqn:E0; cbn [obind]; [| |congruence].
    + destruct (parse_cals p1) eqn:E1; cbn [obind]; [| |congruence].
      * split; [discriminate|]. intros [Hl|[p [name [Hp [Hn Hk]]]]]; [simpl in Hl; lia|].
        destruct Hp as [<-|[<-|[]]].
        -- destruct H0 as [_ H0]. assert (X : Ok a = Err :> outcome (list cal)) by (apply H0; eauto). discriminate X.
        -- destruct H1 as [_ H1]. assert (X : Ok a0 = Err :> outcome (list cal)) by (apply H1; eauto). discriminate X.
      * split; auto. intros _. right. destruct H1 as [H1 _]. destruct (H1 eq_refl) as [name [Hn Hk]].
        exists p1, name. split; [right; left; auto|]. auto.
    + split; auto. intros _. right. destruct H0 as [H0 _]. destruct (H0 eq_refl) as [name [Hn Hk]].
      exists p0, name. split; [left; auto|]. auto.
  - split; auto. intros _. left. simpl. lia.
Qed.

Theorem named_no_panic s : named_try_new s <> Panic.
Proof.
  unfold named_try_new. destruct (split 124 (lower s)) as [|p0 [|p1 [|p2 r]]]; try discriminate.
  - pose proof (parse_cals_no_panic p0) as H. destruct (parse_cals p0); cbn [obind]; congruence.
  - pose proof (parse_cals_no_panic p0) as H0. pose proof (parse_cals_no_panic p1) as H1.
    destruct (parse_cals p0); cbn [obind]; try congruence. destruct (parse_cals p1); cbn [obind]; congruence.
Qed.

(* a named calendar IS the explicit union of the named parts *)
Definition table_of (name : str) (c : cal) : Prop :=
  exists h m, assoc_last name wiring_hols None = Some h /\ assoc_last name wiring_mask None = Some m /\
              c = mkCal m h.

Theorem named_is_union s n : named_try_new s = Ok n ->
  n_name n = lower s /\
  ((exists p0 cs, split 124 (lower s) = [p0] /\ Forall2 table_of (split 44 p0) cs /\ n_ucal n = mkUCal cs None) \/
   (exists p0 p1 cs ss, split 124 (lower s) = [p0; p1] /\ Forall2 table_of (split 44 p0) cs /\
      Forall2 table_of (split 44 p1) ss /\ n_ucal n = mkUCal cs (Some ss))).
Proof.
  unfold named_try_new. intros H.
  assert (F : forall l r, omapM get_calendar_by_name l = Ok r -> Forall2 table_of l r).
  { intros l r E. apply omapM_ok in E. induction E; constructor; auto. apply get_calendar_by_name_ok; auto. }
  destruct (split 124 (lower s)) as [|p0 [|p1 [|p2 r]]]; try discriminate.
  - unfold parse_cals in H. destruct (omapM get_calendar_by_name (split 44 p0)) eqn:E; cbn [obind] in H; try discriminate.
    injection H as <-. cbn. split; auto. left. exists p0, a. auto.
  - unfold parse_cals in H. destruct (omapM get_calendar_by_name (split 44 p0)) eqn:E0; cbn [obind] in H; try discriminate.
    destruct (omapM get_calendar_by_name (split 44 p1)) eqn:E1; cbn [obind] in H; try discriminate.
    injection H as <-. cbn. split; auto. right. exists p0, p1, a, a0. auto.
Qed.

(* ---------- the explicit combination of the named parts ---------- *)
(* cs / ss are the tables the comma-separated parts before / after the single '|' are wired to *)
Definition named_parts (s : str) (cs : list cal) (ss : option (list cal)) : Prop :=
  (exists p0, split 124 (lower s) = [p0] /\ Forall2 table_of (split 44 p0) cs /\ ss = None) \/
  (exists p0 p1 v, split 124 (lower s) = [p0; p1] /\ Forall2 table_of (split 44 p0) cs /\
                   Forall2 table_of (split 44 p1) v /\ ss = Some v).

Lemma table_of_lookup name c : table_of name c -> get_calendar_by_name name = Ok c.
Proof.
  intros [h [m [Hh [Hm ->]]]]. unfold get_calendar_by_name, get_holidays_by_name, get_weekmask_by_name.
  rewrite Hh, Hm. cbn [obind]. apply assoc_last_in in Hm. destruct Hm as [Hm|[k Hm]]; [discriminate|].
  pose proof wiring_masks_ok as W. rewrite forallb_forall in W. specialize (W _ Hm). cbn [snd] in W.
  unfold cal_new. unfold mask_ok in W. rewrite W. reflexivity.
Qed.
Lemma tables_lookup l cs : Forall2 table_of l cs -> omapM get_calendar_by_name l = Ok cs.
Proof.
  induction 1 as [|x c l cs H _ IH]; cbn [omapM]; [reflexivity|].
  rewrite (table_of_lookup _ _ H). cbn [obind]. rewrite IH. reflexivity.
Qed.

(* both directions: a string yields a named calendar exactly when its parts are wired, and that
   calendar is then literally the UnionCal of the parts' tables *)
Theorem named_iff_parts s u : (exists n, named_try_new s = Ok n /\ n_ucal n = u) <->
  exists cs ss, named_parts s cs ss /\ u = mkUCal cs ss.
Proof.
  split.
  - intros [n [H <-]]. apply named_is_union in H. destruct H as [_ [[p0 [cs [H1 [H2 H3]]]]|[p0 [p1 [cs [ss [H1 [H2 [H3 H4]]]]]]]]].
    + exists cs, None. split; auto. left. exists p0. auto.
    + exists cs, (Some ss). split; auto. right. exists p0, p1, ss. auto.
  - intros [cs [ss [[[p0 [H1 [H2 ->]]]|[p0 [p1 [v [H1 [H2 [H3 ->]]]]]]] ->]]]; unfold named_try_new; rewrite H1; unfold parse_cals.
    + rewrite (tables_lookup _ _ H2). cbn [obind]. eexists. split; [reflexivity|]. reflexivity.
    + rewrite (tables_lookup _ _ H2). cbn [obind]. rewrite (tables_lookup _ _ H3). cbn [obind].
      eexists. split; [reflexivity|]. reflexivity.
Qed.

Lemma dr_eq_refl b s : dr_eq b s b s = true.
Proof. apply dr_eq_spec. auto. Qed.

(* date for date (for EVERY date, not only the supported range), and `==` *)
Theorem named_date_for_date s n : named_try_new s = Ok n ->
  exists cs ss, named_parts s cs ss /\
    (forall d, ncal_is_bus n d = forallb (fun c => cal_is_bus c d) cs /\
               ncal_is_settle n d = match ss with None => true | Some v => forallb (fun c => cal_is_bus c d) v end /\
               ncal_is_bus n d = ucal_is_bus (mkUCal cs ss) d /\ ncal_is_settle n d = ucal_is_settle (mkUCal cs ss) d /\
               ncal_is_weekday n d = ucal_is_weekday (mkUCal cs ss) d /\ ncal_is_holiday n d = ucal_is_holiday (mkUCal cs ss) d) /\
    ncal_eq_any n (ucal_is_bus (mkUCal cs ss)) (ucal_is_settle (mkUCal cs ss)) = true /\
    ucal_eq_any (mkUCal cs ss) (ncal_is_bus n) (ncal_is_settle n) = true.
Proof.
  intros H. destruct (proj1 (named_iff_parts s (n_ucal n))) as [cs [ss [Hp Hu]]]; [eauto|].
  exists cs, ss. split; auto.
  unfold ncal_is_bus, ncal_is_settle, ncal_is_weekday, ncal_is_holiday, ncal_eq_any, ucal_eq_any. rewrite Hu.
  split; [|split; apply dr_eq_refl].
  intros d. rewrite ucal_is_bus_spec, ucal_is_settle_spec. cbn [u_cals u_settle]. repeat split; reflexivity.
Qed.

(* ---------- letter case ---------- *)
Definition same_letter (a b : Z) : Prop :=
  a = b \/ (65 <= a <= 90 /\ b = a + 32) \/ (65 <= b <= 90 /\ a = b + 32).
Lemma lower_cp_upper a : 65 <= a <= 90 -> lower_cp a = lower_cp (a + 32).
Proof.
  intros H. unfold lower_cp.
  destruct (Z.leb_spec 65 a), (Z.leb_spec a 90); try lia. cbn [andb].
  destruct (Z.leb_spec 65 (a + 32)), (Z.leb_spec (a + 32) 90); try lia; cbn [andb].
  destruct (Z.eqb_spec (a + 32) 8490); try lia. destruct (Z.eqb_spec (a + 32) 304); try lia. reflexivity.
Qed.
Lemma lower_same_letter s1 s2 : Forall2 same_letter s1 s2 -> lower s1 = lower s2.
Proof.
  unfold lower. induction 1 as [|a b s1 s2 H _ IH]; [reflexivity|].
  cbn [flat_map]. rewrite IH. f_equal.
  destruct H as [->|[[H ->]|[H ->]]]; [reflexivity| |].
  - apply lower_cp_upper; auto.
  - symmetry. apply lower_cp_upper; auto.
Qed.
Theorem named_case_flip s1 s2 : Forall2 same_letter s1 s2 -> named_try_new s1 = named_try_new s2.
Proof. intros H. apply named_case_insensitive. apply lower_same_letter; auto. Qed.

(* ---------- the equality impls are agreement on the supported range ---------- *)
Theorem ucal_eq_any_spec u b2 s2 : ucal_eq_any u b2 s2 = true <->
  forall d, d1970 <= d <= d2200 -> ucal_is_bus u d = b2 d /\ ucal_is_settle u d = s2 d.
Proof. apply dr_eq_spec. Qed.
Theorem ncal_eq_any_spec n b2 s2 : ncal_eq_any n b2 s2 = true <->
  forall d, d1970 <= d <= d2200 -> ncal_is_bus n d = b2 d /\ ncal_is_settle n d = s2 d.
Proof. apply dr_eq_spec. Qed.
Theorem cal_eq_ucal_spec c u : cal_eq_ucal c u = true <->
  forall d, d1970 <= d <= d2200 -> cal_is_bus c d = ucal_is_bus u d /\ cal_is_settle c d = ucal_is_settle u d.
Proof. apply dr_eq_spec. Qed.
Theorem cal_eq_ncal_spec c n : cal_eq_ncal c n = true <->
  forall d, d1970 <= d <= d2200 -> cal_is_bus c d = ncal_is_bus n d /\ cal_is_settle c d = ncal_is_settle n d.
Proof.
  unfold cal_eq_ncal, ucal_eq_any. rewrite dr_eq_spec. unfold ncal_is_bus, ncal_is_settle.
  split; intros H d Hd; destruct (H d Hd); split; congruence.
Qed.
