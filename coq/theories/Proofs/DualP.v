(* Abstraction of the concrete dual-number representation (DESIGN §2.2) and the refinement lemmas:
   every operator of Model/Dual.v acts on (value, derivative-per-name) exactly as the textbook rule
   says, whatever the variable layout.  First order.  All statements at T := R. *)
From Coq Require Import Reals ZArith List Bool Lra Lia.
From RL Require Import Base.Num Base.Str Base.NumR Base.Outcome Model.Dual.
Import ListNotations.
Open Scope R_scope.

Notation dualR := (dual R).

(* ------------------------------------------------------------------ names and lookups *)
Lemma index_of_some v l i : index_of v l = Some i -> (i < length l)%nat /\ nth i l [] = v.
Proof.
  revert i; induction l as [|x l IH]; intros i E; cbn in E; [discriminate|].
  destruct (name_eqb v x) eqn:Q.
  - inversion E; subst. apply name_eqb_eq in Q. subst. cbn. split; [lia|reflexivity].
  - destruct (index_of v l) as [j|] eqn:J; cbn in E; [|discriminate]. inversion E; subst.
    destruct (IH j eq_refl) as [A B]. cbn. split; [lia|exact B].
Qed.
Lemma index_of_none v l : index_of v l = None <-> ~ In v l.
Proof.
  induction l as [|x l IH]; cbn; [tauto|].
  destruct (name_eqb v x) eqn:Q.
  - apply name_eqb_eq in Q. subst. split; [discriminate|intros C; exfalso; apply C; auto].
  - apply name_eqb_neq in Q. destruct (index_of v l) eqn:J; cbn.
    + split; [discriminate|]. intros C. exfalso. apply C. right.
      destruct (index_of_some _ _ _ J) as [A B]. rewrite <- B. apply nth_In. exact A.
    + split; auto. intros _ [C|C]; [congruence|]. apply IH in C; auto.
Qed.
Lemma index_of_in v l : In v l -> exists i, index_of v l = Some i.
Proof.
  intros I. destruct (index_of v l) eqn:E; [eauto|]. apply index_of_none in E. contradiction.
Qed.
Lemma mem_in v l : mem v l = true <-> In v l.
Proof.
  unfold mem. destruct (index_of v l) eqn:E.
  - split; auto. intros _. destruct (index_of_some _ _ _ E) as [A B]. rewrite <- B. apply nth_In; auto.
  - apply index_of_none in E. split; [discriminate|contradiction].
Qed.
Lemma mem_false v l : mem v l = false <-> ~ In v l.
Proof. rewrite <- mem_in. destruct (mem v l); split; congruence. Qed.
Lemma index_of_nth l : NoDup l -> forall i, (i < length l)%nat -> index_of (nth i l []) l = Some i.
Proof.
  induction 1 as [|x l NI ND IH]; intros i Hi; cbn in *; [lia|].
  destruct i as [|i].
  - rewrite name_eqb_refl. reflexivity.
  - assert (In (nth i l []) l) by (apply nth_In; lia).
    destruct (name_eqb (nth i l []) x) eqn:Q.
    + apply name_eqb_eq in Q. subst. contradiction.
    + rewrite IH by lia. reflexivity.
Qed.

(* dedup = first occurrences, duplicate-free, same elements *)
Lemma dedup_aux_spec seen l :
  NoDup (dedup_aux seen l) /\ (forall v, In v (dedup_aux seen l) <-> In v l /\ ~ In v seen).
Proof.
  revert seen; induction l as [|x l IH]; intros seen; cbn.
  - split; [constructor|]. intros v; tauto.
  - destruct (mem x seen) eqn:M.
    + destruct (IH seen) as [A B]. split; auto. intros v. rewrite B. apply mem_in in M.
      split; [tauto|]. intros [[E|E] N]; [subst; contradiction|tauto].
    + apply mem_false in M. destruct (IH (x :: seen)) as [A B]. split.
      * constructor; auto. rewrite B. cbn. tauto.
      * intros v. cbn. rewrite B. cbn. split.
        -- intros [E|[I N]]; [subst; tauto|tauto].
        -- intros [[E|I] N]; [auto|]. destruct (name_dec x v); [auto|right; tauto].
Qed.
Lemma dedup_NoDup l : NoDup (dedup l).
Proof. apply dedup_aux_spec. Qed.
Lemma dedup_In l v : In v (dedup l) <-> In v l.
Proof. unfold dedup. rewrite (proj2 (dedup_aux_spec [] l)). cbn. tauto. Qed.
Lemma dedup_aux_id seen l : NoDup l -> (forall v, In v l -> ~ In v seen) -> dedup_aux seen l = l.
Proof.
  revert seen; induction l as [|x l IH]; intros seen ND D; cbn; auto.
  inversion ND; subst.
  assert (M : mem x seen = false) by (apply mem_false; apply D; left; auto).
  rewrite M. f_equal. apply IH; auto. intros v I [E|E]; [subst; contradiction|].
  apply (D v); [right; auto|auto].
Qed.
Lemma dedup_id l : NoDup l -> dedup l = l.
Proof. intros. apply dedup_aux_id; auto. Qed.
Lemma NoDup_app_disj (xs l : list name) :
  NoDup xs -> NoDup l -> (forall v, In v l -> ~ In v xs) -> NoDup (xs ++ l).
Proof.
  intros A B D. induction A as [|x xs NI A IH]; cbn; auto.
  constructor.
  - rewrite in_app_iff. intros [C|C]; [contradiction|]. apply (D x C). left; auto.
  - apply IH. intros v I C. apply (D v I). right; auto.
Qed.
Lemma union_vars_NoDup xs ys : NoDup xs -> NoDup ys -> NoDup (union_vars xs ys).
Proof.
  intros A B. unfold union_vars. apply NoDup_app_disj; auto.
  - apply NoDup_filter. exact B.
  - intros v I. apply filter_In in I. destruct I as [I M]. apply negb_true_iff in M.
    apply mem_false in M. exact M.
Qed.
Lemma union_vars_In xs ys v : In v (union_vars xs ys) <-> In v xs \/ In v ys.
Proof.
  unfold union_vars. rewrite in_app_iff, filter_In. split.
  - tauto.
  - intros [A|A]; [auto|]. destruct (mem v xs) eqn:M.
    + apply mem_in in M. auto.
    + right. split; [auto|]. cbv beta. try rewrite M. reflexivity.
Qed.

(* ------------------------------------------------------------------ abstraction *)
Definition lk (vars : list name) (d : list R) (v : name) : R := lookup_or_zero vars d v.
Definition coef (d : dualR) (v : name) : R := lk (vs d) (du d) v.
Definition wf (d : dualR) : Prop := NoDup (vs d) /\ length (du d) = length (vs d).
Definition deq (a b : dualR) : Prop := re a = re b /\ forall v, coef a v = coef b v.
Infix "≈" := deq (at level 70).

Lemma deq_refl a : a ≈ a. Proof. split; auto. Qed.
Lemma deq_sym a b : a ≈ b -> b ≈ a. Proof. intros [A B]; split; auto. Qed.
Lemma deq_trans a b c : a ≈ b -> b ≈ c -> a ≈ c.
Proof. intros [A B] [C D]; split; [congruence|]. intros v; rewrite B; auto. Qed.

Lemma lk_notin vars d v : ~ In v vars -> lk vars d v = 0.
Proof. intros N. unfold lk, lookup_or_zero. apply index_of_none in N. rewrite N. reflexivity. Qed.
Lemma coef_notin d v : ~ In v (vs d) -> coef d v = 0.
Proof. apply lk_notin. Qed.
Lemma lk_map f vars d v : f 0 = 0 -> lk vars (map f d) v = f (lk vars d v).
Proof.
  intros F. unfold lk, lookup_or_zero. destruct (index_of v vars); [|auto].
  cbn [n0 NumR]. rewrite <- F at 1. apply map_nth.
Qed.
Lemma nth_vzip (f : R -> R -> R) a b i : length a = length b -> f 0 0 = 0 ->
  nth i (vzip f a b) 0 = f (nth i a 0) (nth i b 0).
Proof.
  revert b i; induction a as [|x a IH]; intros [|y b] i L F; cbn in *; try discriminate.
  - destruct i; auto.
  - destruct i; auto.
Qed.
Lemma length_vzip (f : R -> R -> R) a b : length a = length b -> length (vzip f a b) = length a.
Proof. revert b; induction a as [|x a IH]; intros [|y b] L; cbn in *; try discriminate; auto. Qed.
Lemma lk_vzip f vars a b v : length a = length b -> f 0 0 = 0 ->
  lk vars (vzip f a b) v = f (lk vars a v) (lk vars b v).
Proof.
  intros L F. unfold lk, lookup_or_zero. destruct (index_of v vars); [|auto].
  cbn [n0 NumR]. apply nth_vzip; auto.
Qed.
(* re-indexing by name *)
Lemma lk_reindex vars d target v :
  lk target (map (lookup_or_zero vars d) target) v = if mem v target then lk vars d v else 0.
Proof.
  unfold lk at 1, lookup_or_zero at 1, mem. destruct (index_of v target) as [i|] eqn:E; [|reflexivity].
  destruct (index_of_some _ _ _ E) as [A B].
  cbn [n0 NumR].
  rewrite nth_indep with (d' := lookup_or_zero vars d []) by (rewrite map_length; exact A).
  rewrite map_nth. rewrite B. reflexivity.
Qed.

(* ------------------------------------------------------------------ vars_cmp *)
Lemma names_zip_all_eq xs : forall ys, length xs = length ys -> names_zip_all xs ys = true -> xs = ys.
Proof.
  induction xs as [|x xs IH]; intros [|y ys] L Z; cbn in *; try discriminate; auto.
  apply andb_true_iff in Z. destruct Z as [Z1 Z2]. apply name_eqb_eq in Z1. f_equal; auto.
Qed.
Lemma names_zip_all_refl xs : names_zip_all xs xs = true.
Proof. induction xs; cbn; auto. rewrite name_eqb_refl. auto. Qed.

Inductive rel_spec (p : bool) (xs ys : list name) : varsrel -> Prop :=
| RS_arc : p = true -> rel_spec p xs ys ArcEq
| RS_val : xs = ys -> rel_spec p xs ys ValEq
| RS_sup : (forall v, In v ys -> In v xs) -> rel_spec p xs ys Superset
| RS_sub : (forall v, In v xs -> In v ys) -> rel_spec p xs ys Subset
| RS_dif : rel_spec p xs ys Difference.
Lemma vars_cmp_spec p xs ys : rel_spec p xs ys (vars_cmp p xs ys).
Proof.
  unfold vars_cmp. destruct p; [constructor; auto|].
  destruct (Nat.eqb (length xs) (length ys) && names_zip_all xs ys) eqn:E1.
  { apply andb_true_iff in E1. destruct E1 as [L Z]. apply Nat.eqb_eq in L.
    apply RS_val. apply names_zip_all_eq; auto. }
  destruct (Nat.leb (length ys) (length xs) && forallb (fun v => mem v xs) ys) eqn:E2.
  { apply andb_true_iff in E2. destruct E2 as [_ Fa]. rewrite forallb_forall in Fa.
    apply RS_sup. intros v I. apply mem_in. auto. }
  destruct (Nat.ltb (length xs) (length ys) && forallb (fun v => mem v ys) xs) eqn:E3.
  { apply andb_true_iff in E3. destruct E3 as [_ Fa]. rewrite forallb_forall in Fa.
    apply RS_sub. intros v I. apply mem_in. auto. }
  constructor.
Qed.

(* ------------------------------------------------------------------ alignment *)
Lemma to_new_vars_lookup_spec a target st :
  st <> ArcEq -> st <> ValEq -> NoDup target ->
  let x := to_new_vars a target st in
  re x = re a /\ vs x = target /\ wf x /\
  forall v, coef x v = if mem v target then coef a v else 0.
Proof.
  intros N1 N2 ND. destruct st; try congruence; cbn.
  all: split; [reflexivity|]; split; [reflexivity|]; split;
    [split; cbn; [exact ND|apply map_length]| intros v; unfold coef; cbn; apply lk_reindex].
Qed.

Record aligned (a b x y : dualR) : Prop := {
  al_vs : vs x = vs y;
  al_wfx : wf x; al_wfy : wf y;
  al_rex : re x = re a; al_rey : re y = re b;
  al_cx : forall v, coef x v = coef a v;
  al_cy : forall v, coef y v = coef b v;
  al_in : forall v, In v (vs x) <-> In v (vs a) \/ In v (vs b)
}.

Lemma align_spec p a b : wf a -> wf b -> (p = true -> vs a = vs b) ->
  let '(x, y) := align p a b in aligned a b x y.
Proof.
  intros WA WB HP. pose proof WA as [NA LA]. pose proof WB as [NB LB]. unfold align.
  pose proof (vars_cmp_spec p (vs a) (vs b)) as S.
  destruct S as [Ep | Ev | Sup | Sub | ].
  - specialize (HP Ep). constructor; try assumption; try reflexivity.
    intros w. rewrite HP. tauto.
  - constructor; try assumption; try reflexivity. intros w. rewrite Ev. tauto.
  - (* Superset: b reindexed onto a's vars *)
    cbn [to_union_vars].
    destruct (to_new_vars_lookup_spec b (vs a) Subset ltac:(congruence) ltac:(congruence) NA) as (R1 & R2 & R3 & R4).
    constructor; try assumption; try reflexivity.
    + intros w. rewrite R4. destruct (mem w (vs a)) eqn:M; auto.
      apply mem_false in M. symmetry. apply coef_notin. intros C. apply M. auto.
    + intros w. split; auto. intros [C|C]; auto.
  - cbn [to_union_vars].
    destruct (to_new_vars_lookup_spec a (vs b) Subset ltac:(congruence) ltac:(congruence) NB) as (R1 & R2 & R3 & R4).
    constructor; try assumption; try reflexivity.
    + intros w. rewrite R4. destruct (mem w (vs b)) eqn:M; auto.
      apply mem_false in M. symmetry. apply coef_notin. intros C. apply M. auto.
    + intros w. rewrite R2. split; auto. intros [C|C]; auto.
  - cbn [to_union_vars].
    assert (NU : NoDup (union_vars (vs a) (vs b))) by (apply union_vars_NoDup; auto).
    destruct (to_new_vars_lookup_spec a _ Difference ltac:(congruence) ltac:(congruence) NU) as (R1 & R2 & R3 & R4).
    destruct (to_new_vars_lookup_spec b _ Difference ltac:(congruence) ltac:(congruence) NU) as (S1 & S2 & S3 & S4).
    constructor; try assumption; try reflexivity.
    + intros w. rewrite R4. destruct (mem w _) eqn:M; auto. apply mem_false in M.
      symmetry. apply coef_notin. intros C. apply M. apply union_vars_In. auto.
    + intros w. rewrite S4. destruct (mem w _) eqn:M; auto. apply mem_false in M.
      symmetry. apply coef_notin. intros C. apply M. apply union_vars_In. auto.
    + intros w. cbn [vs to_new_vars]. apply union_vars_In.
Qed.

(* ------------------------------------------------------------------ binary operators *)
Definition in_union (r a b : dualR) : Prop := forall v, In v (vs r) <-> In v (vs a) \/ In v (vs b).

Ltac use_align p a b WA WB HP x y AL :=
  pose proof (align_spec p a b WA WB HP) as AL; destruct (align p a b) as [x y].

Lemma dadd_spec p a b : wf a -> wf b -> (p = true -> vs a = vs b) ->
  wf (dadd p a b) /\ re (dadd p a b) = re a + re b /\
  (forall v, coef (dadd p a b) v = coef a v + coef b v) /\ in_union (dadd p a b) a b.
Proof.
  intros WA WB HP. unfold dadd. use_align p a b WA WB HP x y AL. destruct AL.
  destruct al_wfx0 as [NX LX]. destruct al_wfy0 as [NY LY].
  assert (L : length (du x) = length (du y)) by (rewrite LX, LY, al_vs0; reflexivity).
  cbn [re vs du]. repeat split.
  - exact NX.
  - cbn. rewrite length_vzip; auto.
  - cbn [nadd NumR]. congruence.
  - intros v. unfold coef. cbn [vs du]. rewrite lk_vzip; auto; [|cbn; lra].
    assert (Cy : lk (vs x) (du y) v = coef b v) by (rewrite al_vs0; apply al_cy0).
    assert (Cx : lk (vs x) (du x) v = coef a v) by apply al_cx0.
    rewrite Cx, Cy. reflexivity.
  - apply al_in0.
  - apply al_in0.
Qed.

Lemma dsub_spec p a b : wf a -> wf b -> (p = true -> vs a = vs b) ->
  wf (dsub p a b) /\ re (dsub p a b) = re a - re b /\
  (forall v, coef (dsub p a b) v = coef a v - coef b v) /\ in_union (dsub p a b) a b.
Proof.
  intros WA WB HP. unfold dsub. use_align p a b WA WB HP x y AL. destruct AL.
  destruct al_wfx0 as [NX LX]. destruct al_wfy0 as [NY LY].
  assert (L : length (du x) = length (du y)) by (rewrite LX, LY, al_vs0; reflexivity).
  cbn [re vs du]. repeat split.
  - exact NX.
  - cbn. rewrite length_vzip; auto.
  - cbn [nsub NumR]. congruence.
  - intros v. unfold coef. cbn [vs du]. rewrite lk_vzip; auto; [|cbn; lra].
    assert (Cy : lk (vs x) (du y) v = coef b v) by (rewrite al_vs0; apply al_cy0).
    assert (Cx : lk (vs x) (du x) v = coef a v) by apply al_cx0.
    rewrite Cx, Cy. reflexivity.
  - apply al_in0.
  - apply al_in0.
Qed.

Lemma dmul_spec p a b : wf a -> wf b -> (p = true -> vs a = vs b) ->
  wf (dmul p a b) /\ re (dmul p a b) = re a * re b /\
  (forall v, coef (dmul p a b) v = coef a v * re b + coef b v * re a) /\ in_union (dmul p a b) a b.
Proof.
  intros WA WB HP. unfold dmul. use_align p a b WA WB HP x y AL. destruct AL.
  destruct al_wfx0 as [NX LX]. destruct al_wfy0 as [NY LY].
  assert (L : length (du x) = length (du y)) by (rewrite LX, LY, al_vs0; reflexivity).
  cbn [re vs du]. repeat split.
  - exact NX.
  - cbn. rewrite length_vzip; unfold vscale_r; rewrite ?map_length; auto.
  - cbn [nmul NumR]. congruence.
  - intros v. unfold coef. cbn [vs du]. unfold vscale_r.
    rewrite lk_vzip; [|rewrite !map_length; auto|cbn; lra].
    rewrite !lk_map by (cbn; ring).
    assert (Cy : lk (vs x) (du y) v = coef b v) by (rewrite al_vs0; apply al_cy0).
    assert (Cx : lk (vs x) (du x) v = coef a v) by apply al_cx0.
    rewrite Cx, Cy, al_rex0, al_rey0. reflexivity.
  - apply al_in0.
  - apply al_in0.
Qed.

(* unary shapes: same vars, derivative array mapped *)
Lemma wf_map (f : R -> R) r a : wf a -> wf (mkDual r (vs a) (map f (du a))).
Proof. intros [N L]. split; cbn; [exact N|rewrite map_length; exact L]. Qed.
Lemma coef_map (f : R -> R) r a v : f 0 = 0 -> coef (mkDual r (vs a) (map f (du a))) v = f (coef a v).
Proof. intros F. unfold coef. cbn [vs du]. apply lk_map. exact F. Qed.

Lemma ddiv_spec p a b : wf a -> wf b -> (p = true -> vs a = vs b) ->
  wf (ddiv p a b) /\ re (ddiv p a b) = re a * (1 / re b) /\
  (forall v, coef (ddiv p a b) v = coef a v * (1 / re b) + (-1 / (re b * re b) * coef b v) * re a) /\
  in_union (ddiv p a b) a b.
Proof.
  intros WA WB HP. unfold ddiv, vscale_l.
  set (b_ := mkDual _ _ _).
  assert (WB_ : wf b_) by (apply wf_map; auto).
  destruct (dmul_spec p a b_ WA WB_ HP) as (W & R1 & C & U).
  repeat split; try apply W.
  - rewrite R1. reflexivity.
  - intros v. rewrite C. unfold b_. rewrite coef_map by (cbn; ring). cbn. reflexivity.
  - apply U.
  - apply U.
Qed.

Lemma drem_spec p a b : wf a -> wf b -> (p = true -> vs a = vs b) ->
  let q := Rtrunc (re a / re b) in
  wf (drem p a b) /\ re (drem p a b) = re a - re b * q /\
  (forall v, coef (drem p a b) v = coef a v - q * coef b v) /\ in_union (drem p a b) a b.
Proof.
  intros WA WB HP q. unfold drem, dmul_f, vscale_l.
  set (b_ := mkDual _ _ _).
  assert (WB_ : wf b_) by (apply wf_map; auto).
  destruct (dsub_spec p a b_ WA WB_ HP) as (W & R1 & C & U).
  repeat split; try apply W.
  - rewrite R1. reflexivity.
  - intros v. rewrite C. unfold b_. rewrite coef_map by (cbn; ring). reflexivity.
  - apply U.
  - apply U.
Qed.

(* constants and variables *)
Lemma wf_dual_new r l : wf (dual_new r l).
Proof. split; cbn; [apply dedup_NoDup|unfold vones; apply repeat_length]. Qed.
Lemma coef_const r v : coef (dual_new r []) v = 0.
Proof. reflexivity. Qed.
Lemma coef_var r x v : coef (dual_new r [x]) v = if name_eqb v x then 1 else 0.
Proof. unfold coef, lk, lookup_or_zero. cbn. destruct (name_eqb v x); reflexivity. Qed.

(* equality: PartialEq for Dual *)
Lemma list_eqb_eq (a : list R) : forall b, list_eqb a b = true <-> a = b.
Proof.
  induction a as [|x a IH]; intros [|y b]; cbn; split; intros E; try congruence; try reflexivity.
  - apply andb_true_iff in E. destruct E as [E1 E2]. unfold Reqb in E1.
    destruct (Req_EM_T x y); [|discriminate]. apply IH in E2. congruence.
  - inversion E; subst. unfold Reqb. destruct (Req_EM_T y y); [|congruence]. cbn. apply IH. reflexivity.
Qed.
Lemma lk_ext vars d1 d2 : NoDup vars -> length d1 = length vars -> length d2 = length vars ->
  (forall v, lk vars d1 v = lk vars d2 v) -> d1 = d2.
Proof.
  intros ND L1 L2 E. apply nth_ext with (d := 0) (d' := 0); [congruence|].
  intros i Hi. specialize (E (nth i vars [])). unfold lk, lookup_or_zero in E.
  rewrite index_of_nth in E; [exact E| exact ND | unfold name in *; lia].
Qed.
Lemma deqb_spec p a b : wf a -> wf b -> (p = true -> vs a = vs b) ->
  (deqb p a b = true <-> a ≈ b).
Proof.
  intros WA WB HP. unfold deqb. cbn [neqb NumR]. unfold Reqb.
  destruct (Req_EM_T (re a) (re b)) as [E|E]; cbn [negb].
  - use_align p a b WA WB HP x y AL. destruct AL.
    destruct al_wfx0 as [NX LX]. destruct al_wfy0 as [NY LY].
    rewrite list_eqb_eq. split.
    + intros D. split; auto. intros v. rewrite <- al_cx0, <- al_cy0. unfold coef. rewrite D, al_vs0. reflexivity.
    + intros [_ C]. apply (lk_ext (vs x)); auto; [rewrite al_vs0; auto|].
      intros v. specialize (C v). rewrite <- al_cx0, <- al_cy0 in C. unfold coef in C.
      rewrite <- al_vs0 in C. exact C.
  - split; [discriminate|]. intros [C _]. contradiction.
Qed.

(* gradient1: by name, in the order asked, zero for absent names *)
Lemma gradient1_spec a ws : wf a -> NoDup ws ->
  gradient1 a ws = map (coef a) ws.
Proof.
  intros [NA LA] ND. unfold gradient1, gradient1_gen. rewrite (dedup_id ws ND).
  pose proof (vars_cmp_spec false (vs a) ws) as S.
  destruct S as [Ep | Ev | Sup | Sub | ]; try discriminate; try reflexivity.
  rewrite <- Ev. apply (lk_ext (vs a)); auto.
  - rewrite map_length; reflexivity.
  - intros v. change (map (coef a) (vs a)) with (map (lookup_or_zero (vs a) (du a)) (vs a)).
    rewrite (lk_reindex (vs a) (du a) (vs a) v).
    destruct (mem v (vs a)) eqn:M; auto. apply mem_false in M. apply lk_notin; auto.
Qed.

(* over R the zero-multiplier guards of the power rule are invisible: 0 * anything = 0 *)
Lemma dpow_unguard (a : dualR) pw :
  dpow a pw = mkDual (npow (re a) pw) (vs a) (map (fun x => nmul (nmul x pw) (npow (re a) (nsub pw n1))) (du a)).
Proof.
  unfold dpow. f_equal. apply map_ext. intros x. cbn [neqb n0 NumR]. unfold Reqb.
  destruct (Req_EM_T pw 0) as [E|E]; [subst; cbn; ring|reflexivity].
Qed.
Lemma dpow_ref_unguard (a : dualR) pw :
  dpow_ref a pw = mkDual (npow (re a) pw) (vs a) (map (fun x => nmul (nmul x pw) (npow (re a) (nsub pw n1))) (du a)).
Proof. exact (dpow_unguard a pw). Qed.
