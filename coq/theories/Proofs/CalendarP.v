(* Proofs about Model/Calendar.v: adjustment (C04), business-day arithmetic (C05), unions and
   equality (C06).  Everything is proved for ARBITRARY predicates bus/settle : Z -> bool. Axiom-free. *)
From Coq Require Import ZArith Lia List Bool.
From RL Require Import Base.Outcome Model.Dates Model.Calendar Proofs.DatesP.
Import ListNotations.
Open Scope Z_scope.

Lemma modifier_eq_dec_act (m : modifier) : {m = Act} + {m <> Act}.
Proof. destruct m; [left; reflexivity | right; discriminate ..]. Qed.

Section Search.
  Variable bus : Z -> bool.
  Notation fwd_f := (fwd_f bus).
  Notation bwd_f := (bwd_f bus).

  (* ----- forward / backward search ----- *)
  Lemma fwd_f_sound fuel : forall d r, fwd_f fuel d = Ok r ->
    bus r = true /\ d <= r <= d + Z.of_nat fuel /\ forall x, d <= x < r -> bus x = false.
  Proof.
    induction fuel as [|f IH]; intros d r H; cbn [Calendar.fwd_f] in H; destruct (bus d) eqn:B.
    - injection H as <-. repeat split; auto; lia.
    - discriminate.
    - injection H as <-. repeat split; auto; lia.
    - apply IH in H. destruct H as [H1 [H2 H3]]. repeat split; auto; try lia.
      intros x Hx. destruct (Z.eq_dec x d) as [->|]; auto. apply H3; lia.
  Qed.
  Lemma fwd_f_complete fuel : forall d r, d <= r <= d + Z.of_nat fuel -> bus r = true ->
    (forall x, d <= x < r -> bus x = false) -> fwd_f fuel d = Ok r.
  Proof.
    induction fuel as [|f IH]; intros d r Hr Hb Hn; cbn [Calendar.fwd_f].
    - assert (r = d) as -> by lia. rewrite Hb. reflexivity.
    - destruct (Z.eq_dec r d) as [->|Hne]; [rewrite Hb; reflexivity|].
      rewrite (Hn d) by lia. apply IH; auto; try lia. intros x Hx. apply Hn; lia.
  Qed.
  Lemma fwd_f_no_err fuel d : fwd_f fuel d <> Err.
  Proof. revert d; induction fuel as [|f IH]; intros d; cbn [Calendar.fwd_f]; destruct (bus d); try discriminate; auto. Qed.

  Lemma bwd_f_sound fuel : forall d r, bwd_f fuel d = Ok r ->
    bus r = true /\ d - Z.of_nat fuel <= r <= d /\ forall x, r < x <= d -> bus x = false.
  Proof.
    induction fuel as [|f IH]; intros d r H; cbn [Calendar.bwd_f] in H; destruct (bus d) eqn:B.
    - injection H as <-. repeat split; auto; lia.
    - discriminate.
    - injection H as <-. repeat split; auto; lia.
    - apply IH in H. destruct H as [H1 [H2 H3]]. repeat split; auto; try lia.
      intros x Hx. destruct (Z.eq_dec x d) as [->|]; auto. apply H3; lia.
  Qed.
  Lemma bwd_f_complete fuel : forall d r, d - Z.of_nat fuel <= r <= d -> bus r = true ->
    (forall x, r < x <= d -> bus x = false) -> bwd_f fuel d = Ok r.
  Proof.
    induction fuel as [|f IH]; intros d r Hr Hb Hn; cbn [Calendar.bwd_f].
    - assert (r = d) as -> by lia. rewrite Hb. reflexivity.
    - destruct (Z.eq_dec r d) as [->|Hne]; [rewrite Hb; reflexivity|].
      rewrite (Hn d) by lia. apply IH; auto; try lia. intros x Hx. apply Hn; lia.
  Qed.
  Lemma bwd_f_no_err fuel d : bwd_f fuel d <> Err.
  Proof. revert d; induction fuel as [|f IH]; intros d; cbn [Calendar.bwd_f]; destruct (bus d); try discriminate; auto. Qed.

  Lemma fwd_f_fix fuel d : bus d = true -> fwd_f fuel d = Ok d.
  Proof. intros H. destruct fuel; cbn [Calendar.fwd_f]; rewrite H; reflexivity. Qed.
  Lemma bwd_f_fix fuel d : bus d = true -> bwd_f fuel d = Ok d.
  Proof. intros H. destruct fuel; cbn [Calendar.bwd_f]; rewrite H; reflexivity. Qed.
  Lemma fwd_f_exists fuel : forall d r, d <= r <= d + Z.of_nat fuel -> bus r = true ->
    exists r1, fwd_f fuel d = Ok r1.
  Proof.
    induction fuel as [|g IHg]; intros d r Hr Hb; cbn [Calendar.fwd_f].
    - assert (r = d) as -> by lia. rewrite Hb. eauto.
    - destruct (bus d) eqn:B; eauto. apply (IHg (d + 1) r); auto.
      destruct (Z.eq_dec r d) as [->|]; [congruence | lia].
  Qed.
  Lemma bwd_f_exists fuel : forall d r, d - Z.of_nat fuel <= r <= d -> bus r = true ->
    exists r1, bwd_f fuel d = Ok r1.
  Proof.
    induction fuel as [|g IHg]; intros d r Hr Hb; cbn [Calendar.bwd_f].
    - assert (r = d) as -> by lia. rewrite Hb. eauto.
    - destruct (bus d) eqn:B; eauto. apply (IHg (d - 1) r); auto.
      destruct (Z.eq_dec r d) as [->|]; [congruence | lia].
  Qed.
End Search.

Section Roll.
  Variable bus settle : Z -> bool.
  Variable FUEL : nat.

  Notation fwd_f := (fwd_f bus).
  Notation bwd_f := (bwd_f bus).
  Notation roll_fwd := (roll_fwd bus FUEL).
  Notation roll_bwd := (roll_bwd bus FUEL).
  Notation roll_fwd_settled := (roll_fwd_settled bus settle FUEL).
  Notation roll_bwd_settled := (roll_bwd_settled bus settle FUEL).
  Notation roll := (roll bus settle FUEL).

  (* eligibility: business day, and a settlement day when settlement is enforced *)
  Definition elig (s : bool) (d : Z) : bool := bus d && (negb s || settle d).

  (* ----- settled searches ----- *)
  Lemma fwd_settled_sound fuel : forall d r, fwd_settled_f bus settle FUEL fuel d = Ok r ->
    elig true r = true /\ d <= r /\ forall x, d <= x < r -> elig true x = false.
  Proof.
    unfold elig. induction fuel as [|f IH]; intros d r H; cbn [fwd_settled_f] in H;
      unfold Calendar.roll_fwd in H; destruct (fwd_f FUEL d) as [r0| |] eqn:E0; cbn [obind] in H; try discriminate;
      apply fwd_f_sound in E0; destruct E0 as [B0 [R0 N0]]; destruct (settle r0) eqn:S0; try discriminate.
    - injection H as <-. rewrite B0, S0. repeat split; auto; try lia. intros x Hx. rewrite N0 by lia. reflexivity.
    - injection H as <-. rewrite B0, S0. repeat split; auto; try lia. intros x Hx. rewrite N0 by lia. reflexivity.
    - apply IH in H. destruct H as [H1 [H2 H3]]. repeat split; auto; try lia.
      intros x Hx. destruct (Z_lt_le_dec x r0); [rewrite N0 by lia; reflexivity|].
      destruct (Z.eq_dec x r0) as [->|]; [rewrite S0; simpl; apply andb_false_r|]. apply H3; lia.
  Qed.
  Lemma fwd_settled_complete fuel : forall d r, d <= r -> r - d <= Z.of_nat fuel -> r - d <= Z.of_nat FUEL ->
    elig true r = true -> (forall x, d <= x < r -> elig true x = false) ->
    fwd_settled_f bus settle FUEL fuel d = Ok r.
  Proof.
    unfold elig. induction fuel as [|f IH]; intros d r Hr Hf HF He Hn;
      apply andb_true_iff in He; destruct He as [Hb Hs]; simpl in Hs.
    - assert (r = d) as -> by lia. cbn [fwd_settled_f]. unfold Calendar.roll_fwd. rewrite fwd_f_fix by auto.
      cbn [obind]. rewrite Hs. reflexivity.
    - cbn [fwd_settled_f]. unfold Calendar.roll_fwd.
      (* the first business day r0 on or after d *)
      destruct (fwd_f FUEL d) as [r0| |] eqn:E0.
      + pose proof (fwd_f_sound _ _ _ _ E0) as [B0 [R0 N0]]. cbn [obind].
        assert (r0 <= r). { destruct (Z_lt_le_dec r r0); [|lia]. rewrite N0 in Hb by lia. discriminate. }
        destruct (Z.eq_dec r0 r) as [->|Hne]; [rewrite Hs; reflexivity|].
        assert (S0 : settle r0 = false).
        { specialize (Hn r0 ltac:(lia)). rewrite B0 in Hn. simpl in Hn. exact Hn. }
        rewrite S0. apply IH; try lia.
        * rewrite Hb, Hs. reflexivity.
        * intros x Hx. apply Hn; lia.
      + exfalso. eapply fwd_f_no_err; eauto.
      + exfalso.
        (* a business day r within FUEL exists, so the search cannot run out *)
        assert (exists r1, fwd_f FUEL d = Ok r1) as [r1 E1].
        { clear - Hb Hr HF. revert d Hr HF. induction FUEL as [|g IHg]; intros d Hr HF; cbn [Calendar.fwd_f].
          - assert (r = d) as -> by lia. rewrite Hb. eauto.
          - destruct (bus d) eqn:B; eauto. apply IHg; try lia.
            destruct (Z.eq_dec r d) as [->|]; [congruence | lia]. }
        congruence.
  Qed.

  Lemma bwd_settled_sound fuel : forall d r, bwd_settled_f bus settle FUEL fuel d = Ok r ->
    elig true r = true /\ r <= d /\ forall x, r < x <= d -> elig true x = false.
  Proof.
    unfold elig. induction fuel as [|f IH]; intros d r H; cbn [bwd_settled_f] in H;
      unfold Calendar.roll_bwd in H; destruct (bwd_f FUEL d) as [r0| |] eqn:E0; cbn [obind] in H; try discriminate;
      apply bwd_f_sound in E0; destruct E0 as [B0 [R0 N0]]; destruct (settle r0) eqn:S0; try discriminate.
    - injection H as <-. rewrite B0, S0. repeat split; auto; try lia. intros x Hx. rewrite N0 by lia. reflexivity.
    - injection H as <-. rewrite B0, S0. repeat split; auto; try lia. intros x Hx. rewrite N0 by lia. reflexivity.
    - apply IH in H. destruct H as [H1 [H2 H3]]. repeat split; auto; try lia.
      intros x Hx. destruct (Z_lt_le_dec r0 x); [rewrite N0 by lia; reflexivity|].
      destruct (Z.eq_dec x r0) as [->|]; [rewrite S0; simpl; apply andb_false_r|]. apply H3; lia.
  Qed.
  Lemma bwd_settled_complete fuel : forall d r, r <= d -> d - r <= Z.of_nat fuel -> d - r <= Z.of_nat FUEL ->
    elig true r = true -> (forall x, r < x <= d -> elig true x = false) ->
    bwd_settled_f bus settle FUEL fuel d = Ok r.
  Proof.
    unfold elig. induction fuel as [|f IH]; intros d r Hr Hf HF He Hn;
      apply andb_true_iff in He; destruct He as [Hb Hs]; simpl in Hs.
    - assert (r = d) as -> by lia. cbn [bwd_settled_f]. unfold Calendar.roll_bwd. rewrite bwd_f_fix by auto.
      cbn [obind]. rewrite Hs. reflexivity.
    - cbn [bwd_settled_f]. unfold Calendar.roll_bwd.
      destruct (bwd_f FUEL d) as [r0| |] eqn:E0.
      + pose proof (bwd_f_sound _ _ _ _ E0) as [B0 [R0 N0]]. cbn [obind].
        assert (r <= r0). { destruct (Z_lt_le_dec r0 r); [|lia]. rewrite N0 in Hb by lia. discriminate. }
        destruct (Z.eq_dec r0 r) as [->|Hne]; [rewrite Hs; reflexivity|].
        assert (S0 : settle r0 = false).
        { specialize (Hn r0 ltac:(lia)). rewrite B0 in Hn. simpl in Hn. exact Hn. }
        rewrite S0. apply IH; try lia.
        * rewrite Hb, Hs. reflexivity.
        * intros x Hx. apply Hn; lia.
      + exfalso. eapply bwd_f_no_err; eauto.
      + exfalso.
        assert (exists r1, bwd_f FUEL d = Ok r1) as [r1 E1].
        { clear - Hb Hr HF. revert d Hr HF. induction FUEL as [|g IHg]; intros d Hr HF; cbn [Calendar.bwd_f].
          - assert (r = d) as -> by lia. rewrite Hb. eauto.
          - destruct (bus d) eqn:B; eauto. apply IHg; try lia.
            destruct (Z.eq_dec r d) as [->|]; [congruence | lia]. }
        congruence.
  Qed.

  (* ----- C04: roll ----- *)
  Lemma elig_false_bus x : elig false x = bus x.
  Proof. unfold elig. simpl. apply andb_true_r. Qed.

  Theorem roll_following s d r : roll d F s = Ok r ->
    elig s r = true /\ d <= r /\ forall x, d <= x < r -> elig s x = false.
  Proof.
    destruct s; cbn [Calendar.roll]; intros H.
    - eapply fwd_settled_sound; eauto.
    - apply fwd_f_sound in H. destruct H as [H1 [H2 H3]]. rewrite elig_false_bus.
      repeat split; auto; try lia. intros x Hx. rewrite elig_false_bus. auto.
  Qed.
  Theorem roll_previous s d r : roll d P s = Ok r ->
    elig s r = true /\ r <= d /\ forall x, r < x <= d -> elig s x = false.
  Proof.
    destruct s; cbn [Calendar.roll]; intros H.
    - eapply bwd_settled_sound; eauto.
    - apply bwd_f_sound in H. destruct H as [H1 [H2 H3]]. rewrite elig_false_bus.
      repeat split; auto; try lia. intros x Hx. rewrite elig_false_bus. auto.
  Qed.
  (* existence: whenever an eligible day lies within FUEL days, it is found (no Panic) *)
  Theorem roll_following_complete s d r : d <= r -> r - d <= Z.of_nat FUEL -> elig s r = true ->
    (forall x, d <= x < r -> elig s x = false) -> roll d F s = Ok r.
  Proof.
    destruct s; cbn [Calendar.roll]; intros Hr Hf He Hn.
    - apply fwd_settled_complete; auto.
    - rewrite elig_false_bus in He. apply fwd_f_complete; auto; try lia.
      intros x Hx. rewrite <- elig_false_bus. auto.
  Qed.
  Theorem roll_previous_complete s d r : r <= d -> d - r <= Z.of_nat FUEL -> elig s r = true ->
    (forall x, r < x <= d -> elig s x = false) -> roll d P s = Ok r.
  Proof.
    destruct s; cbn [Calendar.roll]; intros Hr Hf He Hn.
    - apply bwd_settled_complete; auto.
    - rewrite elig_false_bus in He. apply bwd_f_complete; auto; try lia.
      intros x Hx. rewrite <- elig_false_bus. auto.
  Qed.

  Theorem roll_modified_following s d :
    roll d ModF s = do r <- roll d F s; if negb (month_of r =? month_of d) then roll d P s else Ok r.
  Proof. destruct s; reflexivity. Qed.
  Theorem roll_modified_previous s d :
    roll d ModP s = do r <- roll d P s; if negb (month_of r =? month_of d) then roll d F s else Ok r.
  Proof. destruct s; reflexivity. Qed.
  Theorem roll_actual s d : roll d Act s = Ok d.
  Proof. destruct s; reflexivity. Qed.

  Lemma fwd_settled_fix fuel d : elig true d = true -> fwd_settled_f bus settle FUEL fuel d = Ok d.
  Proof.
    unfold elig. intros H. apply andb_true_iff in H. destruct H as [Hb Hs]. simpl in Hs.
    destruct fuel; cbn [fwd_settled_f]; unfold Calendar.roll_fwd; rewrite fwd_f_fix by auto; cbn [obind]; rewrite Hs; reflexivity.
  Qed.
  Lemma bwd_settled_fix fuel d : elig true d = true -> bwd_settled_f bus settle FUEL fuel d = Ok d.
  Proof.
    unfold elig. intros H. apply andb_true_iff in H. destruct H as [Hb Hs]. simpl in Hs.
    destruct fuel; cbn [bwd_settled_f]; unfold Calendar.roll_bwd; rewrite bwd_f_fix by auto; cbn [obind]; rewrite Hs; reflexivity.
  Qed.

  Theorem roll_fixpoint m s d : elig s d = true -> roll d m s = Ok d.
  Proof.
    intros H. assert (HF : roll d F s = Ok d).
    { destruct s; cbn [Calendar.roll]; [apply fwd_settled_fix; auto | rewrite elig_false_bus in H; apply fwd_f_fix; auto]. }
    assert (HP : roll d P s = Ok d).
    { destruct s; cbn [Calendar.roll]; [apply bwd_settled_fix; auto | rewrite elig_false_bus in H; apply bwd_f_fix; auto]. }
    destruct m; auto.
    - apply roll_actual.
    - rewrite roll_modified_following, HF. cbn [obind]. rewrite Z.eqb_refl. reflexivity.
    - rewrite roll_modified_previous, HP. cbn [obind]. rewrite Z.eqb_refl. reflexivity.
  Qed.

  Lemma roll_result_elig m s d r : m <> Act -> roll d m s = Ok r -> elig s r = true.
  Proof.
    intros Hm H. destruct m; try congruence.
    - apply roll_following in H. tauto.
    - rewrite roll_modified_following in H.
      destruct (roll d F s) as [r0| |] eqn:E; cbn [obind] in H; try discriminate.
      destruct (negb (month_of r0 =? month_of d)).
      + apply roll_previous in H. tauto.
      + injection H as <-. apply roll_following in E. tauto.
    - apply roll_previous in H. tauto.
    - rewrite roll_modified_previous in H.
      destruct (roll d P s) as [r0| |] eqn:E; cbn [obind] in H; try discriminate.
      destruct (negb (month_of r0 =? month_of d)).
      + apply roll_following in H. tauto.
      + injection H as <-. apply roll_previous in E. tauto.
  Qed.

  Theorem roll_idempotent m s d r : roll d m s = Ok r -> roll r m s = Ok r.
  Proof.
    intros H. destruct (modifier_eq_dec_act m) as [->|Hm].
    - apply roll_actual.
    - apply roll_fixpoint. eapply roll_result_elig; eauto.
  Qed.
End Roll.

(* ===================== C05: business-day arithmetic ===================== *)
  Lemma cal_range_f_in n : forall s x, In x (cal_range_f n s) <-> s <= x < s + Z.of_nat n.
  Proof.
    induction n as [|n IH]; intros s x; cbn [cal_range_f].
    - simpl. lia.
    - simpl In. rewrite IH. lia.
  Qed.
  Lemma cal_range_f_app n m : forall s, cal_range_f (n + m) s = cal_range_f n s ++ cal_range_f m (s + Z.of_nat n).
  Proof.
    induction n as [|n IH]; intros s.
    - simpl. f_equal. lia.
    - cbn [Nat.add cal_range_f app]. f_equal. rewrite IH. f_equal. f_equal. lia.
  Qed.

Section Arith.
  Variable bus settle : Z -> bool.
  Variable FUEL : nat.
  Notation roll_fwd := (Calendar.roll_fwd bus FUEL).
  Notation roll_bwd := (Calendar.roll_bwd bus FUEL).
  Notation step_fwd := (Calendar.step_fwd bus FUEL).
  Notation step_bwd := (Calendar.step_bwd bus FUEL).
  Notation add_bus_days := (Calendar.add_bus_days bus settle FUEL).
  Notation lag := (Calendar.lag bus settle FUEL).

  Lemma filter_none (l : list Z) : (forall x, In x l -> bus x = false) -> filter bus l = [].
  Proof.
    induction l as [|a l IH]; intros H; simpl; auto.
    rewrite (H a) by (left; auto). apply IH. intros x Hx. apply H. right; auto.
  Qed.

  (* business days in the half-open ranges (a, b] and [a, b) *)
  Definition days_oc (a b : Z) : list Z := cal_range_f (Z.to_nat (b - a)) (a + 1).
  Definition days_co (a b : Z) : list Z := cal_range_f (Z.to_nat (b - a)) a.
  Definition cnt_oc (a b : Z) : Z := Z.of_nat (length (filter bus (days_oc a b))).
  Definition cnt_co (a b : Z) : Z := Z.of_nat (length (filter bus (days_co a b))).

  Lemma days_oc_split a b c : a <= b <= c -> days_oc a c = days_oc a b ++ days_oc b c.
  Proof.
    intros H. unfold days_oc.
    replace (Z.to_nat (c - a)) with (Z.to_nat (b - a) + Z.to_nat (c - b))%nat by lia.
    rewrite cal_range_f_app. f_equal. f_equal. lia.
  Qed.
  Lemma days_co_split a b c : a <= b <= c -> days_co a c = days_co a b ++ days_co b c.
  Proof.
    intros H. unfold days_co.
    replace (Z.to_nat (c - a)) with (Z.to_nat (b - a) + Z.to_nat (c - b))%nat by lia.
    rewrite cal_range_f_app. f_equal. f_equal. lia.
  Qed.
  Lemma cnt_oc_split a b c : a <= b <= c -> cnt_oc a c = cnt_oc a b + cnt_oc b c.
  Proof. intros H. unfold cnt_oc. rewrite (days_oc_split a b c H), filter_app, app_length. lia. Qed.
  Lemma cnt_co_split a b c : a <= b <= c -> cnt_co a c = cnt_co a b + cnt_co b c.
  Proof. intros H. unfold cnt_co. rewrite (days_co_split a b c H), filter_app, app_length. lia. Qed.
  Lemma cnt_oc_refl a : cnt_oc a a = 0.
  Proof. unfold cnt_oc, days_oc. replace (Z.to_nat (a - a)) with O by lia. reflexivity. Qed.
  Lemma cnt_co_refl a : cnt_co a a = 0.
  Proof. unfold cnt_co, days_co. replace (Z.to_nat (a - a)) with O by lia. reflexivity. Qed.

  Lemma cnt_oc_step d r : roll_fwd (d + 1) = Ok r -> d < r /\ cnt_oc d r = 1.
  Proof.
    intros H. pose proof (fwd_f_sound bus _ _ _ H) as [Hb [Hr Hn]]. split; [lia|].
    rewrite (cnt_oc_split d (r - 1) r) by lia.
    unfold cnt_oc at 1. rewrite filter_none.
    - unfold cnt_oc, days_oc. replace (Z.to_nat (r - (r - 1))) with 1%nat by lia.
      cbn [cal_range_f filter]. replace (r - 1 + 1) with r by lia. rewrite Hb. reflexivity.
    - intros x Hx. apply cal_range_f_in in Hx. apply Hn. lia.
  Qed.
  Lemma cnt_co_step d r : roll_bwd (d - 1) = Ok r -> r < d /\ cnt_co r d = 1.
  Proof.
    intros H. pose proof (bwd_f_sound bus _ _ _ H) as [Hb [Hr Hn]]. split; [lia|].
    rewrite (cnt_co_split r (r + 1) d) by lia.
    unfold cnt_co at 2. rewrite filter_none.
    - unfold cnt_co, days_co. replace (Z.to_nat (r + 1 - r)) with 1%nat by lia.
      cbn [cal_range_f filter]. rewrite Hb. reflexivity.
    - intros x Hx. apply cal_range_f_in in Hx. apply Hn. lia.
  Qed.

  Lemma step_fwd_spec n : forall d r, step_fwd n d = Ok r ->
    d <= r /\ cnt_oc d r = Z.of_nat n /\ (bus d = true -> bus r = true).
  Proof.
    induction n as [|n IH]; intros d r H; cbn [Calendar.step_fwd] in H.
    - injection H as <-. rewrite cnt_oc_refl. repeat split; auto; lia.
    - destruct (roll_fwd (d + 1)) as [r1| |] eqn:E; cbn [obind] in H; try discriminate.
      pose proof (cnt_oc_step _ _ E) as [L1 C1].
      pose proof (fwd_f_sound _ _ _ _ E) as [B1 _].
      apply IH in H. destruct H as [L2 [C2 B2]].
      split; [lia|]. split; [rewrite (cnt_oc_split d r1 r) by lia; lia | auto].
  Qed.
  Lemma step_bwd_spec n : forall d r, step_bwd n d = Ok r ->
    r <= d /\ cnt_co r d = Z.of_nat n /\ (bus d = true -> bus r = true).
  Proof.
    induction n as [|n IH]; intros d r H; cbn [Calendar.step_bwd] in H.
    - injection H as <-. rewrite cnt_co_refl. repeat split; auto; lia.
    - destruct (roll_bwd (d - 1)) as [r1| |] eqn:E; cbn [obind] in H; try discriminate.
      pose proof (cnt_co_step _ _ E) as [L1 C1].
      pose proof (bwd_f_sound _ _ _ _ E) as [B1 _].
      apply IH in H. destruct H as [L2 [C2 B2]].
      split; [lia|]. split; [rewrite (cnt_co_split r r1 d) by lia; lia | auto].
  Qed.

  Lemma obind_assoc {A B C} (o : outcome A) (f : A -> outcome B) (g : B -> outcome C) :
    obind (obind o f) g = obind o (fun a => obind (f a) g).
  Proof. destruct o; reflexivity. Qed.

  Lemma step_fwd_snoc n : forall d, step_fwd (S n) d = do r <- step_fwd n d; roll_fwd (r + 1).
  Proof.
    induction n as [|n IH]; intros d.
    - cbn [Calendar.step_fwd obind]. destruct (roll_fwd (d + 1)); reflexivity.
    - change (step_fwd (S (S n)) d) with (do r1 <- roll_fwd (d + 1); step_fwd (S n) r1).
      change (step_fwd (S n) d) with (do r1 <- roll_fwd (d + 1); step_fwd n r1).
      rewrite obind_assoc. destruct (roll_fwd (d + 1)) as [r1| |]; cbn [obind]; auto.
  Qed.
  Lemma step_bwd_snoc n : forall d, step_bwd (S n) d = do r <- step_bwd n d; roll_bwd (r - 1).
  Proof.
    induction n as [|n IH]; intros d.
    - cbn [Calendar.step_bwd obind]. destruct (roll_bwd (d - 1)); reflexivity.
    - change (step_bwd (S (S n)) d) with (do r1 <- roll_bwd (d - 1); step_bwd (S n) r1).
      change (step_bwd (S n) d) with (do r1 <- roll_bwd (d - 1); step_bwd n r1).
      rewrite obind_assoc. destruct (roll_bwd (d - 1)) as [r1| |]; cbn [obind]; auto.
  Qed.

  Lemma step_fwd_inverse n : forall d r, bus d = true -> step_fwd n d = Ok r -> step_bwd n r = Ok d.
  Proof.
    induction n as [|n IH]; intros d r Hb H.
    - cbn in H. injection H as <-. reflexivity.
    - rewrite step_fwd_snoc in H.
      destruct (step_fwd n d) as [rk| |] eqn:E; cbn [obind] in H; try discriminate.
      pose proof (step_fwd_spec _ _ _ E) as [_ [_ Bk]]. specialize (Bk Hb).
      pose proof (fwd_f_sound _ _ _ _ H) as [Br [Rr Nr]].
      cbn [Calendar.step_bwd].
      assert (Eb : roll_bwd (r - 1) = Ok rk).
      { apply bwd_f_complete; auto; try lia. intros x Hx. apply Nr. lia. }
      rewrite Eb. cbn [obind]. apply IH; auto.
  Qed.
  Lemma step_bwd_inverse n : forall d r, bus d = true -> step_bwd n d = Ok r -> step_fwd n r = Ok d.
  Proof.
    induction n as [|n IH]; intros d r Hb H.
    - cbn in H. injection H as <-. reflexivity.
    - rewrite step_bwd_snoc in H.
      destruct (step_bwd n d) as [rk| |] eqn:E; cbn [obind] in H; try discriminate.
      pose proof (step_bwd_spec _ _ _ E) as [_ [_ Bk]]. specialize (Bk Hb).
      pose proof (bwd_f_sound _ _ _ _ H) as [Br [Rr Nr]].
      cbn [Calendar.step_fwd].
      assert (Eb : roll_fwd (r + 1) = Ok rk).
      { apply fwd_f_complete; auto; try lia. intros x Hx. apply Nr. lia. }
      rewrite Eb. cbn [obind]. apply IH; auto.
  Qed.

  Theorem add_bus_days_counts d n r : bus d = true -> add_bus_days d n false = Ok r ->
    bus r = true /\ (0 <= n -> d <= r /\ cnt_oc d r = n) /\ (n < 0 -> r <= d /\ cnt_co r d = - n).
  Proof.
    intros Hb H. unfold Calendar.add_bus_days in H. rewrite Hb in H. cbn [negb] in H.
    destruct (Z.ltb_spec n 0) as [Hn|Hn].
    - destruct (step_bwd (Z.to_nat (- n)) d) as [r'| |] eqn:E; cbn [obind] in H; try discriminate.
      injection H as <-. apply step_bwd_spec in E. destruct E as [L [C B]].
      split; [auto|]. split; [lia|]. intros _. split; [lia|]. rewrite C. lia.
    - destruct (step_fwd (Z.to_nat n) d) as [r'| |] eqn:E; cbn [obind] in H; try discriminate.
      injection H as <-. apply step_fwd_spec in E. destruct E as [L [C B]].
      split; [auto|]. split; [|lia]. intros _. split; [lia|]. rewrite C. lia.
  Qed.

  Theorem add_bus_days_inverse d n r : bus d = true -> add_bus_days d n false = Ok r ->
    add_bus_days r (- n) false = Ok d.
  Proof.
    intros Hb H. pose proof (add_bus_days_counts d n r Hb H) as [Br _].
    unfold Calendar.add_bus_days in *. rewrite Hb in H. rewrite Br. cbn [negb] in *.
    destruct (Z.ltb_spec n 0) as [Hn|Hn].
    - destruct (step_bwd (Z.to_nat (- n)) d) as [r'| |] eqn:E; cbn [obind] in H; try discriminate.
      injection H as <-. destruct (Z.ltb_spec (- n) 0); [lia|].
      rewrite (step_bwd_inverse _ _ _ Hb E). reflexivity.
    - destruct (step_fwd (Z.to_nat n) d) as [r'| |] eqn:E; cbn [obind] in H; try discriminate.
      injection H as <-.
      destruct (Z.ltb_spec (- n) 0).
      + replace (Z.to_nat (- - n)) with (Z.to_nat n) by lia.
        rewrite (step_fwd_inverse _ _ _ Hb E). reflexivity.
      + assert (n = 0) as -> by lia. cbn in E. injection E as <-. reflexivity.
  Qed.

  Theorem add_bus_days_rejects d n s : bus d = false -> add_bus_days d n s = Err.
  Proof. intros H. unfold Calendar.add_bus_days. rewrite H. reflexivity. Qed.

  Theorem add_bus_days_settled d n :
    add_bus_days d n true =
      do r <- add_bus_days d n false;
      if n <? 0 then Calendar.roll_bwd_settled bus settle FUEL r else Calendar.roll_fwd_settled bus settle FUEL r.
  Proof.
    unfold Calendar.add_bus_days. destruct (bus d); cbn [negb]; [|reflexivity].
    destruct (n <? 0).
    - destruct (step_bwd (Z.to_nat (- n)) d); reflexivity.
    - destruct (step_fwd (Z.to_nat n) d); reflexivity.
  Qed.

  Lemma roll_fwd_no_err x : roll_fwd x <> Err.
  Proof. apply fwd_f_no_err. Qed.
  Lemma roll_bwd_no_err x : roll_bwd x <> Err.
  Proof. apply bwd_f_no_err. Qed.
  Lemma step_fwd_no_err k : forall x, step_fwd k x <> Err.
  Proof.
    induction k as [|k IH]; intros x; cbn [Calendar.step_fwd]; [discriminate|].
    pose proof (roll_fwd_no_err (x + 1)) as H.
    destruct (roll_fwd (x + 1)); cbn [obind]; auto; discriminate.
  Qed.
  Lemma step_bwd_no_err k : forall x, step_bwd k x <> Err.
  Proof.
    induction k as [|k IH]; intros x; cbn [Calendar.step_bwd]; [discriminate|].
    pose proof (roll_bwd_no_err (x - 1)) as H.
    destruct (roll_bwd (x - 1)); cbn [obind]; auto; discriminate.
  Qed.
  Lemma fwd_settled_no_err k : forall x, fwd_settled_f bus settle FUEL k x <> Err.
  Proof.
    induction k as [|k IH]; intros x; cbn [fwd_settled_f]; pose proof (roll_fwd_no_err x) as H;
      destruct (roll_fwd x) as [a| |]; cbn [obind]; auto; try discriminate;
      destruct (settle a); auto; discriminate.
  Qed.
  Lemma bwd_settled_no_err k : forall x, bwd_settled_f bus settle FUEL k x <> Err.
  Proof.
    induction k as [|k IH]; intros x; cbn [bwd_settled_f]; pose proof (roll_bwd_no_err x) as H;
      destruct (roll_bwd x) as [a| |]; cbn [obind]; auto; try discriminate;
      destruct (settle a); auto; discriminate.
  Qed.

  Lemma add_bus_days_no_err d n s : bus d = true -> add_bus_days d n s <> Err.
  Proof.
    intros Hb. unfold Calendar.add_bus_days. rewrite Hb. cbn [negb].
    destruct (n <? 0).
    - pose proof (step_bwd_no_err (Z.to_nat (- n)) d) as H.
      destruct (step_bwd (Z.to_nat (- n)) d); cbn [obind]; auto; try discriminate.
      destruct s; cbn [negb]; [apply bwd_settled_no_err | discriminate].
    - pose proof (step_fwd_no_err (Z.to_nat n) d) as H.
      destruct (step_fwd (Z.to_nat n) d); cbn [obind]; auto; try discriminate.
      destruct s; cbn [negb]; [apply fwd_settled_no_err | discriminate].
  Qed.

  Lemma unwrap_id {A} (o : outcome A) : o <> Err -> Calendar.unwrap o = o.
  Proof. destruct o; auto; congruence. Qed.

  (* lag: the composition exactly as coded, and never an error value *)
  Theorem lag_spec d n s :
    lag d n s =
      if bus d then add_bus_days d n s
      else if n =? 0 then roll_fwd d
      else if n <? 0 then do r <- roll_bwd d; add_bus_days r (n + 1) s
      else do r <- roll_fwd d; add_bus_days r (n - 1) s.
  Proof.
    unfold Calendar.lag. destruct (bus d) eqn:Hb.
    - apply unwrap_id. apply add_bus_days_no_err; auto.
    - destruct (n =? 0); auto. destruct (n <? 0).
      + destruct (roll_bwd d) as [r| |] eqn:E; cbn [obind]; auto.
        apply unwrap_id. apply add_bus_days_no_err. pose proof (bwd_f_sound bus _ _ _ E). tauto.
      + destruct (roll_fwd d) as [r| |] eqn:E; cbn [obind]; auto.
        apply unwrap_id. apply add_bus_days_no_err. pose proof (fwd_f_sound bus _ _ _ E). tauto.
  Qed.

  (* from a non-business day, lag n > 0 without settlement lands on the n-th business day after d *)
  Theorem lag_counts_fwd d n r : bus d = false -> 0 < n -> lag d n false = Ok r ->
    bus r = true /\ d < r /\ cnt_oc d r = n.
  Proof.
    intros Hb Hn H. rewrite lag_spec, Hb in H.
    destruct (Z.eqb_spec n 0); [lia|]. destruct (Z.ltb_spec n 0); [lia|].
    destruct (roll_fwd d) as [r1| |] eqn:E; cbn [obind] in H; try discriminate.
    pose proof (fwd_f_sound _ _ _ _ E) as [B1 [R1 N1]].
    assert (d < r1). { destruct (Z.eq_dec d r1); [congruence | lia]. }
    pose proof (add_bus_days_counts r1 (n - 1) r B1 H) as [Br [Hp _]]. specialize (Hp ltac:(lia)).
    split; [auto|]. split; [lia|].
    rewrite (cnt_oc_split d r1 r) by lia.
    assert (cnt_oc d r1 = 1).
    { apply cnt_oc_step. apply fwd_f_complete; auto; try lia. intros x Hx. apply N1. lia. }
    lia.
  Qed.
  Theorem lag_counts_bwd d n r : bus d = false -> n < 0 -> lag d n false = Ok r ->
    bus r = true /\ r < d /\ cnt_co r d = - n.
  Proof.
    intros Hb Hn H. rewrite lag_spec, Hb in H.
    destruct (Z.eqb_spec n 0); [lia|]. destruct (Z.ltb_spec n 0); [|lia].
    destruct (roll_bwd d) as [r1| |] eqn:E; cbn [obind] in H; try discriminate.
    pose proof (bwd_f_sound _ _ _ _ E) as [B1 [R1 N1]].
    assert (r1 < d). { destruct (Z.eq_dec d r1); [congruence | lia]. }
    pose proof (add_bus_days_counts r1 (n + 1) r B1 H) as [Br [Hp Hq]].
    split; [auto|].
    destruct (Z.eq_dec n (-1)) as [->|Hne].
    - specialize (Hp ltac:(lia)). destruct Hp as [Hp1 Hp2].
      (* n + 1 = 0: r = r1 *)
      assert (r = r1).
      { unfold Calendar.add_bus_days in H. rewrite B1 in H. cbn in H. congruence. }
      subst r. split; [lia|].
      rewrite (cnt_co_split r1 (r1 + 1) d) by lia.
      assert (cnt_co (r1 + 1) d = 0).
      { unfold cnt_co. rewrite filter_none; [reflexivity|]. intros x Hx. apply cal_range_f_in in Hx. apply N1. lia. }
      assert (cnt_co r1 (r1 + 1) = 1).
      { unfold cnt_co, days_co. replace (Z.to_nat (r1 + 1 - r1)) with 1%nat by lia. cbn. rewrite B1. reflexivity. }
      lia.
    - specialize (Hq ltac:(lia)). destruct Hq as [Hq1 Hq2]. split; [lia|].
      rewrite (cnt_co_split r r1 d) by lia.
      assert (cnt_co r1 d = 1).
      { rewrite (cnt_co_split r1 (r1 + 1) d) by lia.
        assert (cnt_co (r1 + 1) d = 0).
        { unfold cnt_co. rewrite filter_none; [reflexivity|]. intros x Hx. apply cal_range_f_in in Hx. apply N1. lia. }
        assert (cnt_co r1 (r1 + 1) = 1).
        { unfold cnt_co, days_co. replace (Z.to_nat (r1 + 1 - r1)) with 1%nat by lia. cbn. rewrite B1. reflexivity. }
        lia. }
      lia.
  Qed.

  (* calendar-day addition then adjustment *)
  Theorem add_days_spec d n m s :
    Calendar.add_days bus settle FUEL d n m s = Calendar.roll bus settle FUEL (d + n) m s.
  Proof. reflexivity. Qed.

  (* business-date range *)
  Lemma bus_range_f_spec fuel : forall s e, bus s = true -> s <= e -> e - s < Z.of_nat fuel ->
    e - s <= Z.of_nat FUEL -> bus e = true ->
    (exists nb, e < nb <= e + 1 + Z.of_nat FUEL /\ bus nb = true) ->
    bus_range_f bus settle FUEL fuel s e = Ok (filter bus (cal_range_f (Z.to_nat (e - s + 1)) s)).
  Proof.
    induction fuel as [|f IH]; intros s e Hs Hse Hf HF He Hnb; [lia|].
    cbn [bus_range_f]. destruct (Z.ltb_spec e s); [lia|].
    unfold Calendar.add_bus_days. rewrite Hs. cbn [negb]. destruct (Z.ltb_spec 1 0); [lia|].
    change (Z.to_nat 1) with 1%nat. cbn [Calendar.step_fwd].
    (* the next business day after s exists within FUEL *)
    assert (exists nx, roll_fwd (s + 1) = Ok nx) as [nx Enx].
    { destruct (Z.eq_dec s e) as [->|Hne].
      - destruct Hnb as [nb [Hr Hb]]. apply (fwd_f_exists bus FUEL (e + 1) nb); auto. lia.
      - apply (fwd_f_exists bus FUEL (s + 1) e); auto. lia. }
    rewrite Enx. cbn [obind].
    pose proof (fwd_f_sound _ _ _ _ Enx) as [Bn [Rn Nn]].
    replace (Z.to_nat (e - s + 1)) with (S (Z.to_nat (e - s))) by lia.
    cbn [cal_range_f filter]. rewrite Hs.
    destruct (Z_lt_le_dec e nx) as [Hgt|Hle].
    - (* nothing more in range *)
      assert (bus_range_f bus settle FUEL f nx e = Ok []) as ->.
      { destruct f; cbn [bus_range_f]; destruct (Z.ltb_spec e nx); try lia; reflexivity. }
      cbn [obind]. rewrite filter_none; [reflexivity|].
      intros x Hx. apply cal_range_f_in in Hx. apply Nn. lia.
    - rewrite IH; auto; try lia. cbn [obind]. f_equal. f_equal.
      replace (Z.to_nat (e - s)) with (Z.to_nat (nx - s - 1) + Z.to_nat (e - nx + 1))%nat by lia.
      rewrite cal_range_f_app, filter_app.
      rewrite (filter_none (cal_range_f (Z.to_nat (nx - s - 1)) (s + 1))).
      + cbn [app]. f_equal. f_equal. lia.
      + intros x Hx. apply cal_range_f_in in Hx. apply Nn. lia.
  Qed.

  Theorem bus_date_range_spec s e : bus s = true -> bus e = true -> s <= e -> e - s <= Z.of_nat FUEL ->
    (exists nb, e < nb <= e + 1 + Z.of_nat FUEL /\ bus nb = true) ->
    Calendar.bus_date_range bus settle FUEL s e = Ok (filter bus (Calendar.cal_date_range s e)).
  Proof.
    intros Hs He Hse HF Hnb. unfold Calendar.bus_date_range, Calendar.cal_date_range.
    rewrite Hs, He. cbn [negb orb]. apply bus_range_f_spec; auto. lia.
  Qed.
  Theorem bus_date_range_rejects s e : bus s = false \/ bus e = false ->
    Calendar.bus_date_range bus settle FUEL s e = Err.
  Proof.
    intros [H|H]; unfold Calendar.bus_date_range; rewrite H; cbn [negb orb]; auto.
    rewrite orb_true_r. reflexivity.
  Qed.
End Arith.

(* ===================== C06: unions and equality ===================== *)
Lemma ucal_is_bus_spec u d : ucal_is_bus u d = forallb (fun c => cal_is_bus c d) (u_cals u).
Proof.
  unfold ucal_is_bus, ucal_is_weekday, ucal_is_holiday. induction (u_cals u) as [|c l IH]; [reflexivity|].
  cbn [forallb existsb]. rewrite <- IH. unfold cal_is_bus.
  destruct (cal_is_weekday c d), (cal_is_holiday c d), (forallb (fun c0 => cal_is_weekday c0 d) l),
    (existsb (fun c0 => cal_is_holiday c0 d) l); reflexivity.
Qed.
Lemma ucal_is_settle_spec u d : ucal_is_settle u d =
  match u_settle u with None => true | Some v => forallb (fun c => cal_is_bus c d) v end.
Proof.
  unfold ucal_is_settle. destruct (u_settle u) as [v|]; [|reflexivity].
  induction v as [|c l IH]; [reflexivity|]. cbn [forallb existsb]. rewrite <- IH.
  destruct (cal_is_bus c d); reflexivity.
Qed.

Lemma dr_eq_spec b1 s1 b2 s2 : dr_eq b1 s1 b2 s2 = true <->
  forall d, d1970 <= d <= d2200 -> b1 d = b2 d /\ s1 d = s2 d.
Proof.
  unfold dr_eq. rewrite forallb_forall. unfold cal_date_range. split.
  - intros H d Hd. specialize (H d). rewrite cal_range_f_in in H.
    assert (Hin : d1970 <= d < d1970 + Z.of_nat (Z.to_nat (d2200 - d1970 + 1))) by (unfold d1970, d2200 in *; lia).
    specialize (H Hin). apply andb_true_iff in H. destruct H as [H1 H2].
    apply eqb_prop in H1, H2. auto.
  - intros H d Hd. apply cal_range_f_in in Hd.
    destruct (H d) as [H1 H2]; [unfold d1970, d2200 in *; lia|]. rewrite H1, H2, !eqb_reflx. reflexivity.
Qed.
