(* C15, part 4 (T := R): polynomial reproduction by uniqueness.  If some coefficient vector c*
   reproduces p on every span of the domain (for polynomials of degree < k it exists: Marsden),
   then the spline solved on samples of p (values inside, the requested derivatives at the two end
   sites) IS p, together with all its derivatives, on the whole domain. *)
From Coq Require Import Reals Lra Lia Arith List Bool ZArith.
From Coquelicot Require Import Coquelicot.
From RL Require Import Base.Outcome Base.Num Base.NumR Base.Str Model.Dual Model.Linalg Model.Spline
  Model.PPSpline Proofs.SplinePoly Proofs.SplineP Proofs.PPSplineP Proofs.PPSplineR.
Import ListNotations.
Open Scope R_scope.

Lemma nth_error_ext {A} : forall (l1 l2 : list A), (forall i, nth_error l1 i = nth_error l2 i) -> l1 = l2.
Proof.
  induction l1 as [|a l1 IH]; intros [|b l2] H; auto.
  - specialize (H O). discriminate.
  - specialize (H O). discriminate.
  - pose proof (H O) as H0. cbn in H0. inversion H0. f_equal. apply IH. intros i. apply (H (S i)).
Qed.

(* the whole basis row at a point of span j *)
Lemma basis_row_spec k n t j x m : admissible k n t -> in_span k n t j x ->
  bspldnev_row x k t m n = Ok (map (fun i => DnP (tn t) j m k i x) (seq 0 n)).
Proof.
  intros A S. unfold bspldnev_row. apply omapM_seq. intros i Hi.
  apply (bspldnev_value k n t j x i m A S). lia.
Qed.

(* derivative of a coefficient-weighted sum *)
Lemma dot_deriv (f f' : nat -> R -> R) x : (forall i, is_derive (f i) x (f' i x)) ->
  forall idxs c, is_derive (fun y => dotR (map (fun i => f i y) idxs) c) x
                           (dotR (map (fun i => f' i x) idxs) c).
Proof.
  intros Hf. induction idxs as [|i idxs IH]; intros c; cbn [map dotR].
  - apply dR_const.
  - destruct c as [|ci c]. apply dR_const.
    evar_last. apply dR_plus. apply dR_mult. apply Hf. apply dR_const. apply IH. cbv beta. ring.
Qed.

Section Poly.
  Variables (k n : nat) (t : list R).
  Hypothesis Adm : admissible k n t.
  Variable j : nat.
  Hypothesis Hj : (k - 1 <= j <= n - 1)%nat.
  Hypothesis Hspan : tn t j < tn t (S j).
  Variable c : list R.

  Let mono : forall a b, (a <= b)%nat -> tn t a <= tn t b.
  Proof. destruct Adm as (_ & _ & _ & ND & _). apply tn_mono. exact ND. Qed.

  Definition Ssum (m : nat) (x : R) : R := dotR (map (fun i => DnP (tn t) j m k i x) (seq 0 n)) c.

  Lemma Ssum_deriv m x : is_derive (Ssum m) x (Ssum (S m) x).
  Proof.
    unfold Ssum. apply (dot_deriv (fun i => DnP (tn t) j m k i) (fun i => DnP (tn t) j (S m) k i)).
    intros i. apply DnP_deriv; auto.
  Qed.
  Lemma Ssum_Derive_n m : forall x, Derive_n (Ssum 0) m x = Ssum m x.
  Proof.
    induction m; intros x. reflexivity.
    simpl Derive_n. rewrite (Derive_ext _ (Ssum m)) by (intros; apply IHm).
    apply dR_unique. apply Ssum_deriv.
  Qed.
  Lemma Ssum_poly (p : R -> R) : (forall x, Ssum 0 x = p x) -> forall m x, Ssum m x = Derive_n p m x.
  Proof.
    intros Hp m x. rewrite <- Ssum_Derive_n. apply Derive_n_ext. exact Hp.
  Qed.
End Poly.

Lemma poly_partial k n t (c0 : option (list R)) (s' : @ppspline R R) tau y l r (p : R -> R) cstar :
  admissible k n t ->
  csolve xmul_num (mkPP k t c0 n) tau y l r false = Ok s' ->
  (* the solver's conclusion (C13): the coefficients solve B c = y and are the only solution *)
  (forall B c, bsplmatrix (mkPP k t c0 n) tau l r = Ok B -> pc s' = Some c ->
     fmat_vec xmul_num B c = y /\ length c = n /\
     forall c2, length c2 = n -> fmat_vec xmul_num B c2 = y -> c2 = c) ->
  (* c* reproduces p on every non-empty span of the domain *)
  length cstar = n ->
  (forall j, (k - 1 <= j <= n - 1)%nat -> tn t j < tn t (S j) ->
     forall x, dotR (map (fun i => P (tn t) j k i x) (seq 0 n)) cstar = p x) ->
  (* the data: sites in the domain, samples of p (derivatives at the two end sites) *)
  (forall jx x, nth_error tau jx = Some x -> tn t (k - 1) <= x <= tn t n) ->
  length y = length tau ->
  (forall jx x, nth_error tau jx = Some x ->
     nth_error y jx = Some (Derive_n p (row_m l r (length tau) jx) x)) ->
  forall x m, tn t (k - 1) <= x <= tn t n ->
    ppdnev_single xmul_num s' x m = Ok (Derive_n p m x).
Proof.
  intros Adm HS Hsol Lc Hp Hdom Ly Hy.
  pose proof Adm as (Hk & Hn & Len & ND & He & Hl).
  set (s := mkPP k t c0 n) in *.
  assert (Hn1 : (1 <= pn s)%nat) by (cbn; lia).
  destruct (csolve_ok xmul_num s s' tau y l r false HS) as (B & c & HB & HC & -> & _ & _).
  destruct (Hsol B c HB eq_refl) as (Heq & Lcc & Huniq).
  (* value of any coefficient-weighted basis row with c* *)
  assert (Hrow : forall x m, tn t (k - 1) <= x <= tn t n ->
            exists row, bspldnev_row x k t m n = Ok row /\ dotR row cstar = Derive_n p m x).
  { intros x m Hx. destruct (span_exists k n t x Adm Hx) as [j S].
    exists (map (fun i => DnP (tn t) j m k i x) (seq 0 n)). split.
    - apply basis_row_spec; auto.
    - destruct (in_span_closed k n t j x Adm S) as (S1 & _ & _). destruct S as [Sj _].
      apply (Ssum_poly k n t Adm j S1 cstar p (Hp j Sj S1) m x). }
  (* c* solves the system *)
  assert (Hstar : fmat_vec xmul_num B cstar = y).
  { apply nth_error_ext. intros jx. unfold fmat_vec, gmat_vec. rewrite nth_error_map.
    destruct (nth_error tau jx) as [x|] eqn:Etau.
    - destruct (bsplmatrix_row s tau l r B jx x Hn1 HB Etau) as (row & Hr1 & Hr2).
      rewrite Hr1. cbn [option_map]. rewrite (Hy jx x Etau). f_equal.
      destruct (Hrow x (row_m l r (length tau) jx) (Hdom jx x Etau)) as (row' & Hr3 & Hr4).
      cbn [pk pt pn s] in Hr2. rewrite Hr3 in Hr2. inversion Hr2; subst row'.
      rewrite gdot_R. exact Hr4.
    - apply nth_error_None in Etau.
      pose proof (bsplmatrix_length s tau l r B Hn1 HB) as LB.
      assert (E1 : nth_error B jx = None) by (apply nth_error_None; lia).
      assert (E2 : nth_error y jx = None) by (apply nth_error_None; lia).
      rewrite E1, E2. reflexivity. }
  assert (cstar = c) by (apply Huniq; auto). subst c.
  intros x m Hx. destruct (Hrow x m Hx) as (row & Hr1 & Hr2).
  rewrite (ppdnev_single_row xmul_num (mkPP (pk s) (pt s) (Some cstar) (pn s)) cstar x m row); auto.
  rewrite gdot_R, Hr2. reflexivity.
Qed.

(* the hypothesis of poly_partial is satisfiable: constants are reproduced by c* = (1, ..., 1)
   (partition of unity; Marsden's identity in degree 0) *)
Lemma dotR_ones (f : nat -> R) n : dotR (map f (seq 0 n)) (repeat 1 n) = sumf f n.
Proof.
  assert (G : forall s, dotR (map f (seq s n)) (repeat 1 n) = sumf (fun i => f (s + i)%nat) n).
  { induction n; intros s. reflexivity.
    cbn [seq map repeat dotR]. rewrite IHn. rewrite sumf_shift.
    replace (s + 0)%nat with s by lia. rewrite Rmult_1_r. f_equal.
    apply sumf_ext. intros i _. f_equal. lia. }
  rewrite G. apply sumf_ext. intros; reflexivity.
Qed.

Lemma ones_reproduce_one k n t : admissible k n t ->
  forall j, (k - 1 <= j <= n - 1)%nat -> tn t j < tn t (S j) ->
  forall x, dotR (map (fun i => P (tn t) j k i x) (seq 0 n)) (repeat 1 n) = 1.
Proof.
  intros A j Hj Hs x. pose proof A as (Hk & Hn & Len & ND & He & Hl).
  rewrite dotR_ones. apply P_unity; auto; try lia. apply tn_mono; auto.
Qed.

(* ------------------------------------------------------------------ Marsden: explicit c* *)
(* p(x) = Sigma_q a_q (x - tau_q)^(k-1), given as the list of (a_q, tau_q).  These functions span the
   polynomials of degree < k (that spanning statement itself is not formalised). *)
Definition shifted_powers (k : nat) (l : list (R * R)) (x : R) : R :=
  fold_right (fun q acc => fst q * (x - snd q) ^ (k - 1) + acc) 0 l.
Definition marsden_coeffs (k n : nat) (t : list R) (l : list (R * R)) : list R :=
  map (fun i => fold_right (fun q acc => fst q * psi (tn t) k i (snd q) + acc) 0 l) (seq 0 n).

Lemma dotR_map_seq (f g : nat -> R) n : forall s,
  dotR (map f (seq s n)) (map g (seq s n)) = sumf (fun i => f (s + i)%nat * g (s + i)%nat) n.
Proof.
  induction n; intros s. reflexivity.
  cbn [seq map dotR]. rewrite IHn, sumf_shift. replace (s + 0)%nat with s by lia. f_equal.
  apply sumf_ext. intros i _. replace (S s + i)%nat with (s + S i)%nat by lia. reflexivity.
Qed.

Lemma sumf_lin (f g h : nat -> R) a n :
  sumf (fun i => f i * (a * g i + h i)) n = a * sumf (fun i => g i * f i) n + sumf (fun i => f i * h i) n.
Proof. induction n. simpl; ring. rewrite !sumf_S, IHn. ring. Qed.

Lemma marsden_reproduces k n t l : admissible k n t ->
  forall j, (k - 1 <= j <= n - 1)%nat -> tn t j < tn t (S j) ->
  forall x, dotR (map (fun i => P (tn t) j k i x) (seq 0 n)) (marsden_coeffs k n t l)
            = shifted_powers k l x.
Proof.
  intros A j Hj Hs x. pose proof A as (Hk & Hn & Len & ND & He & Hl).
  unfold marsden_coeffs. rewrite dotR_map_seq. cbn [plus].
  induction l as [|[a tau] l IH]; cbn [fold_right fst snd shifted_powers].
  - rewrite (sumf_ext _ (fun _ => 0)) by (intros; ring). apply sumf_zero.
  - rewrite sumf_lin. rewrite IH. f_equal. f_equal.
    apply marsden; auto; try lia. apply tn_mono; auto.
Qed.
