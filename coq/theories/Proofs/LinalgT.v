(* C13: the generic results of Proofs/LinalgP.v at the Rust entry points dsolve / fdsolve,
   including the least-squares branch. *)
From Coq Require Import List Arith Bool Lia Ring Ring_theory Permutation.
From RL Require Import Base.Outcome Model.Linalg Proofs.LinalgL Proofs.LinalgP.
Import ListNotations.
Local Open Scope nat_scope.

(* shapes of the least-squares products *)
Section LsqShapes.
  Context {T : Type} {O : Ops T}.
  Lemma is_rect_rows c (a : list (list T)) : is_rect c a = true -> forall r, In r a -> length r = c.
  Proof. unfold is_rect. rewrite forallb_forall. intros H r Hr. apply Nat.eqb_eq. auto. Qed.
  Lemma ncols_rect c (a : list (list T)) : is_rect c a = true -> 1 <= length a -> ncols a = c.
  Proof.
    intros H L. destruct a as [|r a]; cbn in L; [lia|]. cbn. apply (is_rect_rows c _ H). left; auto.
  Qed.
  Lemma mtranspose_length c (a : list (list T)) : length (mtranspose ozero c a) = c.
  Proof. unfold mtranspose. rewrite map_length, seq_length. reflexivity. Qed.
  Lemma ncols_mtranspose c (a : list (list T)) : 1 <= c -> ncols (mtranspose ozero c a) = length a.
  Proof.
    intros H. unfold mtranspose. destruct c; [lia|]. cbn [seq map ncols]. apply map_length.
  Qed.
  Lemma mat_mul_shape c (a : list (list T)) : is_rect c a = true -> 1 <= length a ->
    shape c (mat_mul (mtranspose ozero c a) a).
  Proof.
    intros H L. unfold mat_mul. rewrite (ncols_rect c a H L). split.
    - rewrite map_length. apply mtranspose_length.
    - intros i Hi.
      rewrite (nth_indep _ [] (map (fun col => dot [] col) (mtranspose ozero c a)))
        by (rewrite map_length, mtranspose_length; auto).
      rewrite (map_nth (fun row => map (fun col => dot row col) (mtranspose ozero c a))).
      rewrite map_length. apply mtranspose_length.
  Qed.
  Lemma gmat_vec_length {E} {OE : Ops E} (xm : T -> E -> E) (a : list (list T)) (b : list E) :
    length (gmat_vec xm a b) = length a.
  Proof. unfold gmat_vec. apply map_length. Qed.
End LsqShapes.

(* ------------------------------------------------------------------ dsolve: one ring *)
Section DSolve.
  Context {F : Type} {CF : CRing F}.
  Variable cmp : F -> F -> option comparison.
  Add Ring Fring1 : (@r_th F CF).
  Local Instance OD : Ops F := ops_cring cmp.

  Let idF (x : F) : F := x.
  Lemma dxdiv_spec : forall v u : F, runit u -> rmul (idF u) (odiv v u) = v.
  Proof.
    intros v u Hu. cbn [odiv OD ops_cring]. unfold idF.
    transitivity (rmul v (rmul u (rinv u))); [ring | rewrite r_inv by auto; ring].
  Qed.

  Theorem dsolve21_correct n a b : shape n a -> length b = n -> pivots_are_units cmp n a ->
    exists x, dsolve21_ a b = Ok x /\ length x = n /\ mat_vec a x = b /\
      forall y, length y = n -> mat_vec a y = b -> y = x.
  Proof.
    intros Sh Lb HP.
    exact (gsolve21_correct cmp cmp idF (fun _ _ => eq_refl) (fun _ _ => eq_refl) eq_refl
             omul (fun _ _ => eq_refl) odiv dxdiv_spec n a b Sh Lb HP).
  Qed.

  Theorem dsolve_solve n a b : shape n a -> length b = n -> pivots_are_units cmp n a ->
    exists x, dsolve a b false = Ok x /\ length x = n /\ mat_vec a x = b.
  Proof.
    intros Sh Lb HP. destruct (dsolve21_correct n a b Sh Lb HP) as (x & E1 & L & H & _).
    exists x. auto.
  Qed.
  Theorem dsolve_unique n a b y : shape n a -> length b = n -> pivots_are_units cmp n a ->
    length y = n -> mat_vec a y = b -> dsolve a b false = Ok y.
  Proof.
    intros Sh Lb HP Ly Hy. destruct (dsolve21_correct n a b Sh Lb HP) as (x & E1 & L & H & U).
    cbn [dsolve]. rewrite E1. f_equal. symmetry. apply U; auto.
  Qed.
  Theorem dsolve_rows n a b a' b' : shape n a -> length b = n -> shape n a' -> length b' = n ->
    pivots_are_units cmp n a -> pivots_are_units cmp n a' ->
    Permutation (combine a b) (combine a' b') ->
    dsolve a' b' false = dsolve a b false.
  Proof.
    intros. cbn [dsolve].
    exact (gsolve21_rows cmp cmp idF (fun _ _ => eq_refl) (fun _ _ => eq_refl) eq_refl
             omul (fun _ _ => eq_refl) odiv dxdiv_spec n a b a' b'
             ltac:(assumption) ltac:(assumption) ltac:(assumption) ltac:(assumption)
             ltac:(assumption) ltac:(assumption) ltac:(assumption)).
  Qed.
  (* least squares: the normal equations (A^T A) x = A^T b, with A^T A and A^T b exactly the
     products the code forms *)
  Theorem dsolve_lsq c a b :
    is_rect c a = true -> 1 <= c -> 1 <= length a -> length b = length a ->
    let at_ := mtranspose rzero c a in
    pivots_are_units cmp c (mat_mul at_ a) ->
    exists x, dsolve a b true = Ok x /\ length x = c /\
      mat_vec (mat_mul at_ a) x = mat_vec at_ b /\
      forall y, length y = c -> mat_vec (mat_mul at_ a) y = mat_vec at_ b -> y = x.
  Proof.
    intros HR Hc Hr Lb at_ HP.
    assert (Sh : shape c (mat_mul at_ a)) by (apply (mat_mul_shape (O := OD)); auto).
    assert (Lv : length (mat_vec at_ b) = c).
    { unfold mat_vec. rewrite gmat_vec_length. apply (mtranspose_length (O := OD)). }
    destruct (dsolve21_correct c _ _ Sh Lv HP) as (x & E1 & L & H & U).
    exists x. split; [|auto].
    cbn [dsolve]. rewrite (ncols_rect c a HR Hr). change (@ozero F OD) with (@rzero F CF). fold at_.
    unfold dmul22_, dmul21_, gmul21.
    rewrite (ncols_mtranspose (O := OD) c a Hc : ncols at_ = length a).
    rewrite Nat.eqb_refl. cbn [obind]. rewrite Lb, Nat.eqb_refl. cbn [obind]. exact E1.
  Qed.
  Lemma dsolve_not_square a b : is_square a = false -> dsolve a b false = Panic.
  Proof. intros H. cbn [dsolve]. unfold dsolve21_, gsolve21. rewrite H. reflexivity. Qed.
End DSolve.

(* ------------------------------------------------------------------ fdsolve: matrix ring F, rhs ring E *)
Section FDSolve.
  Context {F E : Type} {CF : CRing F} {CE : CRing E}.
  Variable cmpF : F -> F -> option comparison.
  Variable cmpE : E -> E -> option comparison.
  Variable phi : F -> E.
  Hypothesis phi_add : forall a b, phi (radd a b) = radd (phi a) (phi b).
  Hypothesis phi_mul : forall a b, phi (rmul a b) = rmul (phi a) (phi b).
  Hypothesis phi_one : phi rone = rone.
  Variable xmul : F -> E -> E.
  Hypothesis xmul_spec : forall f e, xmul f e = rmul (phi f) e.
  Add Ring Fring2 : (@r_th F CF).
  Add Ring Ering2 : (@r_th E CE).
  Local Instance OFf : Ops F := ops_cring cmpF.
  Local Instance OEf : Ops E := ops_cring cmpE.

  Lemma fxdiv_spec : forall (v : E) (u : F), runit u -> rmul (phi u) (fxdiv xmul v u) = v.
  Proof.
    intros v u Hu. unfold fxdiv. rewrite xmul_spec. cbn [odiv oone OFf ops_cring].
    transitivity (rmul (rmul (phi u) (phi (rmul rone (rinv u)))) v); [ring|].
    rewrite <- phi_mul.
    replace (rmul u (rmul rone (rinv u))) with (@rone F CF).
    - rewrite phi_one. ring.
    - transitivity (rmul u (rinv u)); [symmetry; apply r_inv; auto | ring].
  Qed.

  Theorem fdsolve21_correct n a b : shape n a -> length b = n -> pivots_are_units cmpF n a ->
    exists x, fdsolve21_ xmul a b = Ok x /\ length x = n /\ fmat_vec xmul a x = b /\
      forall y, length y = n -> fmat_vec xmul a y = b -> y = x.
  Proof.
    intros Sh Lb HP.
    exact (gsolve21_correct cmpF cmpE phi phi_add phi_mul phi_one xmul xmul_spec
             (fxdiv xmul) fxdiv_spec n a b Sh Lb HP).
  Qed.
  Theorem fdsolve_solve n a b : shape n a -> length b = n -> pivots_are_units cmpF n a ->
    exists x, fdsolve xmul a b false = Ok x /\ length x = n /\ fmat_vec xmul a x = b.
  Proof.
    intros Sh Lb HP. destruct (fdsolve21_correct n a b Sh Lb HP) as (x & E1 & L & H & _).
    exists x. auto.
  Qed.
  Theorem fdsolve_unique n a b y : shape n a -> length b = n -> pivots_are_units cmpF n a ->
    length y = n -> fmat_vec xmul a y = b -> fdsolve xmul a b false = Ok y.
  Proof.
    intros Sh Lb HP Ly Hy. destruct (fdsolve21_correct n a b Sh Lb HP) as (x & E1 & L & H & U).
    cbn [fdsolve]. rewrite E1. f_equal. symmetry. apply U; auto.
  Qed.
  Theorem fdsolve_rows n a b a' b' : shape n a -> length b = n -> shape n a' -> length b' = n ->
    pivots_are_units cmpF n a -> pivots_are_units cmpF n a' ->
    Permutation (combine a b) (combine a' b') ->
    fdsolve xmul a' b' false = fdsolve xmul a b false.
  Proof.
    intros. cbn [fdsolve].
    exact (gsolve21_rows cmpF cmpE phi phi_add phi_mul phi_one xmul xmul_spec
             (fxdiv xmul) fxdiv_spec n a b a' b'
             ltac:(assumption) ltac:(assumption) ltac:(assumption) ltac:(assumption)
             ltac:(assumption) ltac:(assumption) ltac:(assumption)).
  Qed.
  Theorem fdsolve_lsq c a b :
    is_rect c a = true -> 1 <= c -> 1 <= length a -> length b = length a ->
    let at_ := mtranspose rzero c a in
    pivots_are_units cmpF c (mat_mul at_ a) ->
    exists x, fdsolve xmul a b true = Ok x /\ length x = c /\
      fmat_vec xmul (mat_mul at_ a) x = fmat_vec xmul at_ b /\
      forall y, length y = c -> fmat_vec xmul (mat_mul at_ a) y = fmat_vec xmul at_ b -> y = x.
  Proof.
    intros HR Hc Hr Lb at_ HP.
    assert (Sh : shape c (mat_mul at_ a)) by (apply (mat_mul_shape (O := OFf)); auto).
    assert (Lv : length (fmat_vec xmul at_ b) = c).
    { unfold fmat_vec. rewrite gmat_vec_length. apply (mtranspose_length (O := OFf)). }
    destruct (fdsolve21_correct c _ _ Sh Lv HP) as (x & E1 & L & H & U).
    exists x. split; [|auto].
    cbn [fdsolve]. rewrite (ncols_rect c a HR Hr). change (@ozero F OFf) with (@rzero F CF). fold at_.
    unfold dmul22_, fdmul21_, gmul21.
    rewrite (ncols_mtranspose (O := OFf) c a Hc : ncols at_ = length a).
    rewrite Nat.eqb_refl. cbn [obind]. rewrite Lb, Nat.eqb_refl. cbn [obind]. exact E1.
  Qed.
End FDSolve.
