(* C13: the pivot hypothesis transfers along ring homomorphisms that respect the pivot comparison.
   Used with psi = "real part" : D1 -> R and D2 -> R: the elimination on a matrix of dual numbers
   selects the same rows, and its pivots are units exactly when those of the real-part matrix are;
   hence "the real-part matrix is non-singular" suffices for dual-valued systems (Proofs/LinalgI.v). *)
From Coq Require Import List Arith Bool Lia Ring Ring_theory.
From RL Require Import Base.Outcome Model.Linalg Proofs.LinalgL Proofs.LinalgP.
Import ListNotations.
Local Open Scope nat_scope.

Section Hom.
  Context {F G : Type} {CF : CRing F} {CG : CRing G}.
  Variable cmpF : F -> F -> option comparison.
  Variable cmpG : G -> G -> option comparison.
  Variable psi : F -> G.
  Hypothesis psi_zero : psi rzero = rzero.
  Hypothesis psi_sub : forall a b, psi (rsub a b) = rsub (psi a) (psi b).
  Hypothesis psi_mul : forall a b, psi (rmul a b) = rmul (psi a) (psi b).
  Hypothesis psi_inv : forall a, psi (rinv a) = rinv (psi a).
  Hypothesis psi_cmp : forall a b, cmpG (psi a) (psi b) = cmpF a b.
  Hypothesis psi_unit : forall a, runit (psi a) <-> runit a.

  Local Instance OHF : Ops F := ops_cring cmpF.
  Local Instance OHG : Ops G := ops_cring cmpG.
  Notation mapm := (map (map psi)).

  Lemma map_vset {A B} (f : A -> B) (v : list A) i x : map f (vset v i x) = vset (map f v) i (f x).
  Proof. revert i; induction v as [|y v IH]; intros [|i]; cbn; auto. rewrite IH. reflexivity. Qed.
  Lemma nth_mapm (a : list (list F)) i : nth i (mapm a) [] = map psi (nth i a []).
  Proof. exact (map_nth (map psi) a [] i). Qed.
  Lemma mget_mapm (a : list (list F)) i k : mget rzero (mapm a) i k = psi (mget rzero a i k).
  Proof.
    unfold mget. rewrite nth_mapm. rewrite <- psi_zero. apply (map_nth psi).
  Qed.
  Lemma mset_mapm (a : list (list F)) l m x : mapm (mset a l m x) = mset (mapm a) l m (psi x).
  Proof. unfold mset. rewrite map_vset, map_vset, nth_mapm. reflexivity. Qed.

  Lemma bodym_mapm l j scl (a : list (list F)) m :
    mapm (bodym l j scl a m) = bodym l j (psi scl) (mapm a) m.
  Proof.
    unfold bodym. rewrite mset_mapm, psi_sub, psi_mul, !mget_mapm. reflexivity.
  Qed.
  Lemma rowop_mapm j n l scl (a : list (list F)) :
    mapm (rowop j n l scl a) = rowop j n l (psi scl) (mapm a).
  Proof.
    change (rowop j n l scl a) with (fold_left (bodym l j scl) (seq (S j) (n - S j)) (mset a l j rzero)).
    change (rowop j n l (psi scl) (mapm a))
      with (fold_left (bodym l j (psi scl)) (seq (S j) (n - S j)) (mset (mapm a) l j rzero)).
    rewrite <- psi_zero, <- mset_mapm. generalize (mset a l j rzero) as a0.
    induction (seq (S j) (n - S j)) as [|m ms IH]; intros a0; cbn [fold_left]; auto.
    rewrite IH, bodym_mapm. reflexivity.
  Qed.
  Lemma stepA_mapm j n (a : list (list F)) l : mapm (stepA cmpF j n a l) = stepA cmpG j n (mapm a) l.
  Proof.
    unfold stepA. rewrite rowop_mapm. unfold sc. rewrite psi_mul, psi_inv, !mget_mapm. reflexivity.
  Qed.
  Lemma elimA_mapm j n (a : list (list F)) : mapm (elimA cmpF j n a) = elimA cmpG j n (mapm a).
  Proof.
    unfold elimA. revert a. induction (seq (S j) (n - S j)) as [|l ls IH]; intros a; cbn [fold_left]; auto.
    rewrite IH, stepA_mapm. reflexivity.
  Qed.

  Lemma argabsmax_go_map (l : list F) : forall best bi i,
    argabsmax_go (psi best) bi i (map psi l) = argabsmax_go best bi i l.
  Proof.
    induction l as [|y l IH]; intros best bi i; cbn [map argabsmax_go]; auto.
    cbn [ocmp_abs OHF OHG ops_cring]. rewrite psi_cmp.
    destruct (cmpF best y) as [[| |]|]; auto.
  Qed.
  Lemma argabsmax_map (l : list F) : argabsmax (map psi l) = argabsmax l.
  Proof. destruct l; cbn [map argabsmax]; auto. apply argabsmax_go_map. Qed.
  Lemma pivot_col_mapm (a : list (list F)) j : pivot_col (mapm a) j = map psi (pivot_col a j).
  Proof.
    unfold pivot_col. rewrite skipn_map, !map_map. apply map_ext. intros r.
    cbn [ozero OHF OHG ops_cring]. rewrite <- psi_zero. apply (map_nth psi).
  Qed.
  Lemma row_swap_mapm (a : list (list F)) j k :
    row_swap (mapm a) j k = omap (fun a' => mapm a') (row_swap a j k).
  Proof.
    unfold row_swap. rewrite map_length. destruct ((j <? k) && (k <? length a)); cbn [omap]; auto.
    rewrite !map_vset, !nth_mapm. reflexivity.
  Qed.
  Lemma swapA_mapm (a : list (list F)) j :
    swapA cmpG (mapm a) j = omap (fun a' => mapm a') (swapA cmpF a j).
  Proof.
    unfold swapA. rewrite pivot_col_mapm, argabsmax_map.
    destruct (argabsmax (pivot_col a j)) as [k0| |]; cbn [obind omap]; auto.
    destruct (j =? k0 + j); cbn [omap]; auto. apply row_swap_mapm.
  Qed.

  Lemma pivots_ok_mapm n js : forall a : list (list F),
    pivots_ok cmpG n js (mapm a) <-> pivots_ok cmpF n js a.
  Proof.
    induction js as [|j js IH]; intros a; cbn [pivots_ok]; [tauto|].
    rewrite swapA_mapm. destruct (swapA cmpF a j) as [a1| |]; cbn [omap]; try tauto.
    rewrite mget_mapm, psi_unit, <- elimA_mapm, IH. tauto.
  Qed.
  Theorem pivots_are_units_mapm n (a : list (list F)) :
    pivots_are_units cmpG n (mapm a) <-> pivots_are_units cmpF n a.
  Proof. apply pivots_ok_mapm. Qed.
End Hom.
