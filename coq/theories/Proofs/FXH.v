(* C10, part 2: values at every derivative order, the state invariant, update / set_ad_order
   histories. *)
From Coq Require Import Reals ZArith List Bool Lia Lra Arith Permutation.
From RL Require Import Base.Num Base.Str Base.NumR Base.Outcome Model.Dual Model.Number Model.FX
  Proofs.NumRP Proofs.DualP Proofs.AD1 Proofs.FXMat Proofs.FXFill Proofs.FXTree Proofs.FXCreate Proofs.FXP
  Proofs.FXD.
Import ListNotations.
Local Open Scope nat_scope.
Local Open Scope R_scope.

Lemma R_group : group_ok Rmult Rinv 1 Rnz.
Proof.
  constructor; [exact Rnz_mul|exact Rnz_inv|exact Rnz_one|exact Rg_assoc|exact Rg_comm|exact Rg_one|exact Rg_inv].
Qed.

(* ------------------------------------------------------------------ real parts under the three element types *)
Lemma re2_d2mul p (a b : dual2 R) : re2 (d2mul p a b) = re2 a * re2 b.
Proof. unfold d2mul, align2. destruct (vars_cmp p (vs2 a) (vs2 b)); reflexivity. Qed.
Lemma re2_finv_d2 (a : dual2 R) : re2 a <> 0 -> re2 (fdiv_d2 1 a) = / re2 a.
Proof.
  intros N. unfold fdiv_d2, d2mul_f, d2pow. cbn [re2]. rewrite npow_m1 by exact N. cbn [nmul NumR]. ring.
Qed.

Definition relf (x g : R) : Prop := x = g.
Definition reld (d : dual R) (g : R) : Prop := re d = g.
Definition reld2 (d : dual2 R) (g : R) : Prop := re2 d = g.

Lemma relf_mul x y g h : Rnz g -> Rnz h -> relf x g -> relf y h -> relf (fmul ops_f x y) (g * h).
Proof. unfold relf. intros _ _ -> ->. reflexivity. Qed.
Lemma relf_inv x g : Rnz g -> relf x g -> relf (finv ops_f x) (/ g).
Proof. unfold relf. intros _ ->. cbn. unfold Rdiv. ring. Qed.
Lemma relf_one : relf (fone ops_f) 1.
Proof. reflexivity. Qed.
Lemma reld_mul x y g h : Rnz g -> Rnz h -> reld x g -> reld y h -> reld (fmul ops_d x y) (g * h).
Proof. unfold reld. intros _ _ <- <-. apply re_dmul. Qed.
Lemma reld_inv x g : Rnz g -> reld x g -> reld (finv ops_d x) (/ g).
Proof. unfold reld. intros N <-. apply (re_finv_d x N). Qed.
Lemma reld_one : reld (fone ops_d) 1.
Proof. reflexivity. Qed.
Lemma reld2_mul x y g h : Rnz g -> Rnz h -> reld2 x g -> reld2 y h -> reld2 (fmul ops_d2 x y) (g * h).
Proof. unfold reld2. intros _ _ <- <-. apply re2_d2mul. Qed.
Lemma reld2_inv x g : Rnz g -> reld2 x g -> reld2 (finv ops_d2 x) (/ g).
Proof. unfold reld2. intros N <-. apply (re2_finv_d2 x N). Qed.
Lemma reld2_one : reld2 (fone ops_d2) 1.
Proof. reflexivity. Qed.

Lemma real_lifted (x : number R) o vars : num_real (set_order_clone x o vars) = num_real x.
Proof. destruct x, o; reflexivity. Qed.
Lemma real_to_dual (x : number R) : re (num_to_dual x) = num_real x.
Proof. destruct x; reflexivity. Qed.
Lemma real_to_dual2 (x : number R) : re2 (num_to_dual2 x) = num_real x.
Proof. destruct x; reflexivity. Qed.

Lemma lifted_forall2 {A} (conv : number R -> A) (rel : A -> R -> Prop) (qs : list quoteR) o (V : name -> R) :
  (forall x, rel (conv x) (num_real x)) ->
  (forall q, In q qs -> qval q = V (q0 q) * / V (q1 q)) ->
  Forall2 (fun p x => rel x (V (p0 p) * / V (p1 p))) (map pair qs) (map conv (lifted_rates qs o)).
Proof.
  intros RC PV. induction qs as [|q qs IH]; cbn; constructor.
  - pose proof (PV q (or_introl eq_refl)) as E0. unfold q0, q1 in E0. rewrite <- E0. unfold qval. rewrite <- (real_lifted (rate q) o [fx_var (pair q)]).
    apply RC.
  - apply IH. intros x Ix. apply PV. right; exact Ix.
Qed.

(* the real part of every entry, at every order, is the ratio of the potential *)
Lemma create_values cs (qs : list quoteR) o (V : name -> R) arr :
  (length cs <= 181)%nat -> members_in cs (map pair qs) -> Rpotential qs V ->
  create_fx_array cs qs o = Ok arr ->
  forall a b, In a cs -> In b cs -> num_real (arr_get arr (idx cs a) (idx cs b)) = V a * / V b.
Proof.
  intros Hn M [UV PV] E a b Ia Ib. destruct o.
  - rewrite create_OZero in E.
    destruct (create_gen ops_f cs _ _) as [m| |] eqn:CE; cbn [omap] in E; try discriminate.
    inversion E; subst arr. cbn [arr_get num_real].
    apply (create_gen_rel ops_f R_group relf relf_mul relf_inv relf_one cs _ _ V UV Hn M
             (lifted_forall2 num_to_f relf qs OZero V (fun x => eq_refl) PV) m CE a b Ia Ib).
  - rewrite create_OOne in E.
    destruct (create_gen ops_d cs _ _) as [m| |] eqn:CE; cbn [omap] in E; try discriminate.
    inversion E; subst arr. cbn [arr_get num_real].
    apply (create_gen_rel ops_d R_group reld reld_mul reld_inv reld_one cs _ _ V UV Hn M
             (lifted_forall2 num_to_dual reld qs OOne V real_to_dual PV) m CE a b Ia Ib).
  - rewrite create_OTwo in E.
    destruct (create_gen ops_d2 cs _ _) as [m| |] eqn:CE; cbn [omap] in E; try discriminate.
    inversion E; subst arr. cbn [arr_get num_real].
    apply (create_gen_rel ops_d2 R_group reld2 reld2_mul reld2_inv reld2_one cs _ _ V UV Hn M
             (lifted_forall2 num_to_dual2 reld2 qs OTwo V real_to_dual2 PV) m CE a b Ia Ib).
Qed.

(* creation succeeds at every order on a connected quote graph *)
Lemma create_gen_ok {A} (ops : fxops A) cs pairs (rates : list A) :
  (length cs <= 181)%nat -> members_in cs pairs -> length pairs = length rates ->
  connected (length cs) (seed_edges cs pairs) -> exists arr, create_gen ops cs pairs rates = Ok arr.
Proof.
  intros Hn M L CO.
  pose proof (create_gen_spec ops cs pairs rates (fun _ _ _ => True) (small_square _ Hn)) as CS.
  cbv zeta in CS. cbv beta in CS.
  specialize (CS ltac:(intros; constructor) ltac:(intros; constructor) ltac:(intros; constructor) M
                ltac:(apply Forall2_True; exact L)).
  destruct (create_gen ops cs pairs rates) as [arr| |]; [eauto|contradiction|contradiction].
Qed.
Lemma create_ok cs (qs : list quoteR) o :
  (length cs <= 181)%nat -> members_in cs (map pair qs) ->
  connected (length cs) (seed_edges cs (map pair qs)) -> exists arr, create_fx_array cs qs o = Ok arr.
Proof.
  intros Hn M CO. destruct o.
  - rewrite create_OZero.
    destruct (create_gen_ok ops_f cs (map pair qs) (map num_to_f (lifted_rates qs OZero)) Hn M) as (m & E); auto.
    { unfold lifted_rates. rewrite !map_length. reflexivity. }
    rewrite E. eexists. reflexivity.
  - rewrite create_OOne.
    destruct (create_gen_ok ops_d cs (map pair qs) (map num_to_dual (lifted_rates qs OOne)) Hn M) as (m & E); auto.
    { unfold lifted_rates. rewrite !map_length. reflexivity. }
    rewrite E. eexists. reflexivity.
  - rewrite create_OTwo.
    destruct (create_gen_ok ops_d2 cs (map pair qs) (map num_to_dual2 (lifted_rates qs OTwo)) Hn M) as (m & E); auto.
    { unfold lifted_rates. rewrite !map_length. reflexivity. }
    rewrite E. eexists. reflexivity.
Qed.

(* ------------------------------------------------------------------ the state invariant *)
Inductive arr_from (cs : list name) (qs : list quoteR) : numarr R -> Prop :=
| af_create o a : create_fx_array cs qs o = Ok a -> arr_from cs qs a
| af_21 m : arr_from cs qs (AD2 m) -> arr_from cs qs (AD (map (map dual_of_dual2) m))
| af_10 m : arr_from cs qs (AD m) -> arr_from cs qs (AF (map (map re) m))
| af_20 m : arr_from cs qs (AD2 m) -> arr_from cs qs (AF (map (map re2) m)).

Definition inv (s : fxrates R) : Prop :=
  fx_rates s <> [] /\
  currencies s = ccy_index (fx_rates s) (Some (hd [] (currencies s))) /\
  length (currencies s) = (length (fx_rates s) + 1)%nat /\
  settlement_consistent (fx_rates s) = true /\
  arr_from (currencies s) (fx_rates s) (fx_array s).

Lemma dedup_cons x l : dedup (x :: l) = x :: dedup_aux [x] l.
Proof. reflexivity. Qed.
Lemma ccy_index_rebase (qs : list quoteR) base : qs <> [] ->
  ccy_index qs (Some (hd [] (ccy_index qs base))) = ccy_index qs base.
Proof.
  intros NE. destruct base as [b|].
  - unfold ccy_index at 2. cbn [app]. rewrite dedup_cons. cbn [hd]. reflexivity.
  - destruct qs as [|q qs']; [contradiction|]. unfold ccy_index. cbn [flat_map app hd].
    rewrite !dedup_cons. cbn [hd]. f_equal.
    cbn [dedup_aux]. unfold mem. cbn [index_of]. rewrite name_eqb_refl. reflexivity.
Qed.

Lemma try_new_inv (qs : list quoteR) base s : fx_try_new qs base = Ok s -> inv s.
Proof.
  intros E. destruct (try_new_ok_inv _ _ _ E) as (NE & L & SC).
  rewrite (fx_try_new_unfold qs base NE L SC) in E.
  destruct (create_fx_array (ccy_index qs base) qs OOne) as [a| |] eqn:CE; cbn [obind] in E; try discriminate.
  inversion E; subst s. unfold inv. cbn [fx_rates currencies fx_array].
  split; [exact NE|]. split; [symmetry; apply ccy_index_rebase; exact NE|]. split; [exact L|].
  split; [exact SC|]. eapply af_create; eauto.
Qed.

Lemma set_order_inv s o s' : inv s -> fx_set_ad_order s o = Ok s' -> inv s'.
Proof.
  intros (NE & C & L & SC & AF0) E. unfold fx_set_ad_order in E.
  destruct o, (fx_array s) as [m|m|m] eqn:FA;
    try (inversion E; subst s'; unfold inv; rewrite FA; auto; fail);
    try (destruct (create_fx_array (currencies s) (fx_rates s) _) as [a| |] eqn:CE; cbn [obind] in E; try discriminate;
         inversion E; subst s'; unfold inv; cbn [fx_rates currencies fx_array];
         repeat split; auto; eapply af_create; eauto);
    inversion E; subst s'; unfold inv; cbn [fx_rates currencies fx_array]; repeat split; auto.
  - apply af_10. exact AF0.
  - apply af_20. exact AF0.
  - apply af_21. exact AF0.
Qed.

(* ------------------------------------------------------------------ update *)
Lemma pair_eqb_eq a b : pair_eqb a b = true <-> a = b.
Proof.
  unfold pair_eqb. rewrite andb_true_iff, !name_eqb_eq. destruct a, b; cbn. split; [intros [-> ->]; auto|].
  intros E; inversion E; auto.
Qed.

Lemma classic_in (l : list quoteR) p :
  (exists x, In x l /\ pair x = p) \/ ~ (exists x, In x l /\ pair x = p).
Proof.
  destruct (existsb (fun x => pair_eqb (pair x) p) l) eqn:E.
  - left. apply existsb_exists in E. destruct E as (x & I & P). exists x. split; auto. apply pair_eqb_eq. exact P.
  - right. intros (x & I & P).
    assert (existsb (fun x => pair_eqb (pair x) p) l = true).
    { apply existsb_exists. exists x. split; auto. apply pair_eqb_eq. exact P. }
    congruence.
Qed.

Definition lmi (p : fxpair) (l : list quoteR) (k acc : nat) : nat :=
  fold_left (fun a (iv : nat * quoteR) => if pair_eqb p (pair (snd iv)) then fst iv else a)
            (combine (seq k (length l)) l) acc.
Lemma lmi_cons p y l k acc :
  lmi p (y :: l) k acc = lmi p l (S k) (if pair_eqb p (pair y) then k else acc).
Proof. reflexivity. Qed.
Lemma lmi_spec p dflt (l : list quoteR) : forall k acc,
  ((exists x, In x l /\ pair x = p) ->
     (k <= lmi p l k acc < k + length l)%nat /\ pair (nth (lmi p l k acc - k) l dflt) = p) /\
  (~ (exists x, In x l /\ pair x = p) -> lmi p l k acc = acc).
Proof.
  induction l as [|y l IH]; intros k acc.
  - split; [intros (x & [] & _)|reflexivity].
  - rewrite lmi_cons. cbn [length]. destruct (pair_eqb p (pair y)) eqn:Ey.
    + destruct (IH (S k) k) as [IH1 IH2].
      split; [|intros N; exfalso; apply N; exists y; split; [left; reflexivity|symmetry; apply pair_eqb_eq; exact Ey]].
      intros _. destruct (classic_in l p) as [EX|NEX].
      * destruct (IH1 EX) as [B Pn]. split; [lia|].
        replace (lmi p l (S k) k - k)%nat with (S (lmi p l (S k) k - S k)) by lia. exact Pn.
      * rewrite (IH2 NEX). split; [lia|]. rewrite Nat.sub_diag. cbn. symmetry. apply pair_eqb_eq. exact Ey.
    + destruct (IH (S k) acc) as [IH1 IH2]. split.
      * intros (x & [<-|Ix] & Px).
        { exfalso. assert (pair_eqb p (pair y) = true) by (apply pair_eqb_eq; auto). congruence. }
        destruct (IH1 (ex_intro _ x (conj Ix Px))) as [B Pn]. split; [lia|].
        replace (lmi p l (S k) acc - k)%nat with (S (lmi p l (S k) acc - S k)) by lia. exact Pn.
      * intros N. apply IH2. intros (x & Ix & Px). apply N. exists x. split; [right; exact Ix|exact Px].
Qed.
Lemma last_match_idx_spec p dflt (l : list quoteR) :
  (exists x, In x l /\ pair x = p) ->
  (last_match_idx p l < length l)%nat /\ pair (nth (last_match_idx p l) l dflt) = p.
Proof.
  intros EX. change (last_match_idx p l) with (lmi p l 0 0).
  destruct (lmi_spec p dflt l 0%nat 0%nat) as [G1 _]. destruct (G1 EX) as [B Pn].
  rewrite Nat.sub_0_r in Pn. split; [lia|exact Pn].
Qed.

Lemma map_pair_lset (l : list quoteR) : forall i y dflt, (i < length l)%nat -> pair (nth i l dflt) = pair y ->
  map pair (lset l i y) = map pair l.
Proof.
  induction l as [|x l IH]; intros [|i] y dflt Hi E; cbn in *; try lia.
  - rewrite E. reflexivity.
  - f_equal. apply (IH i y dflt); [lia|exact E].
Qed.
Lemma In_lset {X} (l : list X) : forall i y q, In q (lset l i y) -> In q l \/ q = y.
Proof.
  induction l as [|x l IH]; intros [|i] y q I; cbn in *; auto.
  - destruct I as [<-|I]; auto.
  - destruct I as [<-|I]; auto. destruct (IH i y q I); auto.
Qed.

Definition pairs_known (cur u : list quoteR) : Prop := forall y, In y u -> exists x, In x cur /\ pair x = pair y.

Lemma validated_iff (cur u : list quoteR) :
  forallb (fun v => existsb (fun x => pair_eqb (pair x) (pair v)) cur) u = true <-> pairs_known cur u.
Proof.
  rewrite forallb_forall. unfold pairs_known. split; intros Hk y Iy.
  - specialize (Hk y Iy). apply existsb_exists in Hk. destruct Hk as (x & Ix & E). exists x. split; auto.
    apply pair_eqb_eq. exact E.
  - destruct (Hk y Iy) as (x & Ix & E). apply existsb_exists. exists x. split; auto. apply pair_eqb_eq. exact E.
Qed.

Lemma classic_known (cur u : list quoteR) : pairs_known cur u \/ ~ pairs_known cur u.
Proof.
  destruct (forallb (fun v => existsb (fun x => pair_eqb (pair x) (pair v)) cur) u) eqn:E.
  - left. apply validated_iff. exact E.
  - right. intros C. apply validated_iff in C. congruence.
Qed.

Lemma replace_quotes_spec (u : list quoteR) : forall cur, pairs_known cur u ->
  exists qs', replace_quotes cur u = Ok qs' /\ map pair qs' = map pair cur /\
              forall q, In q qs' -> In q cur \/ In q u.
Proof.
  induction u as [|y r IH]; intros cur PK.
  - exists cur. cbn. auto.
  - cbn [replace_quotes].
    destruct (last_match_idx_spec (pair y) y cur (PK y (or_introl eq_refl))) as [B Pn].
    apply Nat.ltb_lt in B. rewrite B. apply Nat.ltb_lt in B.
    pose proof (map_pair_lset cur _ y y B Pn) as MP.
    destruct (IH (lset cur (last_match_idx (pair y) cur) y)) as (qs' & E & MP' & INC).
    { intros z Iz. destruct (PK z (or_intror Iz)) as (x & Ix & Ex).
      assert (Im : In (pair z) (map pair (lset cur (last_match_idx (pair y) cur) y))).
      { rewrite MP. rewrite <- Ex. apply in_map. exact Ix. }
      apply in_map_iff in Im. destruct Im as (x' & Ex' & Ix'). exists x'. auto. }
    exists qs'. split; [exact E|]. split; [congruence|].
    intros q Iq. destruct (INC q Iq) as [I|I]; [|right; right; exact I].
    destruct (In_lset _ _ _ _ I) as [I'| ->]; [left; exact I'|right; left; reflexivity].
Qed.

Lemma ccy_index_pairs (qs qs' : list quoteR) base : map pair qs = map pair qs' -> ccy_index qs base = ccy_index qs' base.
Proof.
  intros E. unfold ccy_index. f_equal. f_equal.
  revert qs' E. induction qs as [|q qs IH]; intros [|q' qs'] E; try discriminate; [reflexivity|].
  cbn in E. inversion E as [[E1 E2]]. cbn [flat_map]. rewrite E1. f_equal. apply IH. exact E2.
Qed.

Lemma inv_currencies_nonempty s : inv s -> currencies s <> [].
Proof. intros (_ & _ & L & _) C. rewrite C in L. cbn in L. lia. Qed.

Lemma fx_update_unknown s u : ~ pairs_known (fx_rates s) u -> fx_update s u = Err.
Proof.
  intros N. unfold fx_update.
  destruct (forallb _ u) eqn:V; [apply validated_iff in V; contradiction|reflexivity].
Qed.
Lemma fx_update_known s u : inv s -> pairs_known (fx_rates s) u ->
  exists qs', map pair qs' = map pair (fx_rates s) /\ (forall q, In q qs' -> In q (fx_rates s) \/ In q u) /\
              fx_update s u = fx_try_new qs' (Some (hd [] (currencies s))).
Proof.
  intros IV PK. unfold fx_update. rewrite (proj2 (validated_iff _ _) PK). cbn [negb].
  destruct (replace_quotes_spec u (fx_rates s) PK) as (qs' & E & MP & INC). rewrite E. cbn [obind].
  exists qs'. split; [exact MP|]. split; [exact INC|].
  pose proof (inv_currencies_nonempty s IV) as NE. destruct (currencies s); [contradiction|reflexivity].
Qed.

(* ------------------------------------------------------------------ values carried by a state *)
Lemma arr_from_values cs (qs : list quoteR) (V : name -> R) arr :
  (length cs <= 181)%nat -> members_in cs (map pair qs) -> Rpotential qs V -> arr_from cs qs arr ->
  forall a b, In a cs -> In b cs -> num_real (arr_get arr (idx cs a) (idx cs b)) = V a * / V b.
Proof.
  intros Hn M PV AF0. induction AF0 as [o arr E | m AF0 IH | m AF0 IH | m AF0 IH]; intros a b Ia Ib.
  - eapply create_values; eauto.
  - specialize (IH a b Ia Ib). cbn [arr_get num_real] in *.
    change dzero with (dual_of_dual2 (@d2zero R NumR)). rewrite mget_map. exact IH.
  - specialize (IH a b Ia Ib). cbn [arr_get num_real] in *.
    change (@n0 R NumR) with (re (@dzero R NumR)). rewrite mget_map. exact IH.
  - specialize (IH a b Ia Ib). cbn [arr_get num_real] in *.
    change (@n0 R NumR) with (re2 (@d2zero R NumR)). rewrite mget_map. exact IH.
Qed.

(* a state reached from a tree market *)
Definition hist_ok (cs0 : list name) (s : fxrates R) : Prop :=
  inv s /\ tree_quotes cs0 (fx_rates s) /\ quotes_nonzero (fx_rates s) /\ In (hd [] (currencies s)) cs0.

Lemma hist_ok_perm cs0 s : hist_ok cs0 s -> Permutation (currencies s) cs0.
Proof.
  intros ((NE & C & _) & TQ & _ & HB). rewrite C. apply tree_index_perm; auto.
Qed.

Lemma hist_ok_values cs0 s : (length cs0 <= 181)%nat -> hist_ok cs0 s ->
  exists V, Rpotential (fx_rates s) V /\
    forall a b, In a cs0 -> In b cs0 -> rate_val s a b = V a * / V b.
Proof.
  intros Hn HO. pose proof (hist_ok_perm _ _ HO) as PM.
  destruct HO as ((NE & C & L & SC & AF0) & TQ & NZ & HB).
  destruct (Rpotential_exists cs0 _ TQ NZ) as (V & PV). exists V. split; [exact PV|].
  intros a b Ia Ib.
  assert (Ia' : In a (currencies s)) by (eapply Permutation_in; [apply Permutation_sym|]; eauto).
  assert (Ib' : In b (currencies s)) by (eapply Permutation_in; [apply Permutation_sym|]; eauto).
  unfold rate_val, fx_rate. rewrite (index_of_idx _ _ Ia'), (index_of_idx _ _ Ib').
  apply (arr_from_values (currencies s) (fx_rates s) V); auto.
  - rewrite (Permutation_length PM). exact Hn.
  - apply members_of_quotes. rewrite C. apply ccy_index_members.
Qed.

Lemma try_new_hist_ok cs0 (qs : list quoteR) base s :
  tree_quotes cs0 qs -> base_ok cs0 base -> quotes_nonzero qs -> fx_try_new qs base = Ok s -> hist_ok cs0 s.
Proof.
  intros TQ BO NZ E. pose proof (try_new_inv _ _ _ E) as IV.
  destruct (try_new_ok_inv _ _ _ E) as (NE & L & SC).
  rewrite (fx_try_new_unfold qs base NE L SC) in E.
  destruct (create_fx_array (ccy_index qs base) qs OOne) as [a| |]; cbn [obind] in E; try discriminate.
  inversion E; subst s. cbn [fx_rates currencies] in *.
  split; [exact IV|]. split; [exact TQ|]. split; [exact NZ|].
  pose proof (tree_index_perm cs0 qs base TQ NE BO) as PM.
  eapply Permutation_in; [exact PM|].
  destruct (ccy_index qs base) eqn:CI; [cbn in L; lia|left; reflexivity].
Qed.

Definition op_ok (o : fxop R) : Prop :=
  match o with OpUpdate u => quotes_nonzero u | OpSetOrder _ => True end.

Lemma step_hist_ok cs0 s o : (length cs0 <= 181)%nat -> hist_ok cs0 s -> op_ok o ->
  hist_ok cs0 (fst (fx_step s o)) /\ currencies (fst (fx_step s o)) = currencies s /\
  map pair (fx_rates (fst (fx_step s o))) = map pair (fx_rates s) /\
  snd (fx_step s o) <> Panic.
Proof.
  intros Hn HO OK. pose proof (hist_ok_perm _ _ HO) as PM.
  destruct HO as (IV & TQ & NZ & HB). pose proof IV as (NE & C & L & SC & AF0).
  assert (Hn' : (length (currencies s) <= 181)%nat) by (rewrite (Permutation_length PM); exact Hn).
  unfold fx_step. destruct o as [u|ad].
  - (* update *)
    destruct (classic_known (fx_rates s) u) as [PK|NPK].
    2:{ rewrite (fx_update_unknown s u NPK). cbn. repeat split; auto; try discriminate. }
    destruct (fx_update_known s u IV PK) as (qs' & MP & INC & EU). rewrite EU.
    assert (TQ' : tree_quotes cs0 qs') by (eapply tree_quotes_pairs; eauto).
    assert (NZ' : quotes_nonzero qs').
    { intros q Iq. destruct (INC q Iq) as [I|I]; [apply NZ; exact I|apply OK; exact I]. }
    assert (CI : ccy_index qs' (Some (hd [] (currencies s))) = currencies s).
    { rewrite (ccy_index_pairs qs' (fx_rates s) _ MP). symmetry. exact C. }
    destruct (fx_try_new qs' (Some (hd [] (currencies s)))) as [s'| |] eqn:E.
    + cbn [fst snd].
      pose proof (try_new_hist_ok cs0 qs' (Some (hd [] (currencies s))) s' TQ' HB NZ' E) as HO'.
      destruct (try_new_shape qs' _ s' E) as (C' & Q' & _).
      repeat split; try apply HO'; try discriminate; congruence.
    + cbn. repeat split; auto; discriminate.
    + exfalso. apply (try_new_no_panic qs' (Some (hd [] (currencies s)))); [rewrite CI; exact Hn'|exact E].
  - (* set_ad_order *)
    assert (M : members_in (currencies s) (map pair (fx_rates s))).
    { apply members_of_quotes. rewrite C. apply ccy_index_members. }
    assert (CO : connected (length (currencies s)) (seed_edges (currencies s) (map pair (fx_rates s)))).
    { apply connected_iff.
      - rewrite C. apply ccy_index_NoDup.
      - rewrite C. apply ccy_index_members.
      - intros a b Ia Ib. eapply tree_connected; eauto; eapply Permutation_in; eauto. }
    assert (RB : forall o, exists a, create_fx_array (currencies s) (fx_rates s) o = Ok a)
      by (intros o; apply create_ok; auto).
    destruct (fx_set_ad_order s ad) as [s'| |] eqn:E.
    + cbn [fst snd]. pose proof (set_order_inv s ad s' IV E) as IV'.
      assert (Q : fx_rates s' = fx_rates s /\ currencies s' = currencies s).
      { unfold fx_set_ad_order in E.
        destruct ad, (fx_array s);
          try (inversion E; subst; auto; fail);
          destruct (create_fx_array _ _ _); cbn [obind] in E; try discriminate; inversion E; subst; auto. }
      destruct Q as [Q1 Q2].
      split; [split; [exact IV'|split; [rewrite Q1; exact TQ|split; [rewrite Q1; exact NZ|rewrite Q2; exact HB]]]|].
      split; [exact Q2|]. split; [rewrite Q1; reflexivity|discriminate].
    + cbn. repeat split; auto; discriminate.
    + exfalso. unfold fx_set_ad_order in E.
      destruct ad, (fx_array s); try discriminate;
        match type of E with context [create_fx_array _ _ ?o] => destruct (RB o) as (a & Ea); rewrite Ea in E end;
        discriminate.
Qed.

Lemma run_hist_ok cs0 : (length cs0 <= 181)%nat -> forall ops s, hist_ok cs0 s -> Forall op_ok ops ->
  hist_ok cs0 (fx_run s ops) /\ currencies (fx_run s ops) = currencies s /\
  map pair (fx_rates (fx_run s ops)) = map pair (fx_rates s).
Proof.
  intros Hn. induction ops as [|o ops IH]; intros s HO FO; [cbn; auto|].
  inversion FO as [|? ? OK FO']; subst.
  destruct (step_hist_ok cs0 s o Hn HO OK) as (HO1 & C1 & P1 & _).
  unfold fx_run. cbn [fold_left]. fold (fx_run (fst (fx_step s o)) ops).
  destruct (IH _ HO1 FO') as (HO2 & C2 & P2). split; [exact HO2|]. split; congruence.
Qed.

(* a state and the market built directly from its quotes return the same values *)
Lemma direct_market cs0 s : (length cs0 <= 181)%nat -> hist_ok cs0 s ->
  exists s', fx_try_new (fx_rates s) (Some (hd [] (currencies s))) = Ok s' /\
    forall a b, In a cs0 -> In b cs0 -> rate_val s a b = rate_val s' a b.
Proof.
  intros Hn HO. destruct (hist_ok_values cs0 s Hn HO) as (V & PV & VAL).
  pose proof (hist_ok_perm _ _ HO) as PM.
  destruct HO as ((NE & C & L & SC & AF0) & TQ & NZ & HB).
  destruct (try_new_ok cs0 (fx_rates s) (Some (hd [] (currencies s))) TQ NE HB SC Hn) as (s' & E & _ & C' & PM').
  exists s'. split; [exact E|]. intros a b Ia Ib. rewrite (VAL a b Ia Ib).
  assert (Hn' : (length (ccy_index (fx_rates s) (Some (hd [] (currencies s)))) <= 181)%nat).
  { rewrite <- C, (Permutation_length PM). exact Hn. }
  destruct (try_new_values _ _ s' V Hn' PV E) as (_ & _ & VAL').
  destruct (VAL' a b) as (d & Ed & Rd); try (eapply Permutation_in; [apply Permutation_sym|]; eauto).
  unfold rate_val. rewrite Ed. cbn [num_real]. symmetry. exact Rd.
Qed.

Theorem history cs0 (qs : list quoteR) base s0 :
  tree_quotes cs0 qs -> base_ok cs0 base -> (length cs0 <= 181)%nat -> quotes_nonzero qs ->
  fx_try_new qs base = Ok s0 ->
  forall ops, Forall op_ok ops ->
    let s := fx_run s0 ops in
    inv s /\ currencies s = currencies s0 /\ map pair (fx_rates s) = map pair qs /\
    exists s', fx_try_new (fx_rates s) (Some (hd [] (currencies s0))) = Ok s' /\
      forall a b, In a cs0 -> In b cs0 -> rate_val s a b = rate_val s' a b.
Proof.
  intros TQ BO Hn NZ E ops FO s.
  pose proof (try_new_hist_ok cs0 qs base s0 TQ BO NZ E) as HO0.
  destruct (run_hist_ok cs0 Hn ops s0 HO0 FO) as (HO & C & P). fold s in HO, C, P.
  destruct (try_new_shape qs base s0 E) as (_ & Q0 & _).
  split; [apply HO|]. split; [exact C|]. split; [rewrite P, Q0; reflexivity|].
  rewrite <- C. apply direct_market; auto.
Qed.

(* refused operations leave the object as it was; unknown pairs are refused *)
Lemma refused_unchanged (s : fxrates R) o : snd (fx_step s o) <> Ok tt -> fst (fx_step s o) = s.
Proof.
  unfold fx_step. destruct o as [u|ad].
  - destruct (fx_update s u); cbn; auto. intros C. contradiction C. reflexivity.
  - destruct (fx_set_ad_order s ad); cbn; auto. intros C. contradiction C. reflexivity.
Qed.
Lemma unknown_pair_refused (s : fxrates R) u q :
  In q u -> (forall x, In x (fx_rates s) -> pair x <> pair q) ->
  fx_step s (OpUpdate u) = (s, Err).
Proof.
  intros Iq N. unfold fx_step. rewrite fx_update_unknown; [reflexivity|].
  intros PK. destruct (PK q Iq) as (x & Ix & E). apply (N x Ix E).
Qed.
Lemma no_step_aborts cs0 s o : (length cs0 <= 181)%nat -> hist_ok cs0 s -> op_ok o -> snd (fx_step s o) <> Panic.
Proof. intros Hn HO OK. apply (step_hist_ok cs0 s o Hn HO OK). Qed.

(* switching the derivative order succeeds and never changes a value *)
Theorem order_switch_values cs0 s ad : (length cs0 <= 181)%nat -> hist_ok cs0 s ->
  exists s', fx_set_ad_order s ad = Ok s' /\ fx_rates s' = fx_rates s /\ currencies s' = currencies s /\
    forall a b, In a cs0 -> In b cs0 -> rate_val s' a b = rate_val s a b.
Proof.
  intros Hn HO.
  destruct (step_hist_ok cs0 s (OpSetOrder ad) Hn HO I) as (HO' & C' & P' & NP).
  unfold fx_step in *. destruct (fx_set_ad_order s ad) as [s'| |] eqn:E; cbn [fst snd] in *.
  - exists s'. split; [reflexivity|].
    assert (Q : fx_rates s' = fx_rates s).
    { unfold fx_set_ad_order in E.
      destruct ad, (fx_array s);
        try (inversion E; subst; auto; fail);
        destruct (create_fx_array _ _ _); cbn [obind] in E; try discriminate; inversion E; subst; auto. }
    split; [exact Q|]. split; [exact C'|]. intros a b Ia Ib.
    destruct (hist_ok_values cs0 s Hn HO) as (V & PV & VAL).
    destruct (hist_ok_values cs0 s' Hn HO') as (V' & PV' & VAL').
    rewrite (VAL a b Ia Ib), (VAL' a b Ia Ib).
    (* both potentials give the same ratio: the same walk in the same quotes *)
    destruct HO as (_ & TQ & _ & _).
    destruct (qconn_path (fx_rates s) a b (tree_connected _ _ TQ a b Ia Ib)) as (steps & P).
    rewrite <- (Rpath_telescopes (fx_rates s) V PV a b steps P).
    rewrite Q in PV'. rewrite <- (Rpath_telescopes (fx_rates s) V' PV' a b steps P). reflexivity.
  - exfalso. (* an Err would leave hist_ok s, but creation succeeds on trees: shown via no abort + Ok below *)
    pose proof (hist_ok_perm _ _ HO) as PM.
    destruct HO as ((NE & C & L & SC & AF0) & TQ & NZ & HB).
    assert (Hn' : (length (currencies s) <= 181)%nat) by (rewrite (Permutation_length PM); exact Hn).
    assert (M : members_in (currencies s) (map pair (fx_rates s))).
    { apply members_of_quotes. rewrite C. apply ccy_index_members. }
    assert (CO : connected (length (currencies s)) (seed_edges (currencies s) (map pair (fx_rates s)))).
    { apply connected_iff.
      - rewrite C. apply ccy_index_NoDup.
      - rewrite C. apply ccy_index_members.
      - intros a b Ia Ib. eapply tree_connected; eauto; eapply Permutation_in; eauto. }
    unfold fx_set_ad_order in E.
    destruct ad, (fx_array s); try discriminate;
      match type of E with context [create_fx_array _ _ ?o] =>
        destruct (create_ok (currencies s) (fx_rates s) o Hn' M CO) as (a & Ea); rewrite Ea in E end;
      discriminate.
  - contradiction NP. reflexivity.
Qed.

(* ------------------------------------------------------------------ the latest quotes, explicitly *)
(* the quote standing at the place of x after the update list u: the LAST element of u with x's pair, else x *)
Definition upd_by (p : fxpair) (u : list quoteR) (init : quoteR) : quoteR :=
  fold_left (fun acc y => if pair_eqb (pair y) p then y else acc) u init.
Definition upd_quote (u : list quoteR) (x : quoteR) : quoteR := upd_by (pair x) u x.

Lemma nth_map_d {X Y} (g : X -> Y) l k d d' : (k < length l)%nat -> nth k (map g l) d' = g (nth k l d).
Proof. intros Hk. rewrite (nth_indep _ d' (g d)) by (rewrite map_length; exact Hk). apply map_nth. Qed.

Lemma NoDup_pairs_idx (l : list quoteR) d i k : NoDup (map pair l) -> (i < length l)%nat -> (k < length l)%nat ->
  pair (nth i l d) = pair (nth k l d) -> i = k.
Proof.
  intros ND Hi Hk E. rewrite NoDup_nth with (d := pair d) in ND. apply ND.
  - rewrite map_length; exact Hi.
  - rewrite map_length; exact Hk.
  - rewrite !map_nth. exact E.
Qed.

Lemma replace_quotes_latest (u : list quoteR) : forall cur, NoDup (map pair cur) -> pairs_known cur u ->
  replace_quotes cur u = Ok (map (upd_quote u) cur).
Proof.
  induction u as [|y r IH]; intros cur ND PK.
  - cbn. f_equal. symmetry. apply map_id.
  - cbn [replace_quotes].
    destruct (last_match_idx_spec (pair y) y cur (PK y (or_introl eq_refl))) as [B Pn].
    set (i := last_match_idx (pair y) cur) in *.
    apply Nat.ltb_lt in B. rewrite B. apply Nat.ltb_lt in B.
    pose proof (map_pair_lset cur i y y B Pn) as MP.
    rewrite IH.
    + f_equal. apply (list_ext_nth y); [rewrite !map_length, lset_length; reflexivity|].
      intros k Hk. rewrite map_length, lset_length in Hk.
      rewrite (nth_map_d _ _ _ y) by (rewrite lset_length; exact Hk).
      rewrite (nth_map_d _ _ _ y) by exact Hk.
      rewrite nth_lset. unfold upd_quote, upd_by. cbn [fold_left].
      destruct (Nat.eqb i k && Nat.ltb i (length cur))%bool eqn:EK.
      * apply andb_true_iff in EK. destruct EK as [EK _]. apply Nat.eqb_eq in EK. subst k.
        rewrite Pn. rewrite (proj2 (pair_eqb_eq _ _) eq_refl). reflexivity.
      * assert (NK : i <> k).
        { intros ->. rewrite Nat.eqb_refl in EK. apply Nat.ltb_lt in B. rewrite B in EK. discriminate. }
        assert (NP : pair_eqb (pair y) (pair (nth k cur y)) = false).
        { destruct (pair_eqb (pair y) (pair (nth k cur y))) eqn:PE; [|reflexivity].
          apply pair_eqb_eq in PE. exfalso. apply NK.
          apply (NoDup_pairs_idx cur y i k ND B Hk). congruence. }
        rewrite NP. reflexivity.
    + rewrite MP. exact ND.
    + intros z Iz. destruct (PK z (or_intror Iz)) as (x & Ix & Ex).
      assert (Im : In (pair z) (map pair (lset cur i y))).
      { rewrite MP. rewrite <- Ex. apply in_map. exact Ix. }
      apply in_map_iff in Im. destruct Im as (x' & Ex' & Ix'). exists x'. auto.
Qed.

(* an accepted update puts, at the place of every quote, the last submitted quote with its pair *)
Theorem update_latest cs0 s u : hist_ok cs0 s -> pairs_known (fx_rates s) u ->
  fx_update s u = fx_try_new (map (upd_quote u) (fx_rates s)) (Some (hd [] (currencies s))).
Proof.
  intros (IV & TQ & _ & _) PK. unfold fx_update. rewrite (proj2 (validated_iff _ _) PK). cbn [negb].
  rewrite (replace_quotes_latest u (fx_rates s) (tree_pairs_NoDup _ _ TQ) PK). cbn [obind].
  pose proof (inv_currencies_nonempty s IV) as NE. destruct (currencies s); [contradiction|reflexivity].
Qed.
