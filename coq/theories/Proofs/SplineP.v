(* C14, refinement side: the model of bsplev_single_f64 / bspldnev_single_f64 (Model/Spline.v, with
   every Rust short-circuit, the right-end-point rule carrying the original order, the zero-width
   guards and the index panics) computes, at T := R, the Cox-de Boor piece polynomial of the span
   containing x and its derivatives. *)
From Coq Require Import Reals Lra Lia Arith List Bool ZArith.
From Coquelicot Require Import Coquelicot.
From RL Require Import Base.Outcome Base.Num Base.NumR Model.Spline Proofs.SplinePoly.
Import ListNotations.
Open Scope R_scope.

(* ---------- comparisons of the R instance ---------- *)
Lemma nltbP (x y : R) : reflect (x < y) (nltb x y).
Proof. cbn. unfold Rltb. destruct (Rlt_dec x y); constructor; auto. Qed.
Lemma nlebP (x y : R) : reflect (x <= y) (nleb x y).
Proof. cbn. unfold Rleb. destruct (Rle_dec x y); constructor; auto. Qed.
Lemma neqbP (x y : R) : reflect (x = y) (neqb x y).
Proof. cbn. unfold Reqb. destruct (Req_EM_T x y); constructor; auto. Qed.

(* ---------- knots as a total function: t_i for i in range, the last knot beyond ---------- *)
Definition tn (t : list R) (i : nat) : R := nth i t (last t 0).

Definition nondecreasing (t : list R) : Prop :=
  forall a, (S a < length t)%nat -> nth a t 0 <= nth (S a) t 0.

Lemma last_nth_R (t : list R) d : last t d = nth (length t - 1) t d.
Proof.
  induction t as [|a t IH]. reflexivity.
  destruct t as [|b t']. reflexivity.
  change (last (a :: b :: t') d) with (last (b :: t') d). rewrite IH.
  cbn [length]. replace (S (S (length t')) - 1)%nat with (S (length t')) by lia.
  cbn [nth]. replace (S (length t') - 1)%nat with (length t') by lia. reflexivity.
Qed.

Lemma tn_in t i : (i < length t)%nat -> tn t i = nth i t 0.
Proof. intros. unfold tn. apply nth_indep. auto. Qed.
Lemma tn_out t i : (length t - 1 <= i)%nat -> tn t i = tn t (length t - 1).
Proof.
  intros. unfold tn.
  destruct (le_lt_dec (length t) i).
  - rewrite nth_overflow by auto.
    destruct (Nat.eq_dec (length t) 0) as [E|E].
    + rewrite nth_overflow by lia. reflexivity.
    + rewrite last_nth_R. apply nth_indep. lia.
  - replace i with (length t - 1)%nat by lia. reflexivity.
Qed.

Lemma tn_step t : nondecreasing t -> forall a, tn t a <= tn t (S a).
Proof.
  intros ND a. destruct (le_lt_dec (length t) (S a)).
  - rewrite (tn_out t (S a)) by lia.
    destruct (le_lt_dec (length t - 1) a).
    + rewrite (tn_out t a) by lia. lra.
    + lia.
  - rewrite !tn_in by lia. apply ND. lia.
Qed.
Lemma tn_mono t : nondecreasing t -> forall a b, (a <= b)%nat -> tn t a <= tn t b.
Proof.
  intros ND a b H. induction H. lra.
  pose proof (tn_step t ND m). lra.
Qed.

Lemma idx_ok (t : list R) i : (i < length t)%nat -> idx t i = Ok (tn t i).
Proof.
  intros. unfold idx. rewrite (nth_error_nth' t (last t 0)) by auto. reflexivity.
Qed.

Lemma usub_ok a b : (b <= a)%nat -> usub a b = Ok (a - b)%nat.
Proof. intros. unfold usub. destruct (Nat.ltb_spec a b); auto. lia. Qed.

(* ---------- unfolding lemmas ---------- *)
Lemma bsplev_1 (x : R) i t org : bsplev x i 1 t org =
  (do ti <- idx t i;
   if nltb x ti then Ok 0 else
   do tik <- idx t (i + 1);
   if nltb tik x then Ok 0 else
   do re <- right_end_rule x i t (resolve_org org 1);
   if re then Ok 1 else
   if nleb ti x then (do ti1 <- idx t (i + 1); Ok (if nltb x ti1 then 1 else 0)) else Ok 0).
Proof. reflexivity. Qed.

Lemma bsplev_SS (x : R) i k' t org : bsplev x i (S (S k')) t org =
  (do ti <- idx t i;
   if nltb x ti then Ok 0 else
   do tik <- idx t (i + S (S k'));
   if nltb tik x then Ok 0 else
   do re <- right_end_rule x i t (resolve_org org (S (S k')));
   if re then Ok 1 else
   do tik1 <- idx t (i + S (S k') - 1);
   do left <- (if negb (neqb ti tik1)
               then (do b <- bsplev x i (S k') t None; Ok ((x - ti) / (tik1 - ti) * b))
               else Ok 0);
   do ti1 <- idx t (i + 1);
   do right <- (if negb (neqb ti1 tik)
                then (do b <- bsplev x (i + 1) (S k') t None; Ok ((tik - x) / (tik - ti1) * b))
                else Ok 0);
   Ok (left + right)).
Proof. reflexivity. Qed.

Lemma rer_false (x : R) i t org : (1 <= length t)%nat -> x <> tn t (length t - 1) ->
  right_end_rule x i t org = Ok false.
Proof.
  intros L N. unfold right_end_rule. rewrite usub_ok by lia. cbn [obind].
  rewrite ?idx_ok by lia. cbn [obind]. destruct (neqbP x (tn t (length t - 1))); auto. contradiction.
Qed.
Lemma rer_end (x : R) i t org : (org + 1 <= length t)%nat -> x = tn t (length t - 1) ->
  right_end_rule x i t org = Ok (Nat.leb (length t - org - 1) i).
Proof.
  intros L E. unfold right_end_rule. rewrite usub_ok by lia. cbn [obind].
  rewrite ?idx_ok by lia. cbn [obind]. destruct (neqbP x (tn t (length t - 1))); try contradiction.
  rewrite usub_ok by lia. cbn [obind]. rewrite usub_ok by lia. reflexivity.
Qed.
Lemma rer_total (x : R) i t org : (org + 1 <= length t)%nat ->
  exists b, right_end_rule x i t org = Ok b.
Proof.
  intros L. destruct (Req_EM_T x (tn t (length t - 1))).
  - rewrite rer_end by auto. eauto.
  - rewrite rer_false by (auto; lia). eauto.
Qed.

(* one recursion step, once the short-circuits and the end rule have not fired *)
Lemma bsplev_SS_val (x : R) i k' t org A B :
  (i + S (S k') < length t)%nat ->
  ~ x < tn t i -> ~ tn t (i + S (S k')) < x ->
  right_end_rule x i t (resolve_org org (S (S k'))) = Ok false ->
  (W (tn t) i (S k') <> 0 -> bsplev x i (S k') t None = Ok A) ->
  (W (tn t) (S i) (S k') <> 0 -> bsplev x (i + 1) (S k') t None = Ok B) ->
  bsplev x i (S (S k')) t org =
    Ok ((x - tn t i) * inv0 (W (tn t) i (S k')) * A
        + (tn t (i + S (S k')) - x) * inv0 (W (tn t) (S i) (S k')) * B).
Proof.
  intros L N1 N2 RE HA HB. rewrite bsplev_SS.
  rewrite ?idx_ok by lia. cbn [obind]. destruct (nltbP x (tn t i)); [contradiction|].
  rewrite ?idx_ok by lia. cbn [obind]. destruct (nltbP (tn t (i + S (S k'))) x); [contradiction|].
  rewrite RE. cbn [obind].
  replace (i + S (S k') - 1)%nat with (i + S k')%nat by lia.
  rewrite ?idx_ok by lia. cbn [obind].
  unfold W in *. replace (S i + S k')%nat with (i + S (S k'))%nat in * by lia.
  replace (i + 1)%nat with (S i) in * by lia.
  assert (EL : (if negb (neqb (tn t i) (tn t (i + S k')))
                then do b <- bsplev x i (S k') t None; Ok ((x - tn t i) / (tn t (i + S k') - tn t i) * b)
                else Ok 0) = Ok ((x - tn t i) * inv0 (tn t (i + S k') - tn t i) * A)).
  { destruct (neqbP (tn t i) (tn t (i + S k'))) as [E|E]; cbn [negb].
    - rewrite inv0_0 by lra. f_equal. ring.
    - rewrite HA by lra. cbn [obind]. rewrite inv0_n0 by lra. reflexivity. }
  rewrite EL. cbn [obind]. rewrite ?idx_ok by lia. cbn [obind].
  assert (ER : (if negb (neqb (tn t (S i)) (tn t (i + S (S k'))))
                then do b <- bsplev x (S i) (S k') t None;
                     Ok ((tn t (i + S (S k')) - x) / (tn t (i + S (S k')) - tn t (S i)) * b)
                else Ok 0) = Ok ((tn t (i + S (S k')) - x) * inv0 (tn t (i + S (S k')) - tn t (S i)) * B)).
  { destruct (neqbP (tn t (S i)) (tn t (i + S (S k')))) as [E|E]; cbn [negb].
    - rewrite inv0_0 by lra. f_equal. ring.
    - rewrite HB by lra. cbn [obind]. rewrite inv0_n0 by lra. reflexivity. }
  rewrite ER. cbn [obind]. reflexivity.
Qed.

(* ---------- no index panic in range ---------- *)
Lemma bsplev_total (x : R) t k : forall i, (1 <= k)%nat -> (i + k < length t)%nat ->
  exists v, bsplev x i k t None = Ok v.
Proof.
  induction k as [|k IH]; intros i Hk L. lia.
  destruct k as [|k'].
  - rewrite bsplev_1. rewrite ?idx_ok by lia. cbn [obind].
    destruct (nltbP x (tn t i)); eauto.
    rewrite ?idx_ok by lia. cbn [obind]. destruct (nltbP (tn t (i + 1)) x); eauto.
    destruct (rer_total x i t (resolve_org None 1)) as [b ->]. cbn; lia. cbn [obind].
    destruct b; eauto.
    destruct (nlebP (tn t i) x); eauto. rewrite ?idx_ok by lia. cbn [obind]. eauto.
  - destruct (IH i ltac:(lia) ltac:(lia)) as [A HA].
    destruct (IH (i + 1)%nat ltac:(lia) ltac:(lia)) as [B HB].
    destruct (Rlt_dec x (tn t i)) as [C1|C1].
    { rewrite bsplev_SS. rewrite ?idx_ok by lia. cbn [obind].
      destruct (nltbP x (tn t i)); eauto. contradiction. }
    destruct (Rlt_dec (tn t (i + S (S k'))) x) as [C2|C2].
    { rewrite bsplev_SS. rewrite ?idx_ok by lia. cbn [obind].
      destruct (nltbP x (tn t i)); eauto.
      rewrite ?idx_ok by lia. cbn [obind].
      destruct (nltbP (tn t (i + S (S k'))) x); eauto. contradiction. }
    destruct (rer_total x i t (resolve_org None (S (S k')))) as [b Hb]. cbn; lia.
    destruct b.
    + rewrite bsplev_SS. rewrite ?idx_ok by lia. cbn [obind].
      destruct (nltbP x (tn t i)); eauto.
      rewrite ?idx_ok by lia. cbn [obind].
      destruct (nltbP (tn t (i + S (S k'))) x); eauto.
      rewrite Hb. cbn [obind]. eauto.
    + erewrite (bsplev_SS_val x i k' t None A B); eauto.
Qed.

(* dn_combine on given values *)
Lemma dn_combine_val k (d1 d2 : R) a b A B :
  (d1 <> 0 -> a tt = Ok A) -> (d2 <> 0 -> b tt = Ok B) ->
  dn_combine k d1 d2 a b = Ok (INR (k - 1) * (inv0 d1 * A - inv0 d2 * B)).
Proof.
  intros HA HB. unfold dn_combine.
  assert (E1 : (if negb (neqb d1 n0) then do v <- a tt; Ok (nadd n0 (ndiv v d1)) else Ok n0)
               = Ok (inv0 d1 * A)).
  { destruct (neqbP d1 n0) as [E|E]; cbn [negb].
    - cbn in E. rewrite inv0_0 by auto. cbn. f_equal. ring.
    - cbn in E. rewrite HA by auto. cbn [obind]. rewrite inv0_n0 by auto. cbn. f_equal.
      unfold Rdiv. ring. }
  rewrite E1. cbn [obind].
  assert (E2 : (if negb (neqb d2 n0) then do v <- b tt; Ok (nsub (inv0 d1 * A) (ndiv v d2))
                else Ok (inv0 d1 * A)) = Ok (inv0 d1 * A - inv0 d2 * B)).
  { destruct (neqbP d2 n0) as [E|E]; cbn [negb].
    - cbn in E. rewrite (inv0_0 d2) by auto. f_equal. ring.
    - cbn in E. rewrite HB by auto. cbn [obind]. rewrite (inv0_n0 d2) by auto. cbn. f_equal.
      unfold Rdiv. ring. }
  rewrite E2. cbn [obind]. cbn. rewrite <- INR_IZR_INZ. f_equal. ring.
Qed.

Section Knots.
Variable t : list R.
Hypothesis ND : nondecreasing t.
Let tf := tn t.
Let mono : forall a b, (a <= b)%nat -> tf a <= tf b := tn_mono t ND.

(* ---------- interior: t_j <= x < t_{j+1} ---------- *)
Section Interior.
Variable j : nat.
Variable x : R.
Hypothesis Lj : (S j < length t)%nat.
Hypothesis Hx : tf j <= x < tf (S j).

Let spanj : tf j < tf (S j).
Proof. lra. Qed.

Lemma x_not_last : x <> tn t (length t - 1).
Proof.
  pose proof (mono (S j) (length t - 1) ltac:(lia)). unfold tf in *. lra.
Qed.

Lemma bsplev_interior k : forall i org, (1 <= k)%nat -> (i + k < length t)%nat ->
  bsplev x i k t org = Ok (P tf j k i x).
Proof.
  induction k as [|k IH]; intros i org Hk L. lia.
  destruct k as [|k'].
  - rewrite bsplev_1, P_1. rewrite ?idx_ok by lia. cbn [obind].
    destruct (nltbP x (tn t i)) as [C1|C1].
    { destruct (Nat.eqb_spec i j); auto. subst i. unfold tf in *. lra. }
    rewrite ?idx_ok by lia. cbn [obind].
    destruct (nltbP (tn t (i + 1)) x) as [C2|C2].
    { destruct (Nat.eqb_spec i j); auto. subst i. replace (j + 1)%nat with (S j) in * by lia.
      unfold tf in *. lra. }
    rewrite rer_false by (try lia; apply x_not_last). cbn [obind].
    destruct (nlebP (tn t i) x) as [C3|C3]; [|lra].
    rewrite ?idx_ok by lia. cbn [obind]. replace (i + 1)%nat with (S i) in * by lia.
    destruct (nltbP x (tn t (S i))) as [C4|C4]; destruct (Nat.eqb_spec i j) as [E|E]; auto.
    + exfalso. destruct (le_lt_dec i j).
      * pose proof (mono (S i) j ltac:(lia)). unfold tf in *. lra.
      * pose proof (mono (S j) i ltac:(lia)). unfold tf in *. lra.
    + subst i. unfold tf in *. lra.
  - destruct (Rlt_dec x (tn t i)) as [C1|C1].
    { rewrite bsplev_SS. rewrite ?idx_ok by lia. cbn [obind].
      destruct (nltbP x (tn t i)); [|contradiction].
      rewrite P_support; auto. intros [H1 H2]. pose proof (mono i j H1). unfold tf in *. lra. }
    destruct (Rlt_dec (tn t (i + S (S k'))) x) as [C2|C2].
    { rewrite bsplev_SS. rewrite ?idx_ok by lia. cbn [obind].
      destruct (nltbP x (tn t i)); [contradiction|].
      rewrite ?idx_ok by lia. cbn [obind].
      destruct (nltbP (tn t (i + S (S k'))) x); [|contradiction].
      rewrite P_support; auto. intros [H1 H2].
      pose proof (mono (S j) (i + S (S k')) ltac:(lia)). unfold tf in *. lra. }
    rewrite (bsplev_SS_val x i k' t org (P tf j (S k') i x) (P tf j (S k') (S i) x)); auto.
    + apply rer_false. lia. apply x_not_last.
    + intros _. apply IH; lia.
    + intros _. replace (i + 1)%nat with (S i) by lia. apply IH; lia.
Qed.

Lemma bspldnev_interior m : forall k i org, (1 <= k)%nat -> (i + k < length t)%nat ->
  bspldnev x i k t m org = Ok (DnP tf j m k i x).
Proof.
  induction m as [|m IH]; intros k i org Hk L.
  - cbn [bspldnev DnP]. apply bsplev_interior; auto.
  - cbn [bspldnev].
    destruct (Nat.eqb_spec k 1) as [E|E]; cbn [orb].
    { subst k. rewrite DnP_high by lia. reflexivity. }
    destruct (Nat.leb_spec k (S m)) as [E2|E2].
    { rewrite DnP_high by lia. reflexivity. }
    rewrite usub_ok by lia. cbn [obind].
    rewrite !idx_ok by lia. cbn [obind].
    replace (i + k - 1)%nat with (i + (k - 1))%nat by lia.
    replace (i + k)%nat with (S i + (k - 1))%nat by lia.
    replace (i + 1)%nat with (S i) by lia.
    change (nsub (tn t (i + (k - 1))) (tn t i)) with (W tf i (k - 1)).
    change (nsub (tn t (S i + (k - 1))) (tn t (S i))) with (W tf (S i) (k - 1)).
    destruct m as [|m'].
    + rewrite (dn_combine_val k _ _ _ _ (P tf j (k - 1) i x) (P tf j (k - 1) (S i) x)).
      * reflexivity.
      * intros _. apply bsplev_interior; lia.
      * intros _. apply bsplev_interior; lia.
    + rewrite (dn_combine_val k _ _ _ _ (DnP tf j (S m') (k - 1) i x) (DnP tf j (S m') (k - 1) (S i) x)).
      * reflexivity.
      * intros _. apply IH; lia.
      * intros _. apply IH; lia.
Qed.
End Interior.

(* ---------- right end point ---------- *)
Section RightEnd.
Variables K n : nat.
Hypothesis HK : (1 <= K)%nat.
Hypothesis Hn : (1 <= n)%nat.
Hypothesis Len : length t = (n + K)%nat.
Hypothesis Hend : forall a, (n <= a)%nat -> tf a = tf n.     (* K-fold right end knot *)
Hypothesis Hlast : tf (n - 1) < tf n.                       (* ... exactly K-fold *)

Let j := (n - 1)%nat.
Let x := tf n.

Let Sj : S j = n. Proof. unfold j. lia. Qed.
Let spanj : tf j < tf (S j). Proof. rewrite Sj. exact Hlast. Qed.

Lemma x_is_last : x = tn t (length t - 1).
Proof. unfold x. symmetry. apply Hend. lia. Qed.
Lemma x_max a : tf a <= x.
Proof.
  destruct (le_lt_dec a n). apply mono; auto. unfold x. rewrite Hend by lia. lra.
Qed.

(* functions left of the last one: value 0, whatever the order below K (own end rule) *)
Lemma bsplev_end_zero k : forall i, (1 <= k <= K)%nat -> (i + 2 <= n)%nat ->
  bsplev x i k t None = Ok 0.
Proof.
  induction k as [|k IH]; intros i Hk Hi. lia.
  assert (NX : ~ x < tn t i) by (pose proof (x_max i); unfold tf in *; lra).
  assert (RE : right_end_rule x i t (resolve_org None (S k)) = Ok false).
  { rewrite rer_end by (cbn; try lia; apply x_is_last). cbn [resolve_org].
    f_equal. apply Nat.leb_gt. lia. }
  destruct k as [|k'].
  - rewrite bsplev_1. rewrite ?idx_ok by lia. cbn [obind].
    destruct (nltbP x (tn t i)); [contradiction|].
    rewrite ?idx_ok by lia. cbn [obind].
    destruct (nltbP (tn t (i + 1)) x); auto.
    rewrite RE. cbn [obind].
    destruct (nlebP (tn t i) x); auto.
    rewrite ?idx_ok by lia. cbn [obind].
    destruct (nltbP x (tn t (i + 1))) as [C|C]; auto.
    pose proof (x_max (i + 1)). unfold tf in *. lra.
  - destruct (Rlt_dec (tn t (i + S (S k'))) x) as [C2|C2].
    { rewrite bsplev_SS. rewrite ?idx_ok by lia. cbn [obind].
      destruct (nltbP x (tn t i)); [contradiction|].
      rewrite ?idx_ok by lia. cbn [obind].
      destruct (nltbP (tn t (i + S (S k'))) x); [|contradiction]. reflexivity. }
    destruct (bsplev_total x t (S k') (i + 1)%nat ltac:(lia) ltac:(lia)) as [B HB].
    rewrite (bsplev_SS_val x i k' t None 0 B); auto; try lia.
    + f_equal. destruct (Nat.eq_dec (i + 2) n) as [E|E].
      * (* the right neighbour is the last function: its weight vanishes *)
        assert (tn t (i + S (S k')) = x) as ->.
        { unfold x. apply Hend. lia. }
        ring.
      * assert (B = 0) as ->.
        { rewrite IH in HB by lia. congruence. }
        ring.
    + intros _. apply IH; lia.
Qed.

(* with the ORIGINAL order K carried along (or at top level): last function 1, others 0 *)
Lemma bsplev_end k : forall i org, (1 <= k <= K)%nat -> resolve_org org k = K ->
  (i + 1 <= n)%nat ->
  bsplev x i k t org = Ok (if Nat.eqb i (n - 1) then 1 else 0).
Proof.
  intros i org Hk Horg Hi.
  assert (NX : ~ x < tn t i) by (pose proof (x_max i); unfold tf in *; lra).
  assert (RE : right_end_rule x i t (resolve_org org k) = Ok (Nat.eqb i (n - 1))).
  { rewrite rer_end by (try lia; apply x_is_last). rewrite Horg. f_equal.
    destruct (Nat.eqb_spec i (n - 1)).
    - apply Nat.leb_le. lia.
    - apply Nat.leb_gt. lia. }
  destruct k as [|k]. lia. destruct k as [|k'].
  - rewrite bsplev_1. rewrite ?idx_ok by lia. cbn [obind].
    destruct (nltbP x (tn t i)); [contradiction|].
    rewrite ?idx_ok by lia. cbn [obind].
    destruct (nltbP (tn t (i + 1)) x) as [C|C].
    { destruct (Nat.eqb_spec i (n - 1)); auto. subst i.
      pose proof (x_max n). unfold x, tf in *. replace (n - 1 + 1)%nat with n in C by lia. lra. }
    rewrite RE. cbn [obind]. destruct (Nat.eqb_spec i (n - 1)); auto.
    destruct (nlebP (tn t i) x); auto.
    rewrite ?idx_ok by lia. cbn [obind].
    destruct (nltbP x (tn t (i + 1))) as [C'|C']; auto.
    pose proof (x_max (i + 1)). unfold tf in *. lra.
  - destruct (Rlt_dec (tn t (i + S (S k'))) x) as [C2|C2].
    { rewrite bsplev_SS. rewrite ?idx_ok by lia. cbn [obind].
      destruct (nltbP x (tn t i)); [contradiction|].
      rewrite ?idx_ok by lia. cbn [obind].
      destruct (nltbP (tn t (i + S (S k'))) x); [|contradiction].
      destruct (Nat.eqb_spec i (n - 1)); auto. subst i.
      exfalso. assert (tn t (n - 1 + S (S k')) = x). { unfold x. apply Hend. lia. } lra. }
    destruct (Nat.eqb_spec i (n - 1)) as [E|E].
    { rewrite bsplev_SS. rewrite ?idx_ok by lia. cbn [obind].
      destruct (nltbP x (tn t i)); [contradiction|].
      rewrite ?idx_ok by lia. cbn [obind].
      destruct (nltbP (tn t (i + S (S k'))) x); [contradiction|].
      rewrite RE. reflexivity. }
    destruct (bsplev_total x t (S k') (i + 1)%nat ltac:(lia) ltac:(lia)) as [B HB].
    rewrite (bsplev_SS_val x i k' t org 0 B); auto; try lia.
    + f_equal. destruct (Nat.eq_dec (i + 2) n) as [E'|E'].
      * assert (tn t (i + S (S k')) = x) as ->.
        { unfold x. apply Hend. lia. }
        ring.
      * assert (B = 0) as ->.
        { rewrite bsplev_end_zero in HB by lia. congruence. }
        ring.
    + intros _. apply bsplev_end_zero; lia.
Qed.

(* the piece polynomials of the last non-empty span at the right end point *)
Lemma P_end k : forall i, (1 <= k <= K)%nat -> (i + 1 <= n)%nat ->
  P tf j k i x = if Nat.eqb i (n - 1) then 1 else 0.
Proof.
  induction k as [|k IH]; intros i Hk Hi. lia.
  destruct k as [|k'].
  - rewrite P_1. reflexivity.
  - rewrite P_SS. rewrite (IH i) by lia.
    assert (EB : P tf j (S k') (S i) x = if Nat.eqb (S i) (n - 1) then 1 else 0).
    { destruct (Nat.eq_dec (S i) n).
      - rewrite P_support by (unfold j; lia). destruct (Nat.eqb_spec (S i) (n - 1)); auto. lia.
      - apply IH; lia. }
    rewrite EB.
    destruct (Nat.eqb_spec i (n - 1)) as [E|E].
    + destruct (Nat.eqb_spec (S i) (n - 1)); [lia|].
      subst i. unfold W. rewrite (Hend (n - 1 + S k')) by lia.
      unfold x. rewrite (inv0_n0 (tf n - tf (n - 1))) by lra. field. lra.
    + destruct (Nat.eqb_spec (S i) (n - 1)) as [E'|E'].
      * rewrite (Hend (i + S (S k'))) by lia. unfold x. ring.
      * ring.
Qed.

Lemma bspldnev_end m : forall k i org, (1 <= m)%nat -> (1 <= k <= K)%nat ->
  resolve_org org k = K -> (i + 1 <= n)%nat ->
  bspldnev x i k t m org = Ok (DnP tf j m k i x).
Proof.
  induction m as [|m IH]; intros k i org Hm Hk Horg Hi. lia.
  cbn [bspldnev].
  destruct (Nat.eqb_spec k 1) as [E|E]; cbn [orb].
  { subst k. rewrite DnP_high by lia. reflexivity. }
  destruct (Nat.leb_spec k (S m)) as [E2|E2].
  { rewrite DnP_high by lia. reflexivity. }
  rewrite usub_ok by lia. cbn [obind].
  rewrite !idx_ok by lia. cbn [obind].
  replace (i + k - 1)%nat with (i + (k - 1))%nat by lia.
  replace (i + k)%nat with (S i + (k - 1))%nat by lia.
  replace (i + 1)%nat with (S i) by lia.
  change (nsub (tn t (i + (k - 1))) (tn t i)) with (W tf i (k - 1)).
  change (nsub (tn t (S i + (k - 1))) (tn t (S i))) with (W tf (S i) (k - 1)).
  rewrite Horg.
  (* the right neighbour i+1 = n is a zero-width function: guarded out *)
  assert (G : W tf (S i) (k - 1) <> 0 -> (S i + 1 <= n)%nat).
  { intros NZ. destruct (le_lt_dec (S i + 1) n); auto. exfalso. apply NZ.
    unfold W. rewrite (Hend (S i + (k - 1))), (Hend (S i)) by lia. ring. }
  destruct m as [|m'].
  - rewrite (dn_combine_val k _ _ _ _ (P tf j (k - 1) i x) (P tf j (k - 1) (S i) x)).
    + reflexivity.
    + intros _. rewrite bsplev_end, P_end; auto; lia.
    + intros NZ. pose proof (G NZ). rewrite bsplev_end, P_end; auto; lia.
  - rewrite (dn_combine_val k _ _ _ _ (DnP tf j (S m') (k - 1) i x) (DnP tf j (S m') (k - 1) (S i) x)).
    + reflexivity.
    + intros _. apply IH; auto; lia.
    + intros NZ. pose proof (G NZ). apply IH; auto; lia.
Qed.

End RightEnd.
End Knots.

(* ---------- admissible knot vectors, spans, the C14 statements ---------- *)

(* What the theorems need: order k >= 1, n >= k basis functions, n + k non-decreasing knots, the
   right end knot EXACTLY k-fold (t_{n-1} < t_n = ... = t_{n+k-1}).  Nothing is asked of the left
   end or of interior multiplicities, so the class of the property (k-fold end knots on both
   sides, interior multiplicity < k: `standard_knots`) is included. *)
Definition admissible (k n : nat) (t : list R) : Prop :=
  (1 <= k)%nat /\ (k <= n)%nat /\ length t = (n + k)%nat /\ nondecreasing t /\
  (forall a, (n <= a < n + k)%nat -> nth a t 0 = nth n t 0) /\
  nth (n - 1) t 0 < nth n t 0.

Definition standard_knots (k n : nat) (t : list R) : Prop :=
  (1 <= k)%nat /\ (k <= n)%nat /\ length t = (n + k)%nat /\ nondecreasing t /\
  (forall a, (a < k)%nat -> nth a t 0 = nth 0 t 0) /\ nth (k - 1) t 0 < nth k t 0 /\
  (forall a, (n <= a < n + k)%nat -> nth a t 0 = nth n t 0) /\ nth (n - 1) t 0 < nth n t 0 /\
  (* every run of equal interior knots is shorter than k *)
  (forall a, (k <= a)%nat -> (a + (k - 1) < n)%nat -> (2 <= k)%nat -> nth a t 0 < nth (a + (k - 1)) t 0).

Lemma standard_admissible k n t : standard_knots k n t -> admissible k n t.
Proof. unfold standard_knots, admissible. tauto. Qed.

(* x lies in the non-empty span [t_j, t_{j+1}) of the domain [t_{k-1}, t_n], or x is the right end
   point and j is the last non-empty span *)
Definition in_span (k n : nat) (t : list R) (j : nat) (x : R) : Prop :=
  (k - 1 <= j <= n - 1)%nat /\
  ((tn t j <= x < tn t (S j)) \/ (j = (n - 1)%nat /\ x = tn t n)).

Lemma adm_end k n t : admissible k n t -> forall a, (n <= a)%nat -> tn t a = tn t n.
Proof.
  intros (Hk & Hn & Len & ND & He & Hl) a Ha.
  destruct (le_lt_dec (n + k) a).
  - rewrite tn_out by lia. rewrite Len. rewrite !tn_in by lia. apply He. lia.
  - rewrite !tn_in by lia. apply He. lia.
Qed.
Lemma adm_last k n t : admissible k n t -> tn t (n - 1) < tn t n.
Proof. intros (Hk & Hn & Len & ND & He & Hl). rewrite !tn_in by lia. exact Hl. Qed.

Lemma span_exists k n t x : admissible k n t -> tn t (k - 1) <= x <= tn t n ->
  exists j, in_span k n t j x.
Proof.
  intros A [H1 H2]. pose proof A as (Hk & Hn & Len & ND & He & Hl).
  destruct (Req_EM_T x (tn t n)) as [E|E].
  - exists (n - 1)%nat. split. lia. right. auto.
  - assert (G : forall d, x < tn t (k - 1 + d) ->
                exists j, (k - 1 <= j < k - 1 + d)%nat /\ tn t j <= x < tn t (S j)).
    { induction d; intros Hd.
      - replace (k - 1 + 0)%nat with (k - 1)%nat in Hd by lia. lra.
      - destruct (Rlt_dec x (tn t (k - 1 + d))) as [C|C].
        + destruct (IHd C) as (j & Hj & Hx). exists j. split; auto. lia.
        + exists (k - 1 + d)%nat. split. lia.
          replace (S (k - 1 + d)) with (k - 1 + S d)%nat by lia. lra. }
    destruct (G (n - (k - 1))%nat) as (j & Hj & Hx).
    { replace (k - 1 + (n - (k - 1)))%nat with n by lia. lra. }
    exists j. split. lia. left. auto.
Qed.

Lemma in_span_closed k n t j x : admissible k n t -> in_span k n t j x ->
  tn t j < tn t (S j) /\ tn t j <= x <= tn t (S j) /\ (S j < length t)%nat.
Proof.
  intros A [Hj Hx]. pose proof A as (Hk & Hn & Len & ND & He & Hl).
  destruct Hx as [Hx|[-> ->]].
  - repeat split; try lra. lia.
  - pose proof (adm_last k n t A). replace (S (n - 1)) with n by lia.
    repeat split; try lra. lia.
Qed.

Lemma bsplev_value k n t j x i : admissible k n t -> in_span k n t j x -> (i < n)%nat ->
  bsplev x i k t None = Ok (P (tn t) j k i x).
Proof.
  intros A S Hi. pose proof A as (Hk & Hn & Len & ND & He & Hl).
  destruct S as [Hj [Hx|[-> ->]]].
  - apply bsplev_interior; auto; lia.
  - rewrite (bsplev_end t ND k n); auto; try lia.
    + rewrite (P_end t k n); auto; try lia.
      * apply (adm_end k n t A).
      * apply (adm_last k n t A).
    + apply (adm_end k n t A).
Qed.

Lemma bsplev_support k n t x i : admissible k n t -> (i < n)%nat ->
  x < tn t i \/ tn t (i + k) < x -> bsplev x i k t None = Ok 0.
Proof.
  intros A Hi Hx. pose proof A as (Hk & Hn & Len & ND & He & Hl).
  pose proof (tn_mono t ND i (i + k) ltac:(lia)) as M.
  destruct k as [|k]. lia. destruct k as [|k'].
  - rewrite bsplev_1. rewrite ?idx_ok by lia. cbn [obind].
    destruct (nltbP x (tn t i)); auto.
    destruct (nltbP (tn t (i + 1)) x); auto. lra.
  - rewrite bsplev_SS. rewrite ?idx_ok by lia. cbn [obind].
    destruct (nltbP x (tn t i)); auto.
    destruct (nltbP (tn t (i + S (S k'))) x); auto. lra.
Qed.

Lemma bsplev_nonneg k n t x i : admissible k n t -> tn t (k - 1) <= x <= tn t n -> (i < n)%nat ->
  exists v, bsplev x i k t None = Ok v /\ 0 <= v.
Proof.
  intros A Hx Hi. destruct (span_exists k n t x A Hx) as [j S].
  exists (P (tn t) j k i x). split. apply (bsplev_value k n t j x i A S Hi).
  destruct (in_span_closed k n t j x A S) as (S1 & S2 & S3).
  pose proof A as (Hk & Hn & Len & ND & He & Hl).
  apply P_nonneg; auto. apply tn_mono; auto.
Qed.

Definition Rsum (l : list R) : R := fold_right Rplus 0 l.

Lemma omapM_seq {A} (f : nat -> outcome A) (g : nat -> A) n : forall s,
  (forall i, (s <= i < s + n)%nat -> f i = Ok (g i)) ->
  omapM f (seq s n) = Ok (map g (seq s n)).
Proof.
  induction n; intros s H. reflexivity.
  cbn [seq omapM map]. rewrite H by lia. cbn [obind]. rewrite IHn. reflexivity.
  intros; apply H; lia.
Qed.
Lemma Rsum_seq g n : Rsum (map g (seq 0 n)) = sumf g n.
Proof.
  induction n. reflexivity.
  rewrite seq_S, map_app. cbn [plus map]. unfold Rsum in *. rewrite fold_right_app. cbn [fold_right].
  rewrite sumf_S, <- IHn. change (0 + n)%nat with n. generalize (map g (seq 0 n)). intros l.
  induction l as [|a l IHl]; cbn [fold_right]. ring. rewrite IHl. ring.
Qed.

Lemma bsplev_unity k n t x : admissible k n t -> tn t (k - 1) <= x <= tn t n ->
  exists vs, bsplev_row x k t n = Ok vs /\ Rsum vs = 1.
Proof.
  intros A Hx. destruct (span_exists k n t x A Hx) as [j S].
  pose proof A as (Hk & Hn & Len & ND & He & Hl).
  destruct (in_span_closed k n t j x A S) as (S1 & S2 & S3). destruct S as [Hj S].
  exists (map (fun i => P (tn t) j k i x) (seq 0 n)). split.
  - unfold bsplev_row. apply omapM_seq. intros i Hi.
    apply (bsplev_value k n t j x i A); auto. split; auto. lia.
  - rewrite Rsum_seq. apply P_unity; auto; try lia. apply tn_mono; auto.
Qed.

Lemma bspldnev_high (x : R) i k t m org : (1 <= k)%nat -> (k <= m)%nat ->
  bspldnev x i k t m org = Ok 0.
Proof.
  intros Hk Hm. destruct m as [|m]. lia. cbn [bspldnev].
  destruct (Nat.eqb_spec k 1); cbn [orb]; auto.
  destruct (Nat.leb_spec k (S m)); auto. lia.
Qed.

Lemma bspldnev_value k n t j x i m : admissible k n t -> in_span k n t j x -> (i < n)%nat ->
  bspldnev x i k t m None = Ok (DnP (tn t) j m k i x).
Proof.
  intros A S Hi. pose proof A as (Hk & Hn & Len & ND & He & Hl).
  destruct m as [|m].
  { cbn [bspldnev DnP]. apply (bsplev_value k n t j x i A S Hi). }
  destruct S as [Hj [Hx|[-> ->]]].
  - apply bspldnev_interior; auto; lia.
  - apply (bspldnev_end t ND k n); auto; try lia.
    + apply (adm_end k n t A).
    + apply (adm_last k n t A).
Qed.

Lemma bspldnev_deriv k n t j x i m : admissible k n t -> in_span k n t j x -> (i < n)%nat ->
  exists v, bspldnev x i k t m None = Ok v /\ is_derive_n (P (tn t) j k i) m x v.
Proof.
  intros A S Hi. exists (DnP (tn t) j m k i x). split.
  - apply (bspldnev_value k n t j x i m A S Hi).
  - pose proof A as (Hk & Hn & Len & ND & He & Hl).
    destruct (in_span_closed k n t j x A S) as (S1 & S2 & S3).
    apply DnP_is_derive_n; auto. apply tn_mono; auto.
Qed.

(* index out of range = abort, as the Rust slice index *)
Lemma bsplev_oob (x : R) i k t org : (length t <= i)%nat -> bsplev x i k t org = Panic.
Proof.
  intros L. assert (E : idx t i = Panic).
  { unfold idx. apply nth_error_None in L. rewrite L. reflexivity. }
  destruct k; cbn [bsplev]; rewrite E; reflexivity.
Qed.

(* zero on every span that is not one of its k spans - in particular at the knot t_{i+k} itself *)
Lemma bsplev_support_span k n t j x i : admissible k n t -> in_span k n t j x -> (i < n)%nat ->
  ~ (i <= j < i + k)%nat -> bsplev x i k t None = Ok 0.
Proof.
  intros A S Hi Hj. rewrite (bsplev_value k n t j x i A S Hi). f_equal. apply P_support. exact Hj.
Qed.
