(* C14, specification side: the Cox-de Boor PIECE POLYNOMIALS `P t j k i` (the polynomial that
   B_{i,k} is on the non-empty knot span [t_j, t_{j+1})), their support, non-negativity, partition
   of unity, and the derivative recurrence for every derivative order (`DnP`).
   Everything here is about an arbitrary non-decreasing knot function `t : nat -> R`; no size
   bound.  (First half = DESIGN Appendix A.3.) *)
From Coq Require Import Reals Lra Lia Arith.
From Coquelicot Require Import Coquelicot.
Open Scope R_scope.

Definition inv0 (w : R) : R := if Req_EM_T w 0 then 0 else / w.

Lemma inv0_0 w : w = 0 -> inv0 w = 0.
Proof. intros ->. unfold inv0. destruct (Req_EM_T 0 0); auto. lra. Qed.
Lemma inv0_n0 w : w <> 0 -> inv0 w = / w.
Proof. intros. unfold inv0. destruct (Req_EM_T w 0); auto. lra. Qed.
Lemma inv0_nonneg w : 0 <= w -> 0 <= inv0 w.
Proof.
  intros. unfold inv0. destruct (Req_EM_T w 0); [lra|].
  left. apply Rinv_0_lt_compat. lra.
Qed.
Lemma inv0_mul w : w <> 0 -> w * inv0 w = 1.
Proof. intros. rewrite inv0_n0 by auto. field. auto. Qed.

(* Sigma_{i<n} f i *)
Fixpoint sumf (f : nat -> R) (n : nat) : R :=
  match n with O => 0 | S n' => sumf f n' + f n' end.
Lemma sumf_S f n : sumf f (S n) = sumf f n + f n.
Proof. reflexivity. Qed.
Lemma sumf_zero n : sumf (fun _ => 0) n = 0.
Proof. induction n; simpl; lra. Qed.
Lemma sumf_ext f g n : (forall i, (i < n)%nat -> f i = g i) -> sumf f n = sumf g n.
Proof.
  induction n; intros E; simpl; auto. rewrite IHn, E; auto.
Qed.
Lemma sumf_shift f n : sumf f (S n) = f O + sumf (fun i => f (S i)) n.
Proof.
  induction n. simpl. ring.
  change (sumf f (S (S n))) with (sumf f (S n) + f (S n)). rewrite IHn. simpl. ring.
Qed.

Lemma dR_mult f g x df dg : is_derive f x df -> is_derive g x dg ->
  is_derive (fun t:R => f t * g t) x (df * g x + dg * f x).
Proof.
  intros. evar_last. apply (is_derive_mult (K:=R_AbsRing) f g x df dg); auto.
  intros; apply Rmult_comm. unfold plus, mult; simpl. ring.
Qed.
Lemma dR_plus f g x df dg : is_derive f x df -> is_derive g x dg ->
  is_derive (fun t:R => f t + g t) x (df + dg).
Proof. intros; apply (is_derive_plus (K:=R_AbsRing) (V:=R_NormedModule) f g x df dg); auto. Qed.
Lemma dR_const (c x : R) : is_derive (fun _ : R => c) x 0.
Proof. apply (is_derive_const (K:=R_AbsRing) (V:=R_NormedModule) c x). Qed.
Lemma dR_lin1 (a c x : R) : is_derive (fun y : R => (y - a) * c) x c.
Proof. auto_derive; auto. ring. Qed.
Lemma dR_lin2 (a c x : R) : is_derive (fun y : R => (a - y) * c) x (- c).
Proof. auto_derive; auto. ring. Qed.
Lemma dR_ext (f g : R -> R) (x l : R) : (forall y, f y = g y) -> is_derive f x l -> is_derive g x l.
Proof. intros E D. exact (is_derive_ext (K:=R_AbsRing) (V:=R_NormedModule) f g x l E D). Qed.
Lemma dR_unique (f : R -> R) (x l : R) : is_derive f x l -> Derive f x = l.
Proof. intros D. exact (is_derive_unique f x l D). Qed.
Lemma dR_lincomb (f g : R -> R) (x df dg : R) (c a b : R) : is_derive f x df -> is_derive g x dg ->
  is_derive (fun y : R => c * (a * f y - b * g y)) x (c * (a * df - b * dg)).
Proof.
  intros Hf Hg.
  apply (dR_ext (fun y : R => (c * a) * f y + (- (c * b)) * g y)).
  { intros y. ring. }
  evar_last.
  apply dR_plus; (apply dR_mult; [apply dR_const | eassumption]).
  cbv beta. ring.
Qed.

Section BS.
Variable t : nat -> R.
Hypothesis t_mono : forall a b, (a <= b)%nat -> t a <= t b.
Variable j : nat.
Hypothesis span : t j < t (S j).

Definition W (i q : nat) : R := t (i + q)%nat - t i.

Fixpoint P (k i : nat) (x : R) : R :=
  match k with
  | O => 0
  | S k' =>
    match k' with
    | O => if Nat.eqb i j then 1 else 0
    | S _ => (x - t i) * inv0 (W i k') * P k' i x + (t (i + k)%nat - x) * inv0 (W (S i) k') * P k' (S i) x
    end
  end.

Lemma P_SS k' i x : P (S (S k')) i x =
  (x - t i) * inv0 (W i (S k')) * P (S k') i x
  + (t (i + S (S k'))%nat - x) * inv0 (W (S i) (S k')) * P (S k') (S i) x.
Proof. reflexivity. Qed.
Lemma P_1 i x : P 1 i x = if Nat.eqb i j then 1 else 0.
Proof. reflexivity. Qed.

Lemma P_support k : forall i x, ~ (i <= j < i + k)%nat -> P k i x = 0.
Proof.
  induction k as [|k IH]; intros i x H; simpl; auto.
  destruct k as [|k'].
  - destruct (Nat.eqb_spec i j); auto. exfalso; apply H; lia.
  - destruct (le_lt_dec i j) as [Hij|Hij].
    + rewrite (IH i), (IH (S i)); try lia. ring.
    + rewrite (IH i), (IH (S i)); try lia. ring.
Qed.

Lemma W_zero_P k i x : W i k = 0 -> P k i x = 0.
Proof.
  intros HW. apply P_support. intros [H1 H2].
  unfold W in HW. pose proof (t_mono i j H1). pose proof (t_mono (S j) (i + k) ltac:(lia)). lra.
Qed.

Lemma W_nonneg i q : 0 <= W i q.
Proof. unfold W. pose proof (t_mono i (i+q) ltac:(lia)). lra. Qed.

(* non-negativity on the closed span *)
Lemma P_nonneg k : forall i x, t j <= x <= t (S j) -> 0 <= P k i x.
Proof.
  induction k as [|k IH]; intros i x Hx. simpl; lra.
  destruct k as [|k'].
  - rewrite P_1. destruct (Nat.eqb i j); lra.
  - rewrite P_SS.
    pose proof (IH i x Hx) as H1. pose proof (IH (S i) x Hx) as H2.
    pose proof (inv0_nonneg _ (W_nonneg i (S k'))) as I1.
    pose proof (inv0_nonneg _ (W_nonneg (S i) (S k'))) as I2.
    assert (A : 0 <= (x - t i) * inv0 (W i (S k')) * P (S k') i x).
    { destruct (le_lt_dec i j) as [Hij|Hij].
      - pose proof (t_mono i j Hij).
        apply Rmult_le_pos; auto. apply Rmult_le_pos; auto. lra.
      - rewrite (P_support (S k') i x) by lia. lra. }
    assert (B : 0 <= (t (i + S (S k'))%nat - x) * inv0 (W (S i) (S k')) * P (S k') (S i) x).
    { destruct (le_lt_dec (i + S (S k')) j) as [Hij|Hij].
      - rewrite (P_support (S k') (S i) x) by lia. lra.
      - pose proof (t_mono (S j) (i + S (S k')) ltac:(lia)).
        apply Rmult_le_pos; auto. apply Rmult_le_pos; auto. lra. }
    lra.
Qed.

(* partition of unity: the functions of order k that live on span j are i = j-k+1 .. j *)
Lemma P1_sum N x : (j < N)%nat -> sumf (fun i => P 1 i x) N = 1.
Proof.
  induction N; intros HN. lia.
  rewrite sumf_S, P_1. destruct (Nat.eq_dec j N) as [E|Hne].
  - rewrite (sumf_ext _ (fun _ => 0)).
    + rewrite sumf_zero. destruct (Nat.eqb_spec N j); try lia. lra.
    + intros i Hi. rewrite P_1. destruct (Nat.eqb_spec i j); auto. lia.
  - rewrite IHN by lia. destruct (Nat.eqb_spec N j); auto; try lia. lra.
Qed.

Lemma P_unity k : forall N x, (1 <= k)%nat -> (k - 1 <= j)%nat -> (j < N)%nat ->
  sumf (fun i => P k i x) N = 1.
Proof.
  induction k as [|k IH]; intros N x Hk Hj HN. lia.
  destruct k as [|k'].
  - apply P1_sum; auto.
  - set (p := fun i => P (S k') i x).
    set (a := fun i => (x - t i) * inv0 (W i (S k'))).
    assert (TEL : forall M, sumf (fun i => P (S (S k')) i x) M
                  = a O * p O - a M * p M + sumf (fun i => p (S i)) M).
    { induction M. simpl. ring.
      rewrite !sumf_S. rewrite IHM. rewrite P_SS. fold (p M) (p (S M)) (a M).
      assert (E : (t (M + S (S k'))%nat - x) * inv0 (W (S M) (S k')) * p (S M)
                  = p (S M) - a (S M) * p (S M)).
      { unfold a. destruct (Req_EM_T (W (S M) (S k')) 0) as [Z|NZ].
        - unfold p. rewrite (W_zero_P (S k') (S M) x Z). ring.
        - replace (t (M + S (S k'))%nat - x) with (W (S M) (S k') - (x - t (S M))).
          2:{ unfold W. replace (S M + S k')%nat with (M + S (S k'))%nat by lia. ring. }
          rewrite inv0_n0 by auto. field. auto. }
      rewrite E. ring. }
    rewrite TEL.
    assert (p O = 0) as ->. { unfold p. apply P_support. lia. }
    assert (p N = 0) as ->. { unfold p. apply P_support. lia. }
    assert (sumf (fun i => p (S i)) N = sumf p (S N)) as ->.
    { rewrite sumf_shift. assert (p O = 0) as ->. { unfold p. apply P_support. lia. } ring. }
    unfold p. rewrite IH; try lia. ring.
Qed.

(* Marsden's identity on the piece polynomials:
     (x - tau)^(k-1) = Sigma_i psi_{i,k}(tau) B_{i,k}(x),   psi_{i,k}(tau) = Prod_{r=1}^{k-1} (t_{i+r} - tau) *)
Fixpoint psi (k i : nat) (tau : R) : R :=
  match k with
  | O => 1
  | S k' => match k' with O => 1 | S _ => psi k' i tau * (t (i + k')%nat - tau) end
  end.
Lemma psi_SS k' i tau : psi (S (S k')) i tau = psi (S k') i tau * (t (i + S k')%nat - tau).
Proof. reflexivity. Qed.
Lemma psi_shift k' : forall i tau, psi (S (S k')) i tau = (t (S i) - tau) * psi (S k') (S i) tau.
Proof.
  induction k' as [|k IH]; intros i tau.
  - rewrite psi_SS. cbn [psi]. replace (i + 1)%nat with (S i) by lia. ring.
  - rewrite psi_SS, IH. rewrite (psi_SS k (S i)).
    replace (S i + S k)%nat with (i + S (S k))%nat by lia. ring.
Qed.

Lemma marsden k : forall N x tau, (1 <= k)%nat -> (k - 1 <= j)%nat -> (j < N)%nat ->
  sumf (fun i => psi k i tau * P k i x) N = (x - tau) ^ (k - 1).
Proof.
  induction k as [|k IH]; intros N x tau Hk Hj HN. lia.
  destruct k as [|k'].
  - cbn [psi Nat.sub pow]. rewrite (sumf_ext _ (fun i => P 1 i x)) by (intros; ring).
    apply P1_sum; auto.
  - set (p := fun i => P (S k') i x).
    set (a := fun i => (x - t i) * inv0 (W i (S k'))).
    set (q := fun i => psi (S (S k')) i tau).
    set (q' := fun i => psi (S k') i tau).
    assert (TEL : forall M, sumf (fun i => q i * P (S (S k')) i x) M
                  = q O * a O * p O - q M * a M * p M + (x - tau) * sumf (fun i => q' (S i) * p (S i)) M).
    { induction M. simpl. ring.
      rewrite !sumf_S. rewrite IHM. rewrite P_SS. fold (p M) (p (S M)) (a M).
      assert (E : q M * ((t (M + S (S k'))%nat - x) * inv0 (W (S M) (S k')) * p (S M))
                  = (x - tau) * (q' (S M) * p (S M)) - q (S M) * a (S M) * p (S M)).
      { unfold a. destruct (Req_EM_T (W (S M) (S k')) 0) as [Z|NZ].
        - unfold p. rewrite (W_zero_P (S k') (S M) x Z). ring.
        - unfold q, q'. rewrite (psi_shift k' M tau). rewrite (psi_SS k' (S M) tau).
          assert (EW : t (S M + S k')%nat = W (S M) (S k') + t (S M)) by (unfold W; ring).
          replace (M + S (S k'))%nat with (S M + S k')%nat by lia.
          rewrite EW. rewrite inv0_n0 by auto. field. auto. }
      rewrite Rmult_plus_distr_l. rewrite E. ring. }
    rewrite TEL.
    assert (p O = 0) as ->. { unfold p. apply P_support. lia. }
    assert (p N = 0) as ->. { unfold p. apply P_support. lia. }
    assert (sumf (fun i => q' (S i) * p (S i)) N = sumf (fun i => q' i * p i) (S N)) as ->.
    { rewrite sumf_shift. assert (p O = 0) as ->. { unfold p. apply P_support. lia. } ring. }
    unfold q', p. rewrite IH; try lia.
    replace (S (S k') - 1)%nat with (S (S k' - 1)) by lia. simpl pow. ring.
Qed.

(* m = 1 branch of bspldnev on the piece polynomials *)
Definition DP (k i : nat) (x : R) : R :=
  match k with
  | O => 0
  | S k' => INR k' * (inv0 (W i k') * P k' i x - inv0 (W (S i) k') * P k' (S i) x)
  end.

Lemma P_deriv k : forall i x, is_derive (P k i) x (DP k i x).
Proof.
  induction k as [|k IH]; intros i x.
  - simpl. apply dR_const.
  - destruct k as [|k'].
    + simpl. evar_last. apply dR_const. ring.
    + change (P (S (S k')) i) with (fun x => (x - t i) * inv0 (W i (S k')) * P (S k') i x + (t (i + S (S k'))%nat - x) * inv0 (W (S i) (S k')) * P (S k') (S i) x).
      evar_last.
      apply dR_plus.
      apply dR_mult; [ apply dR_lin1 | apply IH].
      apply dR_mult; [ apply dR_lin2 | apply IH].
      cbv beta.
      unfold DP at 3. unfold DP at 1 2.
      destruct k' as [|k''].
      * simpl. ring.
      * set (A := P (S k'') i x). set (B := P (S k'') (S i) x). set (C := P (S k'') (S (S i)) x).
        assert (EA: P (S (S k'')) i x = (x - t i) * inv0 (W i (S k'')) * A + (t (i + S (S k''))%nat - x) * inv0 (W (S i) (S k'')) * B) by reflexivity.
        assert (EB: P (S (S k'')) (S i) x = (x - t (S i)) * inv0 (W (S i) (S k'')) * B + (t (S i + S (S k''))%nat - x) * inv0 (W (S (S i)) (S k'')) * C) by reflexivity.
        rewrite EA, EB.
        assert (ZA: W i (S k'') = 0 -> A = 0) by (apply W_zero_P).
        assert (ZB: W (S i) (S k'') = 0 -> B = 0) by (apply W_zero_P).
        assert (ZC: W (S (S i)) (S k'') = 0 -> C = 0) by (apply W_zero_P).
        unfold W in *.
        replace (S i + S (S k''))%nat with (i + S (S (S k'')))%nat by lia.
        replace (S (S i) + S k'')%nat with (i + S (S (S k'')))%nat in * by lia.
        replace (S i + S k'')%nat with (i + S (S k''))%nat in * by lia.
        replace (S i + S (S k''))%nat with (i + S (S (S k'')))%nat in * by lia.
        set (a0 := t i) in *. set (a1 := t (S i)) in *. set (a2 := t (S (S i))) in *.
        set (b0 := t (i + S k'')%nat) in *. set (b1 := t (i + S (S k''))%nat) in *. set (b2 := t (i + S (S (S k'')))%nat) in *.
        assert (a0 <= a1) by (apply t_mono; lia). assert (a1 <= a2) by (apply t_mono; lia).
        assert (b0 <= b1) by (apply t_mono; lia). assert (b1 <= b2) by (apply t_mono; lia).
        assert (a0 <= b0) by (apply t_mono; lia). assert (a1 <= b1) by (apply t_mono; lia). assert (a2 <= b2) by (apply t_mono; lia).
        rewrite !S_INR. generalize (INR k''). intros n.
        clearbody A B C a0 a1 a2 b0 b1 b2.
        unfold inv0.
        repeat match goal with |- context [Req_EM_T ?u 0] => destruct (Req_EM_T u 0) end;
          try (rewrite ZA by lra); try (rewrite ZB by lra); try (rewrite ZC by lra);
          try (exfalso; lra); try (field; lra).
Qed.

(* the m-th derivative recurrence of bspldnev, on the piece polynomials *)
Fixpoint DnP (m k i : nat) (x : R) : R :=
  match m with
  | O => P k i x
  | S m' => INR (k - 1) * (inv0 (W i (k - 1)) * DnP m' (k - 1) i x
                           - inv0 (W (S i) (k - 1)) * DnP m' (k - 1) (S i) x)
  end.

Lemma DnP_1 k i x : DnP 1 k i x = DP k i x.
Proof.
  destruct k as [|k']; simpl. ring. rewrite Nat.sub_0_r. reflexivity.
Qed.

Lemma DnP_high m : forall k i x, (k <= m)%nat -> DnP m k i x = 0.
Proof.
  induction m; intros k i x H.
  - assert (k = O) by lia. subst. reflexivity.
  - simpl. rewrite !IHm by lia. ring.
Qed.

Lemma DnP_deriv m : forall k i x, is_derive (DnP m k i) x (DnP (S m) k i x).
Proof.
  induction m; intros k i x.
  - rewrite DnP_1. apply P_deriv.
  - change (DnP (S m) k i) with
      (fun y => INR (k - 1) * (inv0 (W i (k - 1)) * DnP m (k - 1) i y
                               - inv0 (W (S i) (k - 1)) * DnP m (k - 1) (S i) y)).
    change (DnP (S (S m)) k i x) with
      (INR (k - 1) * (inv0 (W i (k - 1)) * DnP (S m) (k - 1) i x
                      - inv0 (W (S i) (k - 1)) * DnP (S m) (k - 1) (S i) x)).
    apply dR_lincomb; apply IHm.
Qed.

Lemma DnP_Derive_n m : forall k i x, Derive_n (P k i) m x = DnP m k i x.
Proof.
  induction m; intros k i x. reflexivity.
  simpl Derive_n.
  rewrite (Derive_ext _ (DnP m k i)) by (intros; apply IHm).
  apply dR_unique. apply DnP_deriv.
Qed.

Lemma DnP_is_derive_n m k i x : is_derive_n (P k i) m x (DnP m k i x).
Proof.
  destruct m. reflexivity.
  simpl is_derive_n.
  apply (dR_ext (DnP m k i)).
  - intros y. symmetry. apply DnP_Derive_n.
  - apply DnP_deriv.
Qed.

End BS.
