(* C03: results depend only on value and derivative per NAME.  Remaining operator specs (division and
   remainder on Dual2, equality on Dual2), and layout independence of every binary operator. *)
From Coq Require Import Reals ZArith List Bool Lra Lia.
From RL Require Import Base.Num Base.Str Base.NumR Base.Outcome Model.Dual Proofs.NumRP Proofs.DualP Proofs.Dual2P.
Import ListNotations.
Open Scope R_scope.

Lemma d2div_spec p a b : wf2 a -> wf2 b -> (p = true -> vs2 a = vs2 b) ->
  let c1 := -1 * Rpowf (re2 b) (-1 - 1) in
  let c2 := / 2 * -1 * (-1 - 1) * Rpowf (re2 b) (-1 - 2) in
  wf2 (d2div p a b) /\ re2 (d2div p a b) = re2 a * Rpowf (re2 b) (-1) /\
  (forall v, coef1 (d2div p a b) v = coef1 a v * Rpowf (re2 b) (-1) + coef1 b v * c1 * re2 a) /\
  (forall u v, coef2 (d2div p a b) u v =
     coef2 a u v * Rpowf (re2 b) (-1) + (coef2 b u v * c1 + coef1 b u * coef1 b v * c2) * re2 a
     + / 2 * (coef1 a u * (coef1 b v * c1) + coef1 a v * (coef1 b u * c1))) /\
  in_union2 (d2div p a b) a b.
Proof.
  intros WA WB HP c1 c2. unfold d2div.
  destruct (d2pow_spec b nm1 WB) as (Wp & Rp & Cp & Hp).
  destruct (d2mul_spec p a (d2pow b nm1) WA Wp HP) as (W & R & C & H & U).
  split; [exact W|]. split; [rewrite R, Rp; reflexivity|]. split; [|split].
  - intros v. rewrite C, Cp, Rp. reflexivity.
  - intros u v. rewrite H, Hp, !Cp, Rp. reflexivity.
  - exact U.
Qed.

Lemma d2rem_spec p a b : wf2 a -> wf2 b -> (p = true -> vs2 a = vs2 b) ->
  let q := Rtrunc (re2 a / re2 b) in
  wf2 (d2rem p a b) /\ re2 (d2rem p a b) = re2 a - re2 b * q /\
  (forall v, coef1 (d2rem p a b) v = coef1 a v - q * coef1 b v) /\
  (forall u v, coef2 (d2rem p a b) u v = coef2 a u v - q * coef2 b u v) /\
  in_union2 (d2rem p a b) a b.
Proof.
  intros WA WB HP q. unfold d2rem, d2mul_f, vscale_l.
  destruct (d2scale_spec b (nmul (re2 b) (ntrunc (ndiv (re2 a) (re2 b)))) q
             (fun x => nmul (ntrunc (ndiv (re2 a) (re2 b))) x) (fun x => nmul (ntrunc (ndiv (re2 a) (re2 b))) x) WB)
    as (Wm & Rm & Cm & Hm); try (intros; reflexivity).
  match goal with |- context [d2sub p a ?m] => set (b_ := m) in * end.
  destruct (d2sub_spec p a b_ WA Wm HP) as (W & R & C & H & U).
  split; [exact W|]. split; [rewrite R, Rm; reflexivity|]. split; [|split].
  - intros v. rewrite C, Cm. reflexivity.
  - intros u v. rewrite H, Hm. reflexivity.
  - exact U.
Qed.

(* ------------------------------------------------------------------ equality on Dual2 *)
Lemma mat_eqb_eq (a : list (list R)) : forall b, mat_eqb a b = true <-> a = b.
Proof.
  induction a as [|x a IH]; intros [|y b]; cbn; split; intros E; try congruence; try reflexivity.
  - apply andb_true_iff in E. destruct E as [E1 E2]. apply list_eqb_eq in E1. apply IH in E2. congruence.
  - inversion E; subst. apply andb_true_iff. split; [apply list_eqb_eq; reflexivity|apply IH; reflexivity].
Qed.
Lemma ent_ext n (m1 m2 : list (list R)) : square n m1 -> square n m2 ->
  (forall i j, (i < n)%nat -> (j < n)%nat -> ent m1 i j = ent m2 i j) -> m1 = m2.
Proof.
  intros [L1 F1] [L2 F2] E. apply nth_ext with (d := []) (d' := []); [congruence|].
  intros i Hi. apply nth_ext with (d := 0) (d' := 0).
  - rewrite (Forall_nth_len n m1), (Forall_nth_len n m2); auto; lia.
  - intros j Hj. rewrite (Forall_nth_len n m1) in Hj by auto. apply E; lia.
Qed.
Lemma lk2_ext vars m1 m2 : NoDup vars -> square (length vars) m1 -> square (length vars) m2 ->
  (forall u v, lk2 vars m1 u v = lk2 vars m2 u v) -> m1 = m2.
Proof.
  intros ND S1 S2 E. apply (ent_ext (length vars)); auto. intros i j Hi Hj.
  specialize (E (nth i vars []) (nth j vars [])). rewrite !lk2_ent in E.
  rewrite !index_of_nth in E by (auto; unfold name in *; lia). exact E.
Qed.

Lemma d2eqb_spec p a b : wf2 a -> wf2 b -> (p = true -> vs2 a = vs2 b) ->
  (d2eqb p a b = true <-> a ≈₂ b).
Proof.
  intros WA WB HP. unfold d2eqb. cbn [neqb NumR]. unfold Reqb.
  destruct (Req_EM_T (re2 a) (re2 b)) as [E|E]; cbn [negb].
  - pose proof (align2_spec p a b WA WB HP) as AL. destruct (align2 p a b) as [x y].
    destruct AL as [Avs [NX [LX SX]] [NY [LY SY]] Arx Ary Acx Acy Accx Accy Ain].
    rewrite andb_true_iff, list_eqb_eq, mat_eqb_eq. split.
    + intros [D1 D2]. split; [exact E|]. split.
      * intros v. rewrite <- Acx, <- Acy. unfold coef1. rewrite D1, Avs. reflexivity.
      * intros u v. rewrite <- Accx, <- Accy. unfold coef2. rewrite D2, Avs. reflexivity.
    + intros (_ & C1 & C2). split.
      * apply (lk_ext (vs2 x)); auto; [rewrite Avs; auto|].
        intros v. specialize (C1 v). rewrite <- Acx, <- Acy in C1. unfold coef1 in C1.
        rewrite <- Avs in C1. exact C1.
      * apply (lk2_ext (vs2 x)); auto; [rewrite Avs; auto|].
        intros u v. specialize (C2 u v). rewrite <- Accx, <- Accy in C2. unfold coef2 in C2.
        rewrite <- Avs in C2. exact C2.
  - split; [discriminate|]. intros [C _]. contradiction.
Qed.

(* ------------------------------------------------------------------ layout independence *)
(* any binary operator whose value and per-name derivatives are functions of the operands' values and
   per-name derivatives gives ≈-equal results on ≈-equal operands, whatever the layouts and sharing *)
Lemma layout_indep1 (op : bool -> dualR -> dualR -> dualR) (fr : R -> R -> R) (fc : R -> R -> R -> R -> R) :
  (forall p a b, wf a -> wf b -> (p = true -> vs a = vs b) ->
     re (op p a b) = fr (re a) (re b) /\ forall v, coef (op p a b) v = fc (re a) (coef a v) (re b) (coef b v)) ->
  forall p p' a a' b b', wf a -> wf b -> wf a' -> wf b' ->
    (p = true -> vs a = vs b) -> (p' = true -> vs a' = vs b') ->
    a ≈ a' -> b ≈ b' -> op p a b ≈ op p' a' b'.
Proof.
  intros S p p' a a' b b' WA WB WA' WB' HP HP' [Ra Ca] [Rb Cb].
  destruct (S p a b WA WB HP) as [R1 C1]. destruct (S p' a' b' WA' WB' HP') as [R2 C2].
  split; [rewrite R1, R2, Ra, Rb; reflexivity|]. intros v. rewrite C1, C2, Ra, Rb, Ca, Cb. reflexivity.
Qed.
Lemma layout_indep2 (op : bool -> dual2R -> dual2R -> dual2R) (fr : R -> R -> R)
  (fc : R -> R -> R -> R -> R) (fh : R -> R -> R -> R -> R -> R -> R -> R -> R) :
  (forall p a b, wf2 a -> wf2 b -> (p = true -> vs2 a = vs2 b) ->
     re2 (op p a b) = fr (re2 a) (re2 b) /\
     (forall v, coef1 (op p a b) v = fc (re2 a) (coef1 a v) (re2 b) (coef1 b v)) /\
     (forall u v, coef2 (op p a b) u v =
        fh (re2 a) (coef1 a u) (coef1 a v) (coef2 a u v) (re2 b) (coef1 b u) (coef1 b v) (coef2 b u v))) ->
  forall p p' a a' b b', wf2 a -> wf2 b -> wf2 a' -> wf2 b' ->
    (p = true -> vs2 a = vs2 b) -> (p' = true -> vs2 a' = vs2 b') ->
    a ≈₂ a' -> b ≈₂ b' -> op p a b ≈₂ op p' a' b'.
Proof.
  intros S p p' a a' b b' WA WB WA' WB' HP HP' (Ra & Ca & Ha) (Rb & Cb & Hb).
  destruct (S p a b WA WB HP) as (R1 & C1 & H1). destruct (S p' a' b' WA' WB' HP') as (R2 & C2 & H2).
  split; [rewrite R1, R2, Ra, Rb; reflexivity|]. split.
  - intros v. rewrite C1, C2, Ra, Rb, Ca, Cb. reflexivity.
  - intros u v. rewrite H1, H2, Ra, Rb, !Ca, !Cb, Ha, Hb. reflexivity.
Qed.
