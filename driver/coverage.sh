#!/bin/bash
# Diagnostic (not a registered check): line/region coverage of /repo/rust reached by the quick tier of the given checks
# through the correspondence harness.  Builds an instrumented copy of the harness on the nightly toolchain under
# /tmp/covharness, runs the checks against it (evidence/replays to a scratch dir), prints per-file coverage and writes
# the annotated sources to /tmp/cov/show.txt.      driver/coverage.sh C01 C02 ...
set -u
LL=$HOME/.rustup/toolchains/nightly-x86_64-unknown-linux-gnu/lib/rustlib/x86_64-unknown-linux-gnu/bin
mkdir -p /tmp/covharness/.cargo /tmp/cov/evid /tmp/cov/replays /tmp/cov/raw
rsync -a --exclude target --exclude .cargo --exclude rust-toolchain.toml /verif/harness/ /tmp/covharness/
printf '[build]\nrustflags = ["-C", "instrument-coverage"]\n[net]\noffline = true\n' > /tmp/covharness/.cargo/config.toml
printf '[toolchain]\nchannel = "nightly"\n' > /tmp/covharness/rust-toolchain.toml
rm -f /tmp/cov/raw/*.profraw
( cd /tmp/covharness && LLVM_PROFILE_FILE=/tmp/cov/raw/build-%p-%m.profraw cargo build --release --offline 2>&1 | tail -1 )
rm -f /tmp/cov/raw/*.profraw /repo/*.profraw
for P in "$@"; do
  ( cd /verif && LLVM_PROFILE_FILE=/tmp/cov/raw/$P-%p-%m.profraw VERIF_HARNESS_DIR=/tmp/covharness VERIF_EVID_DIR=/tmp/cov/evid \
      VERIF_REPLAY_DIR=/tmp/cov/replays ./check $P --tier "${TIER:-quick}" 2>&1 | tail -n 1 )
done
$LL/llvm-profdata merge -sparse /tmp/cov/raw/*.profraw -o /tmp/cov/all.profdata
$LL/llvm-cov report /tmp/covharness/target/release/rlharness -instr-profile=/tmp/cov/all.profdata \
   --ignore-filename-regex='(\.cargo|rustc|/tmp/covharness|verif_hooks|_py\.rs|named/[a-z]+\.rs)' 2>/dev/null | cut -c1-170
$LL/llvm-cov show /tmp/covharness/target/release/rlharness -instr-profile=/tmp/cov/all.profdata \
   --ignore-filename-regex='(\.cargo|rustc|/tmp/covharness|verif_hooks|_py\.rs|named/[a-z]+\.rs)' --show-line-counts-or-regions > /tmp/cov/show.txt 2>/dev/null
rm -f /repo/*.profraw
