#!/usr/bin/env python3
"""Rewrites the table between <!--SEEDTABLE--> markers of DESIGN.md from seeded/*/{meta,detection}.json and
harmless/*/{meta,detection}.json."""
import json, os, re, glob
ROOT = os.path.dirname(os.path.dirname(os.path.abspath(__file__)))

def first_sentence(s, n=230):
    s = " ".join(s.split())
    return s[:n] + ("..." if len(s) > n else "")

rows = ["| seed | property | change (file) | needs to manifest | detected by (quick tier) | how reported |", "|---|---|---|---|---|---|"]
for d in sorted(glob.glob(os.path.join(ROOT, "seeded", "*"))):
    name = os.path.basename(d)
    try:
        meta = json.load(open(os.path.join(d, "meta.json")))
    except OSError:
        continue
    patch = open(os.path.join(d, "patch.diff")).read()
    files = sorted(set(re.findall(r"^\+\+\+ b/(\S+)", patch, re.M)))
    det = {}
    if os.path.exists(os.path.join(d, "detection.json")):
        det = json.load(open(os.path.join(d, "detection.json")))["checks"]
    need = meta.get("summary") or first_sentence(meta.get("needs_to_manifest", ""))
    dets = ", ".join("%s: %s" % (k, "DETECTED" if v["detected"] else "missed") for k, v in sorted(det.items())) or "not run"
    how = "; ".join(first_sentence(v.get("what", ""), 160) for k, v in sorted(det.items()) if v.get("detected"))
    rows.append("| %s | %s | %s | %s | %s | %s |" % (name, meta.get("property"), ", ".join(files), need.replace("|", "/"), dets, how.replace("|", "/")))
rows.append("")
rows.append("| harmless refactoring | files | checks run with it applied | verdicts |")
rows.append("|---|---|---|---|")
for d in sorted(glob.glob(os.path.join(ROOT, "harmless", "*"))):
    name = os.path.basename(d)
    patch = open(os.path.join(d, "patch.diff")).read()
    files = sorted(set(re.findall(r"^\+\+\+ b/(\S+)", patch, re.M)))
    det = {}
    if os.path.exists(os.path.join(d, "detection.json")):
        det = json.load(open(os.path.join(d, "detection.json")))["checks"]
    rows.append("| %s | %s | %s | %s |" % (name, ", ".join(files), ", ".join(sorted(det)),
                ", ".join("%s: %s" % (k, "quiet (exit 0)" if v["exit"] == 0 else "ALARM") for k, v in sorted(det.items())) or "not run"))
table = "\n".join(rows)
p = os.path.join(ROOT, "DESIGN.md")
s = open(p).read()
if "<!--SEEDTABLE-->" in s:
    s = re.sub(r"<!--SEEDTABLE-->.*?<!--/SEEDTABLE-->", lambda m: "<!--SEEDTABLE-->\n" + table + "\n<!--/SEEDTABLE-->", s, flags=re.S)
else:
    s = s.replace("SEEDTABLE\n", "<!--SEEDTABLE-->\n" + table + "\n<!--/SEEDTABLE-->\n", 1)
open(p, "w").write(s)
print(table[:3000])
