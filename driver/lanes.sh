#!/bin/bash
# Parallel regression of seeded / harmless patches on SCRATCH copies (never touches /repo or the committed evidence):
#   driver/lanes.sh <nlanes> <source-verif-dir> <outfile> <item> ...
#   item = <root>:<name>[:<Cxx>,<Cxx>...]     root = seeded | harmless ; default property = meta.json's
# Each lane owns /tmp/lanes/<i>/verif (rsync of the source tree), /tmp/lanes/<i>/repo (git worktree of /repo at HEAD) and
# a harness built against that worktree; it applies one patch at a time to ITS worktree, runs the registered quick check
# from ITS copy of the tree, reverts.  One line per (item, property) is appended to <outfile>:
#   <name> <Cxx> exit=<rc> <first VIOLATION / OK line>
# With RECORD=1 the verdicts are also written to <root>/<name>/detection.json of /verif (field run_against = "scratch worktree").
set -u
N=$1; SRC=$2; OUT=$3; shift 3
ITEMS=("$@")
: > "$OUT"
mkdir -p ${LANEROOT:-/tmp/lanes}
lane() {
  local i=$1; shift
  local L=${LANEROOT:-/tmp/lanes}/$i
  mkdir -p "$L"
  rsync -a --delete --exclude .git --exclude .work "$SRC"/ "$L/verif/"
  if [ ! -d "$L/repo" ]; then git -C /repo worktree add --detach "$L/repo" HEAD >/dev/null 2>&1; fi
  git -C "$L/repo" checkout -- . ; git -C "$L/repo" checkout --detach "$(git -C /repo rev-parse HEAD)" >/dev/null 2>&1
  sed -i "s#path = \"/repo\"#path = \"$L/repo\"#" "$L/verif/harness/Cargo.toml"
  export VERIF_REPO=$L/repo VERIF_EVID_DIR=$L/evidence VERIF_REPLAY_DIR=$L/replays CARGO_NET_OFFLINE=true
  mkdir -p "$VERIF_EVID_DIR" "$VERIF_REPLAY_DIR"
  for it in "$@"; do
    IFS=: read -r root name props <<< "$it"
    local SD=/verif/$root/$name
    [ -n "${props:-}" ] || props=$(python3 -c "import json;print(json.load(open('$SD/meta.json'))['property'])")
    git -C "$L/repo" apply "$SD/patch.diff" || { echo "$name - exit=2 patch does not apply" >> "$OUT"; continue; }
    for P in ${props//,/ }; do
      ( cd "$L/verif" && ./check "$P" --tier quick > "$L/$name.$P.log" 2>&1 ); rc=$?
      line=$(grep -m1 -E "^VIOLATION|^CHECK-ERROR|Traceback" "$L/$name.$P.log" || grep -m1 "^OK" "$L/$name.$P.log" || echo "?")
      what=""
      rp=$(echo "$line" | sed -n 's/.*replay=\([^ ]*\).*/\1/p')
      [ -n "$rp" ] && [ -f "$rp" ] && what=$(python3 -c "import json;print(json.load(open('$rp')).get('what','')[:600].replace('\n',' '))")
      echo "$name $P exit=$rc $line" >> "$OUT"
      if [ "${RECORD:-0}" = 1 ]; then
        python3 - "$SD" "$P" "$rc" "$line" "$what" <<'PY'
import json, sys, os, subprocess
sd, p, rc, line, what = sys.argv[1:6]
f = os.path.join(sd, "detection.json")
d = json.load(open(f)) if os.path.exists(f) else {"tier": "quick", "checks": {}}
d["verif_commit"] = subprocess.run("git -C /verif rev-parse --short HEAD", shell=True, capture_output=True, text=True).stdout.strip()
d["repo_commit"] = subprocess.run("git -C /repo rev-parse --short HEAD", shell=True, capture_output=True, text=True).stdout.strip()
d["run_against"] = "scratch worktree of /repo at repo_commit (driver/lanes.sh)"
d.setdefault("checks", {})[p] = {"exit": int(rc), "violation_line": line if line.startswith("VIOLATION") else "", "what": what,
                                 "detected": int(rc) == 1 and line.startswith("VIOLATION"),
                                 "with_failing_input": "no-failing-input-found" not in line}
json.dump(d, open(f, "w"), indent=1)
PY
      fi
    done
    git -C "$L/repo" checkout -- .
  done
}
# deal the items round-robin
for ((i = 0; i < N; i++)); do
  mine=()
  for ((j = i; j < ${#ITEMS[@]}; j += N)); do mine+=("${ITEMS[$j]}"); done
  [ ${#mine[@]} -gt 0 ] && lane "$i" "${mine[@]}" &
done
wait
sort -o "$OUT" "$OUT"
echo "done: $(wc -l < "$OUT") verdicts in $OUT"
