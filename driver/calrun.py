"""Runs calendar cases on both sides (Rust harness `cal`, Coq Run.RunCal) and compares."""
from common import *  # noqa
import calgen

MODS = ["Act", "F", "ModF", "P", "ModP"]
OPNAME = {0: "is_bus_day", 1: "is_settlement", 2: "is_weekday", 3: "is_holiday", 10: "roll", 11: "add_bus_days",
          12: "lag", 13: "add_days", 14: "add_months", 15: "bus_date_range", 20: "==", 21: "construct",
          30: "is_bus_day/is_settlement over a date range", 31: "roll (5 modifiers x 2 flags) over a date range",
          32: "add_bus_days/lag/add_days over the whole i8 range",
          40: "roll from a datetime with a time of day", 44: "predicates at a datetime with a time of day",
          41: "add_bus_days from a datetime with a time of day", 42: "lag from a datetime with a time of day",
          43: "add_days from a datetime with a time of day"}


def singles_of(enc, op, args):
    """The single-evaluation cases a hashed range case stands for."""
    out = []
    if op == 30:
        for d in range(args[0], args[0] + args[1]):
            out.append((enc, 0, [d]))
            out.append((enc, 1, [d]))
    elif op == 31:
        for d in range(args[0], args[0] + args[1]):
            for m in range(5):
                for s in range(2):
                    out.append((enc, 10, [d, m, s]))
    elif op == 32:
        for n in range(-128, 128):
            for s in range(2):
                out.append((enc, 11, [args[0], n, s]))
                out.append((enc, 12, [args[0], n, s]))
                out.append((enc, 13, [args[0], n, args[1], s]))
    return out


def weight(op, args):
    if op == 30:
        return 2 * args[1]
    if op == 31:
        return 10 * args[1]
    if op == 32:
        return 256 * 6
    return 1


def describe(enc, op, args):
    a = list(args)
    if op in (0, 1, 2, 3):
        return "%s(%s)" % (OPNAME[op], calgen.fmt_date(a[0]))
    if op == 10:
        return "roll(%s, %s, settlement=%s)" % (calgen.fmt_date(a[0]), MODS[a[1]], bool(a[2]))
    if op in (11, 12):
        return "%s(%s, %d, settlement=%s)" % (OPNAME[op], calgen.fmt_date(a[0]), a[1], bool(a[2]))
    if op == 40:
        return "roll(%s + %ds, %s, settlement=%s)" % (calgen.fmt_date(a[0]), a[3], MODS[a[1]], bool(a[2]))
    if op == 44:
        return "is_bus_day/is_settlement/is_weekday/is_holiday(%s + %ds)" % (calgen.fmt_date(a[0]), a[1])
    if op in (41, 42):
        return "%s(%s + %ds, %d, settlement=%s)" % ({41: "add_bus_days", 42: "lag"}[op], calgen.fmt_date(a[0]), a[3], a[1], bool(a[2]))
    if op == 43:
        return "add_days(%s + %ds, %d, %s, settlement=%s)" % (calgen.fmt_date(a[0]), a[4], a[1], MODS[a[2]], bool(a[3]))
    if op == 13:
        return "add_days(%s, %d, %s, settlement=%s)" % (calgen.fmt_date(a[0]), a[1], MODS[a[2]], bool(a[3]))
    if op == 14:
        return "add_months(%s, %d, %s, roll=(%d,%d), settlement=%s)" % (calgen.fmt_date(a[0]), a[1], MODS[a[2]], a[3], a[4], bool(a[5]))
    if op == 15:
        return "bus_date_range(%s, %s)" % (calgen.fmt_date(a[0]), calgen.fmt_date(a[1]))
    return "%s %s" % (OPNAME.get(op, op), a)


def run_cases(ctx, cases, shard=150, nontrivial=None):
    """cases: list of (enc, op, args). Returns number of disagreements."""
    full = [list(enc) + [op] + list(args) for enc, op, args in cases]
    impl = run_harness("cal", [calgen.line(c) for c in full])
    # kinds 10-13 = the same calendars RESTORED FROM A SAVED DOCUMENT in the implementation; the model knows one calendar
    full = [model_case(c) for c in full]
    # heavy cases (ranges, eq) get small shards
    heavy = [i for i, (e, op, a) in enumerate(cases) if op in (20, 30, 31, 32, 15)]
    light = [i for i in range(len(cases)) if i not in set(heavy)]
    model = [None] * len(cases)
    for idx, shsz, tag in ((heavy, max(1, min(20, len(heavy) // (NCPU * 2) + 1)), "h"), (light, shard, "l")):
        res = coq_eval("Run.RunCal", "runCal", [full[i] for i in idx], ctx.work, shard=shsz, tag="cal" + tag)
        for i, r in zip(idx, res):
            model[i] = r
    nbad = 0
    for (enc, op, args), a, b in zip(cases, impl, model):
        ctx.evaluations += weight(op, args)
        ctx.count(OPNAME.get(op, str(op)))
        if nontrivial is not None and nontrivial(enc, op, args, a):
            ctx.nontriv((tuple(enc), op, tuple(args)))
        if a == b:
            continue
        nbad += 1
        e2, o2, a2, ia, ib = enc, op, args, a, b
        if op in (30, 31, 32) and nbad <= 4:      # drill down to the date for the first few mismatches only
            sing = singles_of(enc, op, args)
            fs = [list(e) + [o] + list(x) for e, o, x in sing]
            sa = run_harness("cal", [calgen.line(c) for c in fs])
            sb = coq_eval("Run.RunCal", "runCal", [model_case(c) for c in fs], ctx.work, shard=200, tag="drill")
            for (e, o, x), p, q in zip(sing, sa, sb):
                if p != q:
                    e2, o2, a2, ia, ib = e, o, x, p, q
                    break
        if nbad > 25:
            continue
        ctx.violation(
            "the implementation disagrees with the proved model on %s: implementation %s, model %s "
            "(0 v = Ok v as day number, 1 = Err, 2 = abort)" % (describe(e2, o2, a2), fmt_out(ia, o2), fmt_out(ib, o2)),
            {"calendar_encoding": list(e2), "op": o2, "op_name": OPNAME.get(o2), "args": list(a2),
             "implementation": ia, "model": ib,
             "harness_cmd": "echo '%s' | harness/target/release/rlharness cal" % calgen.line(list(e2) + [o2] + list(a2))})
    return nbad


def _skip_cal(c, i):
    """index just after the calendar encoding starting at c[i]; rewrites document-loaded kinds in place"""
    k = c[i]
    if k >= 10:
        k -= 10
        c[i] = k
    i += 1
    if k in (4, 5):
        return i + 1 + c[i]

    def one(i):
        i += 1 + c[i]
        return i + 1 + c[i]
    if k in (0, 3):
        return one(i)
    n = c[i]
    i += 1
    for _ in range(n):
        i = one(i)
    hs = c[i]
    i += 1
    if hs == 1:
        n = c[i]
        i += 1
        for _ in range(n):
            i = one(i)
    return i


def model_case(c):
    """the case as the model sees it: a calendar restored from a document (kinds 10-13) is the calendar (kinds 0-3)"""
    c = list(c)
    if not c:
        return c
    try:
        i = _skip_cal(c, 0)
        if i < len(c) and c[i] == 20:
            _skip_cal(c, i + 1)
    except IndexError:
        pass
    return c


def fmt_out(o, op=None):
    if op in (0, 1, 2, 3, 20) and len(o) == 1 and o[0] in (0, 1):
        return "true" if o[0] == 1 else "false"
    if len(o) == 2 and o[0] == 0 and -200000 < o[1] < 200000:
        return "Ok(%s)" % calgen.fmt_date(o[1])
    if o == [1]:
        return "Err"
    if o == [2]:
        return "ABORT"
    return str(o[:12])


def replay_case(ctx, rp):
    build_harness()
    build_coq(["theories/Run/RunCal.vo"])
    c = list(rp["calendar_encoding"]) + [rp["op"]] + list(rp["args"])
    a = run_harness("cal", [calgen.line(c)])[0]
    b = coq_eval("Run.RunCal", "runCal", [model_case(c)], ctx.work)[0]
    print("replay %s: implementation %s model %s" % (describe(rp["calendar_encoding"], rp["op"], rp["args"]), fmt_out(a), fmt_out(b)))
    ctx.cleanup()
    return 0 if a == b else 1
