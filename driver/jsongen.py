"""Shared by the C16 / C20 checks: the integer encodings of JSON trees and of objects (mirror of
harness/src/json.rs and coq/theories/Run/RunJson.v), a tolerant JSON-text -> tree reader that keeps
key order and repeated keys, seeded generators of objects of every serialisable type, and the
structured mutator over valid documents.

Python-side tree:  None | bool | int | float | str | Date(d) | list | Obj([(key, value)...]),
key = str | int (an int key stands for the object key spelling that integer)."""
import json
import re
import struct

from calgen import dn, fmt_date

KINDS = ["Dual", "Dual2", "Cal", "UnionCal", "NamedCal", "FXRates", "Curve", "PPSplineF64", "PPSplineDual",
         "PPSplineDual2"]
CONVS = ["One", "OnePlus", "Act365F", "Act365FPlus", "Act360", "ThirtyE360", "Thirty360", "Thirty360ISDA",
         "ActActISDA", "ActActICMA", "Bus252"]
MODS = ["Act", "F", "ModF", "P", "ModP"]
RULES = ["LogLinear", "Linear", "LinearZeroRate", "FlatForward", "FlatBackward", "Null"]


class Date:
    __slots__ = ("d",)

    def __init__(self, d):
        self.d = d

    def __eq__(self, o):
        return isinstance(o, Date) and o.d == self.d

    def __repr__(self):
        return "Date(%s)" % fmt_date(self.d)


class Obj:
    __slots__ = ("kv",)

    def __init__(self, kv):
        self.kv = list(kv)

    def __eq__(self, o):
        return isinstance(o, Obj) and o.kv == self.kv

    def __repr__(self):
        return "{" + ", ".join("%r: %r" % (k, v) for k, v in self.kv) + "}"

    def get(self, k):
        for a, b in self.kv:
            if a == k:
                return b
        return None


def f2b(x):
    return struct.unpack("<Q", struct.pack("<d", x))[0]


def b2f(b):
    return struct.unpack("<d", struct.pack("<Q", b))[0]


# ---------------------------------------------------------------------------------------------- trees
def enc_tree(t):
    if t is None:
        return [0]
    if isinstance(t, bool):
        return [1, int(t)]
    if isinstance(t, int):
        return [2, t]
    if isinstance(t, float):
        return [3, f2b(t)]
    if isinstance(t, str):
        return [4, len(t)] + [ord(c) for c in t]
    if isinstance(t, Date):
        return [7, t.d]
    if isinstance(t, list):
        o = [5, len(t)]
        for x in t:
            o += enc_tree(x)
        return o
    if isinstance(t, Obj):
        o = [6, len(t.kv)]
        for k, v in t.kv:
            if isinstance(k, int):
                o += [1, k]
            else:
                o += [0, len(k)] + [ord(c) for c in k]
            o += enc_tree(v)
        return o
    raise ValueError("bad tree %r" % (t,))


def dec_tree(a, i=0):
    """inverse of enc_tree on the model's output; returns (tree, next index)"""
    tag = a[i]
    if tag == 0:
        return None, i + 1
    if tag == 1:
        return bool(a[i + 1]), i + 2
    if tag == 2:
        return a[i + 1], i + 2
    if tag == 3:
        return b2f(a[i + 1]), i + 2
    if tag == 4:
        n = a[i + 1]
        return "".join(chr(c) for c in a[i + 2:i + 2 + n]), i + 2 + n
    if tag == 7:
        return Date(a[i + 1]), i + 2
    if tag == 5:
        n = a[i + 1]
        i += 2
        out = []
        for _ in range(n):
            x, i = dec_tree(a, i)
            out.append(x)
        return out, i
    if tag == 6:
        n = a[i + 1]
        i += 2
        kv = []
        for _ in range(n):
            if a[i] == 0:
                m = a[i + 1]
                k = "".join(chr(c) for c in a[i + 2:i + 2 + m])
                i += 2 + m
            else:
                k = a[i + 1]
                i += 2
            v, i = dec_tree(a, i)
            kv.append((k, v))
        return Obj(kv), i
    raise ValueError("bad tag %s" % tag)


_DATE = re.compile(r"^(\d{4})-(\d\d)-(\d\d)T00:00:00$")
_INTKEY = re.compile(r"^-?(0|[1-9][0-9]*)$")


def of_python(v):
    """json.loads(.., object_pairs_hook=list-of-pairs) value -> tree"""
    if isinstance(v, _Pairs):
        kv = []
        for k, x in v.items_:
            kk = int(k) if _INTKEY.match(k) else k
            kv.append((kk, of_python(x)))
        return Obj(kv)
    if isinstance(v, list):
        return [of_python(x) for x in v]
    if isinstance(v, str):
        m = _DATE.match(v)
        if m:
            try:
                return Date(dn(int(m.group(1)), int(m.group(2)), int(m.group(3))))
            except Exception:
                return v
        return v
    return v


class _Pairs:
    def __init__(self, items):
        self.items_ = items


def parse_text(s):
    return of_python(json.loads(s, object_pairs_hook=_Pairs))


def canon(t, key=None):
    """order-insensitive parts: a HashSet is written in arbitrary order, and the order in which a struct's fields
    (or a map's keys) are written is not part of any property - the loader accepts every order - so objects are
    compared as key -> value maps (keys sorted; a repeated key stays repeated)"""
    if isinstance(t, Obj):
        if key in (None, "NamedCal") and len(t.kv) == 1 and t.kv[0][0] == "name" and isinstance(t.kv[0][1], str):
            # the SPELLING under which a named calendar keeps its name is not part of any property (C06: "regardless of
            # letter case"; the loader lower-cases before parsing): compared case-insensitively
            return Obj([("name", of_python(t.kv[0][1].lower()))])
        return Obj(sorted(((k, canon(v, k)) for k, v in t.kv), key=lambda kv: (isinstance(kv[0], str), str(kv[0]) if isinstance(kv[0], str) else kv[0])))
    if isinstance(t, list):
        l = [canon(x, "@element") for x in t]
        if key in ("week_mask", "holidays"):
            # sets: a HashSet is written in arbitrary order; the ORDER in which a calendar lists its holidays (supply order,
            # sorted, ...) is not part of any property - membership is
            l = sorted(l, key=repr)
        return l
    if isinstance(t, str):
        return of_python(t)           # a string spelling a date is the same leaf on both sides
    return t


def show(t, limit=400):
    def go(t):
        if isinstance(t, Obj):
            return "{" + ",".join(json.dumps(str(k)) + ":" + go(v) for k, v in t.kv) + "}"
        if isinstance(t, list):
            return "[" + ",".join(go(x) for x in t) + "]"
        if isinstance(t, Date):
            return json.dumps(fmt_date(t.d) + "T00:00:00")
        if isinstance(t, float):
            return repr(t)
        return json.dumps(t)
    s = go(t)
    return s if len(s) <= limit else s[:limit] + "..."


def text_of_out(o, i):
    """harness text field at index i: n bytes -> (str, next)"""
    n = o[i]
    if n < 0:
        return None, i + 1
    return bytes(o[i + 1:i + 1 + n]).decode("utf-8", "replace"), i + 1 + n


# ---------------------------------------------------------------------------------------------- floats
SAFE = [0.0, 1.0, -1.0, 0.5, 2.5, -0.25, 1.08, 0.99, 110.0, 1e-3, 12345.678, -7.125, 3.0, 0.98, 250.0, 1.5e10, 6.25e-5]


def safe_float(rng):
    if rng.random() < 0.5:
        return rng.choice(SAFE)
    return rng.randint(-99999, 99999) / rng.choice([1, 2, 4, 8, 10, 100, 1000])


def full_float(rng):
    """uniform over the bit patterns of finite doubles (mostly huge / tiny magnitudes) mixed with
    full-precision doubles of ordinary magnitude"""
    r = rng.random()
    if r < 0.35:
        while True:
            b = rng.getrandbits(64)
            if (b >> 52) & 0x7FF != 0x7FF:
                return b2f(b)
    if r < 0.8:
        return rng.uniform(-2.0, 2.0) * 10 ** rng.randint(-3, 4)
    if r < 0.9:
        return rng.random()
    return rng.choice(SAFE)


NAMES = ["x", "y", "z", "v0", "v1", "fx_eurusd", "rate", "a b", "q\"t", "é", "crv0", "crv1", "K", "K", "w\\", "日本", "tab\tx"]


NAMES_DISTINCT = list(dict.fromkeys(NAMES))


def gen_names(rng, n):
    return rng.sample(NAMES, n)


def enc_name(s):
    return [len(s)] + [ord(c) for c in s]


def enc_names(l):
    o = [len(l)]
    for s in l:
        o += enc_name(s)
    return o


# ---------------------------------------------------------------------------------------------- objects
def gen_dual(rng, fl, nmax=4):
    n = rng.randint(0, nmax)
    vars_ = gen_names(rng, n)
    return enc_names(vars_) + [f2b(fl(rng))] + [f2b(fl(rng)) for _ in range(n)]


def gen_dual2(rng, fl, nmax=3):
    n = rng.randint(0, nmax)
    vars_ = gen_names(rng, n)
    return enc_names(vars_) + [f2b(fl(rng))] + [f2b(fl(rng)) for _ in range(n)] + [f2b(fl(rng)) for _ in range(n * n)]


def gen_number(rng, fl, kinds=(0, 1, 2)):
    k = rng.choice(kinds)
    if k == 0:
        return [0, f2b(fl(rng))]
    if k == 1:
        return [1] + gen_dual(rng, fl, 2)
    return [2] + gen_dual2(rng, fl, 2)


def gen_cal(rng):
    mask = rng.sample(range(7), rng.choice([0, 1, 2, 2, 2, 3, 6]))
    lo, hi = dn(1999, 1, 1), dn(2031, 12, 31)
    hols = rng.sample(range(lo, hi), rng.choice([0, 1, 3, 8, 15, 15, 40]))
    if hols and rng.random() < 0.3:
        # special dates: 29 February, month / year ends, the ends of the supported range
        hols += [d for d in rng.sample([dn(2000, 2, 29), dn(2024, 2, 29), dn(2023, 12, 31), dn(2024, 1, 1), dn(1970, 1, 1),
                                        dn(2200, 12, 31), dn(2024, 4, 30), dn(2025, 2, 28)], 3) if d not in hols]
    return [len(mask)] + mask + [len(hols)] + hols


def gen_union(rng):
    nc = rng.randint(0, 3)
    o = [nc]
    for _ in range(nc):
        o += gen_cal(rng)
    if rng.random() < 0.5:
        ns = rng.randint(0, 2)
        o += [1, ns]
        for _ in range(ns):
            o += gen_cal(rng)
    else:
        o += [0]
    return o


NAMED = ["tgt", "ldn,tgt|fed", "nyc", "bus", "all", "tyo,syd|nyc", "stk,osl", "mum|tgt,ldn", "TGT,Ldn|FED", "fed", "wlg",
         "sKk"[0:0] + "stK"]
CCYS = ["usd", "eur", "gbp", "jpy", "nok", "sek", "brl", "cad", "USD", "Eur"]


def gen_fx(rng, fl):
    n = rng.randint(2, 5)
    pool = ["usd", "eur", "gbp", "jpy", "nok", "sek", "brl", "cad"]
    cs = rng.sample(pool, n)
    kinds = rng.choice([(0,), (0,), (1,), (2,), (0, 1), (0, 2)])
    settle = rng.choice([None, None, dn(2004, 1, 1), dn(2024, 6, 19)])
    o = [n - 1]
    quoted = []
    for i in range(1, n):
        a, b = cs[rng.randrange(i)], cs[i]
        if rng.random() < 0.5:
            a, b = b, a
        if rng.random() < 0.2:
            a = a.upper()
        x = abs(fl(rng)) or 1.0
        num = gen_number(rng, lambda r, x=x: x if r.random() < 0.6 else abs(fl(r)) or 1.5, kinds)
        o += enc_name(a) + enc_name(b) + num + ([1, settle] if settle is not None else [0])
        quoted.append((a, b, settle))
    if rng.random() < 0.5:
        o += [1] + enc_name(rng.choice(cs))
    else:
        o += [0]
    o += [rng.choice([0, 1, 1, 2])]
    # history: 40% of the markets are re-marked through `update` (1..n-1 of their own pairs, new values, sometimes
    # with the pair given the other way round = refused) before they are saved
    upd = []
    if rng.random() < 0.4:
        for (a, b, st) in rng.sample(quoted, rng.randint(1, len(quoted))):
            x = abs(fl(rng)) or 1.25
            num = gen_number(rng, lambda r, x=x: x, kinds)
            upd.append(enc_name(a) + enc_name(b) + num + ([1, st] if st is not None else [0]))
    o += [len(upd)]
    for u in upd:
        o += u
    return o


def gen_caltype(rng):
    k = rng.choice([0, 1, 2, 2])
    if k == 0:
        return [0] + gen_cal(rng)
    if k == 1:
        return [1] + gen_union(rng)
    return [2] + enc_name(rng.choice(NAMED))


def gen_curve(rng, fl):
    nk = rng.choice([0, 0, 1, 2])
    nn = rng.choice([1, 2, 2, 3, 4, 5, 6, 6, 11, 13, 17])
    lo, hi = dn(2000, 1, 1), dn(2040, 1, 1)
    days = rng.sample(range(lo, hi), nn)
    if rng.random() < 0.7:
        days.sort()
    o = [nk, nn]
    # three curves in ten carry ONE variable set on every node, each node listing it in its own order (as x*y and y*x do)
    common = rng.sample(NAMES_DISTINCT, rng.randint(2, 4)) if (nk and rng.random() < 0.3) else None
    for d in days:
        o += [d]
        v = abs(fl(rng)) or 0.5
        if nk == 0:
            o += [f2b(v)]
        elif common is not None:
            vs = list(common)
            if rng.random() < 0.6:
                rng.shuffle(vs)
            n = len(vs)
            o += enc_names(vs) + [f2b(v if rng.random() < 0.4 else fl(rng))] + [f2b(fl(rng)) for _ in range(n)]
            if nk == 2:
                o += [f2b(fl(rng)) for _ in range(n * n)]
        elif nk == 1:
            o += gen_dual(rng, lambda r, v=v: v if r.random() < 0.4 else fl(r), 2)
        else:
            o += gen_dual2(rng, lambda r, v=v: v if r.random() < 0.4 else fl(r), 2)
    o += [rng.randrange(6)] + enc_name(rng.choice(["crv", "v", "eur_ois", "a b", ""]))
    o += [rng.randrange(11), rng.randrange(5)]
    if rng.random() < 0.4:
        o += [1, f2b(abs(fl(rng)) or 100.0)]
    else:
        o += [0]
    return o + gen_caltype(rng)


def gen_spline(rng, fl, kind):
    k = rng.randint(1, 4)
    nint = rng.randint(1, 4)
    xs = sorted(set(round(safe_float(rng), 3) for _ in range(nint + 1)))
    while len(xs) < 2:
        xs.append(xs[-1] + 1.0)
    if rng.random() < 0.5:
        xs = [float(i) for i in range(len(xs))]
    t = [xs[0]] * (k - 1) + xs + [xs[-1]] * (k - 1)
    if fl is not safe_float and rng.random() < 0.5:
        t = sorted(abs(fl(rng)) for _ in t)
    n = len(t) - k
    o = [k, len(t)] + [f2b(x) for x in t]
    if rng.random() < 0.7:
        nc = n if rng.random() < 0.85 else max(0, n + rng.choice([-1, 1]))
        o += [1, nc]
        for _ in range(nc):
            if kind == 7:
                o += [f2b(fl(rng))]
            elif kind == 8:
                o += gen_dual(rng, fl, 2)
            else:
                o += gen_dual2(rng, fl, 2)
    else:
        o += [0]
    return o


def gen_obj(rng, kind, fl=safe_float):
    if kind == 0:
        return [0] + gen_dual(rng, fl)
    if kind == 1:
        return [1] + gen_dual2(rng, fl)
    if kind == 2:
        return [2] + gen_cal(rng)
    if kind == 3:
        return [3] + gen_union(rng)
    if kind == 4:
        return [4] + enc_name(rng.choice(NAMED))
    if kind == 5:
        return [5] + gen_fx(rng, fl)
    if kind == 6:
        return [6] + gen_curve(rng, fl)
    return [kind] + gen_spline(rng, fl, kind)


# ---------------------------------------------------------------------------------------------- mutator
def paths(t, p=()):
    """all positions: (path, subtree); a path is a tuple of indices into list / Obj.kv"""
    out = [(p, t)]
    if isinstance(t, list):
        for i, x in enumerate(t):
            out += paths(x, p + (i,))
    elif isinstance(t, Obj):
        for i, (k, v) in enumerate(t.kv):
            out += paths(v, p + (i,))
    return out


def get_at(t, p):
    for i in p:
        t = t[i] if isinstance(t, list) else t.kv[i][1]
    return t


def set_at(t, p, new):
    if not p:
        return new
    i = p[0]
    if isinstance(t, list):
        l = list(t)
        l[i] = set_at(t[i], p[1:], new)
        return l
    kv = list(t.kv)
    kv[i] = (kv[i][0], set_at(kv[i][1], p[1:], new))
    return Obj(kv)


SCALARS = [None, True, 0, 1, -1, 3, 2.5, "", "zz", "Mon", "usd", [], Obj([]), Date(19000), 256, "bad"]
TAGS = KINDS + ["F64", "Foo", "Linear", "Null", "Cal", "NamedCal"]

MUTATIONS = ["delete", "duplicate", "retype", "length", "empty", "calname", "variant", "tag", "shuffle", "swapnodes",
             "ccy", "intfield", "dropfirst", "extrakey", "asarray", "reshape", "reshape", "resize"]


def mutate(rng, t):
    """one structured mutation; returns (tree, label) (label None = no applicable site)"""
    ps = paths(t)
    kind = rng.choice(MUTATIONS)
    objs = [(p, s) for p, s in ps if isinstance(s, Obj) and s.kv]
    arrs = [(p, s) for p, s in ps if isinstance(s, list)]
    if kind == "delete" and objs:
        p, s = rng.choice(objs)
        i = rng.randrange(len(s.kv))
        return set_at(t, p, Obj(s.kv[:i] + s.kv[i + 1:])), "delete field %r" % (s.kv[i][0],)
    if kind == "duplicate" and objs:
        p, s = rng.choice(objs)
        i = rng.randrange(len(s.kv))
        k, v = s.kv[i]
        j = rng.randrange(len(s.kv) + 1)
        return set_at(t, p, Obj(s.kv[:j] + [(k, v)] + s.kv[j:])), "duplicate field %r" % (k,)
    if kind == "retype":
        p, s = rng.choice(ps[1:]) if len(ps) > 1 else ps[0]
        new = rng.choice(SCALARS)
        return set_at(t, p, new), "retype %s -> %s" % (type(s).__name__, show(new, 30))
    if kind == "length" and arrs:
        p, s = rng.choice(arrs)
        if s and rng.random() < 0.5:
            i = rng.randrange(len(s))
            return set_at(t, p, s[:i] + s[i + 1:]), "drop array element"
        if s:
            i = rng.randrange(len(s))
            return set_at(t, p, s[:i] + [s[i]] + s[i:]), "repeat array element"
        return set_at(t, p, [rng.choice(SCALARS)]), "add array element"
    if kind == "empty" and arrs:
        p, s = rng.choice(arrs)
        return set_at(t, p, []), "empty a list"
    if kind == "calname":
        sites = [(p, s) for p, s in objs if s.get("name") is not None and isinstance(s.get("name"), str)
                 and len(s.kv) == 1 and p and _parent_key(t, p) == "NamedCal"]
        if sites:
            p, s = rng.choice(sites)
            nm = rng.choice(["bad", "tgt,zzz", "tgt|ldn|fed", "", "TGT", "ldn,", "nyc|", "Tgt,LDN", "\u0130|tgt", "tgt,st\u212a|fed",
                             "st\u212a,st\u212a|", "\u212a\u212a|\u0130"])
            return set_at(t, p, Obj([("name", nm)])), "calendar name %r" % nm
    if kind == "variant":
        sites = [(p, s) for p, s in objs if len(s.kv) == 1 and isinstance(s.kv[0][0], str) and s.kv[0][0] in TAGS + CONVS]
        strs = [(p, s) for p, s in ps if isinstance(s, str) and (s in CONVS or s in MODS)]
        if strs and rng.random() < 0.4:
            p, s = rng.choice(strs)
            new = rng.choice(["Foo", "act360", "ModF", "Act360", "F", ""])
            return set_at(t, p, new), "enum string %r -> %r" % (s, new)
        if sites:
            p, s = rng.choice(sites)
            new = rng.choice(["Foo", "F64", "Dual", "Dual2", "Linear", "Null", "Cal", "UnionCal", "NamedCal", "linear"])
            return set_at(t, p, Obj([(new, s.kv[0][1])])), "variant %r -> %r" % (s.kv[0][0], new)
    if kind == "tag" and isinstance(t, Obj) and len(t.kv) == 1:
        new = rng.choice(KINDS + ["Foo"])
        return Obj([(new, t.kv[0][1])]), "top tag %r -> %r" % (t.kv[0][0], new)
    if kind == "shuffle" and objs:
        p, s = rng.choice(objs)
        kv = list(s.kv)
        rng.shuffle(kv)
        return set_at(t, p, Obj(kv)), "shuffle keys"
    if kind == "swapnodes":
        sites = [(p, s) for p, s in objs if len(s.kv) >= 2 and all(isinstance(k, int) for k, _ in s.kv)]
        if sites:
            p, s = rng.choice(sites)
            kv = list(s.kv)
            i, j = rng.sample(range(len(kv)), 2)
            if rng.random() < 0.5:
                kv[i], kv[j] = kv[j], kv[i]
                return set_at(t, p, Obj(kv)), "swap two node entries"
            kv[i] = (kv[j][0], kv[i][1])
            return set_at(t, p, Obj(kv)), "repeat a node key"
    if kind == "ccy":
        sites = [(p, s) for p, s in objs if len(s.kv) == 1 and s.kv[0][0] == "name" and isinstance(s.kv[0][1], str)
                 and len(s.kv[0][1]) == 3]
        if sites:
            p, s = rng.choice(sites)
            new = rng.choice(["usdx", "us", "USD", "eur", "jpy", "", "é1"])
            return set_at(t, p, Obj([("name", new)])), "currency %r -> %r" % (s.kv[0][1], new)
    if kind == "intfield":
        sites = [(p, s) for p, s in ps if isinstance(s, int) and not isinstance(s, bool)]
        if sites:
            p, s = rng.choice(sites)
            new = s + rng.choice([-1, 1, 2, -s, 5])
            return set_at(t, p, new), "integer %d -> %d" % (s, new)
    if kind == "dropfirst" and objs:
        p, s = rng.choice(objs)
        if len(s.kv) >= 2:
            return set_at(t, p, Obj(s.kv[1:] + s.kv[:1])), "rotate keys"
    if kind == "extrakey" and objs:
        p, s = rng.choice(objs)
        j = rng.randrange(len(s.kv) + 1)
        return set_at(t, p, Obj(s.kv[:j] + [(rng.choice(["zz", "v", "extra", 7]), rng.choice(SCALARS))] + s.kv[j:])), "unknown key"
    if kind in ("reshape", "resize"):
        # ndarray documents {"v":1,"dim":[..],"data":[..]}: changes that keep ndarray's own element-count check
        # satisfied but break the relation with the owner's other fields (vars, n)
        nds = [(p, s) for p, s in objs if isinstance(s.get("dim"), list) and isinstance(s.get("data"), list)
               and all(isinstance(d, int) and not isinstance(d, bool) for d in s.get("dim"))]
        if nds:
            p, s = rng.choice(nds)
            dim, data = list(s.get("dim")), list(s.get("data"))
            tot = len(data)
            if kind == "reshape":
                cands = [[1, tot], [tot, 1], [tot], list(reversed(dim))]
                if len(dim) == 2 and tot % 2 == 0 and tot >= 2:
                    cands += [[2, tot // 2], [tot // 2, 2]]
                cands = [c for c in cands if c != dim]
                if cands:
                    new = rng.choice(cands)
                    kv = [(k, (new if k == "dim" else v)) for k, v in s.kv]
                    return set_at(t, p, Obj(kv)), "reshape dim %s -> %s (same element count)" % (dim, new)
            else:
                if len(dim) == 1:
                    if data and rng.random() < 0.5:
                        nd, ndata = [dim[0] - 1], data[:-1]
                    else:
                        nd, ndata = [dim[0] + 1], data + [data[-1] if data else 1.5]
                elif len(dim) == 2 and dim[1] > 0:
                    if dim[0] > 0 and rng.random() < 0.5:
                        nd, ndata = [dim[0] - 1, dim[1]], data[:-dim[1]]
                    else:
                        nd, ndata = [dim[0] + 1, dim[1]], data + data[-dim[1]:]
                else:
                    nd, ndata = None, None
                if nd is not None:
                    kv = [(k, (nd if k == "dim" else ndata if k == "data" else v)) for k, v in s.kv]
                    return set_at(t, p, Obj(kv)), "consistent resize of an array %s -> %s" % (dim, nd)
    if kind == "asarray" and objs:
        p, s = rng.choice(objs)
        return set_at(t, p, [v for _, v in s.kv]), "struct as array"
    return t, None


def _parent_key(t, p):
    """key under which the object at path p sits (None if inside a list)"""
    parent = get_at(t, p[:-1])
    if isinstance(parent, Obj):
        return parent.kv[p[-1]][0]
    return None


# ---------------------------------------------------------------------------------------------- negative controls (C16)
# An object encoding is parsed back into a tree, copied with ONE place changed (a float by one ulp, a name, a holiday, a
# node, a quote, a knot, a coefficient, an enum field), and re-encoded; the real PartialEq must tell the two apart.
class _P:
    def __init__(self, a):
        self.a, self.i = a, 0

    def n(self):
        v = self.a[self.i]
        self.i += 1
        return v

    def name(self):
        k = self.n()
        return "".join(chr(self.n()) for _ in range(k))

    def names(self):
        return [self.name() for _ in range(self.n())]

    def dual(self):
        vs = self.names()
        return {"names": vs, "re": self.n(), "du": [self.n() for _ in vs]}

    def dual2(self):
        d = self.dual()
        d["dd"] = [self.n() for _ in range(len(d["names"]) ** 2)]
        return d

    def number(self):
        k = self.n()
        return [k, self.n() if k == 0 else self.dual() if k == 1 else self.dual2()]

    def cal(self):
        mask = [self.n() for _ in range(self.n())]
        return {"mask": mask, "hols": [self.n() for _ in range(self.n())]}

    def union(self):
        cals = [self.cal() for _ in range(self.n())]
        settle = [self.cal() for _ in range(self.n())] if self.n() == 1 else None
        return {"cals": cals, "settle": settle}

    def quote(self):
        a, b, x = self.name(), self.name(), self.number()
        st = self.n() if self.n() == 1 else None
        return [a, b, x, st]

    def obj(self):
        k = self.n()
        if k == 0:
            return [k, self.dual()]
        if k == 1:
            return [k, self.dual2()]
        if k == 2:
            return [k, self.cal()]
        if k == 3:
            return [k, self.union()]
        if k == 4:
            return [k, self.name()]
        if k == 5:
            qs = [self.quote() for _ in range(self.n())]
            base = self.name() if self.n() == 1 else None
            order = self.n()
            upd = [self.quote() for _ in range(self.n())]
            return [k, {"quotes": qs, "base": base, "order": order, "upd": upd}]
        if k == 6:
            nk, nn = self.n(), self.n()
            nodes = []
            for _ in range(nn):
                d = self.n()
                nodes.append([d, self.n() if nk == 0 else self.dual() if nk == 1 else self.dual2()])
            c = {"nk": nk, "nodes": nodes, "rule": self.n(), "id": self.name(), "conv": self.n(), "mod": self.n()}
            c["base"] = self.n() if self.n() == 1 else None
            ck = self.n()
            c["cal"] = [ck, self.cal() if ck == 0 else self.union() if ck == 1 else self.name()]
            return [k, c]
        kk, nt = self.n(), self.n()
        t = [self.n() for _ in range(nt)]
        c = None
        if self.n() == 1:
            c = [self.n() if k == 7 else self.dual() if k == 8 else self.dual2() for _ in range(self.n())]
        return [k, {"k": kk, "t": t, "c": c}]


def parse_obj(enc):
    p = _P(enc)
    o = p.obj()
    if p.i != len(enc):
        raise ValueError("object encoding not consumed")
    return o


def _u_dual(d):
    return enc_names(d["names"]) + [d["re"]] + list(d["du"]) + list(d.get("dd", []))


def _u_number(x):
    return [x[0]] + ([x[1]] if x[0] == 0 else _u_dual(x[1]))


def _u_cal(c):
    return [len(c["mask"])] + list(c["mask"]) + [len(c["hols"])] + list(c["hols"])


def _u_union(u):
    o = [len(u["cals"])]
    for c in u["cals"]:
        o += _u_cal(c)
    if u["settle"] is None:
        return o + [0]
    o += [1, len(u["settle"])]
    for c in u["settle"]:
        o += _u_cal(c)
    return o


def _u_quote(q):
    return enc_name(q[0]) + enc_name(q[1]) + _u_number(q[2]) + ([1, q[3]] if q[3] is not None else [0])


def unparse_obj(o):
    k, v = o
    if k in (0, 1):
        return [k] + _u_dual(v)
    if k == 2:
        return [k] + _u_cal(v)
    if k == 3:
        return [k] + _u_union(v)
    if k == 4:
        return [k] + enc_name(v)
    if k == 5:
        out = [k, len(v["quotes"])]
        for q in v["quotes"]:
            out += _u_quote(q)
        out += ([1] + enc_name(v["base"])) if v["base"] is not None else [0]
        out += [v["order"], len(v["upd"])]
        for q in v["upd"]:
            out += _u_quote(q)
        return out
    if k == 6:
        out = [k, v["nk"], len(v["nodes"])]
        for d, x in v["nodes"]:
            out += [d] + ([x] if v["nk"] == 0 else _u_dual(x))
        out += [v["rule"]] + enc_name(v["id"]) + [v["conv"], v["mod"]]
        out += [1, v["base"]] if v["base"] is not None else [0]
        ck, c = v["cal"]
        return out + [ck] + (_u_cal(c) if ck == 0 else _u_union(c) if ck == 1 else enc_name(c))
    out = [k, v["k"], len(v["t"])] + list(v["t"])
    if v["c"] is None:
        return out + [0]
    out += [1, len(v["c"])]
    for c in v["c"]:
        out += [c] if k == 7 else _u_dual(c)
    return out


def ulp_bits(b):
    """the bit pattern of the neighbouring double one ulp closer to zero (one ulp away from zero for +-0.0): always finite, and
    never equal to the original under =="""
    if b & 0x7FFFFFFFFFFFFFFF == 0:
        return b | 1
    return b - 1


def up_bits(b):
    """the bit pattern of the next double ABOVE b2f(b) (used where an ordering must be kept)"""
    if b & 0x7FFFFFFFFFFFFFFF == 0:
        return 1
    return b + 1 if b >> 63 == 0 else b - 1


import copy as _copy

# named calendars that differ from each other in at least one business or settlement day of 1970-2200
NAMED_OTHER = {"tgt": "ldn", "ldn,tgt|fed": "ldn,tgt|nyc", "nyc": "fed", "bus": "all", "all": "bus", "tyo,syd|nyc": "tyo,syd|fed",
               "stk,osl": "stk", "mum|tgt,ldn": "mum|tgt", "fed": "nyc", "wlg": "syd", "stk": "osl", "tgt,ldn|fed": "tgt,ldn|nyc"}


def _weekday(d):
    return (d + 3) % 7          # day 0 = 1970-01-01, a Thursday; Monday = 0


def _is_bus(cals, d):
    return all(_weekday(d) not in c["mask"] and d not in c["hols"] for c in cals)


def _pert_dual(rng, d, second):
    """one-place changes of a Dual / Dual2 (as a dict) that its == sees: (label, new dict)"""
    out = []
    x = _copy.deepcopy(d)
    x["re"] = ulp_bits(d["re"])
    out.append(("value changed by one ulp", x))
    n = len(d["names"])
    distinct = len(set(d["names"])) == n
    if n and distinct:
        i = rng.randrange(n)
        x = _copy.deepcopy(d)
        x["du"][i] = ulp_bits(d["du"][i])
        out.append(("one derivative changed by one ulp", x))
        nz = [j for j in range(n) if d["du"][j] & 0x7FFFFFFFFFFFFFFF != 0]
        if nz:
            j = rng.choice(nz)
            x = _copy.deepcopy(d)
            x["names"][j] = d["names"][j] + "_r"
            out.append(("one variable renamed", x))
        if second:
            i, j = rng.randrange(n), rng.randrange(n)
            x = _copy.deepcopy(d)
            x["dd"][i * n + j] = ulp_bits(d["dd"][i * n + j])
            out.append(("one second derivative changed by one ulp", x))
    return out


def _pert_cal(rng, c):
    out = []
    x = _copy.deepcopy(c)
    d = dn(2010, 1, 1) + rng.randrange(4000)
    while d in c["hols"]:
        d += 1
    x["hols"].append(d)
    out.append(("one holiday added", x))
    if c["hols"]:
        x = _copy.deepcopy(c)
        h = rng.choice(c["hols"])
        x["hols"] = [v for v in c["hols"] if v != h]
        out.append(("one holiday removed", x))
    x = _copy.deepcopy(c)
    free = [w for w in range(7) if w not in c["mask"]]
    if free and rng.random() < 0.5 or not c["mask"]:
        x["mask"].append(rng.choice(free))
        out.append(("one weekday added to the week mask", x))
    else:
        w = rng.choice(c["mask"])
        x["mask"] = [v for v in c["mask"] if v != w]
        out.append(("one weekday removed from the week mask", x))
    return out


def _pert_union(rng, u):
    """changes that the SEMANTIC equality (business days and settlement days over 1970-2200) sees"""
    out = []
    lo = dn(2001, 1, 1)
    day = next((d for d in range(lo + rng.randrange(3000), lo + 12000) if _is_bus(u["cals"], d)), None)
    if day is not None:
        x = _copy.deepcopy(u)
        if x["cals"]:
            x["cals"][rng.randrange(len(x["cals"]))]["hols"].append(day)
        else:
            x["cals"].append({"mask": [], "hols": [day]})
        out.append(("one holiday added on a business day", x))
    st = u["settle"] or []
    day = next((d for d in range(lo + rng.randrange(3000), lo + 12000) if _is_bus(st, d)), None)
    if day is not None:
        x = _copy.deepcopy(u)
        if x["settle"]:
            x["settle"][rng.randrange(len(x["settle"]))]["hols"].append(day)
        else:
            x["settle"] = [{"mask": [], "hols": [day]}]
        out.append(("one settlement holiday added on a settlement day", x))
    return out


def _pert_named(rng, nm):
    o = NAMED_OTHER.get(nm.lower())
    return [("calendar name changed", o)] if o else []


def _pert_number(rng, x):
    if x[0] == 0:
        return [("value changed by one ulp", [0, ulp_bits(x[1])])]
    return [(lab, [x[0], d]) for lab, d in _pert_dual(rng, x[1], x[0] == 2)]


def perturbations(rng, enc, limit=3):
    """up to `limit` encodings of the object `enc` changed in ONE place that the type's own equality must see:
    [(label, encoding)]"""
    k, v = parse_obj(enc)
    outs = []

    def put(lab, nv):
        outs.append((lab, unparse_obj([k, nv])))
    if k in (0, 1):
        for lab, d in _pert_dual(rng, v, k == 1):
            put(lab, d)
    elif k == 2:
        for lab, c in _pert_cal(rng, v):
            put(lab, c)
    elif k == 3:
        for lab, u in _pert_union(rng, v):
            put(lab, u)
    elif k == 4:
        for lab, nm in _pert_named(rng, v):
            put(lab, nm)
    elif k == 5:
        # the quote finally stored for a pair is the last `update` of it, else the constructor's
        qi = rng.randrange(len(v["quotes"]))
        pair = {v["quotes"][qi][0].lower(), v["quotes"][qi][1].lower()}
        tgt = ("quotes", qi)
        for ui, q in enumerate(v["upd"]):
            if {q[0].lower(), q[1].lower()} == pair:
                tgt = ("upd", ui)
        for lab, nx in _pert_number(rng, v[tgt[0]][tgt[1]][2])[:2]:
            x = _copy.deepcopy(v)
            x[tgt[0]][tgt[1]][2] = nx
            put("one quote: " + lab, x)
        used = set()
        for q in v["quotes"] + v["upd"]:
            used |= {q[0].lower(), q[1].lower()}
        fresh = [c for c in ["chf", "aud", "nzd", "dkk", "pln"] if c not in used]
        old = rng.choice(sorted(used))
        x = _copy.deepcopy(v)
        for q in x["quotes"] + x["upd"]:
            for j in (0, 1):
                if q[j].lower() == old:
                    q[j] = fresh[0]
        if x["base"] is not None and x["base"].lower() == old:
            x["base"] = fresh[0]
        put("one currency renamed", x)
    elif k == 6:
        ni = rng.randrange(len(v["nodes"]))
        x = _copy.deepcopy(v)
        if v["nk"] == 0:
            x["nodes"][ni][1] = ulp_bits(v["nodes"][ni][1])
            put("one node value changed by one ulp", x)
        else:
            for lab, d in _pert_dual(rng, v["nodes"][ni][1], v["nk"] == 2)[:2]:
                x = _copy.deepcopy(v)
                x["nodes"][ni][1] = d
                put("one node: " + lab, x)
        days = [d for d, _ in v["nodes"]]
        nd = days[ni] + 1
        while nd in days:
            nd += 1
        x = _copy.deepcopy(v)
        x["nodes"][ni][0] = nd
        put("one node date moved", x)
        x = _copy.deepcopy(v)
        x["id"] = v["id"] + "x"
        put("id changed", x)
        x = _copy.deepcopy(v)
        x["conv"] = (v["conv"] + 1 + rng.randrange(10)) % 11
        put("convention changed", x)
        x = _copy.deepcopy(v)
        x["mod"] = (v["mod"] + 1 + rng.randrange(4)) % 5
        put("modifier changed", x)
        x = _copy.deepcopy(v)
        x["rule"] = (v["rule"] + 1 + rng.randrange(5)) % 6
        put("interpolation changed", x)
        x = _copy.deepcopy(v)
        x["base"] = ulp_bits(v["base"]) if v["base"] is not None else f2b(100.0)
        put("index base changed by one ulp" if v["base"] is not None else "index base added", x)
        ck, c = v["cal"]
        sub = _pert_cal(rng, c)[:1] if ck == 0 else _pert_union(rng, c)[:1] if ck == 1 else _pert_named(rng, c)
        for lab, nc in sub:
            x = _copy.deepcopy(v)
            x["cal"] = [ck, nc]
            put("calendar: " + lab, x)
    else:
        t = v["t"]
        x = _copy.deepcopy(v)
        nb = up_bits(t[-1])
        if (nb >> 52) & 0x7FF != 0x7FF:
            x["t"][-1] = nb
            put("last knot changed by one ulp", x)
        x = _copy.deepcopy(v)
        x["k"] = v["k"] + 1 if len(t) > v["k"] + 1 else v["k"] - 1
        if x["k"] >= 1:
            put("order changed", x)
        x = _copy.deepcopy(v)
        x["t"] = t + [t[-1]]
        put("one knot added", x)
        if v["c"]:
            ci = rng.randrange(len(v["c"]))
            if k == 7:
                x = _copy.deepcopy(v)
                x["c"][ci] = ulp_bits(v["c"][ci])
                put("one coefficient changed by one ulp", x)
            else:
                for lab, d in _pert_dual(rng, v["c"][ci], k == 9)[:2]:
                    x = _copy.deepcopy(v)
                    x["c"][ci] = d
                    put("one coefficient: " + lab, x)
            x = _copy.deepcopy(v)
            x["c"] = None
            put("coefficients dropped", x)
        elif v["c"] is None:
            x = _copy.deepcopy(v)
            nco = max(0, len(t) - v["k"])
            x["c"] = [f2b(1.0)] * nco if k == 7 else [{"names": [], "re": f2b(1.0), "du": [], "dd": []} if k == 9 else
                                                     {"names": [], "re": f2b(1.0), "du": []} for _ in range(nco)]
            put("coefficients added", x)
    rng.shuffle(outs)
    return outs[:limit]
