#!/bin/bash
# Records a property-preserving refactoring produced in a scratch worktree:  driver/harmlessconfirm.sh <worktree> <name>
# -> /verif/harmless/<name>/{patch.diff,harmless_demo.rs,meta.txt,meta.json}; confirms that the pinned suite and the
# demonstration pass WITH the change (and the demonstration also without it).
set -u
WT="$1"; NAME="$2"
OUT=/verif/harmless/$NAME; mkdir -p "$OUT"
cd "$WT" || exit 2
export CARGO_NET_OFFLINE=true
git diff -- rust > "$OUT/patch.diff"
cp tests/harmless_demo.rs "$OUT/harmless_demo.rs"
[ -f meta.txt ] && cp meta.txt "$OUT/meta.txt"
SUITE=$(cargo test --offline --lib 2>&1 | grep "^test result:" | head -1)
DEMO_WITH=$(cargo test --offline --test harmless_demo 2>&1 | grep "^test result:" | head -1)
git apply -R "$OUT/patch.diff"
DEMO_WITHOUT=$(cargo test --offline --test harmless_demo 2>&1 | grep "^test result:" | head -1)
git apply "$OUT/patch.diff"
python3 - "$OUT" "$SUITE" "$DEMO_WITH" "$DEMO_WITHOUT" <<'PY'
import json, sys
out, suite, dw, dwo = sys.argv[1:5]
ok = ("229 passed; 0 failed" in suite) and (" 0 failed" in dw and "ok" in dw) and (" 0 failed" in dwo and "ok" in dwo)
json.dump({"kind": "property-preserving refactoring", "confirmed": {"pinned_suite_with_change": suite, "demo_with_change": dw,
           "demo_without_change": dwo}, "ok": ok}, open(out + "/meta.json", "w"), indent=1)
print(out, ok, "|", suite[:40], "|", dw[:40], "|", dwo[:40])
PY
