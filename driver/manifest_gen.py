#!/usr/bin/env python3
"""Regenerates MANIFEST.json from the table below (keeps the file valid and in one place)."""
import json, os
ROOT = os.path.dirname(os.path.dirname(os.path.abspath(__file__)))
PROPS = [json.loads(l)["id"] for l in open(os.path.join(ROOT, "properties.jsonl"))]

CLAIMED = {
 "C06": dict(
   text="Coq theorems (Props/C06.v, 15 theorems, axiom-free) over the Gallina model of UnionCal / NamedCal / Cal (is_bus_day = all members, is_settlement = all settlement calendars or true when there are none, NamedCal::try_new = lower-case, split on '|' then ',', table lookup through the wiring GENERATED from rust/calendars/named/mod.rs) and of the four cross-kind PartialEq impls: union semantics for arbitrary member and settlement calendars in any order; a named string denotes, date for date (every date) and under ==, the explicit union of the tables its parts are wired to; letter case (incl. the non-ASCII code points that lower-case into ASCII) is irrelevant; the strings rejected are exactly those with an unknown part or more than one '|', never an abort; == between any two kinds holds exactly when business days and settlement days agree on every date of 1970-01-01..2200-12-31. Tied to calendar.rs / named/mod.rs on every run by a seeded differential run: name strings (58% malformed), random explicit Cal/UnionCal, hashed date windows with drill-down, and == pairings with one-date differences at and outside the range ends.",
   note="No axioms. str::to_lowercase is modelled on code points (ASCII, U+212A, U+0130; identity elsewhere). Name wiring and tables are regenerated from /repo by driver/translate.py on every run and tied to the running code exhaustively by the C07 check.",
   tech="Coq proof (list/boolean reasoning over arbitrary calendars, bounded-range equality characterised by forallb over the 84 371 day numbers) + translator for the name wiring + seeded model-vs-code correspondence",
   ref="DESIGN.md §4 C06"),
 "C07": dict(
   text="Coq theorems (Props/C07.v) over tables and name wiring REGENERATED from rust/calendars/named/*.rs on every run (driver/translate.py -> Gen/NamedTables.v, Gen/NameWiring.v, Gen/DocNames.v, Gen/Fixings.v): for tgt, nyc, fed, ldn, stk, osl, zur every weekday of 1970-01-01..2200-12-31 is in the wired table exactly when the published rules (transcribed as a small rule language with pandas observances and the Gregorian computus, well-formedness and Easter-is-a-Sunday proved) make it a holiday; 'all' and 'bus' have no holidays; fed = nyc minus Good Friday; for tro, tyo, syd, wlg, mum every weekday occurrence of a documented fixed-date or Easter-linked holiday is in the table; every documented name resolves; over each of the nine shipped fixing histories the calendar's business days are exactly the publication dates. The domain is finite (84 371 days), so forallb ... = true by vm_compute lifted with forallb_forall IS the proof, bound stated in the theorem. Translator tied to the running code on every run: every name x every date 1970-2200 through the real get_calendar_by_name.",
   note="No axioms. The rules are the specification (transcribed from the RULES consts / scripts and the public holiday laws); a table change that breaks a theorem is confirmed on the real code date by date before it is reported. Trusted: the translator (checked exhaustively against the running code), the rule transcription (readable in Model/Rules.v).",
   tech="Coq proof by reflection over the finite date range (vm_compute + forallb_forall) on translator-generated tables + exhaustive translator-vs-code correspondence",
   ref="DESIGN.md §4 C07"),
 "C11": dict(
   text="Coq theorems (Props/C11.v, over R, every node count >= 2, arbitrary spacing, every supply order and every query date) about the Gallina model of CurveDF::try_new / interpolated_value / node_index, NodesTimestamp::sort_keys, the hand-written bisection index_left (with its small-size special cases and closed right ends) and the five interpolation rules: index_left returns clamp 0 (n-2) (j-1) for j the first node on or after the date (right-closed intervals, clamped to first/last); every look-up equals the rule's closed form on just the two nodes of that interval (and node 0 for the zero-rate rule); the value at a node date is the node's value (zero-rate: 1 at the first node); the explicit between-node formulas (line, line in logs, line in the zero rate from the first node, left value on [x1,x2), right value on (x1,x2]) with min/max bounds for the first two; dates outside the range use the first/last interval's formula; any permutation of nodes with distinct timestamps builds the same curve (through try_new and through the Python-facing constructor). Tied to rust/curves on every run through CurveDF and the real #[pyclass] Curve (hook), plus index_left on f64 lists exhaustively over positions.",
   note="Theorems over R (rounding outside; exp/ln paths compared at 1e-9, everything else exactly). Datetime keys collide within one second (IndexMap::from_iter): modelled and exercised. Hooks in rust/verif_hooks.rs (feature verif_hooks) drive the private pymethods through the embedded interpreter.",
   tech="Coq proof (bisection proved for any decidable total order, sort uniqueness, closed forms by lra/nra/field) + seeded model-vs-code correspondence",
   ref="DESIGN.md §4 C11"),
 "C12": dict(
   text="Coq theorems (Props/C12.v) over the same curve model with Dual / Dual2 node values: set_ad_order tags node i (date order, from 0, also for unsorted input through the Python-facing constructor) of a float curve with '<id><i>' (tags injective); any sequence of switches keeps every node value and every looked-up value (for every numeric structure, floats included), switches between first and second order keep the names, and a float curve after any history equals the curve switched once to the last order; the gradient of a looked-up value is the true partial derivative (Coquelicot is_derive) of the closed form w.r.t. each node value and zero outside the interval used, the Hessian entry (j,k) is the mixed second partial; index_value is base / value, F64 0 before the first node, Err without a base. Tied to rust/curves by seeded scripts of look-ups and 0-8 order switches on curves of all five rules.",
   note="Gradient theorems assume positive node values (and node count below 2^64 for tag injectivity). Proved by direct symbolic evaluation of the Dual/Dual2 model on two freshly tagged nodes + Coquelicot auto_derive (independent of C01/C02).",
   tech="Coq proof (real-part homomorphism of the generic interpolators, symbolic evaluation of the dual model, mixed-partial lemma) + seeded script correspondence with shrinking",
   ref="DESIGN.md §4 C12"),
 "C09": dict(
   text="Coq theorems (Props/C09.v, 12 theorems over R) about the Gallina model of FXRates::try_new / rate (currency index = base first then quote order, i16 edge counts with the code's stop test, seed matrix, the triangulation mut_arrays_remaining_elements as fuelled recursion with the code's node choice — last maximum among unvisited — combinations(2) order and prev/visited handling): quote sets that connect 2..181 currencies as a tree are accepted, never abort, yield all n^2 non-zero rates; every cross equals the product of quotes along ANY walk between the two currencies, inverted when travelled backwards; quoted pairs are returned as quoted, a currency against itself is 1, rate x inverse = 1, independence of quote order and of base; wrong count, mixed settlement dates, disconnected, cyclic, duplicated or inverse-duplicated inputs are errors (accepted => tree, by a leaf-removal argument), never Ok, never abort; the triangulation preserves 'entry = v_i / v_j' for any potential, fuel and visited set; the chosen fuel is never exhausted (termination with progress via simplicial vertices). Tied to rust/fx/rates on every run by a seeded differential run (Pruefer-sequence trees on 2-12 currencies, malformed stream) plus a model-independent oracle on the real code.",
   note="Theorems over R; IEEE rounding and powf(x,-1) are outside (rates compared at 1e-9; quoted pairs bit-exactly on the real code). The bound of 181 currencies is the code's own i16 limit (the property quantifies over 2..12).",
   tech="Coq proof (entry-wise invariant of the fuelled triangulation, abelian-group potentials, graph arguments: simplicial vertices for completeness, leaf removal for rejection) + seeded model-vs-code correspondence",
   ref="DESIGN.md §4 C09"),
 "C10": dict(
   text="Coq theorems (Props/C10.v, 17 theorems) over the same model instantiated at Dual / Dual2 through Model/Number.v and the state machine update / set_ad_order: for every valid market the first-order coefficient of any cross for ANY variable name is value x sum over the walk of +-(coefficient of the lifted quote)/(quote value) — so a plain quote for pair xxxyyy on the path contributes +-cross/quote under the name fx_xxxyyy, zero off the path, and dual-valued quotes keep their own names; second-order coefficients are the matching second derivatives (2-jets); values are identical at orders 0/1/2; after ANY sequence of updates, order switches and refused updates the state satisfies the invariant, keeps its currency index and returns the values of the market built directly from the latest quotes; updates naming unknown pairs are refused and change nothing; no step aborts. Tied to rust/fx/rates by seeded histories (0-12 operations) compared after every step incl. gradient1/gradient2 by name.",
   note="Uses the proved refinement lemmas of C03 (DualP/Dual2P). update() rebuilding at order One whatever the current order is mirrored (the property compares with a directly-built market, which is at order One too).",
   tech="Coq proof (the C09 invariant principle instantiated with 1- and 2-jet groups + state-machine invariant by induction over the history) + seeded history correspondence with shrinking",
   ref="DESIGN.md §4 C10"),
 "C14": dict(
   text="Coq theorems (Props/C14.v) over the Gallina model of bsplev_single_f64 / bspldnev_single_f64 (every short-circuit, the right-end-point rule with the ORIGINAL order, zero-width guards, index aborts): for EVERY order k >= 1, every admissible knot vector (non-decreasing, k-fold right end knot; weaker than the property's class), every basis index, derivative order and point of the domain — interior knots and the right end point included — the value is the Cox-de Boor piece polynomial of the point's span; non-negativity, support, partition of unity, m >= k => 0, and the returned m-th derivative is the m-th derivative (Coquelicot is_derive_n) of that piece, i.e. the derivative from the right (from the left at the right end point). Tied to spline.rs on every run by a seeded bit-level differential run (orders 1-6, repeated interior knots, zero-width spans, every knot and end point).",
   note="Theorems over R (rounding outside). The one-sided derivative is formalised as the ordinary derivative of the span's piece polynomial, which the code equals on the whole span by C14_value. Axioms: stdlib reals (+ constructive_indefinite_description through the NumR instance only).",
   tech="Coq proof (induction on order / derivative order, Coquelicot derivatives, refinement of the outcome-monadic model to piece polynomials) + seeded model-vs-code correspondence",
   ref="DESIGN.md §4 C14"),
 "C15": dict(
   text="Coq theorems (Props/C15.v) over the Gallina models of PPSpline::csolve / bsplmatrix / ppdnev_single(_dual/_dual2) / mapped_value and of fdsolve: csolve errs exactly on mismatched site/value counts; the solved spline reproduces every interior datum and meets the derivative conditions at the two end sites (rows of B c = y; at R only non-singularity of the collocation matrix is assumed, discharged through C13); for Dual / Dual2 data the sensitivity of any value or derivative to each datum equals the spline solved on the corresponding unit data (linearity proved through the solver loops, lsq branch included, no matrix hypothesis); evaluation at a Dual / Dual2 abscissa returns the spline's own first and second derivatives as sensitivities as coded; the 3x3 kind table with its two refusing cells; Marsden's identity for every order and polynomial reproduction for every p = sum a_q (x - tau_q)^(k-1). Tied to spline.rs by a seeded bit-level differential run incl. a polynomial oracle on the real code.",
   note="C15_poly is `_partial`: that the shifted powers (x - tau)^(k-1) span all polynomials of degree < k (a Vandermonde argument) is not formalised; monomial data of every degree < k is instead TESTED in the correspondence run against the real code (labelled as a test). Theorems over R; dual inputs assumed well-formed. Depends on the C13 lemmas (LinalgT.fdsolve21_correct, LinalgI.nonsingular_R).",
   tech="Coq proof (homomorphism lemma through the elimination loops, refinement via the C03 lemmas, uniqueness via C13, Marsden identity by induction) + seeded model-vs-code correspondence incl. polynomial oracle",
   ref="DESIGN.md §4 C15"),
 "C13": dict(
   text="Coq theorems (Props/C13.v, 21 theorems) over the Gallina model of dsolve / fdsolve (argabsmax with last-maximum tie-breaking, row and element swaps, the elimination loops with explicit zeroing, back substitution, the least-squares branch via A^T A and A^T b): over an ARBITRARY commutative ring with a partial inverse on units and for any pivot comparison, the returned vector satisfies A x = b and is the unique solution whenever every selected pivot is a unit; with allow_lsq it uniquely satisfies the normal equations; permuting the rows of (A|b) does not change the answer; non-square without lsq is refused. Instantiated at R (where 'non-singular' — trivial kernel — is PROVED to imply the pivot hypothesis for the code's |.| comparison) and at first- and second-order dual-number rings (value + derivative per name + half-Hessian per pair, truncated product), where the ring equation IS the statement about the value and every first and second derivative carried by A and b; the pivot hypothesis on a dual-valued matrix is the one on its real-part matrix; fdsolve (float matrix, generic rhs) likewise. Tied to linalg_dual.rs / linalg_f64.rs by a seeded differential run (sizes 1-8, tall to 12x6, f64/Dual/Dual2 in all mixes, pivot-forcing sparsity patterns, ties, singular and mis-shaped inputs) plus residual and row-permutation oracles on the real code.",
   note="Floating-point rounding is in the trusted base (theorems over exact rings). The dual-number ring instances are the abstract value/derivative-per-name structures; their tie to the concrete list-based Dual/Dual2 of the code is the refinement proved for C03 (Proofs/DualP.v, Dual2P.v). Axioms: stdlib real-number axioms, functional extensionality, and constructive_indefinite_description only through the NumR instance. NaN entries (argabsmax unwraps partial_cmp) are outside 'well-conditioned' and not generated.",
   tech="Coq proof (invariant of forward elimination = solution-set equivalence + zero lower-left block + unit diagonal, over an abstract ring class; instantiation at R and dual-number rings) + seeded model-vs-code correspondence with residual/permutation oracles",
   ref="DESIGN.md §4 C13"),
 "C18": dict(
   text="Coq theorems (Props/C18.v) over the Gallina model of set_order / set_order_clone, the From conversions and the nine-arm operator tables of Number: raising a float attaches exactly the requested names (each once) with unit sensitivity and, at second order, a zero Hessian; first->second adds a zero Hessian; second->first drops only the Hessian; no conversion changes the value; every operator on the container computes with the contained types' operator in the seven same-kind/float cells and is refused (panic) in exactly the two Dual-with-Dual2 cells, for + - * / % == < <=. Tied to dual_ops/*.rs by an EXHAUSTIVE run over kind pairings x operators x orders on every run, outcome class compared exactly.",
   note="The table theorems hold by computation on the model; what ties the model to the code is the exhaustive correspondence (3x3 kinds x 10 binary operators, both float positions, 13 unary operators, 3x3 order conversions, From, Sum).",
   tech="Coq proof (case analysis / computation + lookup lemmas for the unit-sensitivity statement) + exhaustive model-vs-code table enumeration",
   ref="DESIGN.md §4 C18"),
 "C19": dict(
   text="Coq theorems (Props/C19.v): ordering of Dual/Dual2 (and through Number, floats in either position) is the float comparison of the values; abs is the identity for positive values and flips value and all derivatives (and the Hessian) together for negative ones; a % b equals a - trunc(a/b)*b in value, every derivative and every Hessian entry, for any layouts, and the float-divisor / float-dividend forms equal promotion to a constant (value = fmod); Sum equals adding left to right from the variable-free zero, value and derivatives adding up; zero and one are neutral; is_zero is equality with zero. Tied to dual_ops/{ord,signed,rem,sum,zero,one}.rs by a seeded differential run with negative values, negative divisors, signed zeros and both float positions, fmod computed exactly.",
   note="Theorems over R (fmod/trunc as real functions). == between a dual and a float is NOT value-only (it is C03's value-and-every-derivative equality); the check does not demand otherwise.",
   tech="Coq proof (refinement lemmas of C03 + case analysis) + seeded model-vs-code correspondence",
   ref="DESIGN.md §4 C19"),
 "C03": dict(
   text="Coq theorems (Props/C03.v) over the Gallina model of Vars::vars_cmp / to_new_vars / to_union_vars / to_combined_vars and of +,-,*,/,% and == on Dual and Dual2: for ANY two well-formed operands over ANY ordered variable lists (permutations, subsets, supersets, disjoint, overlapping, empty), shared or unshared storage, the result is well-formed (duplicate-free names, derivative arrays of matching shape), carries exactly the union of the operands' names, and its value, derivative per name and half-Hessian per pair of names are the textbook functions of the operands' (refinement); hence operands equal by value and per-name derivatives give equal results whatever their layouts (layout independence); == holds exactly when value and every per-name derivative agree (missing variable = zero derivative). Tied to rust/dual by an EXHAUSTIVE enumeration of layouts on a 3-letter alphabet x operators x kinds on every run.",
   note="Theorems over R (stdlib real axioms through the NumR instance). Arc::ptr_eq is modelled by a boolean with the side condition that sharing implies equal lists; IndexSet by duplicate-free lists. For Dual2 division the refinement theorem states well-formedness and the name union; its value/derivative formulas are covered by the layout-independence theorem (d2div_spec).",
   tech="Coq proof (refinement of the concrete layout code to value/derivative-per-name, list reasoning) + exhaustive layout enumeration model-vs-code",
   ref="DESIGN.md §4 C03"),
 "C17": dict(
   text="Coq theorems (Props/C17.v): for every well-formed Dual/Dual2 and every list of distinct requested names (any order, present or absent), gradient1 returns exactly the per-name derivatives in the order asked with zeros for absent names (fast path = lookup path), gradient2 returns twice the stored half-Hessian entries by name, gradient1_manifold returns Dual2 numbers on the requested names whose values are the first derivatives and whose own gradients are the matching Hessian rows (zero rows for absent names), and the product rule applied to manifolds reproduces the second derivatives of a product. Tied to dual.rs:272-374 by an EXHAUSTIVE enumeration of stored orders x requested lists on every run.",
   note="Theorems over R. The exhaustive correspondence found a genuine defect (absent names got an all-ones gradient in gradient1_manifold), repaired by fix commit 8aaa4c8 (known_findings.json); the model states the repaired behaviour.",
   tech="Coq proof (list/lookup reasoning over the concrete arrays, ring) + exhaustive stored-order x requested-list enumeration model-vs-code",
   ref="DESIGN.md §4 C17"),
 "C01": dict(
   text="Coq theorems (Props/C01.v) over the Gallina model of Dual and of all 23 operator variants of dual_ops/*.rs (dual∘dual, dual∘float, float∘dual, owned/borrowed neg and pow, exp, log, norm_cdf, inv_norm_cdf, abs): for EVERY expression tree, every environment in the differentiable domain and either Arc-sharing behaviour, the dual evaluation is well-formed, its value equals the plain evaluation and its coefficient for every variable name is the partial derivative (Coquelicot is_derive) of the plain evaluation; gradient1 reads those coefficients back in the order asked; float operands in either position equal promotion to a constant; owned and borrowed variants agree. Tied to rust/dual on every run by a seeded differential run (random trees, all variants) of the same Gallina terms at T := float.",
   note="Theorems are over the classical reals (Base/NumR.v): IEEE rounding, libm exp/ln/powf and statrs cdf/inverse_cdf are modelled by the real functions (powf total as coded in Rpowf; the inverse cdf defined by ClassicalEpsilon as the inverse of the cdf, its derivative PROVED via the inverse-function theorem of Ranalysis5). Axioms: sig_not_dec, sig_forall_dec, functional_extensionality_dep, classic, constructive_indefinite_description (all stdlib). Model hand-written, tied by correspondence (harness/src/dual.rs, Base/NumFloat.v under vm_compute, tolerance 1e-8).",
   tech="Coq proof (structural induction over expression trees, Coquelicot derivatives, refinement from the concrete vars/array representation to value+derivative-per-name) + seeded model-vs-code correspondence",
   ref="DESIGN.md §4 C01"),
 "C02": dict(
   text="Coq theorems (Props/C02.v) over the Gallina model of Dual2 (half-Hessian storage, symmetrised cross products, every operator variant): for every expression tree and environment the first-order part of the Dual2 evaluation equals the Dual evaluation (From<Dual2> for Dual loses only the Hessian), the stored half-Hessian is symmetric by name, the value and gradient are exact in the differentiable domain, twice the stored entry for (u,v) is the derivative with respect to v of the first-order AD coefficient for u, and — the domain being open along every coordinate (proved) — it is the derivative with respect to v of Coquelicot's Derive with respect to u of the plain evaluation: the Hessian read back IS the matrix of second partial derivatives. Tied to rust/dual by a seeded differential run on Dual2 incl. gradient2 read-back and Dual::from.",
   note="As C01 (theorems over R; same axioms). C02_hessian_exact states the mixed second partial as is_derive (w.r.t. v) of Derive (w.r.t. u) of the plain evaluation.",
   tech="Coq proof (abstract gradient/half-Hessian formulas as coded, refinement of the concrete Dual2 arrays to them, induction with chain-rule lemmas) + seeded model-vs-code correspondence",
   ref="DESIGN.md §4 C02"),
 "C08": dict(
   text="Coq theorems (Props/C08.v, axiom-free) over the Gallina model of add_months/get_roll/get_imm/get_eom/is_leap_year and of chrono's civil-date arithmetic: bijection day-number <-> valid (y,m,d) for all of Z, month carry, capped roll day, third Wednesday, last day, Gregorian leap rule. The model is tied to the code on every run by an exhaustive correspondence against chrono over every day and every (y,m,d) triple of 1970-2200 and a seeded differential run of the dateroll.rs functions.",
   note="Trusted: Coq kernel; hand-written model tied by correspondence (harness/src/dates.rs, driver/props/c08.py, coqc vm_compute printing); chrono is modelled, not verified (exhaustively compared 1970-2200). No axioms.",
   tech="Coq proof (lia + one-era vm_compute sweep lifted by periodicity) + exhaustive/seeded model-vs-code correspondence",
   ref="DESIGN.md §4 C08"),
 "C04": dict(
   text="Coq theorems (Props/C04.v, axiom-free) about the Gallina model of DateRoll::roll and the eight roll_* methods, quantified over ARBITRARY business-day and settlement predicates (hence every week mask, holiday set, union and settlement association), every date, modifier and flag: following/previous return the first eligible date in their direction (and find it whenever one lies within the search bound), modified variants reverse on a month change, Act is the identity, eligible dates are fixed points, rolling is idempotent. Model tied to dateroll.rs/calendar.rs by a seeded differential run on random and built-in calendars on every run.",
   note="Trusted: Coq kernel; model hand-written and tied by correspondence (harness/src/cal.rs, driver/calrun.py, coqc vm_compute); chrono modelled (C08). Unbounded `while` loops are fuelled in the model: exhaustion = abort; theorems hold for every fuel. No axioms.",
   tech="Coq proof (induction over fuelled searches, arbitrary predicates) + seeded model-vs-code correspondence",
   ref="DESIGN.md §4 C04"),
 "C05": dict(
   text="Coq theorems (Props/C05.v, axiom-free), for arbitrary business-day/settlement predicates: add_bus_days lands on a business day with exactly |n| business days counted (result counted, start not), adding -n returns to the start, non-business starts are rejected, the settled variant is the unsettled one moved onward in the direction of n, lag composes as coded and counts correctly from non-business starts, bus_date_range is exactly the filtered calendar range, add_days is shift-then-roll. Model tied to dateroll.rs by a seeded differential run incl. hashed sweeps of the whole i8 range.",
   note="Trusted: as C04. i8 day counts are modelled in Z (the API type bounds them); no axioms.",
   tech="Coq proof (induction on step counts, counting lemmas) + seeded model-vs-code correspondence over the full i8 range",
   ref="DESIGN.md §4 C05"),
}

NOT_YET = "check not built yet in this round; planned at proof level (see DESIGN.md §4)"

def main():
    checks = []
    for p in PROPS:
        if p not in CLAIMED:
            continue
        c = CLAIMED[p]
        checks.append({
            "property_id": p,
            "quick_cmd": "./check %s --tier quick" % p,
            "thorough_cmd": "./check %s --tier thorough" % p,
            "evidence_file": "evidence/%s.json" % p,
            "replay_cmd_template": "./check %s --replay {path}" % p,
            "engine": "coq-proof+correspondence",
            "level_claimed": {"category": "proof", "text": c["text"], "design_ref": c["ref"]},
            "level_note": c["note"],
            "technique": c["tech"],
        })
    man = {
        "version": 1,
        "setup_cmd": "./check --setup",
        "hooks": {
            "guard": "cargo feature verif_hooks",
            "enable": "harness/Cargo.toml depends on rateslib with features = [\"verif_hooks\"] (path /repo)",
            "baseline_off_cmd": "cd /repo && cargo test --workspace --no-fail-fast --offline",
            "source_commits": json.load(open(os.path.join(ROOT, "driver", "hook_commits.json"))),
            "add_only": True,
        },
        "engines": [{
            "name": "coq-proof+correspondence", "path": "check",
            "serves_properties": sorted(CLAIMED),
            "kind_free_text": "Coq 8.16 theorems about a hand-written Gallina model (coq/theories) + correspondence check running the model (coqc vm_compute) and the Rust code (harness/) on the same inputs",
        }],
        "checks": checks,
        "not_applicable": [{"property_id": p, "reason": NOT_YET} for p in PROPS if p not in CLAIMED],
        "notes": "All checks: ./check <id> [--tier quick|thorough]; VERIF_SEED / VERIF_TIER honoured. Findings: known_findings.json.",
    }
    json.dump(man, open(os.path.join(ROOT, "MANIFEST.json"), "w"), indent=1)

if __name__ == "__main__":
    main()
