#!/usr/bin/env python3
"""Translator (data only): regenerates coq/theories/Gen/*.v from /repo on every run.

  NamedTables.v  one holiday table (day numbers since 1970-01-01) and week mask per
                 rust/calendars/named/<mod>.rs, exactly as written in the source
  NameWiring.v   the two name -> table maps of named/mod.rs (get_weekmask_by_name, get_holidays_by_name)
                 and the list of compiled `pub mod`s
  DocNames.v     calendar names documented in python/rateslib/calendars/rs.py (get_calendar docstring)
  Fixings.v      date column of the nine python/rateslib/data/*_rfr.csv back-test files

Fails closed: anything it cannot parse raises.  Files are rewritten only when their content changes
(so the Coq build cache stays valid)."""
import datetime
import os
import re
import sys

EPOCH = datetime.date(1970, 1, 1)


class TranslateError(Exception):
    pass


def dn(y, m, d):
    return (datetime.date(y, m, d) - EPOCH).days


def parse_table(path):
    src = open(path).read()
    m = re.search(r"pub const WEEKMASK\s*:\s*&\[u8\]\s*=\s*&\[([^\]]*)\]", src)
    if not m:
        raise TranslateError("no WEEKMASK in %s" % path)
    mask = [int(x) for x in m.group(1).replace(" ", "").split(",") if x != ""]
    m = re.search(r"pub const HOLIDAYS\s*:\s*&\[&str\]\s*=\s*&\[(.*?)\];", src, re.S)
    if not m:
        raise TranslateError("no HOLIDAYS in %s" % path)
    hols = []
    for raw in m.group(1).split("\n"):
        line = raw.split("//")[0].strip()
        if not line:
            continue
        for item in [x.strip() for x in line.split(",") if x.strip()]:
            mm = re.fullmatch(r'"(\d{4})-(\d{2})-(\d{2}) 00:00:00"', item)
            if not mm:
                raise TranslateError("unparsable HOLIDAYS entry %r in %s" % (item, path))
            hols.append(dn(int(mm.group(1)), int(mm.group(2)), int(mm.group(3))))
    return mask, hols


def parse_wiring(path):
    """STATIC reading of the name -> table wiring, for the form the pinned source uses (two HashMap::from([...])
    literals).  Raises TranslateError for any other form; `generate` then falls back to asking the running code."""
    src = open(path).read()
    # strip line comments (the commented-out get_rules_by_name block)
    code = "\n".join(l for l in src.split("\n") if not l.strip().startswith("//"))
    mods = re.findall(r"^pub mod (\w+);", code, re.M)
    out = {}
    for fn, const in (("get_weekmask_by_name", "WEEKMASK"), ("get_holidays_by_name", "HOLIDAYS")):
        m = re.search(r"fn %s\b.*?HashMap::from\(\[(.*?)\]\);" % fn, code, re.S)
        if not m:
            raise TranslateError("cannot find the HashMap of %s" % fn)
        entries = []
        for line in m.group(1).split("\n"):
            line = line.strip()
            if not line:
                continue
            mm = re.fullmatch(r'\("([^"]*)",\s*(\w+)::(\w+)\),?', line)
            if not mm or mm.group(3) != const:
                raise TranslateError("unparsable wiring line %r in %s" % (line, fn))
            entries.append((mm.group(1), mm.group(2)))
        out[fn] = entries
    return mods, out["get_weekmask_by_name"], out["get_holidays_by_name"]


def parse_doc_names(path):
    src = open(path).read()
    m = re.search(r"The following named calendars are available(.*?)Combined calendars", src, re.S)
    if not m:
        raise TranslateError("cannot find documented calendar names in %s" % path)
    names = re.findall(r'-\s*\*"(\w+)"\*:', m.group(1))
    if not names:
        raise TranslateError("no documented names")
    return names


def parse_csv_dates(path):
    days = []
    with open(path, encoding="utf-8-sig") as fh:
        head = fh.readline()
        if not head.startswith("reference_date"):
            raise TranslateError("unexpected header in %s" % path)
        for line in fh:
            line = line.strip()
            if not line:
                continue
            d = line.split(",")[0]
            mm = re.fullmatch(r"(\d{2})-(\d{2})-(\d{4})", d)
            if not mm:
                raise TranslateError("unparsable date %r in %s" % (d, path))
            days.append(dn(int(mm.group(3)), int(mm.group(2)), int(mm.group(1))))
    return sorted(set(days))


def zlist(l, per=14):
    if not l:
        return "[]"
    lines = []
    for i in range(0, len(l), per):
        lines.append("; ".join(str(x) for x in l[i:i + per]))
    return "[" + ";\n  ".join(lines) + "]"


FIXINGS = [("usd", "nyc"), ("gbp", "ldn"), ("cad", "tro"), ("eur", "tgt"), ("jpy", "tyo"),
           ("sek", "stk"), ("nok", "osl"), ("aud", "syd"), ("inr", "mum")]


DYN_LO, DYN_HI = dn(1950, 1, 1), dn(2250, 12, 31)


def dynamic_wiring(named, tables, static_error):
    """The wiring of named/mod.rs is not in the form parse_wiring reads (a harmless rewrite, e.g. a `match`): ask the
    RUNNING code.  For every candidate name (the module file stems) that get_calendar_by_name resolves, the week mask
    and every holiday of 1950-2250 are read off the real calendar; the name is wired to the source table that equals
    that answer (the table of the same name first), or - when none does - to a pseudo-module `dyn_<name>` holding the
    answer itself, so that the theorems are then about exactly what the code returns."""
    import common
    ok, log = common.build_harness()
    if not ok:
        raise TranslateError("%s; and the harness does not build, so the running code cannot be asked either" % static_error)

    def enc(s):
        return [len(s)] + [ord(c) for c in s]
    cands = sorted(tables)
    res = common.run_harness("named", ["dyn " + " ".join(str(x) for x in enc(n) + [DYN_LO, DYN_HI]) for n in cands])
    wmask, whols, mods = [], [], []
    for n, r in zip(cands, res):
        if not r or r[0] != 0:
            continue                      # the name does not resolve: not wired
        mask = [i for i in range(7) if r[1 + i] == 1]
        hols = r[9:9 + r[8]]
        def same(m):
            tm, th = tables[m]
            return sorted(tm) == mask and sorted(set(h for h in th if DYN_LO <= h <= DYN_HI)) == sorted(set(hols))
        order = [n] + [m for m in sorted(tables) if m != n]
        hit = next((m for m in order if same(m)), None)
        if hit is None:
            hit = "dyn_" + n
            tables[hit] = (mask, list(hols))
        wmask.append((n, hit))
        whols.append((n, hit))
        if hit not in mods:
            mods.append(hit)
    if not wmask:
        raise TranslateError("%s; and the running code resolves none of %s" % (static_error, cands))
    return mods, wmask, whols


def generate(repo, outdir):
    named = os.path.join(repo, "rust", "calendars", "named")
    tables = {}
    for f in sorted(os.listdir(named)):
        if f.endswith(".rs") and f != "mod.rs":
            tables[f[:-3]] = parse_table(os.path.join(named, f))
    wiring_source = "static (HashMap literals of named/mod.rs)"
    try:
        mods, wmask, whols = parse_wiring(os.path.join(named, "mod.rs"))
    except TranslateError as e:
        mods, wmask, whols = dynamic_wiring(named, tables, str(e))
        wiring_source = "dynamic (read off the running code: %s)" % e
    for _, mod in wmask + whols:
        if mod not in mods:
            raise TranslateError("wiring refers to module %s which is not declared `pub mod`" % mod)
        if mod not in tables:
            raise TranslateError("no table file for module %s" % mod)
    hdr = "(* GENERATED by driver/translate.py from /repo — do not edit *)\nFrom Coq Require Import ZArith List String.\nImport ListNotations.\nOpen Scope Z_scope.\n\n"
    t = [hdr]
    for name in sorted(tables):
        mask, hols = tables[name]
        t.append("Definition mask_%s : list Z := %s.\n" % (name, zlist(mask)))
        t.append("Definition hols_%s : list Z :=\n  %s.\n\n" % (name, zlist(hols)))
    files = {"NamedTables.v": "".join(t)}
    w = [hdr.replace("From Coq Require Import ZArith List String.", "From Coq Require Import ZArith List String.\nFrom RL Require Import Gen.NamedTables.")]
    w.append("Definition compiled_mods : list string := [%s].\n\n" % "; ".join('"%s"%%string' % m for m in mods))
    w.append("(* get_weekmask_by_name: HashMap::from([...]) in source order *)\nDefinition wiring_mask : list (string * list Z) := [\n  %s].\n\n" % ";\n  ".join(
        '("%s"%%string, mask_%s)' % (n, m) for n, m in wmask))
    w.append("(* get_holidays_by_name *)\nDefinition wiring_hols : list (string * list Z) := [\n  %s].\n\n" % ";\n  ".join(
        '("%s"%%string, hols_%s)' % (n, m) for n, m in whols))
    w.append("(* which module each name is wired to (mask, holidays) *)\nDefinition wiring_mods : list (string * (string * string)) := [\n  %s].\n" % ";\n  ".join(
        '("%s"%%string, ("%s"%%string, "%s"%%string))' % (n, m, dict(whols).get(n, "")) for n, m in wmask))
    files["NameWiring.v"] = "".join(w)
    docs = parse_doc_names(os.path.join(repo, "python", "rateslib", "calendars", "rs.py"))
    files["DocNames.v"] = hdr + "Definition doc_names : list string := [%s].\n" % "; ".join('"%s"%%string' % n for n in docs)
    fx = [hdr]
    for ccy, cal in FIXINGS:
        days = parse_csv_dates(os.path.join(repo, "python", "rateslib", "data", "%s_rfr.csv" % ccy))
        fx.append("Definition fixings_%s : list Z :=\n  %s.\n\n" % (ccy, zlist(days)))
    fx.append("Definition fixing_pairs : list (string * (string * list Z)) := [\n  %s].\n" % ";\n  ".join(
        '("%s"%%string, ("%s"%%string, fixings_%s))' % (c, n, c) for c, n in FIXINGS))
    files["Fixings.v"] = "".join(fx)
    os.makedirs(outdir, exist_ok=True)
    changed = []
    for fn, content in files.items():
        p = os.path.join(outdir, fn)
        if not os.path.exists(p) or open(p).read() != content:
            with open(p, "w") as fh:
                fh.write(content)
            changed.append(fn)
    summary = {"mods": mods, "wiring_mask": wmask, "wiring_hols": whols, "doc_names": docs, "wiring_source": wiring_source,
               "tables": {m: tables[m] for m in tables if m in mods or m in dict(wmask).values() or m in dict(whols).values()},
               "table_sizes": {k: len(v[1]) for k, v in tables.items()}, "changed": changed}
    return summary


if __name__ == "__main__":
    root = os.path.dirname(os.path.dirname(os.path.abspath(__file__)))
    print(generate(os.environ.get("VERIF_REPO", "/repo"), os.path.join(root, "coq", "theories", "Gen")))
