#!/bin/bash
# usage: coqdbg.sh <file.v> <line>  — compiles a copy with `Show.` inserted before the given line and prints the goals
f=$1; l=$2
cd /verif/coq
tmp=/verif/.work/dbg_$$.v; mkdir -p /verif/.work
awk -v L=$l 'NR==L{print "Show."} {print}' $f > $tmp
timeout 600 coqc -noglob -Q theories RL $tmp 2>&1 | tail -${3:-40}
rm -f $tmp /verif/.work/dbg_$$.*
