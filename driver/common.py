"""Shared machinery of the /verif checks: builds, Coq evaluation of the model, the Rust harness,
float comparison, evidence, verdicts, known findings.  Python 3 standard library only."""
import fcntl
import json
import math
import os
import random
import re
import shutil
import struct
import subprocess
import sys
import time
from concurrent.futures import ThreadPoolExecutor

ROOT = os.path.dirname(os.path.dirname(os.path.abspath(__file__)))
COQ = os.path.join(ROOT, "coq")
HARNESS = os.environ.get("VERIF_HARNESS_DIR") or os.path.join(ROOT, "harness")
HARNESS_BIN = os.path.join(HARNESS, "target", "release", "rlharness")
REPO = os.environ.get("VERIF_REPO", "/repo")
EVID = os.environ.get("VERIF_EVID_DIR") or os.path.join(ROOT, "evidence")
REPLAYS = os.environ.get("VERIF_REPLAY_DIR") or os.path.join(ROOT, "replays")
WORK = os.path.join(ROOT, ".work")
NCPU = min(16, os.cpu_count() or 4)

AXIOM_ALLOW = {
    # the real numbers of the standard library (Reals / Coquelicot)
    "ClassicalDedekindReals.sig_not_dec",
    "ClassicalDedekindReals.sig_forall_dec",
    "FunctionalExtensionality.functional_extensionality_dep",
    "Classical_Prop.classic",
    # used only by the non-vacuity example of the inverse-cdf hypothesis
    "ClassicalEpsilon.constructive_indefinite_description",
}

FORBIDDEN = re.compile(
    r"\b(Admitted|admit|Axiom|Axioms|Parameter|Parameters|Conjecture|Hypothesis|Variable|Variables|Hypotheses)\b"
    r"|Unset\s+Guard|bypass_check|type-in-type|impredicative-set|Admit\s+Obligations|Unset\s+Positivity|Unset\s+Universe"
)


class CheckError(Exception):
    pass


def anchor_files(prop):
    for l in open(os.path.join(ROOT, "properties.jsonl")):
        o = json.loads(l)
        if o["id"] == prop:
            return o["anchors"]["files"]
    return []


def fingerprint(prop, repo=None):
    """sha256 over the anchored source files of a property (drift trigger, never a verdict)"""
    import hashlib
    h = hashlib.sha256()
    for f in sorted(anchor_files(prop)):
        p = os.path.join(repo or REPO, f)
        h.update(f.encode())
        try:
            h.update(open(p, "rb").read())
        except OSError:
            h.update(b"<missing>")
    return h.hexdigest()


def pinned_fingerprints():
    p = os.path.join(ROOT, "driver", "fingerprints.json")
    return json.load(open(p)) if os.path.exists(p) else {}


def env_offline():
    e = dict(os.environ)
    e.setdefault("CARGO_NET_OFFLINE", "true")
    e["PYTHONWARNINGS"] = "ignore"
    return e


def sh(cmd, cwd=None, timeout=3600, inp=None, check=False):
    p = subprocess.run(cmd, cwd=cwd, shell=isinstance(cmd, str), input=inp, capture_output=True,
                       text=True, timeout=timeout, env=env_offline())
    if check and p.returncode != 0:
        raise CheckError("command failed: %s\n%s\n%s" % (cmd, p.stdout[-4000:], p.stderr[-4000:]))
    return p


class Lock:
    def __init__(self, name):
        os.makedirs(WORK, exist_ok=True)
        self.path = os.path.join(WORK, name + ".lock")

    def __enter__(self):
        self.f = open(self.path, "w")
        fcntl.flock(self.f, fcntl.LOCK_EX)
        return self

    def __exit__(self, *a):
        fcntl.flock(self.f, fcntl.LOCK_UN)
        self.f.close()


# --------------------------------------------------------------------------------------------
# builds

# Run/ entry points shared by several properties
RUN_OF = {"C04": "RunCal", "C05": "RunCal", "C06": "RunCal", "C01": "RunDual", "C02": "RunDual", "C03": "RunDual",
          "C17": "RunDual", "C18": "RunDual", "C19": "RunDual", "C09": "RunFX", "C10": "RunFX", "C11": "RunCurve",
          "C12": "RunCurve", "C13": "RunLinalg", "C14": "RunSpline", "C15": "RunSpline"}
EXTRA_RUN_TARGETS = []


def coq_targets_for(prop):
    t = ["theories/Props/%s.vo" % prop]
    if os.path.exists(os.path.join(COQ, "theories", "Run", "Run%s.v" % prop)):
        t.append("theories/Run/Run%s.vo" % prop)
    if prop in RUN_OF:
        t.append("theories/Run/%s.vo" % RUN_OF[prop])
    return t


def build_coq(targets=None, timeout=3000):
    """Full .vo build through coq_makefile (never -vos). Returns (ok, log)."""
    with Lock("coq"):
        mk = os.path.join(COQ, "Makefile")
        cp = os.path.join(COQ, "_CoqProject")
        if not os.path.exists(mk) or os.path.getmtime(mk) < os.path.getmtime(cp):
            sh("coq_makefile -f _CoqProject -o Makefile", cwd=COQ, check=True)
        tg = " ".join(targets) if targets else ""
        p = sh("timeout %d make -j%d %s" % (timeout, NCPU, tg), cwd=COQ, timeout=timeout + 60)
        return p.returncode == 0, p.stdout + p.stderr


def build_harness(timeout=1800):
    """Builds the harness against the CURRENT /repo working tree (feature verif_hooks)."""
    with Lock("cargo"):
        lock_src = os.path.join(REPO, "Cargo.lock")
        lock_dst = os.path.join(HARNESS, "Cargo.lock")
        if os.path.exists(lock_src) and not os.path.exists(lock_dst):
            shutil.copy(lock_src, lock_dst)
        p = sh("timeout %d cargo build --release --offline" % timeout, cwd=HARNESS, timeout=timeout + 60)
        return p.returncode == 0, p.stdout + p.stderr


def grep_forbidden():
    """No Admitted/admit/Axiom/Parameter/... anywhere in the development (comments stripped)."""
    bad = []
    for dp, dn, fn in os.walk(os.path.join(COQ, "theories")):
        for f in fn:
            if not f.endswith(".v"):
                continue
            p = os.path.join(dp, f)
            src = open(p).read()
            src = strip_comments(src)
            in_section = 0
            for i, line in enumerate(src.split("\n"), 1):
                if re.match(r"\s*Section\b", line):
                    in_section += 1
                if re.match(r"\s*End\b", line) and in_section:
                    in_section -= 1
                for m in FORBIDDEN.finditer(line):
                    w = m.group(0)
                    if w.split()[0] in ("Hypothesis", "Variable", "Variables", "Hypotheses") and in_section:
                        continue  # section variables are discharged as explicit hypotheses
                    bad.append("%s:%d: %s" % (os.path.relpath(p, ROOT), i, w))
    return bad


def strip_comments(src):
    out = []
    depth = 0
    i = 0
    n = len(src)
    while i < n:
        if src.startswith("(*", i):
            depth += 1
            i += 2
        elif src.startswith("*)", i) and depth:
            depth -= 1
            i += 2
        else:
            if depth == 0:
                out.append(src[i])
            elif src[i] == "\n":
                out.append("\n")
            i += 1
    return "".join(out)


def theorems_of(prop):
    p = os.path.join(COQ, "theories", "Props", prop + ".v")
    src = strip_comments(open(p).read())
    return re.findall(r"^\s*Theorem\s+([A-Za-z0-9_']+)", src, re.M)


def print_assumptions(prop, names, workdir):
    """Runs coqc on a generated file that prints the assumptions of every property theorem.
    Returns dict name -> list of axioms (empty list = closed under the global context)."""
    f = os.path.join(workdir, "Assum_%s.v" % prop)
    with open(f, "w") as fh:
        fh.write("From RL Require Import Props.%s.\n" % prop)
        for n in names:
            fh.write('Goal True. idtac "@@THM %s". exact I. Qed.\nPrint Assumptions %s.\n' % (n, n))
    p = sh("timeout 600 coqc -noglob -Q %s RL %s" % (os.path.join(COQ, "theories"), f), cwd=workdir, timeout=700)
    if p.returncode != 0:
        raise CheckError("Print Assumptions failed for %s:\n%s" % (prop, p.stdout + p.stderr))
    res = {}
    cur = None
    for line in p.stdout.split("\n"):
        m = re.match(r"@@THM (\S+)", line)
        if m:
            cur = m.group(1)
            res[cur] = []
            continue
        if cur is None:
            continue
        m = re.match(r"^([A-Za-z_][A-Za-z0-9_'.]*)\s*:", line)
        if m and not line.startswith("Axioms"):
            res[cur].append(m.group(1))
    return res


# --------------------------------------------------------------------------------------------
# floats

def f2b(x):
    return struct.unpack("<Q", struct.pack("<d", x))[0]


def b2f(b):
    return struct.unpack("<d", struct.pack("<Q", b & 0xFFFFFFFFFFFFFFFF))[0]


def fclass(x):
    if math.isnan(x):
        return "nan"
    if math.isinf(x):
        return "+inf" if x > 0 else "-inf"
    return "fin"


def fclose(a, b, rtol=1e-9, atol=0.0):
    """a, b floats. NaN/inf classes must match; finite values within relative tolerance."""
    ca, cb = fclass(a), fclass(b)
    if ca != cb:
        return False
    if ca != "fin":
        return True
    return abs(a - b) <= max(atol, rtol * max(1.0, abs(a), abs(b)))


def row_equilibrated(M):
    """each row divided by its largest magnitude (elimination with partial pivoting is insensitive to row scaling, so the
    forward error of a square solve is governed by the condition number of the row-equilibrated matrix)"""
    out = []
    for row in M:
        m = max([abs(x) for x in row if x == x] + [0.0])
        out.append([x / m for x in row] if m > 0.0 and m != float("inf") else list(row))
    return out


def cond_inf(M):
    """infinity-norm condition number of a square float matrix (list of rows) by Gauss-Jordan with partial pivoting;
    inf when singular or not finite.  Used only to scale comparison tolerances (forward error ~ cond * epsilon)."""
    n = len(M)
    if n == 0:
        return 1.0
    try:
        A = [[float(x) for x in row] + [1.0 if i == j else 0.0 for j in range(n)] for i, row in enumerate(M)]
        norm = max(sum(abs(x) for x in row[:n]) for row in A)
        for j in range(n):
            p = max(range(j, n), key=lambda i: abs(A[i][j]))
            if A[p][j] == 0.0 or A[p][j] != A[p][j]:
                return float("inf")
            A[j], A[p] = A[p], A[j]
            piv = A[j][j]
            A[j] = [x / piv for x in A[j]]
            for i in range(n):
                if i != j and A[i][j] != 0.0:
                    f = A[i][j]
                    A[i] = [x - f * y for x, y in zip(A[i], A[j])]
        inv_norm = max(sum(abs(x) for x in row[n:]) for row in A)
        c = norm * inv_norm
        return c if c == c else float("inf")
    except (OverflowError, ZeroDivisionError, ValueError):
        return float("inf")


# --------------------------------------------------------------------------------------------
# running the two sides

def run_harness(domain, lines, timeout=3000, present=0):
    """lines: list of 'op int int ...' strings. Returns list of list[int]. Sharded over processes.
    present: how the harness constructs the encoded dual numbers (RL_PRESENT; harness/src/numenc.rs): 0 = try_new,
    1 = the sibling constructor try_new_from on a rotated copy of the names (by name the same numbers)."""
    if not lines:
        return []
    henv = env_offline()
    if present:
        henv = dict(henv)
        henv["RL_PRESENT"] = str(present)
    nshard = max(1, min(NCPU, len(lines) // 200))
    shards = [lines[i::nshard] for i in range(nshard)]

    def one(sh_lines):
        p = subprocess.run([HARNESS_BIN, domain], input="\n".join(sh_lines) + "\n", capture_output=True,
                           text=True, timeout=timeout, env=henv)
        outl = p.stdout.split("\n")
        if outl and outl[-1] == "":
            outl.pop()
        if p.returncode != 0 or len(outl) != len(sh_lines):
            raise CheckError("harness %s failed rc=%s (%d of %d lines)\n%s" % (
                domain, p.returncode, len(outl), len(sh_lines), p.stderr[-2000:]))
        return [[int(t) for t in l.split()] for l in outl]

    with ThreadPoolExecutor(max_workers=nshard) as ex:
        outs = list(ex.map(one, shards))
    res = [None] * len(lines)
    for s, o in enumerate(outs):
        for j, r in enumerate(o):
            res[s + j * nshard] = r
    return res


def panic_site(domain, line):
    """Re-runs one harness line with the `@` prefix: returns (file relative to the repo, line, message) of the
    abort it ends in, or None when it does not abort."""
    p = subprocess.run([HARNESS_BIN, domain], input="@" + line + "\n", capture_output=True, text=True,
                       timeout=600, env=env_offline())
    toks = p.stdout.split()
    try:
        v = [int(t) for t in toks]
        i = v.index(-7)
        ln = v[i + 1]
        n = v[i + 2]
        f = bytes(v[i + 3:i + 3 + n]).decode("utf-8", "replace")
        m = v[i + 3 + n]
        msg = bytes(v[i + 4 + n:i + 4 + n + m]).decode("utf-8", "replace")
    except (ValueError, IndexError):
        return None
    rp = os.path.realpath(REPO) + "/"
    if f.startswith(rp):
        f = f[len(rp):]
    elif f.startswith(REPO + "/"):
        f = f[len(REPO) + 1:]
    return f, ln, msg


_TOK = re.compile(r"\[|\]|-?\d+")


def parse_zlistlist(text):
    """Parses Coq's printing of a `list (list Z)` value (after `=`), ignoring scopes/whitespace."""
    m = re.search(r"=\s*(.*?)\n\s*:\s*list", text, re.S)
    if not m:
        raise CheckError("cannot parse coq output: %s" % text[:2000])
    body = m.group(1).replace("%Z", "")
    toks = _TOK.findall(body)
    out = []
    depth = 0
    cur = None
    for t in toks:
        if t == "[":
            depth += 1
            if depth == 2:
                cur = []
        elif t == "]":
            if depth == 2:
                out.append(cur)
                cur = None
            depth -= 1
        else:
            if depth != 2:
                raise CheckError("unexpected token in coq output")
            cur.append(int(t))
    return out


def coq_eval(run_module, run_fn, cases, workdir, shard=400, timeout=3000, tag="cases"):
    """Evaluates `map run_fn cases` inside Coq (vm_compute) where cases : list (list Z).
    run_module e.g. 'Run.RunC08'.  Sharded over up to NCPU coqc processes."""
    if not cases:
        return []
    nsh = (len(cases) + shard - 1) // shard
    chunks = [cases[i * shard:(i + 1) * shard] for i in range(nsh)]

    def one(ic):
        i, ch = ic
        f = os.path.join(workdir, "%s_%d.v" % (tag, i))
        with open(f, "w") as fh:
            fh.write("From Coq Require Import ZArith List.\nImport ListNotations.\nOpen Scope Z_scope.\n")
            fh.write("From RL Require Import %s.\n" % run_module)
            fh.write("Definition cases : list (list Z) := [\n")
            fh.write(";\n".join("[" + ";".join(str(x) for x in c) + "]" for c in ch))
            fh.write("].\nSet Printing Width 200.\nSet Printing Depth 100000000.\n")
            fh.write("Eval vm_compute in (map %s cases).\n" % run_fn)
        p = sh("timeout %d coqc -noglob -Q %s RL %s" % (timeout, os.path.join(COQ, "theories"), f),
               cwd=workdir, timeout=timeout + 60)
        if p.returncode != 0:
            raise CheckError("coqc failed on %s:\n%s" % (f, (p.stdout + p.stderr)[-3000:]))
        r = parse_zlistlist(p.stdout)
        if len(r) != len(ch):
            raise CheckError("coq returned %d results for %d cases (%s)" % (len(r), len(ch), f))
        return r

    with ThreadPoolExecutor(max_workers=NCPU) as ex:
        outs = list(ex.map(one, enumerate(chunks)))
    return [r for o in outs for r in o]


# --------------------------------------------------------------------------------------------
# known findings

def load_known():
    p = os.path.join(ROOT, "known_findings.json")
    if not os.path.exists(p):
        return {"open": [], "fixed": []}
    return json.load(open(p))


# --------------------------------------------------------------------------------------------
# the per-run context

class Ctx:
    def __init__(self, prop, tier, seed):
        self.prop = prop
        self.tier = tier
        self.seed = seed
        self.rng = random.Random(seed * 1000003 + sum(ord(c) for c in prop))
        self.t0 = time.time()
        self.work = os.path.join(WORK, "%s_%d" % (prop, os.getpid()))
        shutil.rmtree(self.work, ignore_errors=True)
        os.makedirs(self.work)
        os.makedirs(EVID, exist_ok=True)
        os.makedirs(REPLAYS, exist_ok=True)
        self.notes = []
        self.evaluations = 0
        self.nontrivial = set()
        self.samples = []
        self.dist = {}
        self.violations = []      # (description, replay dict)
        self.known_hits = []
        self.assumptions = []
        self.obligations = []
        self.discharged = []
        self.axioms = {}
        self.rule = ""
        self.trusted = []
        self.exhaustive = False
        self.known = load_known()
        # drift trigger: when the anchored sources differ from the ones the model was written against, the
        # seeded part of the quick tier runs with a larger budget (scale); a changed fingerprint alone is never a verdict
        self.drift = pinned_fingerprints().get(prop) not in (None, fingerprint(prop))
        self.scale = 3 if (self.drift and tier == "quick") else 1
        if self.drift:
            self.notes.append("anchored sources differ from the pinned fingerprint: quick budget scaled x%d" % self.scale)

    # ---- bookkeeping
    def count(self, key, n=1):
        self.dist[key] = self.dist.get(key, 0) + n

    def sample(self, s, limit=6):
        if len(self.samples) < limit:
            self.samples.append(s)

    def nontriv(self, key):
        self.nontrivial.add(key)

    def violation(self, what, replay):
        """Register a disagreement / failing input. Matched against open known findings."""
        for k in self.known.get("open", []):
            if k.get("property") == self.prop and all(replay.get(a) == b for a, b in k.get("match", {}).items()):
                if k["id"] not in [h[0] for h in self.known_hits]:
                    self.known_hits.append((k["id"], k["what"]))
                return
        self.violations.append((what, replay))

    def cleanup(self):
        shutil.rmtree(self.work, ignore_errors=True)

    # ---- evidence and verdict
    def finish(self, checker_cmd):
        wall = time.time() - self.t0
        nviol = len(self.violations)
        ev = {
            "property_id": self.prop,
            "tier": self.tier,
            "seed": self.seed,
            "level": "proof",
            "coverage": {
                "obligations": len(self.obligations),
                "discharged": len(self.discharged),
                "checker_cmd": checker_cmd,
                "trusted_base": self.trusted,
                "theorems": self.obligations,
                "axioms_per_theorem": self.axioms,
                "evaluations": self.evaluations,
                "distinct_nontrivial": len(self.nontrivial),
                "rule": self.rule,
                "samples": self.samples,
                "input_distribution": self.dist,
                "exhaustive": self.exhaustive,
                "known_findings_reported": [h[0] for h in self.known_hits],
                "notes": self.notes,
            },
            "assumptions": self.assumptions,
            "wall_s": round(wall, 2),
            "violations": nviol,
        }
        with open(os.path.join(EVID, self.prop + ".json"), "w") as fh:
            json.dump(ev, fh, indent=1, default=str)
        for kid, what in self.known_hits:
            print("KNOWN-FINDING: property=%s %s" % (self.prop, what))
        rc = 0
        if nviol:
            what, replay = self.violations[0]
            rp = os.path.join(REPLAYS, "%s_%s_%d.json" % (self.prop, self.tier, self.seed))
            replay = dict(replay)
            replay["property"] = self.prop
            replay["what"] = what
            replay["all_violations"] = [w for w, _ in self.violations[:50]]
            replay["n_violations"] = nviol
            with open(rp, "w") as fh:
                json.dump(replay, fh, indent=1, default=str)
            tail = " no-failing-input-found" if replay.get("no_failing_input") else ""
            print("VIOLATION property=%s replay=%s%s" % (self.prop, rp, tail))
            rc = 1
        else:
            print("OK property=%s tier=%s obligations=%d/%d evaluations=%d nontrivial=%d wall=%.1fs" % (
                self.prop, self.tier, len(self.discharged), len(self.obligations), self.evaluations,
                len(self.nontrivial), wall))
        self.cleanup()
        return rc


def proof_stage(ctx, extra_targets=()):
    """Stage 1 of every check: the property theorems compile, are free of forbidden constructs,
    and depend only on allow-listed axioms.  Returns False when an obligation is not discharged
    (the caller then searches for a failing input)."""
    prop = ctx.prop
    bad = grep_forbidden()
    if bad:
        raise CheckError("forbidden constructs in the Coq development: %s" % bad[:5])
    names = theorems_of(prop)
    ctx.obligations = names
    ok, log = build_coq(coq_targets_for(prop) + list(extra_targets))
    if not ok:
        ctx.notes.append("coq build failed: " + log[-1500:])
        ctx.build_log = log
        return False
    ax = print_assumptions(prop, names, ctx.work)
    ctx.axioms = ax
    for n in names:
        if n not in ax:
            raise CheckError("no Print Assumptions output for %s" % n)
        extra = [a for a in ax[n] if a not in AXIOM_ALLOW]
        if extra:
            raise CheckError("theorem %s depends on non-allow-listed axioms %s" % (n, extra))
        ctx.discharged.append(n)
    if ctx.tier == "thorough" and os.environ.get("VERIF_NO_COQCHK") != "1":
        # independent re-check of the compiled property file and everything it depends on
        # (reads the .vo files only; not under the build lock — retried once if a concurrent build interfered)
        for attempt in (1, 2):
            p = sh("timeout 1500 coqchk -o -silent -Q theories RL RL.Props.%s" % prop, cwd=COQ, timeout=1600)
            if p.returncode == 0:
                break
            build_coq(coq_targets_for(prop))
        out = p.stdout + p.stderr
        if p.returncode != 0:
            raise CheckError("coqchk failed on Props/%s: %s" % (prop, out[-2000:]))
        axs = re.findall(r"^\s+([A-Za-z_][A-Za-z0-9_'.]*)\s*$", out.split("Axioms:")[-1], re.M) if "Axioms:" in out else []
        short = set(a.split(".")[-1] for a in AXIOM_ALLOW)
        extra = [a for a in axs if a.split(".")[-1] not in short and a not in ("<none>",)]
        ctx.notes.append("coqchk -o: ok; axioms reported: %s" % (sorted(set(axs)) or "<none>"))
        if extra:
            raise CheckError("coqchk reports axioms outside the allow-list for %s: %s" % (prop, extra))
    return True


def translate_stage(ctx):
    """Regenerates coq/theories/Gen from /repo (driver/translate.py).  Returns the summary, or None after registering
    that the data can no longer be translated (the caller finishes)."""
    import translate
    try:
        summ = translate.generate(REPO, os.path.join(COQ, "theories", "Gen"))
    except (translate.TranslateError, OSError, ValueError) as e:
        ctx.obligations = theorems_of(ctx.prop)
        ctx.violation("the calendar data of the repo can no longer be translated (%s): the model's named-calendar tables "
                      "cannot be tied to the source" % e,
                      {"no_failing_input": True, "correspondence": "driver/translate.py", "translator_error": str(e)})
        return None
    if not summ["wiring_source"].startswith("static"):
        ctx.notes.append("translator: name wiring " + summ["wiring_source"])
    return summ


def harness_stage(ctx):
    ok, log = build_harness()
    if not ok:
        ctx.notes.append("harness build failed: " + log[-1500:])
        ctx.violation("the correspondence harness no longer builds against /repo: the tie between the "
                      "model and the code cannot be checked", {
                          "no_failing_input": True, "correspondence": "harness build (cargo build --release, feature verif_hooks)",
                          "log_tail": log[-3000:]})
        return False
    return True


def compare_outputs(ctx, cases, impl, model, describe, fields_cmp=None):
    """Generic exact comparison of harness and model outputs; registers violations."""
    nbad = 0
    for c, a, b in zip(cases, impl, model):
        same = (a == b) if fields_cmp is None else fields_cmp(c, a, b)
        if not same:
            nbad += 1
            if nbad <= 20:
                ctx.violation("implementation and proved model disagree on %s" % describe(c),
                              {"case": c, "implementation": a, "model": b})
    return nbad
