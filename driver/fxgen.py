"""Generators, integer encoding and decoding shared by the C09 / C10 checks (FX markets).
Encoding (mirror of harness/src/fx.rs and coq/theories/Run/RunFX.v):
  name = len cp* ; float = IEEE bits ; number = 0 bits | 1 dual | 2 dual2 (see RunNum.v)
  quote = name name number has_settle [day] ; market = nq quote* has_base [name] ; probes = np (name name)*"""
import itertools
import math
import struct

CCYS = ["usd", "eur", "gbp", "jpy", "chf", "cad", "aud", "nzd", "sek", "nok", "dkk", "pln", "czk", "huf", "brl", "mxn",
        "zar", "inr", "cny", "krw", "sgd", "hkd", "try", "ils"]


def f2b(x):
    return struct.unpack("<Q", struct.pack("<d", x))[0]


def b2f(b):
    return struct.unpack("<d", struct.pack("<Q", b & 0xFFFFFFFFFFFFFFFF))[0]


def enc_name(s):
    return [len(s)] + [ord(c) for c in s]


def enc_number(x):
    """x: float | ('d', re, [(name, du)]) | ('d2', re, [(name, du)], dd row-major or None)"""
    if isinstance(x, (int, float)):
        return [0, f2b(float(x))]
    if x[0] == "d":
        _, re_, vs = x
        out = [1, len(vs)]
        for n, _ in vs:
            out += enc_name(n)
        out.append(f2b(re_))
        out += [f2b(d) for _, d in vs]
        return out
    _, re_, vs, dd = x
    n = len(vs)
    out = [2, n]
    for nm, _ in vs:
        out += enc_name(nm)
    out.append(f2b(re_))
    out += [f2b(d) for _, d in vs]
    dd = dd if dd is not None else [0.0] * (n * n)
    out += [f2b(d) for d in dd]
    return out


def enc_quote(q):
    lhs, rhs, x, settle = q
    return enc_name(lhs) + enc_name(rhs) + enc_number(x) + ([1, settle] if settle is not None else [0])


def enc_quotes(qs):
    out = [len(qs)]
    for q in qs:
        out += enc_quote(q)
    return out


def enc_market(qs, base):
    return enc_quotes(qs) + ([1] + enc_name(base) if base is not None else [0])


def enc_probes(ps):
    out = [len(ps)]
    for a, b in ps:
        out += enc_name(a) + enc_name(b)
    return out


# ------------------------------------------------------------------------------------------------
# decoding of outputs

class Rd:
    def __init__(self, a):
        self.a = a
        self.i = 0

    def next(self):
        v = self.a[self.i]
        self.i += 1
        return v

    def done(self):
        return self.i >= len(self.a)

    def name(self):
        n = self.next()
        s = "".join(chr(self.next()) for _ in range(n))
        return s

    def names(self):
        return [self.name() for _ in range(self.next())]

    def number(self):
        """-> dict kind, re, vars, du (by position), dd (matrix) as written by write_number"""
        k = self.next()
        if k == 0:
            return {"kind": 0, "re": b2f(self.next()), "vars": [], "du": [], "dd": []}
        vs = self.names()
        re_ = b2f(self.next())
        nd = self.next()
        du = [b2f(self.next()) for _ in range(nd)]
        if k == 1:
            return {"kind": 1, "re": re_, "vars": vs, "du": du, "dd": []}
        r, c = self.next(), self.next()
        dd = [[b2f(self.next()) for _ in range(c)] for _ in range(r)]
        return {"kind": 2, "re": re_, "vars": vs, "du": du, "dd": dd}


# ------------------------------------------------------------------------------------------------
# trees

def prufer_tree(n, seq):
    """edges of the labelled tree on 0..n-1 with Pruefer sequence seq (len n-2)."""
    if n == 1:
        return []
    if n == 2:
        return [(0, 1)]
    deg = [1] * n
    for s in seq:
        deg[s] += 1
    edges = []
    for s in seq:
        for j in range(n):
            if deg[j] == 1:
                edges.append((j, s))
                deg[j] -= 1
                deg[s] -= 1
                break
    u, v = [j for j in range(n) if deg[j] == 1]
    edges.append((u, v))
    return edges


def random_tree(rng, n):
    shape = rng.random()
    if n <= 2:
        return prufer_tree(n, []), "chain"
    if shape < 0.15:
        perm = list(range(n))
        rng.shuffle(perm)
        return [(perm[i], perm[i + 1]) for i in range(n - 1)], "chain"
    if shape < 0.30:
        c = rng.randrange(n)
        return [(c, j) for j in range(n) if j != c], "star"
    if shape < 0.40:
        # caterpillar / two hubs
        a, b = rng.sample(range(n), 2)
        return [(a, b)] + [(rng.choice([a, b]), j) for j in range(n) if j not in (a, b)], "two-hubs"
    return prufer_tree(n, [rng.randrange(n) for _ in range(n - 2)]), "pruefer"


def rate_value(rng):
    r = rng.random()
    if r < 0.06:
        return rng.choice([1.0, 2.0, 0.5, 100.0, 0.01, 7.3, 49.0, 0.9])     # exact / short values, incl. exactly 1
    return 10.0 ** rng.uniform(-4, 4)


def valid_market(rng, nmin=2, nmax=12, dual_quotes=0.0, settle_prob=0.5):
    """-> (quotes, base, info). quotes: (lhs, rhs, number, settle)."""
    n = rng.randint(nmin, nmax)
    names = rng.sample(CCYS, n)
    if rng.random() < 0.15:
        names = [s.upper() if rng.random() < 0.5 else s for s in names]     # lower-cased by Ccy::try_new
    edges, shape = random_tree(rng, n)
    rng.shuffle(edges)
    settle = rng.choice([rng.randint(10000, 25000), rng.randint(10000, 25000), 0]) if rng.random() < settle_prob else None
    qs = []
    for k, (u, v) in enumerate(edges):
        if rng.random() < 0.5:
            u, v = v, u
        x = rate_value(rng)
        if rng.random() < dual_quotes:
            nv = rng.randint(1, 2)
            vs = [("q%d_%d" % (k, j) if rng.random() < 0.8 else "shared", rng.uniform(-2, 2)) for j in range(nv)]
            vs = list({nm: (nm, d) for nm, d in vs}.values())
            if rng.random() < 0.15:
                vs = []                      # a dual-valued quote WITHOUT variables is still a dual quote: it names no variable
            if rng.random() < 0.5:
                x = ("d", x, vs)
            else:
                m = len(vs)
                dd = [0.0] * (m * m)
                for i in range(m):
                    for j in range(i, m):
                        dd[i * m + j] = dd[j * m + i] = rng.uniform(-1, 1)
                x = ("d2", x, vs, dd)
        qs.append((names[u], names[v], x, settle))
    br = rng.random()
    base = None if br < 0.3 else rng.choice(names)
    return qs, base, {"n": n, "shape": shape, "names": names, "settle": settle}


def malformed_market(rng):
    """-> (quotes, base, kind)"""
    kind = rng.choice(["duplicate quote", "inverse quote duplicated", "cycle + isolated component", "missing quote",
                       "extra quote (cycle)", "mixed settlement", "bad currency code length", "same currency pair",
                       "base not in market", "empty", "two components same count", "non-ascii 3-byte code",
                       "upper-case clash"])
    qs, base, info = valid_market(rng, 3, 9)
    names = [s.lower() for s in info["names"]]
    st = info["settle"]
    if kind == "duplicate quote":
        i = rng.randrange(len(qs))
        j = rng.randrange(len(qs))
        qs[j] = (qs[i][0], qs[i][1], rate_value(rng), st) if i != j else qs[j]
        if i == j:
            qs.append(qs[i])
    elif kind == "inverse quote duplicated":
        i = rng.randrange(len(qs))
        j = (i + 1) % len(qs)
        qs[j] = (qs[i][1], qs[i][0], rate_value(rng), st)
    elif kind == "cycle + isolated component":
        # n currencies, n-1 quotes: a triangle among three of them and one currency pair elsewhere
        k = max(5, len(names))
        names = (names + [c for c in CCYS if c not in names])[:k]
        a, b, c = names[0], names[1], names[2]
        qs = [(a, b, rate_value(rng), st), (b, c, rate_value(rng), st), (a, c, rate_value(rng), st)]
        rest = names[3:]
        # connect the rest as a chain (its own component): |rest|-1 quotes, then one more quote into the triangle
        # component to keep the count at n-1 while leaving two components
        for i in range(len(rest) - 1):
            qs.append((rest[i], rest[i + 1], rate_value(rng), st))
        rng.shuffle(qs)
        base = rng.choice([None] + names)
    elif kind == "missing quote":
        qs.pop(rng.randrange(len(qs)))
    elif kind == "extra quote (cycle)":
        a, b = rng.sample(names, 2)
        qs.insert(rng.randrange(len(qs) + 1), (a, b, rate_value(rng), st))
    elif kind == "mixed settlement":
        i = rng.randrange(len(qs))
        q = qs[i]
        # one quote on another date, or with / without a date where the others have none / one - including THE EPOCH itself
        # (1970-01-01, day 0: the default datetime) against no date
        qs[i] = (q[0], q[1], q[2], (st + 1) if st is not None and rng.random() < 0.6 else
                 (None if st is not None else rng.choice([12345, 0, 0, 1, 25000])))
    elif kind == "bad currency code length":
        i = rng.randrange(len(qs))
        q = qs[i]
        bad = rng.choice(["us", "usdx", "", "e", "€u", "éé"])
        qs[i] = (bad, q[1], q[2], q[3]) if rng.random() < 0.5 else (q[0], bad, q[2], q[3])
    elif kind == "same currency pair":
        i = rng.randrange(len(qs))
        q = qs[i]
        qs[i] = (q[0], q[0].upper() if rng.random() < 0.5 else q[0], q[2], q[3])
    elif kind == "base not in market":
        base = rng.choice([c for c in CCYS if c not in names] + ["xx", "abcd"])
    elif kind == "empty":
        qs = []
    elif kind == "two components same count":
        # replace one tree edge by an edge inside one of the two sides it separates
        if len(qs) >= 3:
            i = rng.randrange(len(qs))
            others = [q for k, q in enumerate(qs) if k != i]
            a, b = others[0][0].lower(), others[0][1].lower()
            qs[i] = (b, a, rate_value(rng), st)
    elif kind == "non-ascii 3-byte code":
        # a single 3-byte character (or 1 + 2 bytes) has byte length 3: accepted by Ccy::try_new
        i = rng.randrange(len(qs))
        new = rng.choice(["€", "₤", "x£", "¥y"])
        old = qs[i][0]
        qs = [tuple(new if (isinstance(f, str) and f.lower() == old.lower()) else f for f in q) for q in qs]
        if base is not None and base.lower() == old.lower():
            base = new
        kind = "non-ascii 3-byte code (valid)"
    elif kind == "upper-case clash":
        # the same currency spelled in both cases: one currency after lower-casing
        qs = [(q[0].upper() if rng.random() < 0.5 else q[0], q[1].upper() if rng.random() < 0.5 else q[1], q[2], q[3]) for q in qs]
        kind = "mixed-case spellings (valid)"
    return qs, base, kind


# ------------------------------------------------------------------------------------------------
# independent reference (exact arithmetic is not needed: products along the tree path in floats)

def reference_rates(qs, names_lc):
    """For a tree market of plain/dual quotes: dict (a,b) -> value via path products (python floats)."""
    adj = {n: [] for n in names_lc}
    for lhs, rhs, x, _ in qs:
        v = x if isinstance(x, (int, float)) else x[1]
        adj[lhs.lower()].append((rhs.lower(), v))
        adj[rhs.lower()].append((lhs.lower(), 1.0 / v))
    out = {}
    for a in names_lc:
        val = {a: 1.0}
        stack = [a]
        while stack:
            u = stack.pop()
            for w, f in adj[u]:
                if w not in val:
                    val[w] = val[u] * f
                    stack.append(w)
        for b in names_lc:
            if b in val:
                out[(a, b)] = val[b]
    return out


def all_labelled_trees(n):
    if n == 1:
        yield []
        return
    if n == 2:
        yield [(0, 1)]
        return
    for seq in itertools.product(range(n), repeat=n - 2):
        yield prufer_tree(n, list(seq))


def classify(qs, base):
    """The property's own wording as an oracle: 'ok' iff the codes are valid, the quotes connect the
    currencies (base included) as a tree and the settlement dates agree; otherwise 'err'."""
    def code_ok(s):
        return len(s.lower().encode("utf-8")) == 3
    for q in qs:
        if not (code_ok(q[0]) and code_ok(q[1])) or q[0].lower() == q[1].lower():
            return "err"
    if base is not None and not code_ok(base):
        return "err"
    if not qs:
        return "err"
    ccys = set()
    if base is not None:
        ccys.add(base.lower())
    for q in qs:
        ccys.add(q[0].lower())
        ccys.add(q[1].lower())
    if len(ccys) != len(qs) + 1:
        return "err"
    s0 = qs[0][3]
    if any(q[3] != s0 for q in qs):
        return "err"
    parent = {c: c for c in ccys}

    def find(x):
        while parent[x] != x:
            parent[x] = parent[parent[x]]
            x = parent[x]
        return x
    for q in qs:
        a, b = find(q[0].lower()), find(q[1].lower())
        if a == b:
            return "err"        # closes a cycle
        parent[a] = b
    return "ok" if len({find(c) for c in ccys}) == 1 else "err"
