#!/bin/bash
# Runs registered checks against a SCRATCH worktree of /repo that has a seeded change applied, without touching /repo:
#   driver/seedtest.sh <worktree-with-change-applied> <Cxx> [<Cyy> ...]
# Builds a private copy of the harness against that worktree; evidence/replays go to a scratch directory.
set -u
WT="$1"; shift
ID=$(basename "$WT")
RUN=/tmp/seedrun/$ID
mkdir -p "$RUN/evidence" "$RUN/replays"
rsync -a --exclude target /verif/harness/ "$RUN/harness/"
sed -i "s#path = \"/repo\"#path = \"$WT\"#" "$RUN/harness/Cargo.toml"
( cd "$RUN/harness" && CARGO_NET_OFFLINE=true cargo build --release --offline 2>&1 | tail -2 )
for P in "$@"; do
  echo "== $P against $WT"
  ( cd /verif && VERIF_REPO="$WT" VERIF_HARNESS_DIR="$RUN/harness" VERIF_EVID_DIR="$RUN/evidence" VERIF_REPLAY_DIR="$RUN/replays" ./check "$P" --tier "${TIER:-quick}" 2>&1 | tail -4 )
done
