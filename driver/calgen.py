"""Seeded generators of calendars, dates and calendar cases (shared by C04, C05, C06, C20)."""
import datetime

EPOCH = datetime.date(1970, 1, 1)
D2200 = (datetime.date(2200, 12, 31) - EPOCH).days
BUILTIN = ["all", "bus", "nyc", "fed", "tgt", "ldn", "stk", "osl", "zur", "tro", "tyo", "syd", "wlg", "mum"]


def dn(y, m, d):
    return (datetime.date(y, m, d) - EPOCH).days


def month_end(y, m):
    return dn(y + (m == 12), (m % 12) + 1, 1) - 1


def gen_mask(rng):
    r = rng.random()
    if r < 0.45:
        return [5, 6]
    if r < 0.55:
        return []
    if r < 0.65:
        return [4, 5]
    if r < 0.72:
        return [6]
    k = rng.randint(1, 6)
    return sorted(rng.sample(range(7), k))


def gen_hols(rng, lo, hi, nmax=60):
    """Holidays clustered around month ends / runs of consecutive days / random."""
    hols = set()
    n = rng.choice([0, 1, 3, 8, 20, rng.randint(0, nmax)])
    while len(hols) < n and len(hols) < nmax + 40:
        r = rng.random()
        if r < 0.4:
            d0 = rng.randint(lo, hi)
            dd = EPOCH + datetime.timedelta(days=d0)
            me = month_end(dd.year, dd.month)
            d = me + rng.randint(-4, 5)
            hols.add(d)
        elif r < 0.7:
            d0 = rng.randint(lo, hi)
            # mostly short runs; one run in five is a long shutdown (10-30 consecutive days), so that the nearest
            # business day can lie more than two weeks away
            for j in range(rng.randint(2, 9) if rng.random() < 0.8 else rng.randint(10, 30)):
                hols.add(d0 + j)
        else:
            hols.add(rng.randint(lo, hi))
    l = list(hols)
    rng.shuffle(l)
    # occasionally a duplicate entry (IndexSet dedups)
    if l and rng.random() < 0.1:
        l.append(l[0])
    return l


def enc_cal(mask, hols):
    return [len(mask)] + list(mask) + [len(hols)] + list(hols)


def gen_calendar(rng, lo, hi, allow_named=True):
    """Returns (encoding list, info dict). Guarantees a common working weekday."""
    while True:
        r = rng.random()
        if r < 0.25:
            mask, hols = gen_mask(rng), gen_hols(rng, lo, hi)
            if len(set(mask)) >= 7:
                continue
            kind = rng.choice([0, 0, 3]) + (10 if rng.random() < 0.3 else 0)      # 10+: restored from a saved document
            return [kind] + enc_cal(mask, hols), {"kind": kind, "masks": [mask], "hols": [hols], "settle": None}
        nc = rng.randint(1, 3)
        cals = [(gen_mask(rng), gen_hols(rng, lo, hi)) for _ in range(nc)]
        settle = None
        if rng.random() < 0.55:
            settle = [(gen_mask(rng), gen_hols(rng, lo, hi)) for _ in range(rng.randint(0, 2))]
        allm = set()
        for m, _ in cals + (settle or []):
            allm |= set(m)
        if len(allm) >= 7:
            continue
        kind = rng.choice([1, 1, 1, 2]) + (10 if rng.random() < 0.3 else 0)
        enc = [kind, nc]
        for m, h in cals:
            enc += enc_cal(m, h)
        if settle is None:
            enc += [0]
        else:
            enc += [1, len(settle)]
            for m, h in settle:
                enc += enc_cal(m, h)
        return enc, {"kind": kind, "masks": [m for m, _ in cals], "hols": [h for _, h in cals],
                     "settle": settle}


def enc_named(name, kind=4):
    cps = [ord(c) for c in name]
    return [kind, len(cps)] + cps


def interesting_dates(rng, info, lo, hi, n):
    """Dates dense around the holidays and month ends."""
    pool = []
    for hs in info["hols"] + [h for _, h in (info["settle"] or [])]:
        pool += hs
    out = []
    for _ in range(n):
        r = rng.random()
        if pool and r < 0.5:
            out.append(rng.choice(pool) + rng.randint(-3, 3))
        elif r < 0.8:
            d0 = rng.randint(lo, hi)
            dd = EPOCH + datetime.timedelta(days=d0)
            out.append(month_end(dd.year, dd.month) + rng.randint(-3, 3))
        else:
            out.append(rng.randint(lo, hi))
    return out


def gen_i8(rng):
    r = rng.random()
    if r < 0.3:
        return rng.choice([0, 1, -1, 2, -2])
    if r < 0.45:
        return rng.choice([127, -128, -127, 126, 100, -100])
    return rng.randint(-128, 127)


def line(case):
    return "c " + " ".join(str(x) for x in case)


def fmt_date(n):
    try:
        return str(EPOCH + datetime.timedelta(days=n))
    except OverflowError:
        return "day%d" % n
