"""Shared by C11 and C12: case encoding for the `curve` domain (harness/src/curve.rs, Run/RunCurve.v),
seeded curve generators, running both sides, comparison with a float tolerance, shrinking."""
from common import *  # noqa

FMARK = 1 << 64
RULES = ["log_linear", "linear", "linear_zero_rate", "flat_forward", "flat_backward", "null"]
NS = 10 ** 9
Y2000 = 946684800
YEAR = 365 * 86400


# ------------------------------------------------------------------------------ encoding
def enc_name(s):
    return [len(s)] + [ord(c) for c in s]


def enc_f(x):
    return [0, f2b(x)]


def enc_dual(vars_, re, du):
    o = [1, len(vars_)]
    for v in vars_:
        o += enc_name(v)
    return o + [f2b(re)] + [f2b(d) for d in du]


def enc_dual2(vars_, re, du, dd):
    o = [2, len(vars_)]
    for v in vars_:
        o += enc_name(v)
    return o + [f2b(re)] + [f2b(d) for d in du] + [f2b(d) for row in dd for d in row]


def mk_case(path, rule, ad, cid, base, nodes, acts):
    """nodes: list of (key_ns, encoded number); acts: list of int lists"""
    c = [10, path, rule, ad] + enc_name(cid) + [0 if base is None else 1, f2b(base if base is not None else 0.0), len(nodes)]
    for k, v in nodes:
        c += [k] + v
    c.append(len(acts))
    for a in acts:
        c += a
    return c


def act_value(x):
    return [0, x]


def act_index(x):
    return [1, x]


def act_order(o):
    return [2, o]


def act_ad():
    return [3]


def act_nodes():
    return [4]


def act_index_value(x):
    return [5, x]


def act_grads(x, names):
    o = [6, x, len(names)]
    for n in names:
        o += enc_name(n)
    return o


def line(case):
    return "c " + " ".join(str(x) for x in case)


# ------------------------------------------------------------------------------ generators
SPACINGS = [("1s", 1, 3), ("minutes", 60, 3600), ("days", 86400, 40 * 86400), ("months", 20 * 86400, 400 * 86400),
            ("years", YEAR, 50 * YEAR), ("mixed", 1, 50 * YEAR)]


def gen_keys(rng, n):
    """n strictly increasing timestamps (seconds), spacing class chosen at random: 1 s ... 50 y"""
    name, lo, hi = rng.choice(SPACINGS)
    t = Y2000 + rng.randint(-30 * YEAR, 30 * YEAR)
    ks = [t]
    for _ in range(n - 1):
        if name == "mixed":
            step = int(round(math.exp(rng.uniform(0.0, math.log(hi)))))
        else:
            step = rng.randint(lo, hi)
        t += max(1, step)
        ks.append(t)
    return name, ks


def gen_values(rng, n):
    kind = rng.random()
    if kind < 0.4:       # discount-factor like: decreasing from about 1
        v = rng.choice([1.0, rng.uniform(0.9, 1.1)])
        out = []
        flat = rng.random() < 0.4      # segments with a zero forward rate: adjacent nodes carry bit-for-bit the same value
        for _ in range(n):
            out.append(v)
            if not (flat and rng.random() < 0.35):
                v *= math.exp(-rng.uniform(0.0, 0.2))
        return ("df-like with flat segments" if flat else "df-like"), [max(x, 1.1e-3) for x in out]
    if kind < 0.55:       # some equal neighbours
        base = [math.exp(rng.uniform(math.log(1e-3), math.log(1e3))) for _ in range(n)]
        for i in range(1, n):
            if rng.random() < 0.4:
                base[i] = base[i - 1]
        return "plateaus", base
    return "log-uniform", [math.exp(rng.uniform(math.log(1.001e-3), math.log(0.999e3))) for _ in range(n)]


def query_dates(rng, ks):
    """every node, +-1 s around every node, midpoints, before / after the range"""
    qs = []
    for k in ks:
        qs += [k - 1, k, k + 1]
    for a, b in zip(ks, ks[1:]):
        qs.append((a + b) // 2)
        if b - a > 3:
            qs.append(rng.randint(a + 1, b - 1))
    span = max(1, ks[-1] - ks[0])
    qs += [ks[0] - span, ks[0] - rng.randint(2, 10 * YEAR), ks[-1] + span, ks[-1] + rng.randint(2, 10 * YEAR)]
    return qs


def classify_query(ks, x):
    if x < ks[0]:
        return "before first node"
    if x > ks[-1]:
        return "after last node"
    if x in ks:
        return "at a node"
    return "between nodes"


# ------------------------------------------------------------------------------ running and comparing
def cmp_out(a, b, case=None):
    """element-wise: marked floats with tolerance (scaled per number, see float_scales), everything else
    exact. Returns index of first difference or -1"""
    sc = None
    if case is not None:
        a, b = canon_out(case, a), canon_out(case, b)
    if case is not None and len(a) == len(b):
        sc = float_scales(case, a, b)
    n = min(len(a), len(b))
    amps = None
    if case is not None and sc:
        amps = getattr(float_scales, "amps", None)
    for i in range(n):
        _AMP[0] = amps[i] if amps and i < len(amps) else 1.0
        ok = same_item(a[i], b[i], sc[i] if sc else 0.0)
        _AMP[0] = 1.0
        if not ok:
            return i
    return -1 if len(a) == len(b) else n


def same_item(p, q, scale=0.0):
    if p >= FMARK and q >= FMARK:
        return fsame(b2f(p - FMARK), b2f(q - FMARK), scale)
    return p == q


def case_nodes(case):
    """sorted (key in seconds, value) of an op-10 case (value = real part of the node)"""
    i = 4
    i += 1 + case[i]
    i += 2
    n = case[i]
    i += 1
    out = []
    for _ in range(n):
        key = case[i]
        i += 1
        kind = case[i]
        i += 1
        if kind == 0:
            re_ = b2f(case[i])
            i += 1
        else:
            nv = case[i]
            i += 1
            for _ in range(nv):
                i += 1 + case[i]
            re_ = b2f(case[i])
            i += 1 + nv + (nv * nv if kind == 2 else 0)
        out.append((key // NS, re_))
    out.sort()
    return out


def extrapolation_factor(nodes, x):
    """how much a look-up at x amplifies the rounding of its two node values: max(1, |w|, |1 - w|) * (1 + |ln y1| + |ln y2|) with w
    the interpolation weight on the interval used (the first / last one outside the node range) - a look-up far beyond the
    last node of closely spaced nodes multiplies last-bit differences by the distance measured in interval lengths"""
    if len(nodes) < 2:
        return 1.0
    ks = [k for k, _ in nodes]
    j = 0
    while j < len(ks) - 2 and x > ks[j + 1]:
        j += 1
    (x1, y1), (x2, y2) = nodes[j], nodes[j + 1]
    if x2 == x1:
        return 1.0
    w = (x - x1) / (x2 - x1)
    lg = sum(abs(math.log(abs(y))) for y in (y1, y2) if y == y and abs(y) not in (0.0, float("inf")))
    return max(1.0, abs(w), abs(1.0 - w)) * (1.0 + lg)


def fsame(a, b, scale=0.0):
    """1e-9 relative, plus an absolute 1e-11 * scale where `scale` is the magnitude of the terms that are
    summed inside the number the float belongs to (its largest component and first-derivative^2 / value):
    libm's exp/ln and the model's differ at 1e-13 relative, and a Hessian entry that cancels to (nearly) zero
    inherits that error at the scale of its terms.  NaN / inf classes must match."""
    ca, cb = fclass(a), fclass(b)
    if ca != cb:
        return False
    if ca != "fin":
        return True
    amp = _AMP[0]
    return abs(a - b) <= (1e-9 + 4e-14 * amp) * max(abs(a), abs(b)) + 1e-11 * scale * max(1.0, 1e-3 * amp) + 1e-13


_AMP = [1.0]      # extrapolation factor of the look-up the compared float belongs to (set by cmp_out)


class _P:
    def __init__(self, o):
        self.o = o
        self.i = 0

    def nxt(self):
        v = self.o[self.i]
        self.i += 1
        return v


def _parse_number(p, grp):
    """consumes one encoded Number, appends (positions of floats, re, du list) to grp"""
    kind = p.nxt()
    pos = []
    if kind == 0:
        pos.append(p.i)
        p.nxt()
        grp.append((pos, kind))
        return kind
    nv = p.nxt()
    for _ in range(nv):
        ln = p.nxt()
        p.i += ln
    pos.append(p.i)
    p.nxt()
    nd = p.nxt()
    for _ in range(nd):
        pos.append(p.i)
        p.nxt()
    if kind == 2:
        r, c = p.nxt(), p.nxt()
        for _ in range(r * c):
            pos.append(p.i)
            p.nxt()
    grp.append((pos, kind))
    return kind


def float_scales(case, a, b):
    """per output position: the tolerance scale of the number it belongs to (0 for non-floats / on any
    parse problem)"""
    sc = [0.0] * len(a)
    float_scales.amps = None
    if case[0] != 10 or not a or a[0] != 0:
        return sc
    try:
        head, acts = split_case(case)
        nodes = case_nodes(case)
        amps = [1.0] * len(a)
        p = _P(a)
        p.nxt()
        groups = []
        for act in acts:
            k = act[0]
            if k in (0, 5, 6):
                oc = p.nxt()
                if oc != 0:
                    continue
                g = []
                i0 = p.i
                kind = _parse_number(p, g)
                pos = g[0][0]
                amp_here = extrapolation_factor(nodes, act[1])
                if k == 6 and kind >= 1:
                    n1 = p.nxt()
                    for _ in range(n1):
                        pos.append(p.i)
                        p.nxt()
                    if kind == 2:
                        r, c = p.nxt(), p.nxt()
                        for _ in range(r * c):
                            pos.append(p.i)
                            p.nxt()
                groups.append(pos)
                for q in pos:
                    amps[q] = amp_here
            elif k == 1:
                oc = p.nxt()
                if oc == 0:
                    p.nxt()
            elif k == 2:
                p.nxt()
            elif k == 3:
                oc = p.nxt()
                if oc == 0:
                    p.nxt()
            elif k == 4:
                oc = p.nxt()
                if oc != 0:
                    continue
                n = p.nxt()
                for _ in range(n):
                    p.nxt()
                    g = []
                    _parse_number(p, g)
                    groups.append(g[0][0])
        for pos in groups:
            vals = []
            for i in pos:
                for o in (a, b):
                    if o[i] >= FMARK:
                        v = b2f(o[i] - FMARK)
                        if math.isfinite(v):
                            vals.append(abs(v))
            if not vals:
                continue
            re_ = abs(b2f(a[pos[0]] - FMARK)) if a[pos[0]] >= FMARK else 0.0
            m = max(vals)
            s2 = m * m / re_ if re_ > 1e-300 and math.isfinite(re_) else m
            scale = max(m, s2 if math.isfinite(s2) else m)
            for i in pos:
                sc[i] = scale
        float_scales.amps = amps
    except (IndexError, ValueError, OverflowError):
        float_scales.amps = None
        return [0.0] * len(a)
    return sc


def fmt_out(o, limit=60):
    s = []
    for v in o[:limit]:
        s.append(repr(b2f(v - FMARK)) if v >= FMARK else str(v))
    return " ".join(s) + (" ..." if len(o) > limit else "")


def run_both(ctx, cases, shard=40, tag="curve"):
    impl = run_harness("curve", [line(c) for c in cases])
    model = coq_eval("Run.RunCurve", "runCurve", cases, ctx.work, shard=shard, tag=tag)
    return impl, model


def _canon_number(o, i, out):
    """re-emits the Number encoded at o[i:] with its variable names in sorted order (derivative arrays permuted with
    them) when it is well formed; returns the next index.  No property pins the order in which a number stores its
    variables, so results are compared BY NAME."""
    kind = o[i]
    if kind == 0:
        out += o[i:i + 2]
        return i + 2
    nv = o[i + 1]
    j = i + 2
    names = []
    for _ in range(nv):
        ln = o[j]
        names.append(tuple(o[j + 1:j + 1 + ln]))
        j += 1 + ln
    re_ = o[j]
    nd = o[j + 1]
    du = o[j + 2:j + 2 + nd]
    j += 2 + nd
    r = c = 0
    dd = []
    if kind == 2:
        r, c = o[j], o[j + 1]
        dd = o[j + 2:j + 2 + r * c]
        j += 2 + r * c
    if len(set(names)) == nv == nd and (kind == 1 or (r == nv and c == nv)):
        order = sorted(range(nv), key=lambda t: names[t])
        names = [names[t] for t in order]
        du = [du[t] for t in order]
        if kind == 2:
            dd = [dd[p * nv + q] for p in order for q in order]
    out += [kind, nv]
    for nm in names:
        out += [len(nm)] + list(nm)
    out += [re_, nd] + list(du)
    if kind == 2:
        out += [r, c] + list(dd)
    return j


def canon_out(case, o):
    """the output of an op-10 case with every embedded Dual / Dual2 in canonical (sorted-name) form"""
    if case[0] != 10 or not o or o[0] != 0:
        return o
    try:
        head, acts = split_case(case)
        out = [o[0]]
        i = 1
        for act in acts:
            k = act[0]
            if k in (0, 5, 6):
                oc = o[i]
                out.append(oc)
                i += 1
                if oc != 0:
                    continue
                kind = o[i]
                i = _canon_number(o, i, out)
                if k == 6 and kind >= 1:
                    n1 = o[i]
                    out += o[i:i + 1 + n1]
                    i += 1 + n1
                    if kind == 2:
                        r, c = o[i], o[i + 1]
                        out += o[i:i + 2 + r * c]
                        i += 2 + r * c
            elif k in (1, 3):
                oc = o[i]
                out.append(oc)
                i += 1
                if oc == 0:
                    out.append(o[i])
                    i += 1
            elif k == 2:
                out.append(o[i])
                i += 1
            elif k == 4:
                oc = o[i]
                out.append(oc)
                i += 1
                if oc != 0:
                    continue
                n = o[i]
                out.append(n)
                i += 1
                for _ in range(n):
                    out.append(o[i])
                    i += 1
                    i = _canon_number(o, i, out)
        if i != len(o) or len(out) != len(o):
            return o
        return out
    except (IndexError, ValueError, OverflowError, TypeError):
        return o


def split_case(case):
    """(header ints up to and including the nodes, list of actions) of an op-10 case"""
    i = 4
    i += 1 + case[i]            # id
    i += 2                      # hasbase, base
    n = case[i]
    i += 1
    for _ in range(n):
        i += 1                  # key
        kind = case[i]
        i += 1
        if kind == 0:
            i += 1
        else:
            nv = case[i]
            i += 1
            for _ in range(nv):
                i += 1 + case[i]
            i += 1 + nv + (nv * nv if kind == 2 else 0)
    head = case[:i]
    nact = case[i]
    i += 1
    acts = []
    for _ in range(nact):
        a = case[i]
        if a in (0, 1, 2, 5):
            acts.append(case[i:i + 2])
            i += 2
        elif a in (3, 4):
            acts.append(case[i:i + 1])
            i += 1
        else:
            j = i + 2
            nn = case[j]
            j += 1
            for _ in range(nn):
                j += 1 + case[j]
            acts.append(case[i:j])
            i = j
    return head, acts


def shrink(ctx, case):
    """smallest script with the same curve that still disagrees: the order switches up to the first
    disagreeing query, and that query"""
    if case[0] != 10:
        return case
    head, acts = split_case(case)
    cands = []
    for i, a in enumerate(acts):
        if a[0] == 2:
            continue
        pre = [b for b in acts[:i] if b[0] == 2]
        cands.append(head + [len(pre) + 1] + [x for b in pre for x in b] + a)
    if not cands:
        return case
    impl, model = run_both(ctx, cands, tag="shrink")
    for c, a, b in zip(cands, impl, model):
        if cmp_out(a, b, c) >= 0:
            return c
    return case


ACT_NAME = {0: "interpolated_value", 1: "node_index", 2: "set_ad_order", 3: "ad", 4: "nodes", 5: "index_value",
            6: "interpolated_value + gradient1/gradient2 by name"}


def describe(case):
    if case[0] in (0, 1):
        n = case[3]
        l = case[4:4 + n]
        v = case[4 + n]
        if case[0] == 0:
            return "index_left(%s, %r, left_count=%s)" % ([b2f(x) for x in l], b2f(v), case[2] if case[1] else None)
        return "index_left(%s, %d, left_count=%s)" % (l, v, case[2] if case[1] else None)
    if case[0] == 2:
        n = case[1]
        return "index_left on the float list %s for %d query values" % ([b2f(x) for x in case[2:2 + n]], case[2 + n])
    head, acts = split_case(case)
    path, rule, ad = case[1], case[2], case[3]
    idl = case[4]
    cid = "".join(chr(c) for c in case[5:5 + idl])
    i = 5 + idl
    base = b2f(case[i + 1]) if case[i] else None
    n = case[i + 2]
    i += 3
    nodes = []
    for _ in range(n):
        k = case[i]
        kind = case[i + 1]
        if kind == 0:
            nodes.append((k / NS if k % NS else k // NS, b2f(case[i + 2])))
            i += 3
        else:
            # skip a dual / dual2
            j = i + 2
            nv = case[j]
            j += 1
            names = []
            for _ in range(nv):
                names.append("".join(chr(c) for c in case[j + 1:j + 1 + case[j]]))
                j += 1 + case[j]
            re = b2f(case[j])
            j += 1 + nv + (nv * nv if kind == 2 else 0)
            nodes.append((k / NS if k % NS else k // NS, "%s(%r, vars=%s)" % ("Dual" if kind == 1 else "Dual2", re, names)))
            i = j
    ad_s = []
    for a in acts:
        if a[0] in (0, 1, 5, 6):
            ad_s.append("%s(%d)" % (ACT_NAME[a[0]], a[1]))
        elif a[0] == 2:
            ad_s.append("set_ad_order(%d)" % a[1])
        else:
            ad_s.append(ACT_NAME[a[0]])
    return "%s curve id=%r rule=%s ad=%d index_base=%s nodes (timestamp s, value) in supply order %s; then %s" % (
        "CurveDF::try_new" if path == 0 else "Python-facing Curve(...)" if path == 1 else
        "CurveDF::try_new + to_json + from_json(document with the nodes in supply order)", cid, RULES[rule], ad, base, nodes, ", ".join(ad_s))


def compare_all(ctx, cases, impl, model, weights=None, do_shrink=True):
    nbad = 0
    for idx, (c, a, b) in enumerate(zip(cases, impl, model)):
        ctx.evaluations += weights[idx] if weights else 1
        d = cmp_out(a, b, c)
        if d < 0:
            continue
        nbad += 1
        if nbad > 10:
            continue
        c2 = shrink(ctx, c) if do_shrink else c
        if c2 is not c:
            a2, b2 = run_both(ctx, [c2], tag="shr1")
            a, b = a2[0], b2[0]
            d = cmp_out(a, b, c2)
        ctx.violation(
            "the implementation disagrees with the proved model on %s: implementation [%s] model [%s] "
            "(first difference at output position %d; outcomes are 0 ... = Ok, 1 = Err, 2 = abort)" % (
                describe(c2), fmt_out(a), fmt_out(b), d),
            {"case": c2, "implementation": a, "model": b, "first_difference": d, "description": describe(c2),
             "harness_cmd": "echo '%s' | harness/target/release/rlharness curve" % line(c2)})
    return nbad


def replay_case(ctx, rp):
    build_harness()
    build_coq(["theories/Run/RunCurve.vo"])
    c = list(rp["case"])
    a, b = run_both(ctx, [c], tag="replay")
    d = cmp_out(a[0], b[0], c)
    print("replay %s:\n implementation [%s]\n model          [%s]\n %s" % (
        describe(c), fmt_out(a[0]), fmt_out(b[0]), "AGREE" if d < 0 else "DISAGREE at output position %d" % d))
    ctx.cleanup()
    return 0 if d < 0 else 1
