"""C12 — curve values carry exact sensitivities to their nodes at every derivative order.
Proof: Props/C12.v (Model/Curve.v, Proofs/CurveP.v).  Correspondence: Model/Curve.v (Run/RunCurve.v, floats) vs
rust/curves/curve.rs (set_ad_order, index_value), curve_py.rs (nodes_into_order, Python-facing Curve),
dual/mod.rs (get_variable_tags) through `rlharness curve`."""
from common import *  # noqa
import curverun as cr


def rand_dual(rng, order, re, names):
    """a Dual / Dual2 with the given distinct variable names and random derivative parts"""
    nv = len(names)
    du = [rng.choice([1.0, 0.0, rng.uniform(-2, 2)]) for _ in range(nv)]
    if order == 1:
        return cr.enc_dual(names, re, du)
    dd = [[0.0] * nv for _ in range(nv)]
    if rng.random() < 0.6:
        for a in range(nv):
            for b in range(a, nv):
                v = rng.uniform(-1, 1)
                dd[a][b] = v
                dd[b][a] = v
    return cr.enc_dual2(names, re, du, dd)


def gen_cases(ctx):
    rng = ctx.rng
    th = ctx.tier == "thorough"
    cases, weights = [], []
    ncurves = 2600 if th else 90
    for ci in range(ncurves):
        n = rng.choice([2, 2, 3, 3, 4, 5, 6, 7, 8, 9, 10, 11, 12])
        spacing, ks = cr.gen_keys(rng, n)
        vclass, ys = cr.gen_values(rng, n)
        rule = rng.choice([0, 0, 1, 1, 2, 2, 3, 4]) if rng.random() > 0.02 else 5
        path = rng.choice([0, 1])
        order = list(range(n))
        rng.shuffle(order)
        ad = rng.choice([0, 0, 1, 2])
        cid = rng.choice(["v", "crv", "eur_ois", "x1", "n", "usd_sofr\n", "v\r\n", " crv ", "a\tb", ""])
        base = rng.choice([None, 100.0, rng.uniform(50, 300)])
        # node values: floats (the property's case), or user-supplied duals (own names / shared names)
        style = "floats"
        if ad != 0 and rng.random() < 0.45:
            style = rng.choice(["own-names", "shared-names", "curve-like-names"])
        elif path == 1 and rng.random() < 0.2:
            style = "mixed-kinds"
        nodes = []
        pool = ["u", "v", "w", cid + "0", cid + "1", "q"]
        for i in order:
            if style == "floats":
                v = cr.enc_f(ys[i])
            elif style == "mixed-kinds":
                k = rng.choice([0, 1, 2])
                v = cr.enc_f(ys[i]) if k == 0 else rand_dual(rng, k, ys[i], rng.sample(pool, rng.randint(0, 3)))
            else:
                o = ad if path == 0 else rng.choice([1, 2])
                if style == "own-names":
                    names = ["n%d" % i]
                elif style == "shared-names":
                    names = rng.sample(pool, rng.randint(0, 3))
                else:
                    names = [cid + str(rng.randint(0, n))]
                v = rand_dual(rng, o, ys[i], names)
            nodes.append((ks[i] * cr.NS, v))
        tags = [cid + str(i) for i in range(n)]
        qs = cr.query_dates(rng, ks)

        def observe(acts, k):
            acts.append(cr.act_ad())
            acts.append(cr.act_nodes())
            for x in rng.sample(qs, min(k, len(qs))):
                nm = list(tags)
                r = rng.random()
                if r < 0.2:
                    rng.shuffle(nm)
                    nm = nm[:rng.randint(1, len(nm))]
                elif r < 0.35:
                    nm = nm + ["zz"]
                elif r < 0.45:
                    nm = ["u", "v", "n0", "n1"] + nm[:2]
                acts.append(cr.act_grads(x, nm))
                ctx.count("query " + cr.classify_query(ks, x))
            x = rng.choice(qs)
            acts.append(cr.act_index_value(x))
            if rng.random() < 0.3:
                acts.append(cr.act_index_value(ks[0] - 1))
                acts.append(cr.act_index_value(ks[0]))

        acts = []
        observe(acts, 5)
        nsw = rng.randint(0, 8)
        for _ in range(nsw):
            acts.append(cr.act_order(rng.choice([0, 1, 2])))
            observe(acts, 3)
        cases.append(cr.mk_case(path, rule, ad, cid, base, nodes, acts))
        weights.append(len(acts))
        ctx.count("rule " + cr.RULES[rule])
        ctx.count("constructor " + ("CurveDF::try_new" if path == 0 else "Python-facing Curve"))
        ctx.count("nodes %d" % n)
        ctx.count("initial AD order %d" % ad)
        ctx.count("order switches %d" % nsw)
        ctx.count("node values " + style)
        ctx.count("index_base " + ("none" if base is None else "given"))
        ctx.count("spacing " + spacing)
    # malformed: 0 / 1 nodes with switches and index_value
    for _ in range(60 if th else 8):
        n = rng.choice([0, 1])
        _, ks = cr.gen_keys(rng, 1)
        nodes = [(ks[0] * cr.NS, cr.enc_f(rng.uniform(0.5, 1.5)))][:n]
        acts = [cr.act_nodes(), cr.act_index_value(ks[0] - 3), cr.act_index_value(ks[0] + 3), cr.act_order(rng.choice([1, 2])),
                cr.act_ad(), cr.act_nodes(), cr.act_grads(ks[0], ["m0"]), cr.act_order(0), cr.act_nodes()]
        cases.append(cr.mk_case(rng.choice([0, 1]), rng.choice([0, 1, 2, 3, 4, 5]), 0, "m", rng.choice([None, 100.0]), nodes, acts))
        weights.append(len(acts))
        ctx.count("malformed: %d node(s)" % n)
    return cases, weights


def run(ctx):
    ctx.rule = ("seeded curves as in C11 (2-12 nodes, spacing 1 s - 50 y, values in (1e-3, 1e3), shuffled supply order, all five "
                "rules + Null, both constructors) with initial AD order 0/1/2; node values floats (the property's case), user-supplied "
                "Dual/Dual2 with own, shared or curve-like variable names, or mixed kinds (Python-facing constructor); scripts of 0-8 "
                "set_ad_order calls among 0/1/2; after construction and after every switch: ad(), all node values with their variable "
                "lists and derivative arrays, interpolated_value with gradient1 (and gradient2) by name (the curve's tags in date order, "
                "shuffled subsets, absent names, node names) at dates on / around / between / outside nodes, index_value (with and "
                "without a base, before / at the first node). Evaluations = script actions. Non-trivial = a look-up with gradients on "
                "a curve of order >= 1; distinct by (curve, action).")
    ctx.trusted = [
        "Coq 8.16.1 kernel; axioms: the standard library's real numbers (sig_not_dec, sig_forall_dec, functional_extensionality_dep, classic) "
        "and constructive_indefinite_description (only through the inverse-normal-cdf field of the R instance, unused here); "
        "C12_values, C12_names_kept, C12_tags_distinct are axiom-free and hold for every numeric structure",
        "hand-written models Model/Curve.v, Model/Dual.v, Model/Number.v tied to the code by this run's correspondence "
        "(harness/src/curve.rs, driver/curverun.py)",
        "IEEE rounding: theorems over R, execution over binary64; exp/ln of the model are Gallina series (~1e-13), compared at 1e-9 relative (+1e-13 absolute)",
        "Arc::ptr_eq not observable: the model aligns variable lists by value; pyo3 conversions on the Python-facing path",
    ]
    ctx.assumptions = ["C12_grad / C12_grad2: float-valued curve, >= 2 nodes, positive node values, node count a machine integer (< 2^64)",
                       "timestamps within chrono's / Python's datetime range"]
    if not proof_stage(ctx, ["theories/Run/RunCurve.vo"]):
        ctx.violation("a C12 proof obligation or the curve model no longer compiles",
                      {"no_failing_input": True, "theorem": "Props/C12.v / Run/RunCurve.v", "log_tail": getattr(ctx, "build_log", "")[-3000:]})
        return ctx.finish("make theories/Props/C12.vo")
    if not harness_stage(ctx):
        return ctx.finish("make theories/Props/C12.vo")
    cases, weights = gen_cases(ctx)
    impl, model = cr.run_both(ctx, cases, shard=max(2, len(cases) // (NCPU * 3) + 1), tag="c12")
    cr.compare_all(ctx, cases, impl, model, weights)
    for i, (c, out) in enumerate(zip(cases, impl)):
        head, acts = cr.split_case(c)
        order = c[3]
        for j, a in enumerate(acts):
            if a[0] == 2:
                order = a[1]
            elif a[0] == 6 and order >= 1:
                ctx.nontriv((i, j))
    for c in cases[:3]:
        ctx.sample({"case": cr.describe(c)[:700]})
    return ctx.finish("make -C coq theories/Props/C12.vo theories/Run/RunCurve.vo && coqc Assum_C12.v (Print Assumptions)")


def replay(ctx, rp):
    return cr.replay_case(ctx, rp)
