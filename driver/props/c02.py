"""C02 — second-order AD exact and consistent with first order.  Proof: Props/C02.v.
Correspondence: Model/Expr.v + Model/Dual.v (Dual2, T := float) vs rust/dual through `rlharness dual` op 2:
plain value, the Dual2 result, gradient1, gradient2 over all names, Dual::from(&Dual2), Dual::from(Dual2)."""
from common import *  # noqa
import dualgen as dg
import props.c01 as c01

SCHEMA = ["f", "dual2", "vec", "mat", "dual", "dual"]


def extra(env, e, items):
    """consistency oracles on the IMPLEMENTATION's own output: Hessian symmetric; first order part of the
    Dual2 result equals the converted Dual"""
    d2, g1, h, d1a, d1b = items[1], items[2], items[3], items[4], items[5]
    r, c = h["shape"]
    vals = [x[1] for x in h["data"]]
    sc = max([1.0] + [abs(v) for v in vals if v == v and abs(v) != float("inf")])
    for i in range(r):
        for j in range(c):
            if not fclose(vals[i * c + j], vals[j * c + i], rtol=1e-9, atol=1e-9 * sc):
                return "Hessian not symmetric at (%d,%d): %r vs %r" % (i, j, vals[i * c + j], vals[j * c + i])
    if dg.plain(d1a) != dg.plain({"vars": d2["vars"], "re": d2["re"], "du": d2["du"]}) or dg.plain(d1a) != dg.plain(d1b):
        return "Dual::from(Dual2) does not equal the first-order part of the Dual2"
    return None


def run(ctx):
    c01.PROP = "C02"
    ctx.rule = ("as C01 on Dual2: seeded random expression trees over all 23 operator variants inside the twice-differentiable domain; "
                "observables: plain value, real(), vars(), dual, dual2 arrays, gradient1 and gradient2 over all names, Dual::from(Dual2) "
                "(owned and borrowed); plus symmetry of the returned Hessian and equality of the converted Dual with the first-order part. "
                "Floats compared with relative tolerance 1e-8 scaled by the largest entry. Non-trivial = gradient with >= 2 non-zero entries.")
    ctx.trusted = [
        "Coq 8.16.1 kernel; axioms: stdlib real-number axioms + ClassicalEpsilon.constructive_indefinite_description (inverse normal cdf on R)",
        "theorems over R; IEEE rounding, libm and statrs modelled by the real functions",
        "hand-written model tied to rust/dual by this run's correspondence (harness/src/dual.rs op 2, Base/NumFloat.v under vm_compute)",
    ]
    ctx.assumptions = ["evaluation points inside the twice-differentiable domain (same margins as C01)",
                       "C02_hessian_pointwise identifies 2*dual2[u][v] with d/dv of the first-order AD coefficient for u, which C01_ad1_exact "
                       "identifies with the true first partial at every point of the domain"]
    if not proof_stage(ctx, ["theories/Run/RunDual.vo"]):
        ctx.violation("a C02 proof obligation or the model no longer compiles", {"no_failing_input": True,
                      "theorem": "Props/C02.v / Run/RunDual.v", "log_tail": getattr(ctx, "build_log", "")[-3000:]})
        return ctx.finish("make theories/Props/C02.vo")
    if not harness_stage(ctx):
        return ctx.finish("make theories/Props/C02.vo")
    c01.run_generic(ctx, SCHEMA, 2, "C02", 900, 6000, 5, 8, extra_check=extra)
    return ctx.finish("make -C coq theories/Props/C02.vo && coqc Assum_C02.v (Print Assumptions)")


def replay(ctx, rp):
    return c01.replay(ctx, rp)
