"""C11 — curve look-ups follow each interpolation rule at, between and beyond nodes.
Proof: Props/C11.v (Model/Curve.v, Proofs/CurveP.v).  Correspondence: Model/Curve.v (Run/RunCurve.v, floats)
vs rust/curves/{curve,nodes,curve_py}.rs + interpolation/*.rs through `rlharness curve` (hooks:
index_left_f64/i64, curvedf_nodes, the Python-facing Curve driven through its class object)."""
from common import *  # noqa
import curverun as cr


def float_lists(ctx):
    """index_left on float lists of length 2..40, every position relative to the list"""
    rng = ctx.rng
    th = ctx.tier == "thorough"
    cases, weights = [], []
    for n in range(2, 41):
        for rep in range(30 if th else 1):
            kind = rng.random()
            if kind < 0.5:
                xs = sorted(set(rng.uniform(-1e3, 1e3) for _ in range(n)))
            elif kind < 0.8:
                t = rng.uniform(-5, 5)
                xs = []
                for _ in range(n):
                    xs.append(t)
                    t += math.exp(rng.uniform(-20, 8))
                xs = sorted(set(xs))
            else:
                xs = sorted(set(float(rng.randint(-50, 50)) for _ in range(n)))
            while len(xs) < n:
                xs.append(xs[-1] + 1.0)
            qs = [xs[0] - 1.0, math.nextafter(xs[0], -math.inf)]
            for x in xs:
                qs.append(x)
            for a, b in zip(xs, xs[1:]):
                qs.append(a + (b - a) / 2)
                qs.append(math.nextafter(a, math.inf))
                qs.append(math.nextafter(b, -math.inf))
            qs += [xs[-1] + 1.0, math.nextafter(xs[-1], math.inf), math.inf, -math.inf]
            cases.append([2, n] + [f2b(x) for x in xs] + [len(qs)] + [f2b(q) for q in qs])
            weights.append(len(qs))
            ctx.count("index_left float list, length %d" % n)
    # left_count given, integer lists, and the malformed stream: too short, unsorted, NaN, repeated elements
    for _ in range(400 if th else 60):
        n = rng.choice([0, 1, 2, 3, 3, 4, 5, 7, 8, 9, 16, 17])
        kind = rng.random()
        if kind < 0.4:
            xs = sorted(rng.randint(-20, 20) for _ in range(n))           # sorted with repeats
            v = rng.randint(-22, 22)
            cases.append([1, rng.randint(0, 1), rng.randint(0, 9), n] + xs + [v])
            ctx.count("index_left i64 list (repeats allowed, lengths 0/1 included)")
        elif kind < 0.7:
            xs = [rng.choice([math.nan, math.inf, -math.inf, 0.0, -0.0, rng.uniform(-3, 3)]) for _ in range(n)]
            v = rng.choice([math.nan, 0.0, -0.0, rng.uniform(-3, 3)])
            cases.append([0, rng.randint(0, 1), rng.randint(0, 9), n] + [f2b(x) for x in xs] + [f2b(v)])
            ctx.count("index_left float list, unsorted / NaN / inf / signed zeros (malformed)")
        else:
            xs = [rng.uniform(-3, 3) for _ in range(n)]
            v = rng.choice(xs) if xs and rng.random() < 0.5 else rng.uniform(-4, 4)
            cases.append([0, rng.randint(0, 1), rng.randint(0, 9), n] + [f2b(x) for x in xs] + [f2b(v)])
            ctx.count("index_left float list, unsorted (malformed)")
        weights.append(1)
    return cases, weights


def gen_curves(ctx):
    rng = ctx.rng
    th = ctx.tier == "thorough"
    cases, weights, keysets = [], [], []
    ncurves = 4000 if th else 120
    for ci in range(ncurves):
        n = rng.choice([2, 2, 3, 3, 4, 5, 6, 7, 8, 9, 10, 11, 12, 13, 16, 17, 24, 33])
        spacing, ks = cr.gen_keys(rng, n)
        vclass, ys = cr.gen_values(rng, n)
        rule = rng.choice([0, 0, 1, 1, 2, 2, 3, 4]) if rng.random() > 0.03 else 5
        path = rng.choice([0, 1, 2])
        order = list(range(n))
        rng.shuffle(order)
        sorted_supply = order == sorted(order)
        ad = 0 if rng.random() < 0.75 else rng.choice([1, 2])
        cid = rng.choice(["v", "crv", "eur_ois", "x1", "usd\n", " v"])
        nodes = []
        for i in order:
            if ad == 0 or path == 1:
                v = cr.enc_f(ys[i])
            elif ad == 1:
                v = cr.enc_dual(["n%d" % i], ys[i], [1.0])
            else:
                v = cr.enc_dual2(["n%d" % i], ys[i], [1.0], [[0.0]])
            nodes.append((ks[i] * cr.NS, v))
        qs = cr.query_dates(rng, ks)
        acts = []
        for x in qs:
            if path in (0, 2):
                acts.append(cr.act_index(x))
            acts.append(cr.act_value(x))
            ctx.count("query " + cr.classify_query(ks, x))
        acts.append(cr.act_nodes())
        cases.append(cr.mk_case(path, rule, ad, cid, None, nodes, acts))
        weights.append(len(acts))
        keysets.append((ks, rule))
        ctx.count("rule " + cr.RULES[rule])
        ctx.count("constructor " + ("CurveDF::try_new" if path == 0 else "Python-facing Curve" if path == 1 else
                                    "CurveDF::try_new, then saved and loaded from a document listing the nodes in supply order"))
        ctx.count("nodes %d" % n)
        ctx.count("spacing " + spacing)
        ctx.count("values " + vclass)
        ctx.count("AD order %d" % ad)
        ctx.count("supply order " + ("sorted" if sorted_supply else "shuffled"))
    # malformed stream: 0 or 1 node, timestamps colliding inside one second (sub-second datetimes)
    for _ in range(120 if th else 16):
        kind = rng.random()
        rule = rng.choice([0, 1, 2, 3, 4, 5])
        path = rng.choice([0, 1])
        if kind < 0.4:
            n = rng.choice([0, 1])
            _, ks = cr.gen_keys(rng, max(n, 1))
            nodes = [(ks[0] * cr.NS, cr.enc_f(rng.uniform(0.5, 1.5)))][:n]
            xs = [ks[0] - 5, ks[0], ks[0] + 5]
            ctx.count("malformed: %d node(s)" % n)
        else:
            n = rng.randint(2, 6)
            _, ks = cr.gen_keys(rng, n)
            nodes = []
            for k in ks:
                nodes.append((k * cr.NS, cr.enc_f(rng.uniform(0.5, 1.5))))
                if rng.random() < 0.5:     # a second datetime inside the same second
                    nodes.append((k * cr.NS + 1000 * rng.randint(1, 999999), cr.enc_f(rng.uniform(0.5, 1.5))))
            rng.shuffle(nodes)
            xs = cr.query_dates(rng, ks)[:12]
            ctx.count("malformed: datetimes colliding inside one second")
        acts = [cr.act_nodes()]
        for x in xs:
            if path == 0:
                acts.append(cr.act_index(x))
            acts.append(cr.act_value(x))
        cases.append(cr.mk_case(path, rule, 0, "m", None, nodes, acts))
        weights.append(len(acts))
        keysets.append((None, rule))
    return cases, weights, keysets


def run(ctx):
    ctx.rule = ("seeded curves: 2-12 nodes, spacing classes 1 s / minutes / days / months / years / mixed (1 s - 50 y), values in "
                "(1e-3, 1e3) (discount-factor like, plateaus, log-uniform), supply order shuffled, all five rules (+ Null), both "
                "constructors (CurveDF::try_new and the Python-facing Curve through its class object), AD order 0 mostly, 1/2 for a "
                "quarter; queries at every node, +-1 s around every node, midpoints, random interior dates, before / after the range; "
                "observables node_index, interpolated_value, stored nodes. index_left on float lists of every length 2-40 at every "
                "position relative to the list (below, at, just above / below each element, midpoints, +-inf) and a malformed stream "
                "(lengths 0/1, unsorted, NaN, repeats; curves with 0/1 nodes or colliding sub-second datetimes). "
                "Evaluations = look-ups. Non-trivial = a look-up strictly between, at or outside nodes on a well-formed curve, "
                "distinct by (curve, date).")
    ctx.trusted = [
        "Coq 8.16.1 kernel; axioms: the standard library's real numbers (sig_not_dec, sig_forall_dec, functional_extensionality_dep, classic) "
        "and constructive_indefinite_description (only through the definition of the inverse normal cdf field of the R instance, unused here); "
        "C11_index is axiom-free",
        "hand-written model Model/Curve.v tied to the code by this run's correspondence (harness/src/curve.rs, driver/curverun.py)",
        "IEEE rounding: theorems over R, execution over binary64; exp/ln of the model are Gallina series (~1e-13), compared at 1e-9 relative",
        "IndexMap as an insertion-ordered association list; chrono datetimes as integer nanoseconds; pyo3 conversions on the Python-facing path",
    ]
    ctx.assumptions = ["timestamps within chrono's / Python's datetime range (years 1-9999)",
                       "theorems: node keys distinct as timestamps (IndexMap keys are), at least two nodes, positive values where a logarithm is taken"]
    if not proof_stage(ctx, ["theories/Run/RunCurve.vo"]):
        ctx.violation("a C11 proof obligation or the curve model no longer compiles",
                      {"no_failing_input": True, "theorem": "Props/C11.v / Run/RunCurve.v", "log_tail": getattr(ctx, "build_log", "")[-3000:]})
        return ctx.finish("make theories/Props/C11.vo")
    if not harness_stage(ctx):
        return ctx.finish("make theories/Props/C11.vo")
    c1, w1 = float_lists(ctx)
    c2, w2, keysets = gen_curves(ctx)
    impl1, model1 = cr.run_both(ctx, c1, shard=60, tag="il")
    cr.compare_all(ctx, c1, impl1, model1, w1, do_shrink=False)
    impl2, model2 = cr.run_both(ctx, c2, shard=max(4, len(c2) // (NCPU * 2) + 1), tag="cv")
    cr.compare_all(ctx, c2, impl2, model2, w2)
    for i, (c, (ks, rule)) in enumerate(zip(c2, keysets)):
        if ks is None or rule == 5:
            continue
        head, acts = cr.split_case(c)
        for a in acts:
            if a[0] == 0:
                ctx.nontriv((i, a[1]))
    for c in c2[:3]:
        ctx.sample({"case": cr.describe(c)[:600]})
    ctx.sample({"case": cr.describe(c1[5])[:400]})
    return ctx.finish("make -C coq theories/Props/C11.vo theories/Run/RunCurve.vo && coqc Assum_C11.v (Print Assumptions)")


def replay(ctx, rp):
    return cr.replay_case(ctx, rp)
