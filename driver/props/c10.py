"""C10 — FX sensitivities are exact and the market state follows its update history.
Proof: Props/C10.v.  Correspondence: Model/FX.v at T := float (Run/RunFX.v `hist`) vs rust/fx/rates
(FXRates::try_new / update / set_ad_order / rate, gradients read from the returned numbers)."""
from common import *  # noqa
import fxgen


def enc_case(c):
    out = fxgen.enc_market(c["qs"], c["base"]) + fxgen.enc_probes(c["probes0"]) + [len(c["ops"])]
    for op in c["ops"]:
        if op["kind"] == "update":
            out += [0] + fxgen.enc_quotes(op["quotes"])
        else:
            out += [1, op["order"]]
        out += fxgen.enc_probes(op["probes"])
    return out


def line_hist(enc):
    return "hist " + " ".join(str(x) for x in enc)


def parse_hist(out, c):
    """-> list of steps: (cls, [number|None per probe]) ; first element = construction"""
    r = fxgen.Rd(out)
    steps = []
    cls = r.next()
    if cls != 0:
        return [(cls, None)]

    def snap(probes):
        res = []
        for _ in probes:
            tag = r.next()
            res.append(None if tag == 0 else r.number())
        return res
    steps.append((0, snap(c["probes0"])))
    for op in c["ops"]:
        if r.done():
            break
        cls = r.next()
        if cls == 2:
            steps.append((2, None))
            break
        steps.append((cls, snap(op["probes"])))
    return steps


def num_of(x):
    """generator-side number -> (re, {name: du}, {(u,w): d2/dudw})"""
    if isinstance(x, (int, float)):
        return float(x), None, None
    if x[0] == "d":
        return x[1], dict(x[2]), {}
    names = [n for n, _ in x[2]]
    m = len(names)
    dd = x[3] if x[3] is not None else [0.0] * (m * m)
    return x[1], dict(x[2]), {(names[i], names[j]): 2.0 * dd[i * m + j] for i in range(m) for j in range(m)}


def quote_scales(qs):
    """per name: sum_k |du_k(v) / re_k| ; per name pair: sum_k (|d2_k|/|re_k| + |du_k(u) du_k(w)|/re_k^2)"""
    s1, s2 = {}, {}
    for lhs, rhs, x, _ in qs:
        re_, du, d2 = num_of(x)
        if du is None:
            du, d2 = {"fx_" + lhs.lower() + rhs.lower(): 1.0}, {}
        for v, d in du.items():
            s1[v] = s1.get(v, 0.0) + abs(d / re_)
        for u in du:
            for w in du:
                s2[(u, w)] = s2.get((u, w), 0.0) + abs(d2.get((u, w), 0.0) / re_) + abs(du[u] * du[w]) / (re_ * re_)
    return s1, s2


def cmp_number(a, b, scales):
    """None if equal by value and by name, else a description."""
    if (a is None) != (b is None):
        return "rate() availability differs (implementation %s, model %s)" % (a is not None, b is not None)
    if a is None:
        return None
    if a["kind"] != b["kind"]:
        return "number kind differs (0 f64, 1 Dual, 2 Dual2): implementation %d, model %d" % (a["kind"], b["kind"])
    if not fclose(a["re"], b["re"]):
        return "value differs: implementation %r, model %r" % (a["re"], b["re"])
    s1, s2 = scales
    names = list(dict.fromkeys(a["vars"] + b["vars"]))
    ga = dict(zip(a["vars"], a["du"]))
    gb = dict(zip(b["vars"], b["du"]))
    are = abs(a["re"])
    for v in names:
        x, y = ga.get(v, 0.0), gb.get(v, 0.0)
        tol = 1e-9 * (max(abs(x), abs(y)) + are * s1.get(v, 0.0)) + 1e-300
        if fclass(x) != fclass(y) or (fclass(x) == "fin" and abs(x - y) > tol):
            return "gradient1[%s] differs: implementation %r, model %r" % (v, x, y)
    if a["kind"] == 2:
        ia = {v: i for i, v in enumerate(a["vars"])}
        ib = {v: i for i, v in enumerate(b["vars"])}
        for u in names:
            for w in names:
                x = 2.0 * a["dd"][ia[u]][ia[w]] if u in ia and w in ia else 0.0
                y = 2.0 * b["dd"][ib[u]][ib[w]] if u in ib and w in ib else 0.0
                tol = 1e-9 * (max(abs(x), abs(y)) + are * (s1.get(u, 0.0) * s1.get(w, 0.0) + s2.get((u, w), 0.0))) + 1e-300
                if fclass(x) != fclass(y) or (fclass(x) == "fin" and abs(x - y) > tol):
                    return "gradient2[%s,%s] differs: implementation %r, model %r" % (u, w, x, y)
    return None


def apply_update(qs, upd):
    """the quote list after an ACCEPTED update (last matching index replaced, in order)"""
    qs = list(qs)
    for q in upd:
        idx = 0
        for i, x in enumerate(qs):
            if (x[0].lower(), x[1].lower()) == (q[0].lower(), q[1].lower()):
                idx = i
        qs[idx] = q
    return qs


def compare_case(c, a, b):
    """-> None or (step index, description)"""
    try:
        sa, sb = parse_hist(a, c), parse_hist(b, c)
    except Exception as e:  # malformed output on one side
        return (0, "unparsable output (%s): implementation %s model %s" % (e, a[:12], b[:12])) if a != b else None
    qs = list(c["qs"])
    for k in range(max(len(sa), len(sb))):
        if k >= len(sa) or k >= len(sb):
            return (k, "one side stopped after step %d" % (k - 1))
        (ca, na), (cb, nb) = sa[k], sb[k]
        if ca != cb:
            return (k, "outcome class differs (0 Ok, 1 Err, 2 abort): implementation %d, model %d" % (ca, cb))
        if k > 0 and ca == 0 and c["ops"][k - 1]["kind"] == "update":
            qs = apply_update(qs, c["ops"][k - 1]["quotes"])
        if na is None:
            continue
        scales = quote_scales(qs)
        probes = c["probes0"] if k == 0 else c["ops"][k - 1]["probes"]
        for p, x, y in zip(probes, na, nb):
            d = cmp_number(x, y, scales)
            if d:
                return (k, "rate(%s,%s): %s" % (p[0], p[1], d))
    return None


def describe_case(c, upto=None):
    def num(x):
        if isinstance(x, (int, float)):
            return repr(float(x))
        return "%s(%r,%s)" % ("Dual" if x[0] == "d" else "Dual2", x[1], [n for n, _ in x[2]])

    def qstr(q):
        return "%s%s=%s%s" % (q[0], q[1], num(q[2]), "" if q[3] is None else "@%d" % q[3])
    s = "FXRates::try_new([%s], base=%s)" % (", ".join(qstr(q) for q in c["qs"]), c["base"])
    for i, op in enumerate(c["ops"]):
        if upto is not None and i >= upto:
            break
        s += "; update([%s])" % ", ".join(qstr(q) for q in op["quotes"]) if op["kind"] == "update" else "; set_ad_order(%d)" % op["order"]
    return s


def real_of(x):
    return float(x) if isinstance(x, (int, float)) else float(x[1])


def random_number(rng, tag, kinds=(0.6, 0.2, 0.2), level=None):
    x = fxgen.rate_value(rng) if level is None else level
    u = rng.random()
    if u < kinds[0]:
        return x
    nv = rng.randint(1, 2)
    vs = [("%s_%d" % (tag, j) if rng.random() < 0.75 else "shared", rng.uniform(-2, 2)) for j in range(nv)]
    vs = list({nm: (nm, d) for nm, d in vs}.values())
    if rng.random() < 0.12:
        vs = []                              # a dual-valued quote that names NO variable (Dual::from(x)): it must stay one
    if u < kinds[0] + kinds[1]:
        return ("d", x, vs)
    m = len(vs)
    dd = [0.0] * (m * m)
    for i in range(m):
        for j in range(i, m):
            dd[i * m + j] = dd[j * m + i] = rng.uniform(-1, 1)
    return ("d2", x, vs, dd)


def gen_case(rng, ctx=None):
    qs, base, info = fxgen.valid_market(rng, 2, 12 if rng.random() < 0.25 else 7, dual_quotes=0.2)
    names = [s.lower() for s in info["names"]]
    st = info["settle"]

    def probes():
        k = rng.randint(2, 4)
        ps = [tuple(rng.choice(names) for _ in range(2)) for _ in range(k)]
        if rng.random() < 0.1:
            ps.append((rng.choice(names), rng.choice(["xxx", "zz", names[0].upper()])))
        return ps
    ops = []
    level = {(q[0].lower(), q[1].lower()): real_of(q[2]) for q in qs}      # the generator's idea of the current quote levels
    for j in range(rng.randint(0, 12)):
        u = rng.random()
        if u < 0.35:
            ops.append({"kind": "order", "order": rng.choice([0, 1, 2]), "probes": probes()})
            continue
        k = rng.randint(1, min(3, len(qs)))
        targets = rng.sample(qs, k)
        # one update quote in four RE-MARKS AT THE UNCHANGED LEVEL (bit-for-bit the value the pair already has) with a
        # different kind / different variables: the market must follow the new quote, not keep the old one
        upd = [(t[0], t[1], random_number(rng, "u%d" % j, kinds=(0.34, 0.33, 0.33) if rng.random() < 0.5 else (0.6, 0.2, 0.2),
                                          level=(level[(t[0].lower(), t[1].lower())] if rng.random() < 0.25 else None)), st)
               for t in targets]
        what = "update"
        v = rng.random()
        if v >= 0.36:
            for q in upd:
                level[(q[0].lower(), q[1].lower())] = real_of(q[2])
        if v < 0.10:
            i = rng.randrange(len(upd))
            upd[i] = (upd[i][1], upd[i][0], upd[i][2], st)
            what = "update inverted pair"
        elif v < 0.18:
            a, b = rng.sample(names, 2)
            if not any((q[0].lower(), q[1].lower()) == (a, b) for q in qs):
                upd.append((a, b, fxgen.rate_value(rng), st))
                what = "update unknown pair"
        elif v < 0.23:
            upd.append((rng.choice(["xx", "abcd"]), names[0], 1.5, st))
            what = "update bad code"
        elif v < 0.28:
            i = rng.randrange(len(upd))
            upd[i] = (upd[i][0], upd[i][1], upd[i][2], (st + 1) if st is not None else 17000)
            what = "update mixed settlement"
        elif v < 0.33:
            upd.append((upd[0][0].upper(), upd[0][1], fxgen.rate_value(rng), st))
            what = "update same pair twice"
        elif v < 0.36:
            upd = []
            what = "update empty"
        ops.append({"kind": "update", "quotes": upd, "what": what, "probes": probes()})
    return {"qs": qs, "base": base, "probes0": probes(), "ops": ops, "n": info["n"], "shape": info["shape"]}


def shrink(ctx, c, fail_step):
    """greedy: drop operations (then probes) while the two sides still disagree."""
    c = dict(c)
    c["ops"] = list(c["ops"][:max(fail_step, 0)]) if fail_step is not None else list(c["ops"])
    rounds = 0
    while rounds < 8 and c["ops"]:
        rounds += 1
        cands = []
        for i in range(len(c["ops"])):
            d = dict(c)
            d["ops"] = c["ops"][:i] + c["ops"][i + 1:]
            cands.append(d)
        encs = [enc_case(d) for d in cands]
        ia = run_harness("fx", [line_hist(e) for e in encs])
        ib = coq_eval("Run.RunFX", "runFX", [[1] + e for e in encs], ctx.work, shard=4, tag="shr%d" % rounds)
        better = [d for d, a, b in zip(cands, ia, ib) if compare_case(d, a, b)]
        if not better:
            break
        c = better[0]
    return c


def run(ctx):
    ctx.rule = ("seeded random tree markets as in C09 (2-12 currencies, 20% dual-/dual2-valued quotes with own or shared variable "
                "names) x operation sequences of length 0-12: updates of 1-3 quoted pairs with plain / Dual / Dual2 values, updates "
                "naming inverted, unknown, malformed pairs, a different settlement date, the same pair twice, or nothing; "
                "set_ad_order 0/1/2. After construction and after every step 2-5 rate(a,b) probes are compared: Ok/Err/abort class, "
                "number kind, value (1e-9 rel.), gradient1 and gradient2 BY NAME over the union of names (1e-9 relative to the "
                "entry plus the scale of the terms it sums). Failing histories are shrunk by dropping operations. Non-trivial = "
                "history with an accepted update or an order switch on >= 3 currencies; distinct by encoded input.")
    ctx.trusted = [
        "Coq 8.16.1 kernel (coqc, full .vo build); axioms: the standard-library real numbers only (as C09)",
        "hand-written models Model/FX.v, Model/Dual.v, Model/Number.v tied to the code by this run's correspondence "
        "(harness/src/fx.rs + numenc.rs, Run/RunFX.v + RunNum.v, driver/fxgen.py)",
        "refinement lemmas of Proofs/DualP.v and Proofs/Dual2P.v (dmul/d2mul/d2pow act on value and coefficients by name as the "
        "product / power rules) are proved, not assumed",
        "IEEE rounding and libm powf(x,-1), powf(x,-2), powf(x,-3): theorems over R, execution over binary64 within tolerance",
    ]
    ctx.assumptions = ["at most 181 currencies; non-zero quote values; dual-valued quotes are well-formed (as Dual::try_new builds them)",
                       "update() rebuilds at order One whatever the current order (mirrored, recorded as an observation)"]
    if not proof_stage(ctx, ["theories/Run/RunFX.vo"]):
        ctx.violation("a C10 proof obligation or the FX model no longer compiles",
                      {"no_failing_input": True, "theorem": "Props/C10.v / Run/RunFX.v", "log_tail": getattr(ctx, "build_log", "")[-3000:]})
        return ctx.finish("make theories/Props/C10.vo")
    if not harness_stage(ctx):
        return ctx.finish("make theories/Props/C10.vo")
    rng = ctx.rng
    ncases = 10000 if ctx.tier == "thorough" else 300
    cases = [gen_case(rng) for _ in range(ncases)]
    encs = [enc_case(c) for c in cases]
    impl = run_harness("fx", [line_hist(e) for e in encs])
    model = coq_eval("Run.RunFX", "runFX", [[1] + e for e in encs], ctx.work,
                     shard=max(5, min(100, len(encs) // (NCPU * 2) + 1)), tag="c10")
    nfail = 0
    for c, e, a, b in zip(cases, encs, impl, model):
        ctx.count("currencies=%d" % c["n"])
        ctx.count("history length %d" % len(c["ops"]))
        try:
            steps = parse_hist(a, c)
        except Exception:
            steps = []
        accepted = False
        for op, st in zip(c["ops"], steps[1:]):
            ctx.evaluations += 1
            key = op.get("what", "set_ad_order %d" % op.get("order", 0)) + (" -> Ok" if st[0] == 0 else " -> Err" if st[0] == 1 else " -> abort")
            ctx.count(key)
            if st[0] == 0:
                accepted = True
        ctx.evaluations += 1
        if accepted and c["n"] >= 3:
            ctx.nontriv(tuple(e))
        bad = compare_case(c, a, b)
        if bad:
            nfail += 1
            if nfail <= 3:
                small = shrink(ctx, c, bad[0])
                es = enc_case(small)
                sa = run_harness("fx", [line_hist(es)])[0]
                sb = coq_eval("Run.RunFX", "runFX", [[1] + es], ctx.work, tag="min")[0]
                bad2 = compare_case(small, sa, sb) or bad
                ctx.violation("rust/fx/rates and the proved model disagree after %s — step %d: %s"
                              % (describe_case(small), bad2[0], bad2[1]),
                              {"case": small, "encoded": es, "implementation": sa[:300], "model": sb[:300],
                               "harness_cmd": "echo '%s' | harness/target/release/rlharness fx" % line_hist(es)[:4000]})
            else:
                ctx.violation("rust/fx/rates and the proved model disagree after %s — step %d: %s"
                              % (describe_case(c, bad[0]), bad[0], bad[1]), {"case": c, "encoded": e})
    for c, a in list(zip(cases, impl))[:3]:
        st = parse_hist(a, c)
        ctx.sample({"history": describe_case(c)[:500], "classes": [s[0] for s in st]})
    return ctx.finish("make -C coq theories/Props/C10.vo theories/Run/RunFX.vo && coqc Assum_C10.v (Print Assumptions)")


def _tuplify(c):
    c = dict(c)
    c["qs"] = [tuple(tuple(x) if isinstance(x, list) and x and isinstance(x[0], str) else x for x in q) for q in c["qs"]]
    return c


def _fix_number(x):
    if isinstance(x, list):
        if x[0] == "d":
            return ("d", x[1], [tuple(v) for v in x[2]])
        return ("d2", x[1], [tuple(v) for v in x[2]], x[3])
    return x


def _from_json(c):
    c = dict(c)
    c["qs"] = [(q[0], q[1], _fix_number(q[2]), q[3]) for q in c["qs"]]
    c["probes0"] = [tuple(p) for p in c["probes0"]]
    ops = []
    for op in c["ops"]:
        op = dict(op)
        op["probes"] = [tuple(p) for p in op["probes"]]
        if op["kind"] == "update":
            op["quotes"] = [(q[0], q[1], _fix_number(q[2]), q[3]) for q in op["quotes"]]
        ops.append(op)
    c["ops"] = ops
    return c


def replay(ctx, rp):
    build_harness()
    build_coq(["theories/Run/RunFX.vo"])
    c = _from_json(rp["case"])
    e = enc_case(c)
    a = run_harness("fx", [line_hist(e)])[0]
    b = coq_eval("Run.RunFX", "runFX", [[1] + e], ctx.work)[0]
    bad = compare_case(c, a, b)
    print("replay %s: %s" % (describe_case(c)[:600], "agree" if not bad else "step %d: %s" % bad))
    ctx.cleanup()
    return 1 if bad else 0
