"""C04 — date adjustment. Proof: Props/C04.v (any bus/settle predicates). Correspondence: Model/Calendar.v
vs rust/calendars/dateroll.rs + calendar.rs through `rlharness cal`."""
from common import *  # noqa
import calgen
import calrun
import translate


def gen_cases(ctx):
    rng = ctx.rng
    th = ctx.tier == "thorough"
    cases = []
    lo, hi = calgen.dn(1999, 1, 1), calgen.dn(2031, 12, 31)
    for _ in range(400 if th else 50):
        enc, info = calgen.gen_calendar(rng, lo, hi)
        ctx.count("calendar kind %d" % info["kind"])
        ctx.count("settlement calendars: %s" % ("none" if info["settle"] is None else len(info["settle"])))
        for d in calgen.interesting_dates(rng, info, lo, hi, 6):
            for m in range(5):
                for s in range(2):
                    cases.append((enc, 10, [d, m, s]))
        # adjustment of DATETIMES WITH A TIME OF DAY, and the four predicates there (Model/SubDay.v: exact holiday look-up, so
        # such a datetime sees the week mask alone; the time of day is carried through)
        for d in calgen.interesting_dates(rng, info, lo, hi, 3):
            t = rng.choice([1, 43199, 43200, 43201, 54000, 86399, rng.randint(1, 86399)])
            cases.append((enc, 44, [d, t]))
            cases.append((enc, 44, [d, 0]))
            for m in range(1, 5):
                cases.append((enc, 40, [d, m, rng.randrange(2), t]))
        # the CONVENIENCE FORM of adjustment: add_days(d, n, modifier, settlement) = roll(d + n, ..) - n = 0 and small n
        for d in calgen.interesting_dates(rng, info, lo, hi, 4):
            for n in (0, rng.choice([1, -1, 2, -3, 7])):
                for m in range(5):
                    for s in range(2):
                        cases.append((enc, 13, [d, n, m, s]))
        # hashed ranges around the holiday clusters: every date x 5 modifiers x 2 flags
        for d in calgen.interesting_dates(rng, info, lo, hi, 3 if th else 2):
            cases.append((enc, 31, [d - 20, 45]))
    # the last days of February and the first of March in EVERY year divisible by 4 or 100 of the range plus a sample of others
    # (month-boundary logic of the modified rules: 2100 and 2200 are not leap years), weekend calendar and one with a holiday
    for y in sorted(set([2000, 2100, 2200, 1972, 2096, 2104] + [rng.randint(1970, 2200) for _ in range(6)])):
        for enc in ([0] + calgen.enc_cal([5, 6], []), [0] + calgen.enc_cal([5, 6], [calgen.dn(y, 3, 1)]), [0] + calgen.enc_cal([6], [calgen.dn(y, 2, 28)])):
            d0 = calgen.dn(y, 2, 24)
            cases.append((enc, 31, [d0, 12]))
            for d in range(d0, d0 + 10):
                for m in range(5):
                    cases.append((enc, 13, [d, 0, m, rng.randrange(2)]))
    # built-in and combined named calendars
    names = ["tgt", "ldn,tgt|fed", "nyc", "bus", "all", "tyo,syd|nyc", "stk,osl", "mum|tgt,ldn", "wlg,tro|zur,fed"]
    for nm in names:
        enc = calgen.enc_named(nm, rng.choice([4, 5]))
        if th and nm in ("tgt", "ldn,tgt|fed", "nyc"):
            for y in range(1970, 2201):
                cases.append((enc, 31, [calgen.dn(y, 1, 1), calgen.dn(y, 12, 31) - calgen.dn(y, 1, 1) + 1]))
        else:
            for _ in range(6 if th else 2):
                y = rng.randint(1970, 2200)
                cases.append((enc, 31, [calgen.dn(y, rng.randint(1, 12), 1) - 10, 50]))
    return cases


def nontrivial(enc, op, args, out):
    if op in (10, 13, 40):
        return len(out) == 2 and out[0] == 0 and out[1] != args[0]   # the roll moved the date
    return op in (31, 44)


def run(ctx):
    ctx.rule = ("seeded random calendars (Cal / UnionCal / CalType; week masks of 0-6 excluded days leaving a common working "
                "weekday; 0-60 holidays clustered at month ends and in runs; 1-3 members, 0-2 settlement calendars) and built-in / "
                "combined named calendars; dates dense around holidays and month ends; all 5 modifiers x 2 settlement flags; "
                "hashed 45-50 day ranges (every date x 10 combinations) with drill-down on mismatch. Non-trivial = a single roll "
                "that moved the date, or a range case; distinct by (calendar, op, args).")
    ctx.trusted = [
        "Coq 8.16.1 kernel; no axioms (all C04 theorems closed under the global context)",
        "hand-written model Model/Calendar.v tied to the code by this run's correspondence (harness/src/cal.rs, driver/calrun.py)",
        "chrono date arithmetic modelled by Model/Dates.v (exhaustively compared 1970-2200 by the C08 check)",
        "named tables regenerated from /repo by driver/translate.py",
    ]
    ctx.assumptions = ["the real loops terminate iff an eligible day exists; the model bounds each search by 7*(holidays+1) days and reports exhaustion as abort",
                       "week masks leave a common working weekday (as the property states)"]
    if translate_stage(ctx) is None:
        return ctx.finish("make theories/Props/C04.vo")
    if not proof_stage(ctx, ["theories/Run/RunCal.vo", "theories/Proofs/SubDayP.vo"]):
        ctx.violation("a C04 proof obligation or the model no longer compiles", {"no_failing_input": True, "theorem": "Props/C04.v / Run/RunCal.v", "log_tail": getattr(ctx, "build_log", "")[-3000:]})
        return ctx.finish("make theories/Props/C04.vo")
    if not harness_stage(ctx):
        return ctx.finish("make theories/Props/C04.vo")
    cases = gen_cases(ctx)
    calrun.run_cases(ctx, cases, nontrivial=nontrivial)
    for enc, op, args in cases[:3]:
        ctx.sample({"calendar_encoding": enc[:40], "call": calrun.describe(enc, op, args)})
    return ctx.finish("make -C coq theories/Props/C04.vo && coqc Assum_C04.v (Print Assumptions)")


def replay(ctx, rp):
    return calrun.replay_case(ctx, rp)
