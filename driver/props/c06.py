"""C06 — combined and named calendars mean the union of their parts.
Proof: Props/C06.v (union semantics for arbitrary members, name parsing over the GENERATED wiring, equality =
agreement on 1970-01-01..2200-12-31).  Correspondence: Model/Calendar.v + Model/Named.v vs
rust/calendars/calendar.rs + named/mod.rs through `rlharness cal` (construct / hashed date ranges / ==) and
`rlharness named nvu` (named string against the explicit UnionCal of its parts, every date, on the real code)."""
from common import *  # noqa
import calgen
import calrun
import translate

D0, D1 = 0, calgen.D2200           # 1970-01-01, 2200-12-31
POOL = calgen.BUILTIN


# ------------------------------------------------------------------------------------------
# name strings

def rand_case(rng, s, exotic=True):
    out = []
    for ch in s:
        r = rng.random()
        if exotic and ch == "k" and r < 0.15:
            out.append("K")          # KELVIN SIGN: to_lowercase gives ASCII k
        elif r < 0.45:
            out.append(ch.upper())
        else:
            out.append(ch)
    return "".join(out)


def render(rng, mem, settle, exotic=True):
    s = ",".join(rand_case(rng, p, exotic) for p in mem)
    if settle is not None:
        s += "|" + ",".join(rand_case(rng, p, exotic) for p in settle)
    return s


def gen_valid(rng):
    mem = [rng.choice(POOL) for _ in range(rng.choice([1, 1, 2, 2, 3]))]
    settle = None
    if rng.random() < 0.5:
        settle = [rng.choice(POOL) for _ in range(rng.choice([1, 1, 2]))]
    return mem, settle


JUNK_NAMES = ["xyz", "tg", "tgtt", "ldn ", " tgt", "tgt\t", "\n", " ", "t gt", "TGT.", "ny", "fedd", "eur", "usd", "target",
              "tgt\u00e9", "T\u0130T", "\u0130", "s\u0131d", "st\u017f", "\u00c4ll", "b\u00fcs", "\u03a3", "o\u0455l", "\uff54\uff47\uff54",
              "tgt\u0307", "\u2160", "\U0001d413gt", "ldn\u00a0", "\u212a", "nyc;fed", "tgt/ldn", "tgt+ldn", "tgt ldn", "tgt||", "||", "|"]


def gen_name(rng):
    """Returns (string, class label, (mem, settle) or None when not valid by construction)."""
    r = rng.random()
    if r < 0.42:
        mem, settle = gen_valid(rng)
        return render(rng, mem, settle), "valid", (mem, settle)
    mem, settle = gen_valid(rng)
    s = render(rng, mem, settle)
    if r < 0.52:      # number of pipes 0..3 by splicing valid groups
        k = rng.choice([2, 2, 3, 3, 0, 1])
        groups = [",".join(rand_case(rng, rng.choice(POOL)) for _ in range(rng.randint(1, 2))) for _ in range(k + 1)]
        return "|".join(groups), "pipes=%d" % k, None
    if r < 0.66:      # empty parts
        v = rng.choice(["lead,", "trail,", "double,", "empty-settle", "empty-members", "only-commas", "empty", "trail-pipe-comma"])
        if v == "lead,":
            s = "," + s
        elif v == "trail,":
            s = s + ","
        elif v == "double,":
            s = s.replace(",", ",,", 1) if "," in s else s + ",,"
        elif v == "empty-settle":
            s = s.split("|")[0] + "|"
        elif v == "empty-members":
            s = "|" + s.split("|")[0]
        elif v == "only-commas":
            s = "," * rng.randint(1, 3)
        elif v == "empty":
            s = ""
        else:
            s = s.split("|")[0] + ",|" + rng.choice(POOL)
        return s, "empty-part", None
    if r < 0.84:      # an unknown / non-ASCII / whitespace part somewhere
        j = rng.choice(JUNK_NAMES)
        parts = s.replace("|", ",|,").split(",")
        pos = rng.randrange(len(parts))
        if parts[pos] == "|":
            parts.insert(pos, j)
        else:
            parts[pos] = j if rng.random() < 0.6 else parts[pos] + j
        s2 = ",".join(parts).replace(",|,", "|")
        lab = "non-ascii" if any(ord(c) > 127 for c in j) else ("whitespace" if any(c.isspace() for c in j) else "unknown-name")
        return s2, lab, None
    if r < 0.92:      # random characters
        alphabet = "tgldnfeyc,|, ABZz\u212a\u0130\u00df\u01c5"
        s = "".join(rng.choice(alphabet) for _ in range(rng.randint(0, 9)))
        return s, "random-chars", None
    # valid but with whitespace around separators (not trimmed by the code: unknown)
    return s.replace(",", rng.choice([", ", " ,"]), 1).replace("|", rng.choice([" | ", "| "]), 1) + rng.choice(["", " "]), "spaces-around-separators", None


# ------------------------------------------------------------------------------------------
# explicit calendars

def enc_cal_kind(kind, mask, hols):
    return [kind] + calgen.enc_cal(mask, hols)


def enc_union(kind, cals, settle):
    enc = [kind, len(cals)]
    for m, h in cals:
        enc += calgen.enc_cal(m, h)
    if settle is None:
        enc += [0]
    else:
        enc += [1, len(settle)]
        for m, h in settle:
            enc += calgen.enc_cal(m, h)
    return enc


def py_bus(cals, d):
    wd = (d + 3) % 7
    return all(wd not in m and d not in h for m, h in cals)


def gen_base(rng):
    """A random explicit calendar whose holidays sit in a random 3-year window of 1970-2200 (often at the ends)."""
    r = rng.random()
    if r < 0.2:
        lo = D0
    elif r < 0.4:
        lo = D1 - 1100
    else:
        lo = rng.randint(D0, D1 - 1100)
    hi = lo + 1100
    while True:
        nc = rng.choice([1, 1, 1, 2, 3])
        cals = [(calgen.gen_mask(rng), calgen.gen_hols(rng, lo, hi, 40)) for _ in range(nc)]
        settle = None
        if rng.random() < 0.5:
            settle = [(calgen.gen_mask(rng), calgen.gen_hols(rng, lo, hi, 30)) for _ in range(rng.randint(0, 2))]
        allm = set()
        for m, _ in cals + (settle or []):
            allm |= set(m)
        if len(allm) < 7:
            return cals, settle, lo, hi


def copy_cals(cs):
    return None if cs is None else [(list(m), list(h)) for m, h in cs]


def find_day(rng, pred, lo, hi, tries=400):
    for _ in range(tries):
        d = rng.randint(lo, hi)
        if pred(d):
            return d
    return None


def variant(rng, cals, settle, lo, hi):
    """Returns (cals', settle', label) — a calendar related to (cals, settle) in a controlled way."""
    c2, s2 = copy_cals(cals), copy_cals(settle)
    v = rng.choice(["same-reordered", "duplicate-member", "one-date-inside", "one-date-inside", "one-settlement-date-inside",
                    "first-day", "last-day", "only-outside", "only-outside", "holiday-on-masked-day", "mask-change", "unrelated",
                    "settle-none-vs-empty"])
    allc = cals + (settle or [])
    if v == "same-reordered":
        rng.shuffle(c2)
        for _, h in c2:
            rng.shuffle(h)
    elif v == "duplicate-member":
        c2.append(copy_cals([rng.choice(c2)])[0])
    elif v == "one-date-inside":
        d = find_day(rng, lambda d: py_bus(cals, d), max(D0, lo - 30), min(D1, hi + 30))
        if d is None:
            v = "same"
        else:
            rng.choice(c2)[1].append(d)
    elif v == "one-settlement-date-inside":
        d = find_day(rng, lambda d: py_bus(allc, d), max(D0, lo - 30), min(D1, hi + 30))
        if d is None:
            v = "same"
        elif s2:
            rng.choice(s2)[1].append(d)
        else:
            s2 = [([], [d])]
    elif v in ("first-day", "last-day"):
        d = D0 if v == "first-day" else D1
        rng.choice(c2)[1].append(d)      # visible only if d was a business day of the union
    elif v == "only-outside":
        d = rng.choice([-1, -2, -7, -30, -400, D1 + 1, D1 + 2, D1 + 7, D1 + 31, D1 + 5000])
        tgt = rng.choice(c2 + (s2 or []))
        tgt[1].append(d)
    elif v == "holiday-on-masked-day":
        tgt = rng.choice(c2)
        if tgt[0]:
            d = find_day(rng, lambda d: (d + 3) % 7 in tgt[0], D0, D1)
            if d is None:
                v = "same"
            else:
                tgt[1].append(d)
        else:
            v = "same"
    elif v == "mask-change":
        tgt = rng.choice(c2)
        wd = rng.randrange(7)
        if wd in tgt[0]:
            tgt[0].remove(wd)
        else:
            tgt[0].append(wd)
    elif v == "unrelated":
        c2, s2, _, _ = gen_base(rng)
    elif v == "settle-none-vs-empty":
        s2 = [] if s2 is None else (None if s2 == [] else s2)
    return c2, s2, v


def as_kind(rng, cals, settle, allow_cal=True):
    """Encodes (cals, settle) as Cal when possible (one member, no settlement calendars), else UnionCal."""
    if allow_cal and len(cals) == 1 and settle is None and rng.random() < 0.6:
        return enc_cal_kind(0, *cals[0]), 0
    return enc_union(1, cals, settle), 1


KN = {0: "Cal", 1: "UnionCal", 2: "CalType::UnionCal", 4: "NamedCal", 5: "CalType::NamedCal"}


def eq_case(ctx, ea, ka, eb, kb, label):
    ctx.count("== pairing %s/%s" % (KN[ka], KN[kb]))
    ctx.count("== variant: " + label)
    return (ea, 20, eb)


def gen_eq_random(ctx, n):
    rng = ctx.rng
    out = []
    while len(out) < n:
        cals, settle, lo, hi = gen_base(rng)
        c2, s2, lab = variant(rng, cals, settle, lo, hi)
        ea, ka = as_kind(rng, cals, settle)
        eb, kb = as_kind(rng, c2, s2, allow_cal=(ka != 0))     # Cal == Cal is the derived structural equality: not in C06
        if ka == 1 and kb == 1 and rng.random() < 0.2:
            ea, eb, ka, kb = [2] + ea[1:], [2] + eb[1:], 2, 2    # CalType::UnionCal == CalType::UnionCal
        if rng.random() < 0.5:
            ea, ka, eb, kb = eb, kb, ea, ka
        out.append(eq_case(ctx, ea, ka, eb, kb, lab))
    # a plain Cal against a ONE-MEMBER combined calendar, BOTH WAYS ROUND: same behaviour under another representation (holiday
    # on an excluded weekday / outside 1970-2200 / listed in another order / member repeated) must compare equal, one date
    # inside must not
    for _ in range(max(8, n // 3)):
        for _try in range(50):
            cals, settle, lo, hi = gen_base(rng)
            if len(cals) == 1:
                break
        cals, settle = cals[:1], rng.choice([None, None, []])
        for _try in range(20):
            c2, s2, lab = variant(rng, cals, settle, lo, hi)
            if lab in ("same-reordered", "only-outside", "holiday-on-masked-day", "one-date-inside", "first-day", "last-day",
                       "duplicate-member", "same", "settle-none-vs-empty"):
                break
        else:
            c2, s2, lab = copy_cals(cals), settle, "same"
        ea, eb = enc_cal_kind(0, *cals[0]), enc_union(1, c2, s2)
        out.append(eq_case(ctx, ea, 0, eb, 1, "Cal/one-member union: " + lab))
        out.append(eq_case(ctx, eb, 1, ea, 0, "one-member union/Cal: " + lab))
    return out


def table_cals(tabs, names):
    return [(list(tabs[n][0]), list(tabs[n][1])) for n in names]


def name_parts(nm):
    return [x for x in nm.lower().replace("|", ",").split(",")]


def gen_eq_named(ctx, tabs, n, budget):
    """== involving NamedCal.  The model sweeps 84 371 days over the holiday tables of both operands: about 1 s per 100 table
    entries, so a case costs (entries on both sides)/100 seconds; `budget` bounds that number of entries per case."""
    rng = ctx.rng
    size = lambda names: sum(len(tabs[x][1]) for x in names)
    fixed = [
        ("tgt", ("x", ["tgt"], None, "same")), ("TGT,ldn", ("n", "Ldn,tGT")), ("tgt|ldn", ("n", "tgt")), ("fed", ("n", "nyc")),
        ("bus", ("x", None, None, "bus-explicit")), ("all", ("x", None, None, "all-explicit")),
        ("tgt,ldn|fed", ("x", ["tgt", "ldn"], ["fed"], "same")), ("tgt,ldn|fed", ("x", ["tgt", "ldn"], ["nyc"], "same")),
        ("stk", ("x", ["stk"], None, "drop-last-day")), ("tyo", ("x", ["tyo"], None, "only-outside")),
        ("osl", ("x", ["osl"], None, "drop-one")), ("zur|wlg", ("x", ["zur"], ["wlg"], "drop-one-settle")),
        ("nyc", ("x", ["nyc"], None, "add-one")), ("ldn", ("x", ["ldn"], None, "drop-first-day")),
        ("tgt|fed", ("x", ["fed"], ["tgt"], "same")),
        ("tgt", ("x", ["tgt"], None, "drop-one")), ("Tgt,BUS", ("n", "tgt")), ("tgt|bus", ("n", "tgt")), ("tgt,all", ("x", ["tgt"], None, "add-one")),
        ("TGT", ("x", ["tgt"], None, "only-outside")), ("tgt", ("x", ["tgt"], None, "drop-first-day")), ("bus|tgt", ("x", ["bus"], ["tgt"], "drop-one-settle")),
        ("mum", ("x", ["mum"], None, "drop-one")), ("all|bus", ("n", "bus|all")),
    ]

    def cost(nm, spec):
        other = name_parts(spec[1]) if spec[0] == "n" else ((spec[1] or []) + (spec[2] or []))
        return size(name_parts(nm)) + size(other)

    picks = [x for x in fixed if cost(*x) <= budget]
    rng.shuffle(picks)
    tries = 0
    while len(picks) < n and tries < 10000:
        tries += 1
        mem, settle = gen_valid(rng)
        mem, settle = mem[:2], (settle[:1] if settle else None)
        nm = render(rng, mem, settle)
        cand = (nm, ("x", mem, settle, rng.choice(["same", "drop-one", "add-one", "only-outside", "drop-one-settle"])))
        if cost(*cand) <= budget:
            picks.append(cand)
    out = []
    for nm, spec in picks[:n]:
        if spec[0] == "n":
            ka = kb = rng.choice([4, 4, 5])
            ea, eb = calgen.enc_named(nm, ka), calgen.enc_named(spec[1], kb)
            lab = "named-vs-named"
        else:
            _, mem, settle, lab = spec
            if lab == "bus-explicit":
                cals, sc = [([5, 6], [])], None
            elif lab == "all-explicit":
                cals, sc = [([], [])], None
            else:
                cals, sc = table_cals(tabs, mem), (None if settle is None else table_cals(tabs, settle))
            inside = lambda h: [x for x in h if D0 < x < D1 and (x + 3) % 7 < 5]
            if lab == "drop-one" and inside(cals[0][1]):
                cals[0][1].remove(rng.choice(inside(cals[0][1])))
            elif lab == "drop-one-settle" and sc and inside(sc[0][1]):
                sc[0][1].remove(rng.choice(inside(sc[0][1])))
            elif lab == "add-one":
                d = find_day(rng, lambda d: py_bus(cals + (sc or []), d), D0, D1)
                if d is not None:
                    cals[-1][1].append(d)
            elif lab == "only-outside":
                rng.choice(cals)[1].append(rng.choice([-1, -3, D1 + 1, D1 + 2, D1 + 366]))
            elif lab == "drop-last-day" and D1 in cals[0][1]:
                cals[0][1].remove(D1)
            elif lab == "drop-first-day" and D0 in cals[0][1]:
                cals[0][1].remove(D0)
            # (CalType values of different variants are never equal under the derived enum equality: compare the plain structs)
            ea, ka = calgen.enc_named(nm, 4), 4
            eb, kb = as_kind(rng, cals, sc)
            lab = "named-vs-explicit: " + lab
        if rng.random() < 0.5:
            ea, ka, eb, kb = eb, kb, ea, ka
        out.append(eq_case(ctx, ea, ka, eb, kb, lab))
    # always (cheap in the model: tables without holidays): a plain Cal against a NAMED calendar WITH A SETTLEMENT PART whose
    # closures all fall on days the Cal is closed anyway - equal business days, different settlement days - both ways round
    for nm, mask, lab in (("bus|bus", [5, 6], "settlement differs on closed days"), ("all|bus", [], "settlement differs"),
                          ("bus|all", [5, 6], "same behaviour"), ("BUS,bus|All", [5, 6], "same behaviour"), ("bus", [5, 6], "same behaviour"),
                          ("bus|bus", [6, 5, 5], "settlement differs on closed days")):
        ea, eb = calgen.enc_named(nm, 4), enc_cal_kind(0, mask, [])
        out.append(eq_case(ctx, eb, 0, ea, 4, "Cal vs named with a settlement part: " + lab))
        out.append(eq_case(ctx, ea, 4, eb, 0, "named with a settlement part vs Cal: " + lab))
    return out


def windows(rng, n, width):
    """date windows for the hashed is_bus_day / is_settlement ranges: both ends of the supported range + random."""
    out = [(D0 - 15, width), (D1 - width + 16, width)]
    while len(out) < n + 2:
        out.append((rng.randint(D0, D1 - width), width))
    return out


def nvu_line(name, mem, settle, lo, hi):
    def e(s):
        return [len(s)] + [ord(c) for c in s]
    a = e(name) + [len(mem)]
    for p in mem:
        a += e(p)
    if settle is None:
        a += [0]
    else:
        a += [1, len(settle)]
        for p in settle:
            a += e(p)
    return "nvu " + " ".join(str(x) for x in a + [lo, hi])


def run(ctx):
    rng = ctx.rng
    th = ctx.tier == "thorough"
    ctx.rule = ("(a) name strings: 1-3 member and 0-2 settlement names from the 14 built-ins, random letter case (incl. U+212A KELVIN SIGN "
                "for k), joined by ',' and '|'; 58% malformed: 0-3 pipes, empty parts (leading/trailing/double commas, empty side of '|', "
                "empty string), unknown names, whitespace, non-ASCII (U+0130, U+017F, full-width, combining marks, astral); observable "
                "Ok/Err/abort of NamedCal::try_new (also inside CalType). (b) is_bus_day and is_settlement of every such name and of random "
                "explicit Cal/UnionCal (1-3 members, none/0-2 settlement calendars, masks of 0-6 days, 0-40 holidays) over hashed windows: "
                "always 1969-12-17.. and ..2201-01-15 plus random windows in 1970-2200, drill-down to the date on mismatch. (c) == for "
                "the pairings Cal/UnionCal, UnionCal/Cal, UnionCal/UnionCal, CalType::UnionCal both sides, NamedCal with Cal/UnionCal/"
                "NamedCal both ways (Cal==Cal is the derived structural equality and is not part of C06): second operand = reordered, "
                "duplicated member, one extra holiday on a business day inside the range / on 1970-01-01 / on 2200-12-31 / only outside "
                "1970-2200 / on a masked weekday / in a settlement calendar only, changed mask, None vs empty settlement list, unrelated; "
                "for named calendars the explicit union of the generated tables with one table entry dropped or added. (d) on the real "
                "code, every valid name against UnionCal::new(get_calendar_by_name(part)..) on EVERY day 1968-11-27..2202-02-04 "
                "(is_bus_day, is_settlement, is_weekday, is_holiday) and ==, both ways. Non-trivial: every case (distinct by input).")
    ctx.trusted = [
        "Coq 8.16.1 kernel; no axioms (all C06 theorems closed under the global context)",
        "hand-written models Model/Calendar.v, Model/Named.v tied to the code by this run's correspondence (harness/src/cal.rs, named.rs)",
        "name wiring and tables regenerated from /repo by driver/translate.py (tied to the running code exhaustively by the C07 check)",
        "str::to_lowercase modelled on code points: ASCII A-Z, U+212A -> k, U+0130 -> i U+0307, identity elsewhere (no other code point lower-cases into ASCII)",
        "chrono day numbering modelled by Model/Dates.v (C08 check)",
    ]
    ctx.assumptions = ["equality is claimed for pairings in which at least one side is a UnionCal or NamedCal (Cal == Cal is Rust's derived field equality)",
                       "supported range = 1970-01-01..2200-12-31 = day numbers 0..84370"]
    cmd = "make -C coq theories/Props/C06.vo && coqc Assum_C06.v (Print Assumptions)"
    summ = translate_stage(ctx)
    if summ is None:
        return ctx.finish(cmd)
    mods = dict(summ["tables"])
    wm, wh = dict(summ["wiring_mask"]), dict(summ["wiring_hols"])
    tabs = {n: (mods[wm[n]][0], mods[wh[n]][1]) for n in wm if n in wh}
    cmd = "make -C coq theories/Props/C06.vo && coqc Assum_C06.v (Print Assumptions)"
    if not proof_stage(ctx, ["theories/Run/RunCal.vo"]):
        # the only C06 lemma that depends on the generated data is `wiring_masks_ok` (week-mask values within 0..6, so that
        # construction cannot abort): look for a built-in name whose construction aborts on the real code
        found = False
        if harness_stage(ctx):
            names = sorted(set(POOL) | set(wm))
            res = run_harness("cal", [calgen.line(calgen.enc_named(n) + [21]) for n in names])
            for n, r in zip(names, res):
                if r == [2]:
                    found = True
                    ctx.violation("NamedCal::try_new(%r) aborts (C06_no_abort no longer provable over the generated wiring)" % n,
                                  {"calendar_encoding": calgen.enc_named(n), "op": 21, "args": [], "implementation": r,
                                   "harness_cmd": "echo '%s' | harness/target/release/rlharness cal" % calgen.line(calgen.enc_named(n) + [21])})
        if not found:
            ctx.violation("a C06 proof obligation or the model no longer compiles", {
                "no_failing_input": True, "theorem": "Props/C06.v / Proofs/NamedP.v / Run/RunCal.v", "log_tail": getattr(ctx, "build_log", "")[-3000:]})
        return ctx.finish(cmd)
    if not harness_stage(ctx):
        return ctx.finish(cmd)
    tm = [("proofs+builds", time.time() - ctx.t0)]

    # (a) + (b) name strings
    sc = getattr(ctx, "scale", 1)      # > 1 when the anchored sources drifted from the pinned fingerprint (quick tier)
    n_names = 3000 if th else 330 * sc
    names = [("tgt,ldn|fed", "valid", (["tgt", "ldn"], ["fed"])), ("", "empty-part", None), ("stK", "valid", (["stk"], None))]
    names += [(n, "valid", ([n], None)) for n in POOL]
    seen = set(x[0] for x in names)
    while len(names) < n_names:
        s, lab, spec = gen_name(rng)
        if s in seen and rng.random() < 0.9:
            continue
        seen.add(s)
        names.append((s, lab, spec))
    cases = []
    valid = []
    for s, lab, spec in names:
        ctx.count("name class: " + lab)
        ctx.count("name pipes=%d" % min(s.count("|"), 4))
        kind = rng.choice([4, 4, 5, 14, 15])      # 14 / 15: loaded from a document {"name": <this spelling>} instead of constructed
        enc = calgen.enc_named(s, kind)
        cases.append((enc, 21, []))
        if spec is not None:
            valid.append((s, spec))
    wcount = (4, 400) if th else (1, 240)
    rng.shuffle(valid)
    for s, spec in valid[:(300 if th else 64 * sc)]:
        enc = calgen.enc_named(s, rng.choice([4, 4, 5, 14, 15]))
        for d0, cnt in windows(rng, *wcount):
            cases.append((enc, 30, [d0, cnt]))
    for s, lab, spec in names:
        if spec is None and rng.random() < 0.25:     # windows on malformed names as well (Err on both sides, or Ok by accident)
            cases.append((calgen.enc_named(s), 30, [rng.randint(D0, D1 - 100), 100]))
    # (b) explicit unions
    for _ in range(400 if th else 40 * sc):
        cals, settle, lo, hi = gen_base(rng)
        ctx.count("explicit union: members=%d settlement=%s" % (len(cals), "none" if settle is None else len(settle)))
        enc, _ = as_kind(rng, cals, settle)
        if enc[0] == 1 and rng.random() < 0.2:
            enc = [2] + enc[1:]
        cases.append((enc, 30, [lo - 40, hi - lo + 80]))
        cases.append((enc, 30, [D0 - 15, 60]))
        cases.append((enc, 30, [D1 - 44, 60]))
    # (c) equality
    cases += gen_eq_random(ctx, 600 if th else 56 * sc)
    # == with named calendars is expensive in the model: evaluated in the background, one coqc per case
    eqn = gen_eq_named(ctx, tabs, 30 if th else 5 * sc, 100000 if th else 3800)
    eqn_full = [list(e) + [o] + list(a) for e, o, a in eqn]
    bg = ThreadPoolExecutor(max_workers=1)
    fut = bg.submit(coq_eval, "Run.RunCal", "runCal", eqn_full, ctx.work, 1, 3000, "eqn")
    t1 = time.time()
    calrun.run_cases(ctx, cases, nontrivial=lambda *a: True)
    tm.append(("construct/ranges/random ==", time.time() - t1))
    t1 = time.time()
    eqn_impl = run_harness("cal", [calgen.line(c) for c in eqn_full])
    eqn_model = fut.result()
    bg.shutdown()
    tm.append(("wait for named ==", time.time() - t1))
    for (enc, op, args), a, b in zip(eqn, eqn_impl, eqn_model):
        ctx.evaluations += 1
        ctx.count("==")
        ctx.nontriv((tuple(enc), op, tuple(args)))
        if a != b:
            ctx.violation("the implementation disagrees with the proved model on == between a named calendar and another calendar: "
                          "implementation %s, model %s (0 1 = equal, 0 0 = not equal, 1 = Err, 2 = abort)" % (a, b),
                          {"calendar_encoding": list(enc), "op": 20, "op_name": "==", "args": list(args), "implementation": a, "model": b,
                           "harness_cmd": "echo '%s' | harness/target/release/rlharness cal" % calgen.line(list(enc) + [20] + list(args))[:2000]})

    # (d) named string vs explicit combination on the real code, every date
    lo, hi = D0 - 400, D1 + 400
    lines = [nvu_line(s, spec[0], spec[1], lo, hi) for s, spec in valid]
    res = run_harness("named", lines)
    for (s, spec), ln, r in zip(valid, lines, res):
        ctx.evaluations += 4 * (hi - lo + 1) + 3
        ctx.count("named string vs explicit combination (every date, real code)")
        ctx.nontriv(("nvu", s))
        single = len(spec[0]) == 1 and spec[1] is None
        want = [0, 0, -1, 1, 1, 1 if single else -1]
        if r != want:
            day = calgen.fmt_date(r[2]) if len(r) > 2 and r[1] > 0 else None
            ctx.violation("NamedCal::try_new(%r) does not behave as the explicit UnionCal of its parts %s: %s" % (
                s, spec, ("first differing date %s, %d dates differ" % (day, r[1])) if day else
                ("outcome / == flags %s, expected %s" % (r, want))),
                {"nvu_line": ln, "name": s, "parts": spec, "implementation": r, "expected": want,
                 "harness_cmd": "echo '%s' | harness/target/release/rlharness named" % ln})
    # self-test of the nvu observable: swapping the member and settlement lists must be visible
    st = run_harness("named", [nvu_line("tgt|fed", ["fed"], ["tgt"], lo, hi)])[0]
    if not (len(st) == 6 and st[0] == 0 and st[1] > 0 and st[3] == 0):
        raise CheckError("nvu self-test: a swapped member/settlement list is not detected: %s" % st)
    ctx.notes.append("stage timing (s): " + ", ".join("%s %.1f" % x for x in tm))
    for enc, op, args in (cases[:2] + cases[-2:] + eqn[:1]):
        ctx.sample({"calendar_encoding": list(enc[:30]), "call": calrun.describe(enc, op, list(args)[:30])})
    return ctx.finish(cmd)


def replay(ctx, rp):
    if "nvu_line" in rp:
        build_harness()
        r = run_harness("named", [rp["nvu_line"]])[0]
        print("replay named-vs-explicit %r: implementation %s expected %s" % (rp.get("name"), r, rp.get("expected")))
        ctx.cleanup()
        return 0 if r == rp.get("expected") else 1
    return calrun.replay_case(ctx, rp)
