"""C09 — an FX market built from n-1 quotes is complete and arbitrage-free.
Proof: Props/C09.v (Model/FX.v at T := R).  Correspondence: Model/FX.v at T := float (Run/RunFX.v) vs
rust/fx/rates through `rlharness fx` (FXRates::try_new, get_ccy_index, rate)."""
from common import *  # noqa
import fxgen


def line_new(enc):
    return "new " + " ".join(str(x) for x in enc)


def parse_new(out):
    """-> (cls, names, matrix) ; matrix row-major floats"""
    r = fxgen.Rd(out)
    cls = r.next()
    if cls != 0:
        return cls, None, None
    n = r.next()
    names = [r.name() for _ in range(n)]
    vals = [fxgen.b2f(r.next()) for _ in range(n * n)]
    # the INTERNAL order of the currencies is not part of the property (rates are asked for by currency): canonical
    # order = names sorted, matrix permuted with them (a repeated name leaves the output as printed)
    if len(set(names)) == n:
        o = sorted(range(n), key=lambda i: names[i])
        names = [names[i] for i in o]
        vals = [vals[i * n + j] for i in o for j in o]
    return cls, names, vals


def same_new(a, b):
    try:
        ca, na, va = parse_new(a)
        cb, nb, vb = parse_new(b)
    except Exception:
        return a == b
    if ca != cb:
        return False
    if ca != 0:
        return True
    if na != nb or len(va) != len(vb):
        return False
    return all(fclose(x, y) for x, y in zip(va, vb))


def describe(qs, base):
    def num(x):
        if isinstance(x, (int, float)):
            return repr(float(x))
        return "%s(%r, vars=%s)" % ("Dual" if x[0] == "d" else "Dual2", x[1], [n for n, _ in x[2]])
    return "FXRates::try_new([%s], base=%s)" % (
        ", ".join("%s%s=%s%s" % (q[0], q[1], num(q[2]), "" if q[3] is None else "@%d" % q[3]) for q in qs), base)


def expected_order(qs, base):
    seen = []
    for s in ([base] if base is not None else []) + [c for q in qs for c in (q[0], q[1])]:
        s = s.lower()
        if s not in seen:
            seen.append(s)
    return seen


def gen_cases(ctx):
    rng = ctx.rng
    th = ctx.tier == "thorough"
    cases = []   # dict: qs, base, kind ('valid'|malformed kind), expect ('ok'|'err'|None)
    nvalid = 20000 if th else 600
    for _ in range(nvalid):
        qs, base, info = fxgen.valid_market(rng, 2, 12, dual_quotes=0.1)
        cases.append({"qs": qs, "base": base, "kind": "valid/" + info["shape"], "expect": "ok", "n": info["n"]})
    nbad = nvalid // 3
    for _ in range(nbad):
        qs, base, kind = fxgen.malformed_market(rng)
        expect = fxgen.classify(qs, base)
        if expect == "ok" and not kind.endswith("(valid)"):
            kind += " (still a tree)"
        cases.append({"qs": qs, "base": base, "kind": "malformed/" + kind, "expect": expect, "n": None})
    # every labelled tree on 2..5 (quick: a seeded sample of the 6-vertex ones; thorough: all 1296),
    # several quote orders / orientations / bases each
    for n in range(2, 7):
        trees = list(fxgen.all_labelled_trees(n))
        if n == 6 and not th:
            trees = rng.sample(trees, 120)
        for edges in trees:
            names = fxgen.CCYS[:n]
            reps = 3 if th else 1
            for _ in range(reps):
                es = list(edges)
                rng.shuffle(es)
                qs = []
                for (u, v) in es:
                    if rng.random() < 0.5:
                        u, v = v, u
                    qs.append((names[u], names[v], fxgen.rate_value(rng), None))
                base = rng.choice([None] + names)
                cases.append({"qs": qs, "base": base, "kind": "valid/all-trees-%d" % n, "expect": "ok", "n": n})
    return cases


def b_ok(out):
    return out[:1] == [0]


def check_property_on_impl(ctx, c, out):
    """Independent of the model: the implementation's own output against the property's wording."""
    qs, base = c["qs"], c["base"]
    cls, names, vals = parse_new(out)
    what = None
    if c["expect"] == "err" and cls != 1:
        what = "a %s quote set is not rejected with an error (class %d; 0 = Ok, 2 = abort)" % (c["kind"], cls)
    elif c["expect"] == "ok":
        if cls != 0:
            what = "a tree-shaped quote set is not accepted (class %d; 1 = Err, 2 = abort)" % cls
        else:
            exp = sorted(expected_order(qs, base))
            n = len(names)
            if sorted(names) != exp or len(set(names)) != n:
                what = "the market's currencies %s are not the currencies of the quotes %s, each once" % (names, exp)
            else:
                ref = fxgen.reference_rates(qs, names)
                idx = {s: i for i, s in enumerate(names)}
                for a in names:
                    for b in names:
                        v = vals[idx[a] * n + idx[b]]
                        if not fclose(v, ref[(a, b)], rtol=1e-9):
                            what = "rate(%s,%s) = %r differs from the path product %r" % (a, b, v, ref[(a, b)])
                    if vals[idx[a] * n + idx[a]] != 1.0:
                        what = "rate(%s,%s) = %r is not 1" % (a, a, vals[idx[a] * n + idx[a]])
                for q in qs:
                    x = q[2] if isinstance(q[2], (int, float)) else q[2][1]
                    v = vals[idx[q[0].lower()] * n + idx[q[1].lower()]]
                    if v != x:
                        what = "quoted pair %s%s returned as %r, quoted %r" % (q[0], q[1], v, x)
    if what:
        ctx.violation("the implementation breaks the property on %s: %s" % (describe(qs, base), what),
                      {"case_kind": c["kind"], "quotes": [list(q) for q in qs], "base": base,
                       "encoded": fxgen.enc_market(qs, base), "implementation": out[:400],
                       "harness_cmd": "echo '%s' | harness/target/release/rlharness fx" % line_new(fxgen.enc_market(qs, base))})


def remark_stage(ctx, cases):
    """A market whose quotes were RE-MARKED (FXRates::update on some of its own pairs) is still a market built from n-1
    quotes: every pair asked for by name must be the path product of the latest quotes, whatever the base given at
    construction (history op of the FX harness / Run.RunFX; oracle independent of the model)."""
    import props.c10 as c10
    rng = ctx.rng
    th = ctx.tier == "thorough"
    pool = [c for c in cases if c["expect"] == "ok" and c["n"] and 2 <= c["n"] <= 8
            and all(isinstance(q[2], (int, float)) for q in c["qs"])]
    rng.shuffle(pool)
    hs = []
    for c in pool[:(600 if th else 120 * ctx.scale)]:
        names = sorted(set(x.lower() for q in c["qs"] for x in q[:2]))
        base = c["base"] if rng.random() < 0.3 else rng.choice(names)       # mostly a base that is NOT the first quoted currency
        k = rng.randint(1, min(3, len(c["qs"])))
        upd = []
        latest = {(q[0].lower(), q[1].lower()): q for q in c["qs"]}
        for q in rng.sample(c["qs"], k):
            nq = (q[0], q[1], fxgen.rate_value(rng), q[3])
            upd.append(nq)
            latest[(q[0].lower(), q[1].lower())] = nq
        probes = [(a, b) for a in names for b in names][:64]
        ops = [{"kind": "update", "quotes": upd, "probes": probes}]
        if rng.random() < 0.6:
            # ... and the rates survive switches of the AD order (two, then back to one or to zero): same values, pair by pair
            ops.append({"kind": "order", "order": 2, "probes": probes})
            ops.append({"kind": "order", "order": rng.choice([1, 1, 0]), "probes": probes})
        hs.append({"qs": c["qs"], "base": base, "probes0": [], "n": c["n"], "latest": list(latest.values()), "names": names,
                   "ops": ops})
    encs = [c10.enc_case(h) for h in hs]
    impl = run_harness("fx", [c10.line_hist(e) for e in encs])
    model = coq_eval("Run.RunFX", "runFX", [[1] + e for e in encs], ctx.work, shard=max(10, len(encs) // (NCPU * 2) + 1), tag="c09r")
    for h, e, a, b in zip(hs, encs, impl, model):
        ctx.evaluations += 1
        ctx.count("re-marked markets (construct with a base, update 1-3 own pairs, read every pair)" + (", then AD order two and back" if len(h["ops"]) > 1 else ""))
        ctx.nontriv(("remark", tuple(e)))
        bad = c10.compare_case(h, a, b)
        what = None
        if bad:
            what = "rust/fx/rates and the proved model disagree after the update (step %d: %s)" % bad
        else:
            try:
                steps = c10.parse_hist(a, h)
                ref = fxgen.reference_rates(h["latest"], h["names"])
                if len(steps) == 1 + len(h["ops"]) and all(s_[0] == 0 for s_ in steps[1:]):
                    for k in range(1, len(steps)):
                        for (x, y), v in zip(h["ops"][k - 1]["probes"], steps[k][1]):
                            got = v["re"] if v is not None else None
                            if got is None or not fclose(got, ref[(x, y)], rtol=1e-9):
                                what = "after %s rate(%s,%s) = %r is not the path product %r of the latest quotes" % (
                                    "the update" if k == 1 else "the update and %d switch(es) of the AD order" % (k - 1), x, y, got, ref[(x, y)])
                                break
                        if what:
                            break
                else:
                    what = "an update of the market's own pairs is not accepted (classes %s)" % [s_[0] for s_ in steps]
            except Exception as ex:      # undecodable output = disagreement with the expected layout
                what = "undecodable history output (%s)" % ex
        if what:
            ctx.violation("re-marked market %s base=%s, update %s: %s" % (
                [list(q) for q in h["qs"]], h["base"], [list(q) for q in h["ops"][0]["quotes"]], what),
                {"case_kind": "re-marked", "encoded_hist": e, "implementation": a[:300], "model": b[:300],
                 "harness_cmd": "echo '%s' | harness/target/release/rlharness fx" % c10.line_hist(e)[:4000]})


def run(ctx):
    ctx.rule = ("seeded random labelled trees on 2-12 currencies (chains, stars, two-hub and Pruefer-sequence trees), random "
                "orientation / quote order / base (incl. none) / optional common settlement date / 15% upper-case spellings / 10% "
                "dual-valued quotes, rates 10^U(-4,4); every labelled tree on 2-5 currencies and a sample (thorough: all 1296) on 6; "
                "malformed stream (one third): duplicate and inverse-duplicate quotes, cycle + separate component, missing / extra "
                "quote, mixed settlement, bad currency codes, same-currency pair, foreign base, empty list, plus valid non-ASCII "
                "3-byte codes and mixed-case spellings. Compared: Ok/Err/abort class, the set of currencies, all n*n rate() values BY CURRENCY NAME (the internal order is not part of the property) "
                "(1e-9 relative); additionally the implementation alone against path products, exact quoted pairs, exact unit "
                "diagonal. Non-trivial = accepted market with >= 3 currencies or any rejected one; distinct by encoded input.")
    ctx.trusted = [
        "Coq 8.16.1 kernel (coqc, full .vo build); axioms: the standard-library real numbers only (classic, sig_forall_dec, "
        "sig_not_dec, functional_extensionality_dep; constructive_indefinite_description enters through the definition of the "
        "inverse normal cdf in the shared NumR instance, not through any FX lemma)",
        "hand-written model Model/FX.v tied to rust/fx/rates by this run's correspondence (harness/src/fx.rs, Run/RunFX.v, driver/fxgen.py)",
        "IEEE rounding: theorems over R, execution over binary64; powf(x,-1) vs the model's Gallina pow within 1e-9",
        "modelled: IndexSet as duplicate-free list, HashSet prev_value as list, itertools combinations(2) order, "
        "Iterator::max_by_key (last maximum), ndarray indexing, ASCII-only lower-casing in Ccy::try_new",
    ]
    ctx.assumptions = ["at most 181 currencies (the code's i16 stop test n*n <= 32767); the property quantifies over 2..12",
                       "non-zero quoted values (the property: positive rates)",
                       "currency codes: ASCII letters or caseless non-ASCII symbols"]
    if not proof_stage(ctx, ["theories/Run/RunFX.vo"]):
        ctx.violation("a C09 proof obligation or the FX model no longer compiles",
                      {"no_failing_input": True, "theorem": "Props/C09.v / Run/RunFX.v", "log_tail": getattr(ctx, "build_log", "")[-3000:]})
        return ctx.finish("make theories/Props/C09.vo")
    if not harness_stage(ctx):
        return ctx.finish("make theories/Props/C09.vo")
    cases = gen_cases(ctx)
    encs = [fxgen.enc_market(c["qs"], c["base"]) for c in cases]
    impl = run_harness("fx", [line_new(e) for e in encs])
    model = coq_eval("Run.RunFX", "runFX", [[0] + e for e in encs], ctx.work,
                     shard=max(20, min(400, len(encs) // (NCPU * 2) + 1)), tag="c09")
    for c, e, a, b in zip(cases, encs, impl, model):
        ctx.evaluations += 1
        ctx.count(c["kind"])
        if c["n"]:
            ctx.count("currencies=%d" % c["n"])
        ctx.count("outcome class %s" % (a[0] if a else "?"))
        if (a[:1] == [0] and (c["n"] or 3) >= 3) or a[:1] == [1]:
            ctx.nontriv(tuple(e))
        if not same_new(a, b):
            ca, na, va = parse_new(a) if a[:1] in ([0], [1], [2]) else (None, None, None)
            ctx.violation(
                "rust/fx/rates and the proved model disagree on %s (class: 0 Ok, 1 Err, 2 abort): implementation %s, model %s"
                % (describe(c["qs"], c["base"]), a[:8], b[:8]),
                {"case_kind": c["kind"], "quotes": [list(q) for q in c["qs"]], "base": c["base"], "encoded": e,
                 "implementation": a[:400], "model": b[:400],
                 "harness_cmd": "echo '%s' | harness/target/release/rlharness fx" % line_new(e)})
        check_property_on_impl(ctx, c, a)
    # the market RESTORED FROM ITS OWN SAVED DOCUMENT is the same market (harness op `newj`: to_json -> from_json after
    # construction): bases other than the first quoted currency, every tree shape
    th = ctx.tier == "thorough"
    pick = [i for i, c in enumerate(cases) if c["expect"] == "ok" and b_ok(model[i])]
    ctx.rng.shuffle(pick)
    pick = pick[:(3000 if th else 250 * ctx.scale)]
    impl_j = run_harness("fx", ["newj " + " ".join(str(x) for x in encs[i]) for i in pick])
    for i, a in zip(pick, impl_j):
        c, e, b = cases[i], encs[i], model[i]
        ctx.evaluations += 1
        ctx.count("reloaded from its saved document: base %s" % ("none" if c["base"] is None else
                  "first quoted currency" if c["base"].lower() == c["qs"][0][0].lower() else "another currency"))
        ctx.nontriv(("reloaded", tuple(e)))
        if not same_new(a, b):
            ctx.violation(
                "the market %s restored from its own saved document (to_json, from_json) disagrees with the proved model "
                "(class: 0 Ok, 1 Err, 2 abort): implementation %s, model %s" % (describe(c["qs"], c["base"]), a[:8], b[:8]),
                {"case_kind": c["kind"], "reloaded": True, "quotes": [list(q) for q in c["qs"]], "base": c["base"], "encoded": e,
                 "implementation": a[:400], "model": b[:400],
                 "harness_cmd": "echo 'newj %s' | harness/target/release/rlharness fx" % " ".join(str(x) for x in e)})
    remark_stage(ctx, cases)
    for c, a in list(zip(cases, impl))[:4]:
        cls, names, vals = parse_new(a)
        ctx.sample({"call": describe(c["qs"], c["base"])[:300], "class": cls, "currencies": names,
                    "first_row": vals[:len(names)] if vals else None})
    return ctx.finish("make -C coq theories/Props/C09.vo theories/Run/RunFX.vo && coqc Assum_C09.v (Print Assumptions)")


def replay(ctx, rp):
    build_harness()
    build_coq(["theories/Run/RunFX.vo"])
    if "encoded_hist" in rp:
        import props.c10 as c10
        e = rp["encoded_hist"]
        a = run_harness("fx", [c10.line_hist(e)])[0]
        b = coq_eval("Run.RunFX", "runFX", [[1] + list(e)], ctx.work)[0]
        print("replay re-marked market: implementation %s model %s" % (a[:30], b[:30]))
        ctx.cleanup()
        return 0 if a == b else 1
    e = rp["encoded"]
    a = run_harness("fx", [("newj " + " ".join(str(x) for x in e)) if rp.get("reloaded") else line_new(e)])[0]
    b = coq_eval("Run.RunFX", "runFX", [[0] + list(e)], ctx.work)[0]
    print("replay %s base=%s: implementation %s model %s" % (rp.get("quotes"), rp.get("base"), a[:12], b[:12]))
    ok = same_new(a, b)
    if ok and rp.get("case_kind"):
        # property-level re-check of the implementation alone
        class _C:  # minimal ctx stand-in collecting violations
            def __init__(self):
                self.v = []

            def violation(self, w, r):
                self.v.append(w)
        cc = _C()
        kind = rp["case_kind"]
        expect = fxgen.classify([tuple(q) for q in rp["quotes"]], rp["base"])
        check_property_on_impl(cc, {"qs": [tuple(q) for q in rp["quotes"]], "base": rp["base"], "kind": kind,
                                    "expect": expect}, a)
        ok = not cc.v
        for w in cc.v:
            print(w)
    ctx.cleanup()
    return 0 if ok else 1
