"""C16 — saving and loading an object gives back an equal object.
Proof: Props/C16.v (tree level: data-model mapping, tagged and direct entry points, rebuild-on-load; text level under
the codec hypothesis).  Correspondence (hook H3, `rlharness json`):
 (a) serde_json::to_string of objects built by the real constructors, parsed by Python's json module, equals the
     model's enc tree, leaf by leaf (floats as bit patterns);
 (b) from_json(to_json(o)) == o (tagged and direct) and bincode round trip == o on the real code, doubles drawn from the
     full bit-pattern space; the codec hypothesis itself on bare doubles;
 (c) every public query answered identically by the loaded object;
 (e) negative controls: each object against copies changed in one place must compare UNEQUAL under the type's own == (op `neq`)."""
import random
from common import *  # noqa
import jsongen as J
import translate

CMD = "make -C coq theories/Props/C16.vo && coqc Assum_C16.v (Print Assumptions)"
FLAGS = ["tagged from_json(to_json(o)) == o", "direct T::from_json(to_json(o)) == o", "bincode round trip == o",
         "queries after tagged reload", "queries after direct reload", "queries after bincode reload",
         "to_json(from_json(text)) == text"]


def harness_cmd(line):
    return "echo '%s' | harness/target/release/rlharness json" % line


def bare_doubles(ctx, n):
    """the codec hypothesis on bare doubles: parse(print x) == x for finite x. Returns the survivors."""
    rng = ctx.rng
    xs = []
    for _ in range(n):
        xs.append(J.f2b(J.full_float(rng)))
    # the boundaries of the finite range
    xs += [J.f2b(x) for x in (5e-324, 2.2250738585072014e-308, 1.7976931348623157e308, -1.7976931348623157e308, 0.1, 1 / 3,
                               0.9701548970340049, 123456789.12345679, 1e22, 1e23, 9007199254740993.0)]
    back, backb = [], []
    for i in range(0, len(xs), 2000):
        chunk = xs[i:i + 2000]
        back += run_harness("json", ["f64rt " + " ".join(map(str, chunk))])[0]
        backb += run_harness("json", ["f64bin " + " ".join(map(str, chunk))])[0]
    surv, fails = [], []
    for x, y, z in zip(xs, back, backb):
        ctx.evaluations += 1
        if z != x:
            ctx.violation("bincode does not give a double back: %r -> bits %d" % (b2f(x), z),
                          {"part": "bare", "class": "float-binary-roundtrip", "double_bits": x, "double": repr(b2f(x))})
        if y == x:
            surv.append(x)
        else:
            fails.append((x, y))
    ctx.count("bare doubles", len(xs))
    ctx.count("bare doubles surviving the JSON text round trip", len(surv))
    ctx.count("bare doubles NOT surviving the JSON text round trip", len(fails))
    if fails:
        # smallest-looking witness: fewest significant digits
        x, y = min(fails, key=lambda p: (len(repr(b2f(p[0]))), abs(b2f(p[0]))))
        ctx.violation(
            "a finite double does not survive to_json -> from_json: %r is read back as %s (%d of %d random finite doubles fail); "
            "every object holding it loads unequal" % (b2f(x), repr(b2f(y)) if y >= 0 else "an error", len(fails), len(xs)),
            {"part": "bare", "class": "float-text-roundtrip", "double_bits": x, "double": repr(b2f(x)),
             "read_back_bits": y, "read_back": repr(b2f(y)) if y >= 0 else None, "failing": len(fails), "tested": len(xs),
             "harness_cmd": harness_cmd("f64rt %d" % x)})
    return surv


def moderate_full(rng):
    """full-precision doubles of ordinary magnitude (FX quotes: cross rates are products and quotients)"""
    return rng.uniform(0.05, 2.0) * 10 ** rng.randint(-2, 3)


def gen_objects(ctx, n, fl, tag):
    rng = ctx.rng
    objs = []
    for i in range(n):
        k = i % 10
        o = J.gen_obj(rng, k, moderate_full if (k == 5 and fl is J.full_float) else fl)
        objs.append(o)
        ctx.count("%s: %s" % (tag, J.KINDS[k]))
    return objs


def check_enc(ctx, objs, direct=False):
    """(a): tree of the real text == model's enc tree"""
    op, mop = ("encd", 4) if direct else ("enc", 3)
    lines = ["%s %s" % (op, " ".join(map(str, o))) for o in objs]
    impl = run_harness("json", lines)
    model = coq_eval("Run.RunJson", "runJson", [[mop] + o for o in objs], ctx.work, shard=40, tag="enc%d" % mop)
    for o, ln, a, b in zip(objs, lines, impl, model):
        ctx.evaluations += 1
        if a[0] != b[0]:
            ctx.violation("constructing / serialising an object: implementation class %s, model class %s" % (a[:1], b[:1]),
                          {"part": "enc", "class": "model-mismatch", "type": J.KINDS[o[0]], "object": o, "direct": direct,
                           "harness_cmd": harness_cmd(ln)[:5000]})
            continue
        if a[0] != 0:
            continue
        txt, _ = J.text_of_out(a, 1)
        ta, tb = J.canon(J.parse_text(txt)), J.canon(J.dec_tree(b, 1)[0])
        if len(txt) > 60:
            ctx.nontriv(("enc", direct, tuple(o)))
        if ta != tb:
            ctx.violation("to_json writes %s but the model's data-model mapping gives %s" % (J.show(ta, 500), J.show(tb, 500)),
                          {"part": "enc", "class": "model-mismatch", "type": J.KINDS[o[0]], "object": o, "direct": direct,
                           "text": txt[:3000], "harness_cmd": harness_cmd(ln)[:5000]})


def check_rt(ctx, objs, population):
    """(b), (c)"""
    lines = ["rt " + " ".join(map(str, o)) for o in objs]
    impl = run_harness("json", lines)
    groups = {}
    for o, ln, a in zip(objs, lines, impl):
        ctx.evaluations += 1
        ty = J.KINDS[o[0]]
        if a[0] == 1:
            ctx.count("rt: constructor error (skipped)")
            continue
        if a[0] != 0 or len(a) < 10:
            key = (ty, "abort")
            what = "round trip of a %s ABORTS or fails to load what was saved" % ty
        else:
            fl = a[1:7]        # a[7] (re-saved text identical) is informative only: a HashSet is written in arbitrary order
            if a[7] != 1:
                ctx.count("rt: re-saved text differs (set order)")
            if a[8] > 4:
                ctx.nontriv(("rt", tuple(o)))
            if all(f == 1 for f in fl):
                continue
            bad = [FLAGS[i] for i, f in enumerate(fl) if f != 1]
            binary_ok = fl[2] == 1 and fl[5] == 1
            if population == "full" and binary_ok:
                key = (ty, "float-text-roundtrip")
            else:
                key = (ty, "roundtrip")
            what = "a %s does not survive save / load: failed: %s (doubles: %s)" % (
                ty, "; ".join(bad), "full bit-pattern space" if population == "full" else "survivors of the bare text round trip")
        rp = {"part": "rt", "class": key[1], "type": ty, "object": o, "flags": a[:12], "population": population,
              "harness_cmd": harness_cmd(ln)[:6000]}
        ctx.count("rt finding (%s doubles): %s/%s" % (population, key[0], key[1]))
        if key not in groups or len(o) < groups[key][0]:
            groups[key] = (len(o), what, rp)
    for key in sorted(groups):
        _, what, rp = groups[key]
        if rp["class"] == "float-text-roundtrip":
            # one finding for the whole class, carrying the smallest object
            rp = dict(rp)
        ctx.violation(what, rp)


def check_neq(ctx, objs):
    """(e) NEGATIVE CONTROLS of the equality every round trip above is judged by (the payload type's own PartialEq, hook
    `Tagged::same`): for each generated object, copies changed in ONE place that the type's equality is meant to see - one float by
    one ulp, one name, one holiday / week-mask day, one node, one quote, one knot, one coefficient, one enum field; for the calendars
    whose equality is semantic (UnionCal, NamedCal: business and settlement days over 1970-2200) a holiday added on a business /
    settlement day or another calendar name - must compare UNEQUAL to the original in both directions, and the original equal
    to itself.  An equality that always answers `true` would make (b) vacuous; this is what rules it out."""
    rng = random.Random(ctx.seed * 7919 + 16)
    lines, meta = [], []
    for o in objs:
        ty = J.KINDS[o[0]]
        ps = J.perturbations(rng, o, limit=2)
        if not ps:
            ctx.count("neq: no perturbation applicable (%s)" % ty)
        for lab, e in ps:
            lines.append("neq " + " ".join(map(str, o)) + " " + " ".join(map(str, e)))
            meta.append((ty, lab, o, e))
    impl = run_harness("json", lines)
    groups = {}
    for (ty, lab, o, e), ln, a in zip(meta, lines, impl):
        ctx.evaluations += 1
        if a[0] == 1:
            ctx.count("neq: original or perturbed copy not constructible (skipped)")
            continue
        ctx.count("neq (negative control): %s: %s" % (ty, lab))
        if a[0] == 0 and a[1:4] == [0, 0, 1]:
            ctx.count("neq: perturbed copies found UNEQUAL by the real ==")
            ctx.nontriv(("neq", tuple(e)))
            continue
        if a[0] != 0:
            key = (ty, "equality-abort")
            what = "comparing a %s with a copy of itself changed in one place (%s) ABORTS" % (ty, lab)
        elif a[3] != 1:
            key = (ty, "equality-irreflexive")
            what = "a %s built from finite values does not compare equal to itself" % ty
        else:
            key = (ty, "equality-blind")
            what = ("the == of %s does not see a change the round-trip check relies on it to see: %s (original == copy: %s, copy == "
                    "original: %s)" % (ty, lab, bool(a[1]), bool(a[2])))
        rp = {"part": "neq", "class": key[1], "type": ty, "change": lab, "object": o, "perturbed": e, "flags": a[:6],
              "harness_cmd": harness_cmd(ln)[:8000]}
        ctx.count("neq finding: %s/%s" % key)
        if key not in groups or len(o) < groups[key][0]:
            groups[key] = (len(o), what, rp)
    for key in sorted(groups):
        _, what, rp = groups[key]
        ctx.violation(what, rp)


def big_objects():
    nb = 400
    big2 = [1] + J.enc_names(["v%d" % i for i in range(nb)]) + [f2b(1.5)] + [f2b(float(i % 7) - 3.0) for i in range(nb)] + \
           [f2b(0.25 if (i // nb + i % nb) % 97 == 0 else 0.0) for i in range(nb * nb)]
    big1 = [0] + J.enc_names(["w%d" % i for i in range(3000)]) + [f2b(-2.5)] + [f2b(float(i % 5)) for i in range(3000)]
    return [big2, big1]


def check_pk(ctx, objs):
    """(d) the pickle protocol of the Python-visible classes (the *_py.rs pickling blocks), through the interpreter:
    __getstate__ returns the bincode of the object, type(obj)(*obj.__getnewargs__()) constructs, __setstate__ restores;
    the rebuilt object equals the original and answers every query identically"""
    # PPSplineF64 / PPSplineDual / PPSplineDual2 define no pickling methods in rust/splines/spline_py.rs (kinds 7-9)
    objs = [o for o in objs if o[0] <= 6]
    # LARGE objects: a Dual with 3 000 variables and a Dual2 with 400 (a binary state of 1.3 MB): size must not matter
    objs = objs + big_objects()
    lines = ["pk " + " ".join(map(str, o)) for o in objs]
    impl = run_harness("json", lines)
    groups = {}
    names = ["__getstate__ returns the binary state of the object", "the rebuilt object compares equal to the original",
             "every query is answered identically by the rebuilt object"]
    for o, ln, a in zip(objs, lines, impl):
        ctx.evaluations += 1
        ty = J.KINDS[o[0]]
        if a[0] == 1:
            ctx.count("pk: constructor error (skipped)")
            continue
        ctx.count("pk (pickle protocol): %s" % ty)
        if a[0] == 0 and len(a) >= 5 and a[1:4] == [1, 1, 1]:
            if a[4] > 4:
                ctx.nontriv(("pk", tuple(o)))
            continue
        if a[0] == 0:
            key = (ty, "pickle-roundtrip")
            what = "a %s does not survive the pickle protocol (__getstate__ / __getnewargs__ / __new__ / __setstate__): failed: %s" % (
                ty, "; ".join(n for n, f in zip(names, a[1:4]) if f != 1))
        elif a[0] == 3:
            key = (ty, "pickle-error")
            what = "pickling a %s raises: __getstate__, __getnewargs__, the constructor on those arguments or __setstate__ returns an error" % ty
        else:
            key = (ty, "pickle-abort")
            what = "pickling a %s ABORTS" % ty
        rp = {"part": "pk", "class": key[1], "type": ty, "object": o if len(o) < 20000 else o[:50], "object_size": len(o),
              "flags": a[:8], "harness_cmd": harness_cmd(ln)[:6000]}
        ctx.count("pk finding: %s/%s" % key)
        if key not in groups or len(o) < groups[key][0]:
            groups[key] = (len(o), what, rp)
    for key in sorted(groups):
        _, what, rp = groups[key]
        ctx.violation(what, rp)


def run(ctx):
    th = ctx.tier == "thorough"
    ctx.rule = ("objects of all 10 serialisable types built by the real constructors (Dual/Dual2 with 0-4 variables incl. non-ASCII and "
                "quote/backslash names; Cal/UnionCal with 0-15 holidays and any week mask; 12 named calendars incl. upper case and "
                "settlement parts; FX markets of 2-5 currencies, f64/Dual/Dual2 quotes, with/without settlement, AD order 0/1/2; curves "
                "with 1-6 nodes of each AD order, all 6 interpolators, 11 conventions, 5 modifiers, each calendar kind, optional index "
                "base; splines of order 1-4 of the three types with and without coefficients). Doubles: (full) uniform over the bit "
                "patterns of finite doubles + full-precision doubles of ordinary magnitude; (survivors) the same, filtered by the bare "
                "text round trip. NEGATIVE CONTROLS: every object of the survivor population against up to two copies changed in one place (one "
                "float by one ulp / one name / holiday / week-mask day / node / quote / knot / coefficient / enum field; for UnionCal and NamedCal "
                "a change their semantic equality sees) must be unequal both ways under the type's own ==. Non-trivial = an object whose text is longer than 60 bytes / answers more than 4 query values.")
    ctx.trusted = [
        "Coq 8.16.1 kernel; no axioms (all C16 theorems closed under the global context)",
        "serde_json + ryu text codec and bincode: an interface in the proof (section variables print/parse, hypothesis "
        "`json_finite j -> parse (print j) = Ok j`), checked here on the real code double by double and object by object",
        "chrono's datetime strings and serde_json's integer map keys are leaves of the tree model (JDate, KInt)",
        "Python's json module as the independent parser of the text the real code writes",
        "hand-written data-model mapping Model/Json.v tied to the code by this run's tree comparison",
    ]
    ctx.assumptions = ["finite floating-point contents (NaN and infinities are written as null by serde_json)",
                       "HashSet iteration order is arbitrary: week masks are compared as sets",
                       "an FX market saved at AD order two is compared through its rates (to 1e-12 relative), as the property states"]
    if translate_stage(ctx) is None:
        return ctx.finish(CMD)
    if not proof_stage(ctx, ["theories/Run/RunJson.vo", "theories/Run/RunCurve.vo"]):
        ctx.violation("a C16 proof obligation or the model no longer compiles",
                      {"no_failing_input": True, "theorem": "Props/C16.v / Run/RunJson.v", "log_tail": getattr(ctx, "build_log", "")[-3000:]})
        return ctx.finish(CMD)
    if not harness_stage(ctx):
        return ctx.finish(CMD)
    rng = ctx.rng
    surv = bare_doubles(ctx, 2000000 if th else 200000)
    pool = surv[:200000]

    def fl_surv(r):
        return b2f(r.choice(pool)) if pool and r.random() < 0.85 else r.choice(J.SAFE)

    def fl_moderate(r):
        # survivors of ordinary magnitude (FX quotes, node values)
        for _ in range(50):
            x = b2f(r.choice(pool)) if pool else 1.5
            if 1e-6 < abs(x) < 1e6:
                return x
        return r.choice(J.SAFE)
    n = 15000 if th else 1000
    # (a) tree shape, tagged and direct
    objs_a = gen_objects(ctx, n, J.full_float, "enc (full doubles)")
    check_enc(ctx, objs_a)
    check_enc(ctx, objs_a[: n // 3], direct=True)
    # (b)+(c) on survivors: must be exact
    objs_s = []
    for i in range(n * 2):
        k = i % 10
        objs_s.append(J.gen_obj(rng, k, fl_moderate if k in (5, 6) else fl_surv))
        ctx.count("rt (surviving doubles): %s" % J.KINDS[k])
    check_rt(ctx, objs_s, "survivors")
    # (b) on the full space
    objs_f = gen_objects(ctx, n, J.full_float, "rt (full doubles)")
    check_rt(ctx, objs_f, "full")
    # (e) negative controls of the equality (b) and (d) are judged by
    check_neq(ctx, objs_s)
    # (d) the pickle protocol through the interpreter, on both populations (the state is binary: every double is exact)
    check_pk(ctx, objs_s + objs_f)
    curve_generic_stage(ctx)
    for o in objs_a[:3]:
        ctx.sample({"object_encoding": o[:60]})
    return ctx.finish(CMD)


def curve_generic_stage(ctx):
    """THE GENERIC entry point CurveDF::<T, U>::from_json (the Python-facing Curve wrapper and the tagged loader are the other
    two): a curve built with CurveDF::try_new - any rule, any AD order, WITH an index base - saved with to_json, loaded with
    the generic from_json, then queried: values, index values (which need the base), node index, stored nodes, against the
    proved curve model of the constructed curve (`rlharness curve` path 2; Run/RunCurve.v treats the reloaded curve as the
    curve)."""
    import curverun as cr
    rng = random.Random(ctx.seed * 32452843 + 23)
    th = ctx.tier == "thorough"
    cases, weights = [], []
    for _ in range(400 if th else 40 * ctx.scale):
        n = rng.choice([2, 3, 4, 6, 9])
        _, ks = cr.gen_keys(rng, n)
        _, ys = cr.gen_values(rng, n)
        rule = rng.choice([0, 1, 2, 3, 4])
        ad = rng.choice([0, 0, 1, 2])
        base = rng.choice([None, 100.0, rng.uniform(50, 300), 1.0])
        order = list(range(n))
        rng.shuffle(order)
        nodes = []
        for i in order:
            v = cr.enc_f(ys[i]) if ad == 0 else cr.enc_dual(["n%d" % i], ys[i], [1.0]) if ad == 1 else cr.enc_dual2(["n%d" % i], ys[i], [1.0], [[0.0]])
            nodes.append((ks[i] * cr.NS, v))
        acts = []
        for x in rng.sample(cr.query_dates(rng, ks), 5):
            acts += [cr.act_index(x), cr.act_value(x), cr.act_index_value(x)]
        acts.append(cr.act_nodes())
        cases.append(cr.mk_case(2, rule, ad, rng.choice(["v", "crv", "x1"]), base, nodes, acts))
        weights.append(len(acts))
        ctx.count("generic CurveDF::from_json: index base %s" % ("none" if base is None else "given"))
    impl, model = cr.run_both(ctx, cases, shard=max(4, len(cases) // (NCPU * 2) + 1), tag="c16cv")
    cr.compare_all(ctx, cases, impl, model, weights)


def replay(ctx, rp):
    build_harness()
    build_coq(["theories/Run/RunJson.vo"])
    part = rp.get("part")
    bad = True
    if part is None and "case" in rp and "tree" not in rp and "object" not in rp:
        import curverun as cr
        build_coq(["theories/Run/RunCurve.vo"])
        return cr.replay_case(ctx, rp)
    if part == "bare":
        x = rp["double_bits"]
        y = run_harness("json", ["f64rt %d" % x])[0][0]
        bad = y != x
        print("replay: %r -> to_json -> from_json -> %s : %s" % (b2f(x), repr(b2f(y)) if y >= 0 else "error", "differs" if bad else "equal"))
    elif part == "rt":
        a = run_harness("json", ["rt " + " ".join(map(str, rp["object"]))])[0]
        bad = not (a[0] == 0 and all(f == 1 for f in a[1:7]))
        print("replay round trip of a %s: %s" % (rp.get("type"), "; ".join("%s=%s" % (n, f) for n, f in zip(FLAGS, a[1:8]))))
    elif part == "neq":
        a = run_harness("json", ["neq " + " ".join(map(str, rp["object"])) + " " + " ".join(map(str, rp["perturbed"]))])[0]
        bad = not (a[0] == 0 and a[1:4] == [0, 0, 1])
        print("replay equality of a %s against a copy with %s: outcome %s, original == copy %s, copy == original %s, original == original %s" % (
            rp.get("type"), rp.get("change"), a[:1], a[1:2], a[2:3], a[3:4]))
    elif part == "pk":
        o = rp["object"]
        if rp.get("object_size", 0) >= 20000:
            o = [b for b in big_objects() if len(b) == rp["object_size"]][0]
        a = run_harness("json", ["pk " + " ".join(map(str, o))])[0]
        bad = not (a[0] == 0 and a[1:4] == [1, 1, 1])
        print("replay pickle protocol of a %s: outcome %s flags %s" % (rp.get("type"), a[:1], a[1:4]))
    elif part == "enc":
        o = rp["object"]
        op, mop = ("encd", 4) if rp.get("direct") else ("enc", 3)
        a = run_harness("json", ["%s %s" % (op, " ".join(map(str, o)))])[0]
        b = coq_eval("Run.RunJson", "runJson", [[mop] + list(o)], ctx.work)[0]
        if a[0] == b[0] == 0:
            ta, tb = J.canon(J.parse_text(J.text_of_out(a, 1)[0])), J.canon(J.dec_tree(b, 1)[0])
            bad = ta != tb
            print("replay to_json: implementation %s ; model %s" % (J.show(ta, 300), J.show(tb, 300)))
        else:
            bad = a[0] != b[0]
            print("replay to_json: classes %s %s" % (a[:1], b[:1]))
    else:
        print("replay: nothing to re-run (%s)" % rp.get("what", ""))
    ctx.cleanup()
    return 1 if bad else 0
