"""C15 — a solved spline reproduces data, end conditions and polynomials, with exact AD.
Proof: Props/C15.v (model Model/PPSpline.v + Model/Linalg.v at T := R).
Correspondence: the same model at T := float (Run/RunSpline.v, op 10) against PPSpline<f64|Dual|Dual2>
::new / csolve / ppdnev_single / ppdnev_single_dual / ppdnev_single_dual2 / mapped_value through the
harness (`rlharness spline`, op `pp`): coefficients, values, gradients by name, Ok/Err/Panic class; ops `evd` / `vec` /
`ppeq` (Run/RunSpline.v ops 3 / 4 / 5): bsplev_single_dual / bsplev_single_dual2, PPSpline::bspldnev, PartialEq for PPSpline."""
import math
import random
from common import *  # noqa
import dualgen as dg

RUN_TARGET = "theories/Run/RunSpline.vo"
KIND = {"f64": 0, "dual": 1, "dual2": 2}


# ------------------------------------------------------------------------------------------------
# encoding

def enc_name(s):
    return [len(s)] + [ord(ch) for ch in s]


def enc_dual(d):
    """d = (re, [names], [du])"""
    re_, names, du = d
    out = [len(names)]
    for nm in names:
        out += enc_name(nm)
    out.append(f2b(re_))
    out += [f2b(v) for v in du]
    return out


def enc_dual2(d):
    re_, names, du, dd = d
    out = enc_dual((re_, names, du))
    for row in dd:
        out += [f2b(v) for v in row]
    return out


def enc_elem(kind, e):
    if kind == "f64":
        return [f2b(e)]
    if kind == "dual":
        return enc_dual(e)
    return enc_dual2(e)


def enc_number(x):
    tag, v = x
    if tag == "f64":
        return [0, f2b(v)]
    if tag == "dual":
        return [1] + enc_dual(v)
    return [2] + enc_dual2(v)


def enc_case(c):
    out = [10, KIND[c["kind"]], c["k"], len(c["t"])] + [f2b(v) for v in c["t"]]
    if c.get("c") is not None:
        out += [1, len(c["c"])]
        for e in c["c"]:
            out += enc_elem(c["kind"], e)
    else:
        out.append(0)
    if c.get("solve"):
        s = c["solve"]
        out += [1, len(s["tau"])] + [f2b(v) for v in s["tau"]]
        out.append(len(s["y"]))
        for e in s["y"]:
            out += enc_elem(c["kind"], e)
        out += [s["left_n"], s["right_n"], 1 if s["lsq"] else 0]
    else:
        out.append(0)
    out.append(len(c["queries"]))
    for q in c["queries"]:
        if q[0] == "f":
            out += [0, f2b(q[1]), q[2]]
        elif q[0] == "d":
            out += [1] + enc_dual(q[1]) + [q[2]]
        elif q[0] == "d2":
            out += [2] + enc_dual2(q[1]) + [q[2]]
        else:
            out += [3] + enc_number(q[1])
    return out


def hline(z):
    return "pp " + " ".join(str(x) for x in z[1:])


# ------------------------------------------------------------------------------------------------
# decoding of an output stream into comparable items

class Stream:
    def __init__(self, a):
        self.a = a
        self.i = 0

    def next(self):
        if self.i >= len(self.a):
            raise CheckError("spline output too short: %s" % self.a[:40])
        v = self.a[self.i]
        self.i += 1
        return v

    def name(self):
        n = self.next()
        return "".join(chr(self.next()) for _ in range(n))

    def dual(self):
        nv = self.next()
        names = [self.name() for _ in range(nv)]
        re_ = ("f", self.next())
        nd = self.next()
        du = [("f", self.next()) for _ in range(nd)]
        # compared BY NAME: no property pins the order in which a result stores its variables
        if len(set(names)) == nv == nd and not getattr(self, "_raw", False):
            o = sorted(range(nv), key=lambda i: names[i])
            names, du = [names[i] for i in o], [du[i] for i in o]
        return ["dual", names, re_, du]

    def dual2(self):
        self._raw = True
        d = self.dual()
        self._raw = False
        nr = self.next()
        nc = self.next()
        dd = [("f", self.next()) for _ in range(nr * nc)]
        names, du = d[1], d[3]
        nv = len(names)
        if len(set(names)) == nv == len(du) and nr == nv and nc == nv:
            o = sorted(range(nv), key=lambda i: names[i])
            names, du = [names[i] for i in o], [du[i] for i in o]
            dd = [dd[p * nv + q] for p in o for q in o]
        return ["dual2", names, d[2], du, (nr, nc), dd]

    def elem(self, kind):
        if kind == "f64":
            return ("f", self.next())
        return self.dual() if kind == "dual" else self.dual2()

    def number(self):
        tag = self.next()
        return [tag, self.elem(["f64", "dual", "dual2"][tag])]

    def outcome(self, rd):
        c = self.next()
        if c == 0:
            return ["ok", rd()]
        if c == 1:
            return ["err"]
        if c == 2:
            return ["panic"]
        raise CheckError("bad outcome tag %s" % c)


def decode(c, a):
    s = Stream(a)
    items = []
    first = s.next()
    if first == 2:
        return [["new", "panic"]]
    items.append(["new", "ok"])
    kind = c["kind"]
    if c.get("solve"):
        def coeffs():
            n = s.next()
            if n < 0:
                return ["unset"]
            return [s.elem(kind) for _ in range(n)]
        items.append(["csolve", s.outcome(coeffs)])
    for q in c["queries"]:
        if q[0] == "f":
            items.append(["q", s.outcome(lambda: s.elem(kind))])
        elif q[0] == "d":
            items.append(["q", s.outcome(s.dual)])
        elif q[0] == "d2":
            items.append(["q", s.outcome(s.dual2)])
        else:
            items.append(["q", s.outcome(s.number)])
    if s.i != len(a):
        raise CheckError("spline output too long")
    return items


def _floats(x):
    """all ('f', bits) leaves of a nested structure"""
    if isinstance(x, tuple) and len(x) == 2 and x[0] == "f":
        return [x]
    if isinstance(x, (list, tuple)):
        return [f for p in x for f in _floats(p)]
    return []


_TOL = {"rt": 1e-9, "big": {}, "q": None}     # set per case by compare_case (forward-error bound of the solved system)


def same(x, y, stats, order=0):
    """structural comparison; floats by bits, else 1e-9 relative (or, for a solved spline, within the forward-error
    bound of its collocation system relative to the largest coefficient); both-NaN equal"""
    if isinstance(x, tuple) and len(x) == 2 and x[0] == "f":
        if not (isinstance(y, tuple) and len(y) == 2 and y[0] == "f"):
            return False
        if x[1] == y[1]:
            stats["bit_equal"] += 1
            return True
        fa, fb = b2f(x[1]), b2f(y[1])
        if math.isnan(fa) and math.isnan(fb):
            stats["nan_both"] += 1
            return True
        if fa == 0.0 and fb == 0.0:
            stats["zero_sign"] += 1
            return True
        stats["bit_differs"] += 1
        if fclose(fa, fb):
            return True
        if _TOL.get("skip"):
            stats["numerically_singular_not_compared"] = stats.get("numerically_singular_not_compared", 0) + 1
            return True
        big = _TOL["big"].get(order, 0.0) if isinstance(_TOL["big"], dict) else _TOL["big"]
        q = _TOL.get("q")
        if q is not None:
            # a QUERY result of sensitivity order `order` at derivative order m is a sum of coefficient components times basis
            # derivatives of orders m .. m + order, each bounded by (2k / h_min)^j: its rounding noise is epsilon times THAT sum,
            # whatever its own size (a spline on knots 1e-6 apart carries terms of size 1e12 |c| in its second derivative)
            m, dx, D = q
            bigs = _TOL["big"] if isinstance(_TOL["big"], dict) else {0: _TOL["big"]}
            big = max(big, sum(bigs.get(order - j, 0.0) * (D ** (m + j)) * (max(1.0, dx) ** j) for j in range(order + 1)))
        rel = (_TOL["rt"] if _TOL["rt"] > 1e-9 else 0.0) + 4e-13
        if math.isfinite(fa) and math.isfinite(fb) and abs(fa - fb) <= rel * max(abs(fa), abs(fb), big):
            stats["within_cond_bound"] = stats.get("within_cond_bound", 0) + 1
            return True
        return False
    if isinstance(x, (list, tuple)):
        if not isinstance(y, (list, tuple)) or len(x) != len(y):
            return False
        if len(x) >= 4 and x[0] in ("dual", "dual2") and y[0] == x[0]:
            # value against the largest coefficient VALUE, sensitivities against the largest coefficient sensitivity of the
            # same order (a spline whose coefficients carry sensitivities of size 1e14 returns sensitivities with rounding
            # noise of size 1e14 * epsilon, whatever their own size)
            return (same(x[1], y[1], stats) and same(x[2], y[2], stats, 0) and same(x[3], y[3], stats, 1)
                    and all(same(p, q, stats, 2) for p, q in zip(x[4:], y[4:])))
        return all(same(p, q, stats, order) for p, q in zip(x, y))
    return x == y


def show(x):
    if isinstance(x, tuple) and len(x) == 2 and x[0] == "f":
        return repr(b2f(x[1]))
    if isinstance(x, (list, tuple)):
        return "[" + ", ".join(show(p) for p in x) + "]"
    return repr(x)


# ------------------------------------------------------------------------------------------------
# reference B-spline arithmetic used only to build well-posed cases

def bspl(x, i, k, t, last):
    if k == 1:
        if t[i] <= x < t[i + 1]:
            return 1.0
        if x == last and t[i] < t[i + 1] == last:
            return 1.0
        return 0.0
    r = 0.0
    if t[i + k - 1] != t[i]:
        r += (x - t[i]) / (t[i + k - 1] - t[i]) * bspl(x, i, k - 1, t, last)
    if t[i + k] != t[i + 1]:
        r += (t[i + k] - x) / (t[i + k] - t[i + 1]) * bspl(x, i + 1, k - 1, t, last)
    return r


def dbspl(x, i, k, t, m, last):
    if m == 0:
        return bspl(x, i, k, t, last)
    if k == 1 or m >= k:
        return 0.0
    r = 0.0
    if t[i + k - 1] != t[i]:
        r += dbspl(x, i, k - 1, t, m - 1, last) / (t[i + k - 1] - t[i])
    if t[i + k] != t[i + 1]:
        r -= dbspl(x, i + 1, k - 1, t, m - 1, last) / (t[i + k] - t[i + 1])
    return r * (k - 1)


def min_pivot(rows):
    a = [list(r) for r in rows]
    n = len(a)
    if any(len(r) != n for r in a):
        return 0.0
    mp = float("inf")
    for j in range(n):
        p = max(range(j, n), key=lambda r: abs(a[r][j]))
        if abs(a[p][j]) == 0.0:
            return 0.0
        a[j], a[p] = a[p], a[j]
        mp = min(mp, abs(a[j][j]))
        for l in range(j + 1, n):
            f = a[l][j] / a[j][j]
            for m in range(j, n):
                a[l][m] -= f * a[j][m]
    return mp


def colloc(k, t, tau, ln, rn):
    n = len(t) - k
    last = t[-1]
    rows = []
    for j, x in enumerate(tau):
        m = ln if j == 0 else rn if j == len(tau) - 1 else 0
        rows.append([dbspl(x, i, k, t, m, last) for i in range(n)])
    return rows


# ------------------------------------------------------------------------------------------------
# generators

def gen_breaks(rng, count):
    style = rng.random()
    if style < 0.4:
        s = rng.randint(-2, 3)
        return [float(s + i) for i in range(count)]
    if style < 0.7:
        v = [float(rng.randint(-2, 3))]
        for _ in range(count - 1):
            v.append(v[-1] + rng.choice([0.5, 1.0, 1.5, 2.0, 4.0]))
        return v
    v = [rng.uniform(-5, 5)]
    for _ in range(count - 1):
        v.append(v[-1] + rng.uniform(0.2, 3.0))
    return v


def gen_scale(rng):
    """affine map x -> off + h * x applied to knots, sites and abscissae: (class, off, h).
    The Python layer feeds curve splines with POSIX timestamps (seconds), i.e. offsets ~1e9 and
    spacings 1e6..1e9; end-derivative rows of the collocation matrix then scale like 1/h^m."""
    r = rng.random()
    if r < 0.75:
        return "unit", 0.0, 1.0
    if r < 0.87:
        off = float(rng.randint(1000000000, 1900000000))
        h = rng.choice([86400.0 * 30, 86400.0 * 365, 86400.0 * 365 * 5, float(int(10 ** rng.uniform(6, 9)))])
        return "timestamp", off, h
    if r < 0.93:
        return "tiny", rng.choice([0.0, rng.uniform(-1, 1)]), 10 ** rng.uniform(-6, -3)
    return "huge", rng.choice([0.0, 1e12, -3e11]), 10 ** rng.uniform(9, 12)


def gen_layout(rng, k, prefer_natural=False):
    """returns (t, tau, left_n, right_n, label) with a non-singular collocation matrix when possible
    (unit scale; the caller maps knots and sites affinely afterwards)"""
    for _ in range(40):
        r = rng.random()
        if r < (0.65 if prefer_natural else 0.3) and k >= 3:
            # natural-spline style: repeated end sites with derivative conditions of order 2 (or k-2..)
            nsite = rng.randint(max(3, k - 1), 8)
            xs = gen_breaks(rng, nsite)
            nint = nsite + 2 - k                      # interior knots so that n = nsite + 2
            if nint < 0 or nint > nsite - 2 and k >= 4:
                continue
            if nint <= nsite - 2:
                interior = sorted(rng.sample(xs[1:-1], nint))
            else:
                interior = sorted(xs[1:-1] + [rng.uniform(xs[0], xs[-1]) for _ in range(nint - (nsite - 2))])
            t = [xs[0]] * k + interior + [xs[-1]] * k
            tau = [xs[0]] + xs + [xs[-1]]
            d = 2 if k >= 3 else 1
            ln = rn = rng.choice([d, d, d, 1, min(k - 1, 3)])
            if prefer_natural and rng.random() < 0.3:
                ln, rn = rng.randint(1, k - 1), rng.randint(1, k - 1)
            label = "natural"
        else:
            nint = rng.choice([0, 1, 2, 2, 3, 4, 5])
            mults = [rng.choice([1, 1, 1, rng.randint(1, k - 1)]) for _ in range(nint)]
            br = gen_breaks(rng, nint + 2)
            t = [br[0]] * k
            for v, m in zip(br[1:-1], mults):
                t += [v] * m
            t += [br[-1]] * k
            n = len(t) - k
            # Greville sites, end sites on the end knots, jittered inside the Schoenberg-Whitney window
            tau = []
            for i in range(n):
                g = sum(t[i + 1:i + k]) / (k - 1)
                lo, hi = t[i], t[i + k]
                if 0 < i < n - 1 and rng.random() < 0.5:
                    w = min(g - lo, hi - g) * 0.4
                    g += rng.uniform(-w, w)
                tau.append(g)
            tau[0], tau[-1] = t[0], t[-1]
            if any(b <= a for a, b in zip(tau, tau[1:])):
                continue
            ln = rn = 0
            if rng.random() < (0.5 if prefer_natural else 0.2):
                ln = rng.randint(0, k - 1)
                rn = rng.randint(0, k - 1)
            label = "interp" if ln == rn == 0 else "endderiv"
        rows = colloc(k, t, tau, ln, rn)
        if len(rows) == len(t) - k and min_pivot(rows) > 1e-7:
            return t, tau, ln, rn, label
    return t, tau, ln, rn, label + "-illposed"


def mk_dual(rng, re_, names, scale=1.0):
    return (re_, list(names), [rng.choice([1.0, 0.0, -2.0, rng.uniform(-3, 3)]) * scale for _ in names])


def mk_dual2(rng, re_, names):
    n = len(names)
    m = [[0.0] * n for _ in range(n)]
    if rng.random() < 0.6:
        for i in range(n):
            for j in range(i, n):
                v = rng.choice([0.0, 1.0, rng.uniform(-2, 2)])
                m[i][j] = v
                m[j][i] = v
    return (re_, list(names), [rng.choice([1.0, 0.0, rng.uniform(-3, 3)]) for _ in names], m)


def gen_y(rng, kind, vals):
    style = rng.choice(["own", "own", "shared", "mixed", "novars"])
    out = []
    for j, v in enumerate(vals):
        if kind == "f64":
            out.append(v)
            continue
        if style == "own":
            names = ["y%d" % j]
        elif style == "shared":
            names = ["a", "b"]
        elif style == "mixed":
            names = rng.sample(["a", "b", "y%d" % j, "z"], rng.randint(0, 3))
        else:
            names = []
        if kind == "dual":
            if style == "own":
                out.append((v, names, [1.0]))
            else:
                out.append(mk_dual(rng, v, names))
        else:
            if style == "own":
                out.append((v, names, [1.0], [[0.0]]))
            else:
                out.append(mk_dual2(rng, v, names))
    return out, style


def gen_queries(rng, k, t, tau, nq):
    qs = []
    lo, hi = t[0], t[-1]
    pts = sorted(set(t)) + list(tau)
    for _ in range(nq):
        r = rng.random()
        if r < 0.35:
            x = rng.choice(pts)
        elif r < 0.45:
            x = rng.choice([lo, hi])
        elif r < 0.57:
            # close to a knot / site but not on it: 1e-7 .. 1e-2 of the domain width away
            x = rng.choice(pts) + rng.choice([1.0, -1.0]) * (hi - lo) * 10 ** rng.uniform(-7, -2)
            x = min(max(x, lo), hi)
        elif r < 0.93:
            x = rng.uniform(lo, hi)
        else:
            x = rng.choice([lo - 1.0 * (hi - lo), hi + 0.5 * (hi - lo)])
        m = rng.choice([0, 0, 0, 1, 1, 2, rng.randint(0, k)])
        a = rng.random()
        if a < 0.35:
            qs.append(("f", x, m))
        elif a < 0.55:
            names = rng.choice([["x"], ["x", "w"], [], ["y1", "x"]])
            qs.append(("d", mk_dual(rng, x, names), m))
        elif a < 0.75:
            names = rng.choice([["x"], ["x", "w"], [], ["y1", "x"]])
            qs.append(("d2", mk_dual2(rng, x, names), m))
        else:
            kind = rng.choice(["f64", "dual", "dual2"])
            if kind == "f64":
                qs.append(("n", ("f64", x)))
            elif kind == "dual":
                qs.append(("n", ("dual", mk_dual(rng, x, rng.choice([["x"], ["x", "w"], []])))))
            else:
                qs.append(("n", ("dual2", mk_dual2(rng, x, rng.choice([["x"], ["x", "w"], []])))))
    return qs


def poly_eval(coef, x, m):
    """m-th derivative of sum coef[d] x^d"""
    r = 0.0
    for d in range(m, len(coef)):
        f = 1.0
        for q in range(m):
            f *= (d - q)
        r += coef[d] * f * x ** (d - m)
    return r


def gen_cases(ctx):
    rng = ctx.rng
    thorough = ctx.tier == "thorough"
    cases = []
    nsess = 2500 if thorough else 600
    for q in range(nsess):
        k = 2 + q % 5 if q < 10 else rng.randint(2, 6)
        kind = ["f64", "dual", "dual2"][q % 3] if q < 30 else rng.choice(["f64", "f64", "dual", "dual2"])
        scl, off, h = gen_scale(rng)
        t, tau, ln, rn, label = gen_layout(rng, k, prefer_natural=(scl != "unit"))
        if scl != "unit":
            t = [off + h * v for v in t]
            tau = [off + h * v for v in tau]
        n = len(t) - k
        c = {"kind": kind, "k": k, "t": t, "label": label, "scale": (scl, off, h)}
        ctx.count("scale:" + scl)
        if scl != "unit":
            ctx.count("scale-endcond:%s:%d,%d" % (scl, ln, rn))
        r = rng.random()
        if r < 0.3:
            # polynomial data of degree < k (in the normalised variable u = (x - off) / h): the spline
            # must reproduce it; an m-th derivative row carries p^(m)(u) / h^m
            pc = [rng.choice([0.0, 1.0, -1.0, 0.5, rng.uniform(-2, 2)]) for _ in range(k)]
            vals = []
            for j, x in enumerate(tau):
                m_ = ln if j == 0 else rn if j == len(tau) - 1 else 0
                vals.append(poly_eval(pc, (x - off) / h, m_) / h ** m_)
            c["poly"] = pc
            data = "poly"
        else:
            vals = [rng.choice([0.0, 1.0, rng.uniform(-3, 3), rng.uniform(0.9, 1.0)]) for _ in tau]
            if label.startswith("natural") and rng.random() < 0.7:
                vals[0] = 0.0
                vals[-1] = 0.0
            data = "random"
        y, ystyle = gen_y(rng, kind, vals)
        lsq = False
        mal = rng.random()
        variant = "solve"
        if mal < 0.05:
            tau = tau[:-1]
            variant = "tau-short-y-long"
        elif mal < 0.09:
            y = y[:-1]
            variant = "y-short"
        elif mal < 0.13:
            tau = tau[:-1]
            y = y[:-1]
            lsq = rng.random() < 0.5
            variant = "both-short" + ("-lsq" if lsq else "")
        elif mal < 0.2 and len(tau) >= 2 and ln == rn == 0:
            # more sites than functions: least squares (or an error without allow_lsq)
            extra = sorted(rng.uniform(t[0], t[-1]) for _ in range(rng.randint(1, 3)))
            tau2 = sorted(set(tau + extra))
            vals2 = [rng.uniform(-1, 1) for _ in tau2]
            y, ystyle = gen_y(rng, kind, vals2)
            tau = tau2
            lsq = rng.random() < 0.75
            variant = "overdetermined" + ("-lsq" if lsq else "")
        elif mal < 0.23:
            lsq = True
            variant = "square-lsq"
        if mal >= 0.93:
            # no csolve: pre-set coefficients (right or wrong length) or none at all
            if mal < 0.975:
                nc = n if rng.random() < 0.7 else max(0, n + rng.choice([-1, 1]))
                cv, _ = gen_y(rng, kind, [rng.uniform(-2, 2) for _ in range(nc)])
                c["c"] = cv
                variant = "preset-c" if nc == n else "preset-c-badlen"
            else:
                variant = "no-c"
        else:
            c["solve"] = {"tau": tau, "y": y, "left_n": ln, "right_n": rn, "lsq": lsq}
        if rng.random() < 0.02:
            c["t"] = list(reversed(t)) if rng.random() < 0.5 else t[:1]
            variant = "bad-knots"
        c["queries"] = gen_queries(rng, k, t, tau if tau else t, 40 if thorough else 24)
        c["variant"] = variant
        ctx.count("kind:" + kind)
        ctx.count("order:%d" % k)
        ctx.count("layout:" + label)
        ctx.count("variant:" + variant)
        ctx.count("data:" + data)
        if kind != "f64":
            ctx.count("yvars:" + ystyle)
        cases.append(c)
    return cases


def big_natural_cases(ctx):
    """LARGE splines (66 .. 80 coefficients): the natural cubic layout on 64+ distinct knots - repeated end sites carrying
    second-derivative conditions, so that an interior-row site EQUALS the last knot - and a quadratic with plain end sites"""
    rng = random.Random(ctx.seed * 86028121 + 31)
    out = []
    for k, nk in ([(4, 70)] if ctx.tier != "thorough" else [(4, 70), (4, 64), (3, 78), (5, 66)]):
        xs = [float(i) for i in range(nk)]
        t = [xs[0]] * (k - 1) + xs + [xs[-1]] * (k - 1)
        n = len(t) - k
        if k == 4:
            tau = [xs[0]] + xs + [xs[-1]]
            ln = rn = 2
        else:
            # n sites: the knots plus midpoints near the ends
            extra = n - nk
            tau = sorted(xs + [xs[0] + 0.5 + j for j in range(extra)])
            ln = rn = 0
        pc = [1.0, -0.5, 0.25, 0.01][:k]
        vals = []
        for j, x in enumerate(tau):
            m_ = ln if j == 0 else rn if j == len(tau) - 1 else 0
            vals.append(poly_eval(pc, x / 10.0, m_) / 10.0 ** m_)
        kind = rng.choice(["f64", "dual"])
        y = vals if kind == "f64" else [(v, ["y%d" % (j % 3)], [1.0]) for j, v in enumerate(vals)]
        qs = [("f", x, m) for x in (xs[0], 0.37, 33.5, xs[-1] - 0.25, xs[-1]) for m in (0, 1)]
        qs += [("d", (12.25, ["x"], [1.0]), 0), ("d2", (xs[-1], ["x"], [1.0], [[0.0]]), 0)]
        out.append({"kind": kind, "k": k, "t": t, "label": "large natural layout" if k == 4 else "large", "scale": ("unit", 0.0, 1.0),
                    "variant": "solve", "queries": qs,
                    "solve": {"tau": tau, "y": y, "left_n": ln, "right_n": rn, "lsq": False}})
    return out


def compare_case(ctx, ci, c, a, b, stats):
    try:
        da = decode(c, a)
        db = decode(c, b)
    except CheckError as e:
        ctx.violation("spline.rs and the proved model return differently shaped results (%s)" % str(e)[:200],
                      {"case": enc_case(c), "implementation": a[:80], "model": b[:80]})
        return
    # The model follows the code's arithmetic step by step; a mathematically neutral rewrite of the solver (another pivot
    # among tied candidates, a reciprocal computed once) moves the coefficients of an ill-conditioned collocation system
    # (timestamp-scaled knots, high order, least squares) by cond * epsilon.  Tolerance for a SOLVED spline: 1e-9 +
    # 1e-13 * cond of the system actually solved, relative to the largest coefficient; unsolved splines stay at 1e-9.
    _TOL["rt"], _TOL["big"], _TOL["skip"] = 1e-9, {}, False
    if c.get("solve"):
        try:
            sv = c["solve"]
            B = colloc(c["k"], c["t"], sv["tau"], sv["left_n"], sv["right_n"])
            n = len(c["t"]) - c["k"]
            if sv.get("lsq") or len(B) != n:      # allow_lsq solves the normal equations even for a square system
                B = [[sum(B[r][i] * B[r][j] for r in range(len(B))) for j in range(n)] for i in range(n)]
            else:
                B = row_equilibrated(B)
            cnd = cond_inf(B)
            # beyond cond ~ 1e12 the system is singular to working precision (cond * epsilon > 1e-4): both sides return
            # rounding noise and the VALUES of this spline are not compared at all (outcome classes and shapes still are)
            if not (cnd == cnd) or cnd > 1e12:
                _TOL["skip"] = True
                ctx.count("solved splines singular to working precision (cond > 1e12): values not compared")
            _TOL["rt"] = min(0.1, 1e-9 + 1e-13 * cnd) if cnd == cnd else 0.1
            for it in da + db:
                if it[0] == "csolve" and it[1][0] == "ok" and isinstance(it[1][1], list):
                    for e in it[1][1]:
                        if isinstance(e, tuple) and e[0] == "f":
                            parts = [(0, e)]
                        elif isinstance(e, list) and len(e) > 3:
                            parts = [(0, e[2])] + [(1, f) for f in _floats(e[3])] + [(2, f) for f in _floats(e[4:])]
                        else:
                            parts = []
                        for o, v in parts:
                            if math.isfinite(b2f(v[1])):
                                _TOL["big"][o] = max(_TOL["big"].get(o, 0.0), abs(b2f(v[1])))
        except Exception:
            _TOL["rt"], _TOL["big"] = 1e-9, {}
    if not c.get("solve") and c.get("c"):
        # pre-set coefficients: their sizes, per sensitivity order
        for e in c["c"]:
            comps = [(0, e)] if isinstance(e, (int, float)) else [(0, e[0])] + [(1, v) for v in e[2]] + (
                [(2, v) for row in e[3] for v in row] if len(e) > 3 else [])
            for o, v in comps:
                if isinstance(v, (int, float)) and math.isfinite(v):
                    _TOL["big"][o] = max(_TOL["big"].get(o, 0.0), abs(v))
    gaps = [b_ - a_ for a_, b_ in zip(c["t"], c["t"][1:]) if b_ > a_ and math.isfinite(b_ - a_)]
    D = 2.0 * c["k"] / min(gaps) if gaps else 1.0
    for pos, (x, y) in enumerate(zip(da, db)):
        ctx.evaluations += 1
        if x[0] == "csolve" and x[1][0] == "ok":
            ctx.evaluations += len(x[1][1]) - 1
            ctx.nontriv((ci, pos))
        _TOL["q"] = None
        if x[0] == "q":
            stats["class:" + x[1][0]] = stats.get("class:" + x[1][0], 0) + 1
            ctx.nontriv((ci, pos))
            try:
                qq = c["queries"][pos - (2 if c.get("solve") else 1)]
                m_ = qq[2] if qq[0] in ("f", "d", "d2") else 0
                X = qq[1] if qq[0] in ("d", "d2") else (qq[1][1] if qq[0] == "n" and qq[1][0] != "f64" else None)
                dxs = [abs(v) for v in X[2]] + ([abs(v) for row in X[3] for v in row] if X is not None and len(X) > 3 else []) if X is not None else []
                _TOL["q"] = (m_, max(dxs + [0.0]), D)
            except Exception:
                _TOL["q"] = None
        if not same(x, y, stats):
            if x[0] == "q":
                qi = pos - (2 if c.get("solve") else 1)
                what = "query %r" % (c["queries"][qi],)
            else:
                what = x[0]
            ctx.violation(
                "spline.rs and the proved model disagree on %s of a PPSpline<%s> k=%d knots=%r %s: implementation %s, model %s" % (
                    what, c["kind"], c["k"], c["t"],
                    ("csolve(tau=%r, y=%r, left_n=%d, right_n=%d, allow_lsq=%r)" % (
                        c["solve"]["tau"], c["solve"]["y"], c["solve"]["left_n"], c["solve"]["right_n"], c["solve"]["lsq"]))
                    if c.get("solve") else "coefficients=%r" % (c.get("c"),),
                    show(x)[:600], show(y)[:600]),
                {"case": enc_case(c), "position": pos, "kind": c["kind"], "k": c["k"], "knots": c["t"],
                 "solve": c.get("solve"), "variant": c["variant"],
                 "implementation": show(x)[:2000], "model": show(y)[:2000],
                 "harness_cmd": "echo '%s' | harness/target/release/rlharness spline" % hline(enc_case(c))})
            return
    _TOL["q"] = None
    # polynomial reproduction on the implementation side (oracle independent of the model):
    # reported as a note, the verdict is the model/implementation comparison
    if c.get("poly") and c["variant"] == "solve" and "illposed" not in c["label"]:
        for (x, q) in zip(da[2:], c["queries"]):
            scl, off, h = c["scale"]
            if scl != "unit" and q[0] == "f" and q[2] != 0:
                continue
            if q[0] == "f" and x[1][0] == "ok" and c["kind"] == "f64" and c["t"][0] <= q[1] <= c["t"][-1]:
                want = poly_eval(c["poly"], (q[1] - off) / h, q[2]) / h ** q[2]
                got = b2f(x[1][1][1])
                stats["poly_checked"] += 1
                if not fclose(got, want, rtol=1e-6, atol=1e-6):
                    stats["poly_off"] += 1


# ------------------------------------------------------------------------------------------------
# one basis function at a dual-number abscissa, the vector form, and == of two splines
# (`rlharness spline` ops evd / vec / ppeq  <->  Run/RunSpline.v ops 3 / 4 / 5)

def ulp_toward_zero(x):
    b = f2b(x)
    if b & 0x7FFFFFFFFFFFFFFF == 0:
        return b2f(b | 1)
    return b2f(b - 1)


def next_up(x):
    """the next double above x (finite x)"""
    if x == 0.0:
        return 5e-324
    b = f2b(x)
    return b2f(b + 1) if x > 0 else b2f(b - 1)


def gen_knots(rng, k):
    if k == 1 or rng.random() < 0.2:
        br = gen_breaks(rng, rng.randint(2, 6))
        t = []
        for v in br:
            t += [v] * rng.choice([1, 1, 1, 2])
        if len(t) <= k:
            t += [t[-1]] * (k + 1 - len(t))
        return t
    return gen_layout(rng, k)[0]


def gen_basis_cases(ctx):
    rng = random.Random(ctx.seed * 7919 + 15)
    th = ctx.tier == "thorough"
    out = []
    names_pool = [[], ["x"], ["x", "w"], ["y1", "x"], ["b", "a", "c"]]
    for _ in range(6000 if th else 900 * ctx.scale):
        k = rng.choice([1, 2, 2, 3, 3, 4, 4, 5])
        t = gen_knots(rng, k)
        if rng.random() < 0.3:
            # knots in a LARGE unit (POSIX seconds: offset 1.5e9, spacing 1e7 .. 1e9) or a tiny one: the curvature of a basis
            # function is then 1e-16 .. 1e-18 (or 1e12) in absolute size and still the curvature
            off, h = rng.choice([(1.5e9, 1e7), (1.5e9, 3.15e7), (0.0, 1e8), (1.2e9, 1e9), (0.0, 1e-6)])
            t = [off + h * v for v in t]
        n = len(t) - k
        i = rng.randrange(max(1, n)) if rng.random() < 0.93 else rng.choice([n, n + 1, n + k])
        r = rng.random()
        pts = sorted(set(t))
        if r < 0.3:
            x = rng.choice(pts)
        elif r < 0.42:
            x = t[-1]
        elif r < 0.55:
            x = rng.choice(pts) + rng.choice([1.0, -1.0]) * (t[-1] - t[0]) * 10 ** rng.uniform(-7, -2)     # close to a knot, not on it
            x = min(max(x, t[0]), t[-1])
        elif r < 0.9:
            x = rng.uniform(t[0], t[-1])
        else:
            x = rng.choice([t[0] - 1.0 * max(1.0, t[-1] - t[0]), t[-1] + 0.5 * max(1.0, t[-1] - t[0])])
        ro = rng.random()
        org = None if ro < 0.8 else (k if ro < 0.9 else rng.choice([k + 1, max(1, k - 1)]))
        kind = rng.choice([1, 2])
        names = rng.choice(names_pool)
        X = mk_dual(rng, x, names) if kind == 1 else mk_dual2(rng, x, names)
        e = [3, kind, i, k, 1 if org is not None else 0, org or 0, len(t)] + [f2b(v) for v in t] + \
            (enc_dual(X) if kind == 1 else enc_dual2(X))
        where = "at a knot" if x in pts else "outside the knots" if (x < t[0] or x > t[-1]) else "between knots"
        if x == t[-1]:
            where = "at the right end point"
        out.append(("evd", e, "bsplev_single_%s(X = %r, i = %d, k = %d, t = %r, org_k = %r)" % (
            "dual" if kind == 1 else "dual2", X, i, k, t, org), ["dual" if kind == 1 else "dual2"],
            "%s abscissa %s, org_k %s%s" % ("Dual" if kind == 1 else "Dual2", where, "None" if org is None else "Some",
                                           ", i out of range" if i >= n else ""),
            {"k": k, "t": t, "X": X, "kind": kind}))
    for _ in range(1500 if th else 250 * ctx.scale):
        k = rng.choice([1, 2, 3, 3, 4, 4, 5])
        t = gen_knots(rng, k)
        n = len(t) - k
        i = rng.randrange(max(1, n)) if rng.random() < 0.95 else n + rng.randint(0, 2)
        m = rng.choice([0, 0, 1, 1, 2, rng.randint(0, k + 1)])
        pts = sorted(set(t))
        xs = []
        for _ in range(rng.choice([0, 1, 3, 5, 8])):
            r = rng.random()
            xs.append(rng.choice(pts) if r < 0.35 else rng.uniform(t[0], t[-1]) if r < 0.9 else rng.choice([t[0] - 1.0, t[-1] + 0.5]))
        lab = "order %d%s" % (k, ", derivative order >= k" if m >= k else "")
        if rng.random() < 0.04:
            t = list(reversed(t))
            lab = "decreasing knots (the constructor aborts)"
        e = [4, k, i, m, len(t)] + [f2b(v) for v in t] + [len(xs)] + [f2b(v) for v in xs]
        out.append(("vec", e, "PPSpline::new(%d, %r, None).bspldnev(%r, %d, %d)" % (k, t, xs, i, m), ["vec"], lab))
    # == of two splines: the second is the first, perturbed in one place (or not at all / re-listed by name)
    KS = ["f64", "dual", "dual2"]
    for _ in range(2400 if th else 420 * ctx.scale):
        kd = rng.randrange(3)
        k = rng.choice([1, 2, 3, 4])
        t = gen_knots(rng, k)
        n = len(t) - k

        def coef():
            v = rng.choice([1.5, -2.0, 0.25, rng.uniform(-3, 3)])
            nm = rng.choice([["x"], ["x", "w"], ["y1", "x"]])
            return v if kd == 0 else mk_dual(rng, v, nm) if kd == 1 else mk_dual2(rng, v, nm)
        c = [coef() for _ in range(n)] if rng.random() < 0.75 else None
        A = {"k": k, "t": list(t), "c": c}
        B = {"k": k, "t": list(t), "c": None if c is None else list(c)}
        choices = ["identical", "knot", "knot", "order", "more knots", "coefficients dropped / added"]
        if c:
            choices += ["coefficient", "coefficient", "coefficient count"]
            if kd > 0:
                choices += ["coefficient derivative", "coefficient re-listed by name"]
        what = rng.choice(choices)
        expect = 0
        if what == "identical":
            expect = 1
        elif what == "knot":
            j = rng.choice([0, len(t) - 1])
            B["t"][j] = next_up(t[j]) if j else -next_up(-t[j])          # keeps the knots non-decreasing
        elif what == "order":
            B["k"] = k + 1 if len(t) > k + 1 else max(1, k - 1)
            if B["k"] == k:
                expect = 1
        elif what == "more knots":
            B["t"] = B["t"] + [B["t"][-1]]
        elif what == "coefficients dropped / added":
            B["c"] = None if c is not None else [coef() for _ in range(n)]
        elif what == "coefficient":
            j = rng.randrange(len(c))
            if kd == 0:
                B["c"][j] = ulp_toward_zero(c[j])
            else:
                B["c"][j] = (ulp_toward_zero(c[j][0]),) + tuple(c[j][1:])
        elif what == "coefficient count":
            B["c"] = B["c"][:-1] if rng.random() < 0.5 else B["c"] + [coef()]
        elif what == "coefficient derivative":
            j = rng.randrange(len(c))
            du = list(c[j][2])
            q = rng.randrange(len(du))
            du[q] = ulp_toward_zero(du[q])
            B["c"][j] = (c[j][0], c[j][1], du) + tuple(c[j][3:])
        else:
            # the same numbers by NAME on another layout: reversed variable order plus a padded zero-sensitivity variable
            def relist(d):
                names = list(reversed(d[1])) + ["zpad"]
                idx = {v: q for q, v in enumerate(d[1])}
                du = [d[2][idx[v]] if v in idx else 0.0 for v in names]
                if kd == 1:
                    return (d[0], names, du)
                dd = [[d[3][idx[u]][idx[v]] if (u in idx and v in idx) else 0.0 for v in names] for u in names]
                return (d[0], names, du, dd)
            B["c"] = [relist(d) for d in c]
            expect = 1

        def enc_sp(S):
            o = [S["k"], len(S["t"])] + [f2b(v) for v in S["t"]]
            if S["c"] is None:
                return o + [0]
            o += [1, len(S["c"])]
            for el in S["c"]:
                o += enc_elem(KS[kd], el)
            return o
        e = [5, kd] + enc_sp(A) + enc_sp(B)
        out.append(("ppeq", e, "PPSpline<%s> k=%d t=%r c=%r  ==  the same with: %s (k=%d t=%r c=%r)" % (
            KS[kd], A["k"], A["t"], A["c"], what, B["k"], B["t"], B["c"]), ["int", "int"], what, expect))
    return out


BASIS_OPS = {3: "evd", 4: "vec", 5: "ppeq"}


def basis_hline(e):
    return BASIS_OPS[e[0]] + " " + " ".join(str(x) for x in e[1:])


def basis_stage(ctx, only=None):
    cases = gen_basis_cases(ctx)
    if only:
        cases = [c for c in cases if c[0] in only]
    enc = [c[1] for c in cases]
    impl = run_harness("spline", [basis_hline(e) for e in enc])
    model = coq_eval("Run.RunSpline", "runSpline", enc, ctx.work, shard=max(20, len(enc) // (NCPU * 3) + 1), tag="basis")
    for c, a, b in zip(cases, impl, model):
        tag, e, desc, sch, lab = c[:5]
        ctx.evaluations += 1
        ctx.count("%s: cases" % tag)
        ctx.count("%s: %s" % (tag, lab))
        ctx.nontriv(("basis", tuple(e)))
        ok, da, db = dg.agree(a, b, sch, rtol=1e-9)
        ctx.count("%s outcome: %s" % (tag, da[0]))
        why = "the implementation disagrees with the proved model"
        if tag == "ppeq" and da[0] == "ok":
            # NEGATIVE CONTROL on the real ==: a spline perturbed in one place must compare unequal (both ways); an identical or
            # by-name re-listed one equal
            ctx.count("ppeq: == answered %s" % ("true" if da[1][0] else "false"))
            if da[1] != [c[5], c[5]]:
                ok = False
                why = "== of two splines answers %s where %s is required" % (da[1], [c[5], c[5]])
        if ok and tag == "evd" and da[0] == "ok" and len(c) > 5 and isinstance(c[5], dict):
            # EVERY COMPONENT TO ITS OWN SIZE: slope and curvature of one basis function carried by the abscissa, compared relative
            # to themselves (1e-7) plus the rounding noise of their own recursion 4e-13 (2k / h)^o |dX|^o - on knots 1e8 apart
            # a curvature of 1e-17 is the curvature, not noise
            info = c[5]
            gaps = [q - p_ for p_, q in zip(info["t"], info["t"][1:]) if q > p_]
            D = 2.0 * max(info["k"], 1) / min(gaps) if gaps else 1.0
            dxs = [abs(v) for v in info["X"][2]] + ([abs(v) for row in info["X"][3] for v in row] if len(info["X"]) > 3 else [])
            dxm = max(dxs + [0.0])
            ia, ib = da[1][0], db[1][0]
            comps = [(1, p_[1], q[1]) for p_, q in zip(ia["du"], ib["du"])]
            if info["kind"] == 2:
                comps += [(2, p_[1], q[1]) for p_, q in zip(ia["dd"]["data"], ib["dd"]["data"])]
            for o, p_, q in comps:
                if p_ == q or (p_ != p_ and q != q):
                    continue
                if not (abs(p_ - q) <= 1e-7 * max(abs(p_), abs(q)) + 4e-13 * (D ** o) * max(dxm, dxm ** o) + 1e-300):
                    ok = False
                    why = "a sensitivity of order %d differs relative to its own size (%r vs %r)" % (o, p_, q)
                    break
        if not ok:
            ctx.violation("%s on %s: implementation %s, model %s" % (why, desc[:700], str(dg.plain(da))[:300], str(dg.plain(db))[:300]),
                          {"case": e, "basis_op": tag, "what_op": desc[:2000], "schema": sch, "implementation": dg.plain(da),
                           "model": dg.plain(db), "harness_cmd": "echo '%s' | harness/target/release/rlharness spline" % basis_hline(e)})
    for c in cases[::max(1, len(cases) // 3)][:3]:
        ctx.sample(c[2][:300])


def unit_spline_stage(ctx, n_quick=60, n_thorough=400):
    """THE BASIS READ THROUGH THE SPLINE'S OWN EVALUATION ENTRY POINTS: a spline whose coefficients are a unit vector e_i (or
    all ones) evaluated with ppdnev_single / ppdnev_single_dual / ppdnev_single_dual2 / mapped_value at EVERY distinct knot,
    both end points and a point between, for every derivative order 0..k - value = B_i^(m)(x+), slope carried by a Dual
    abscissa = B_i^(m+1), curvature = B_i^(m+2): the orders at which an interior knot of multiplicity r shows (m >= k - r)
    are all asked.  Coefficient kinds f64, Dual, Dual2.  Standard comparison with the model (compare_case)."""
    rng = random.Random(ctx.seed * 2750159 + 17)
    th = ctx.tier == "thorough"
    cases = []
    for q in range(n_thorough if th else n_quick):
        k = 1 + q % 5 if q < 10 else rng.randint(1, 5)
        t = gen_layout(rng, k)[0] if k >= 2 else gen_knots(rng, k)
        n = len(t) - k
        if n < 1:
            continue
        kind = rng.choice(["f64", "f64", "dual", "dual2"])
        i = rng.randrange(n)
        vals = [1.0] * n if rng.random() < 0.25 else [1.0 if j == i else 0.0 for j in range(n)]
        if kind == "f64":
            cv = vals
        elif kind == "dual":
            cv = [(v, ["c%d" % j], [1.0]) if rng.random() < 0.5 else (v, [], []) for j, v in enumerate(vals)]
        else:
            cv = [(v, ["c%d" % j], [1.0], [[0.0]]) if rng.random() < 0.5 else (v, [], [], []) for j, v in enumerate(vals)]
        pts = sorted(set(t))
        width = pts[-1] - pts[0]
        near = []
        for v in pts:
            for rel in (2e-7, 1e-6, 3e-5, 2e-3):                 # small RELATIVE distances from every knot, inside the domain
                for sgn in (1.0, -1.0):
                    y = v + sgn * rel * width
                    if pts[0] <= y <= pts[-1] and rng.random() < 0.35:
                        near.append(y)
        pts = pts + [(a + b) / 2 for a, b in zip(pts, pts[1:])][:2] + near
        qs = []
        for x in pts:
            for m in range(0, k + 1):
                r = rng.random()
                if r < 0.25:
                    qs.append(("f", x, m))
                elif r < 0.6:
                    qs.append(("d", (x, ["x"], [1.0]), m))
                elif r < 0.9:
                    qs.append(("d2", (x, ["x"], [1.0], [[0.0]]), m))
                elif m == 0:
                    qs.append(("n", rng.choice([("dual", (x, ["x"], [1.0])), ("dual2", (x, ["x"], [1.0], [[0.0]])), ("f64", x)])))
        cases.append({"kind": kind, "k": k, "t": t, "label": "unit coefficients", "scale": ("unit", 0.0, 1.0), "c": cv,
                      "variant": "preset-c", "queries": qs})
    enc = [enc_case(c) for c in cases]
    impl = run_harness("spline", [hline(z) for z in enc])
    model = coq_eval("Run.RunSpline", "runSpline", enc, ctx.work, shard=max(1, min(20, len(enc) // (NCPU * 2) + 1)), tag="unit")
    stats = {"bit_equal": 0, "bit_differs": 0, "nan_both": 0, "zero_sign": 0, "poly_checked": 0, "poly_off": 0}
    for ci, (c, a, b) in enumerate(zip(cases, impl, model)):
        ctx.count("unit-coefficient splines evaluated at every knot, m = 0..k: coefficient kind " + c["kind"])
        compare_case(ctx, ("unit", ci), c, a, b, stats)


def run(ctx):
    ctx.rule = ("orders 2-6; knot vectors with k-fold end knots and 0-5 interior breakpoints (multiplicity 1..k-1); "
                "data sites: Greville sites jittered inside the Schoenberg-Whitney windows (end sites on the end "
                "knots), optional derivative rows at the ends, and the natural-spline layout (repeated end sites, "
                "left_n = right_n = 2); about a quarter of the splines affinely mapped to POSIX-timestamp scale (offset ~1e9, "
                "spacing 1e6..1e9 as the Python layer feeds curve splines), tiny scale (spacing 1e-6..1e-3) or huge scale "
                "(spacing up to 1e12), those with mostly natural (2,2) and higher end conditions; collocation matrices checked non-singular by the generator (a few ill-posed "
                "ones kept); y as f64 / Dual / Dual2 (own variable per datum, shared, mixed, none); polynomial data "
                "of degree < k; malformed: site/value counts off by one, over-determined with and without allow_lsq, "
                "pre-set coefficients of right and wrong length, no coefficients, bad knot vectors; queries: "
                "ppdnev_single / _dual / _dual2 with m = 0..k at sites, knots, end points, random and outside points, "
                "and mapped_value with all three Number kinds (the 3x3 table). Observables: outcome classes, "
                "coefficients, values, first and second order gradients with their variable names; floats compared as "
                "bit patterns (1e-9 relative if the bits differ). Non-trivial = a solved coefficient vector or a query; "
                "distinct by (case, position). PLUS (ops evd / vec / ppeq): one basis function at a Dual / Dual2 abscissa "
                "(bsplev_single_dual / _dual2: orders 1-5, abscissa at knots / between / outside / at the right end point, org_k None and "
                "Some, i also out of range), the vector form PPSpline::bspldnev, and == of two splines where the second is the first "
                "perturbed in one place (one knot by one ulp, order, knot count, one coefficient by one ulp in value or in one "
                "derivative, coefficient count, coefficients dropped / added: must be UNEQUAL both ways) or identical / re-listed by "
                "name on another variable layout (must be EQUAL).")
    ctx.trusted = [
        "Coq 8.16.1 kernel (coqc, full .vo build)",
        "axioms: the classical real numbers of the Coq standard library (see Print Assumptions in the evidence)",
        "the theorems are about the model at T := R: floating-point rounding is outside them (DESIGN 7)",
        "C15_interpolates / C15_poly_partial take the solver equation B c = y (C13's conclusion) as a hypothesis",
        "correspondence: harness/src/spline.rs, driver/props/c15.py, Base/NumFloat.v, Model/Linalg.v, Model/Dual.v, "
        "coqc's evaluation and printing of Eval vm_compute",
    ]
    ctx.assumptions = ["knot vector admissible (C14); collocation matrix such that the solver equation holds "
                       "(non-singular: C13)", "dual-number inputs well formed (distinct variable names, matching array shapes)",
                       "real arithmetic (no rounding) in the theorems"]
    proved = proof_stage(ctx, extra_targets=[RUN_TARGET])
    if not proved:
        ctx.violation("a C15 proof obligation no longer compiles", {"no_failing_input": True,
                      "theorem": "Props/C15.v", "log_tail": getattr(ctx, "build_log", "")[-3000:]})
        return ctx.finish("make theories/Props/C15.vo")
    if not harness_stage(ctx):
        return ctx.finish("make theories/Props/C15.vo")
    cases = gen_cases(ctx) + big_natural_cases(ctx)
    enc = [enc_case(c) for c in cases]
    impl = run_harness("spline", [hline(z) for z in enc])
    shard = max(1, min(20, len(enc) // (NCPU * 2) + 1))
    model = coq_eval("Run.RunSpline", "runSpline", enc, ctx.work, shard=shard, tag="pp")
    stats = {"bit_equal": 0, "bit_differs": 0, "nan_both": 0, "zero_sign": 0, "poly_checked": 0, "poly_off": 0}
    for ci, (c, a, b) in enumerate(zip(cases, impl, model)):
        compare_case(ctx, ci, c, a, b, stats)
    basis_stage(ctx)
    unit_spline_stage(ctx)
    for k, v in stats.items():
        ctx.count("result:" + k, v)
    ctx.notes.append("floats bit-identical: %d; differing in bits but within 1e-9: %d; polynomial data: %d f64 "
                     "evaluations of the real code compared with the polynomial itself, %d outside 1e-6" % (
                         stats["bit_equal"], stats["bit_differs"], stats["poly_checked"], stats["poly_off"]))
    for c, a in list(zip(cases, impl))[:3]:
        ctx.sample({"kind": c["kind"], "k": c["k"], "knots": c["t"], "variant": c["variant"],
                    "tau": (c.get("solve") or {}).get("tau"), "first_results": a[:10]})
    return ctx.finish("make -C coq theories/Props/C15.vo theories/Run/RunSpline.vo && coqc Assum_C15.v (Print Assumptions)")


def replay(ctx, rp):
    build_harness()
    build_coq(coq_targets_for("C15") + [RUN_TARGET])
    z = rp["case"]
    if rp.get("basis_op"):
        a = run_harness("spline", [basis_hline(z)])[0]
        b = coq_eval("Run.RunSpline", "runSpline", [z], ctx.work)[0]
        print("implementation", a[:60])
        print("model         ", b[:60])
        ctx.cleanup()
        ok, _, _ = dg.agree(a, b, rp["schema"], rtol=1e-9)
        return 0 if ok else 1
    a = run_harness("spline", [hline(z)])
    b = coq_eval("Run.RunSpline", "runSpline", [z], ctx.work)
    print("implementation", a[0][:60])
    print("model         ", b[0][:60])
    ctx.cleanup()
    if len(a[0]) != len(b[0]):
        return 1
    # token-wise: equal, or both decode to close floats
    for p, q in zip(a[0], b[0]):
        if p != q and not (p > 4096 and q > 4096 and fclose(b2f(p), b2f(q))):
            return 1
    return 0
