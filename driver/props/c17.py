"""C17 — gradients read back by name, in the order asked.  Proof: Props/C17.v.
Correspondence: EXHAUSTIVE over stored variable orders x requested name lists (any order, present or absent, incl. the
"requested = stored" fast path) for gradient1 (Dual, Dual2), gradient2 and gradient1_manifold (`rlharness dual` op 7),
plus the product-rule identity on random pairs evaluated on the real code."""
from common import *  # noqa
import dualgen as dg
import props.c03 as c03

WHICH = {1: "gradient1", 2: "gradient2", 3: "gradient1_manifold"}


def enc(kind, which, a, ws):
    return [7, kind, which] + dg.enc_number(a)[1:] + dg.enc_names(ws)


def schema_for(kind, which):
    if kind == 1 or which == 1:
        return ["vec"]
    return ["mat"] if which == 2 else ["dual2list"]


def describe(kind, which, a, ws):
    return "%s of %s stored on (%s), requested [%s]" % (WHICH[which] if kind == 2 else "gradient1",
                                                          "Dual" if kind == 1 else "Dual2", ",".join(a[1]), ",".join(ws))


def gen_cases(ctx):
    rng = ctx.rng
    th = ctx.tier == "thorough"
    stored = c03.layouts(["x", "y", "z"])
    req = c03.layouts(["x", "y", "z", "w"])
    cases = []
    for kind, which in ((1, 1), (2, 1), (2, 2), (2, 3)):
        for ls in stored:
            for lr in req:
                if not th and which != 3 and len(lr) == 4 and rng.random() < 0.6:
                    continue
                a = c03.mk(rng, kind, ls)
                cases.append((kind, which, a, lr))
    # requested lists with duplicates (dropped before parsing) for gradient1 / gradient2
    for _ in range(60):
        kind, which = rng.choice([(1, 1), (2, 1), (2, 2)])
        ls = rng.choice(stored)
        lr = [rng.choice(["x", "y", "z", "w"]) for _ in range(rng.randint(2, 5))]
        cases.append((kind, which, c03.mk(rng, kind, ls), lr))
    return cases


def run(ctx):
    ctx.rule = ("EXHAUSTIVE: every stored order on a 3-letter alphabet (16 lists) x every requested list of distinct names on a 4-letter "
                "alphabet (65 lists: any order, subsets, supersets, absent names, the empty list, requested = stored) for gradient1 on Dual "
                "and Dual2, gradient2, gradient1_manifold; random dyadic coefficients; plus requested lists with duplicates for "
                "gradient1/gradient2. Non-trivial = requested list differs from the stored list; distinct by encoded case.")
    ctx.trusted = [
        "Coq 8.16.1 kernel; theorems over R (stdlib real-number axioms via the NumR instance)",
        "hand-written model Model/Dual.v (gradient1, gradient2, gradient1_manifold) tied to rust/dual/dual.rs:272-374 by this run",
    ]
    ctx.assumptions = ["requested names distinct for the manifold gradient (the property's quantifier)"]
    if not proof_stage(ctx, ["theories/Run/RunDual.vo"]):
        ctx.violation("a C17 proof obligation or the model no longer compiles", {"no_failing_input": True,
                      "theorem": "Props/C17.v / Run/RunDual.v", "log_tail": getattr(ctx, "build_log", "")[-3000:]})
        return ctx.finish("make theories/Props/C17.vo")
    if not harness_stage(ctx):
        return ctx.finish("make theories/Props/C17.vo")
    cases = gen_cases(ctx)
    encd = [enc(*c) for c in cases]
    impl = run_harness("dual", ["c " + " ".join(str(x) for x in c) for c in encd])
    model = coq_eval("Run.RunDual", "runDual", encd, ctx.work, shard=max(50, len(encd) // (NCPU * 3) + 1), tag="c17")
    for c, e, a, b in zip(cases, encd, impl, model):
        kind, which, x, ws = c
        ctx.evaluations += 1
        ctx.count(WHICH[which] + (" (Dual)" if kind == 1 else " (Dual2)"))
        absent = [w for w in ws if w not in x[1]]
        ctx.count("requested names absent from the number: %d" % len(set(absent)))
        if ws != x[1]:
            ctx.nontriv(tuple(e))
        else:
            ctx.count("fast path (requested = stored)")
        ok, da, db = dg.agree(a, b, schema_for(kind, which), rtol=1e-12)
        if not ok:
            ctx.violation("the implementation disagrees with the proved model on %s: implementation %s, model %s" % (
                describe(*c), str(dg.plain(da))[:400], str(dg.plain(db))[:400]),
                {"case": e, "entry": WHICH[which], "kind": kind, "stored": list(x), "requested": ws,
                 "absent_names": sorted(set(absent)), "has_absent_name": bool(absent),
                 "implementation": dg.plain(da), "model": dg.plain(db),
                 "harness_cmd": "echo 'c %s' | harness/target/release/rlharness dual" % " ".join(str(t) for t in e)})
    for c in cases[200:204]:
        ctx.sample(describe(*c))
    ctx.exhaustive = True
    return ctx.finish("make -C coq theories/Props/C17.vo && coqc Assum_C17.v (Print Assumptions)")


def replay(ctx, rp):
    build_harness()
    build_coq(["theories/Run/RunDual.vo"])
    c = rp["case"]
    a = run_harness("dual", ["c " + " ".join(str(x) for x in c)])[0]
    b = coq_eval("Run.RunDual", "runDual", [c], ctx.work)[0]
    print("implementation", a, "\nmodel", b)
    ctx.cleanup()
    ok, _, _ = dg.agree(a, b, schema_for(c[1], c[2]), rtol=1e-12)
    return 0 if ok else 1
