"""C17 — gradients read back by name, in the order asked.  Proof: Props/C17.v.
Correspondence: EXHAUSTIVE over stored variable orders x requested name lists (any order, present or absent, incl. the
"requested = stored" fast path) for gradient1 (Dual, Dual2), gradient2 and gradient1_manifold (`rlharness dual` op 7),
plus the product-rule identity on random pairs evaluated on the real code."""
from common import *  # noqa
import dualgen as dg
import props.c03 as c03

WHICH = {1: "gradient1", 2: "gradient2", 3: "gradient1_manifold"}


def enc(kind, which, a, ws):
    return [7, kind, which] + dg.enc_number(a)[1:] + dg.enc_names(ws)


def schema_for(kind, which):
    if kind == 1 or which == 1:
        return ["vec"]
    return ["mat"] if which == 2 else ["dual2list"]


def describe(kind, which, a, ws):
    return "%s of %s stored on (%s), requested [%s]" % (WHICH[which] if kind == 2 else "gradient1",
                                                          "Dual" if kind == 1 else "Dual2", ",".join(a[1]), ",".join(ws))


def gen_cases(ctx):
    rng = ctx.rng
    th = ctx.tier == "thorough"
    stored = c03.layouts(["x", "y", "z"])
    req = c03.layouts(["x", "y", "z", "w"])
    cases = []
    for kind, which in ((1, 1), (2, 1), (2, 2), (2, 3)):
        for ls in stored:
            for lr in req:
                if not th and which != 3 and len(lr) == 4 and rng.random() < 0.6:
                    continue
                a = c03.mk(rng, kind, ls)
                cases.append((kind, which, a, lr))
    # requested lists with duplicates (dropped before parsing) for gradient1 / gradient2
    for _ in range(60):
        kind, which = rng.choice([(1, 1), (2, 1), (2, 2)])
        ls = rng.choice(stored)
        lr = [rng.choice(["x", "y", "z", "w"]) for _ in range(rng.randint(2, 5))]
        cases.append((kind, which, c03.mk(rng, kind, ls), lr))
    # MANY names (more than a dozen, two-digit suffixes: numeric order differs from lexicographic order)
    big = ["v%d" % i for i in range(14)]
    for _ in range(80 if th else 24):
        kind, which = rng.choice([(1, 1), (2, 1), (2, 2), (2, 3)])
        ls = rng.sample(big, rng.randint(10, 14))
        r = rng.random()
        if r < 0.1:
            lr = list(ls)
        elif r < 0.2:
            lr = sorted(ls)
        elif r < 0.4:                      # the stored names exactly, two of them exchanged (ends kept / an end moved)
            lr = list(ls)
            i, j = rng.sample(range(1, len(lr) - 1), 2) if rng.random() < 0.6 else rng.sample(range(len(lr)), 2)
            lr[i], lr[j] = lr[j], lr[i]
        elif r < 0.5:
            lr = list(reversed(ls))
        elif r < 0.6:
            k = rng.randint(1, len(ls) - 1)
            lr = ls[k:] + ls[:k]
        elif r < 0.7:
            lr = rng.sample(ls, len(ls))
        else:
            lr = rng.sample(big, rng.randint(1, 14))
        cases.append((kind, which, c03.mk(rng, kind, ls), lr))
    # LONG stored lists (33 .. 66 names): requested = the stored names with two interior ones exchanged / reversed / another
    # long list sharing only the last name / a short list
    huge = ["v%d" % i for i in range(66)]
    for n in (33, 40, 66):
        ls = huge[:n]
        reqs = [list(reversed(ls)), ["w%d" % i for i in range(n - 1)] + [ls[-1]], ls[:3][::-1]]
        lr = list(ls); i, j = rng.sample(range(1, n - 1), 2); lr[i], lr[j] = lr[j], lr[i]
        reqs.append(lr)
        for lr in reqs:
            for kind, which in ((1, 1), (2, 1)) + (((2, 2),) if n <= 40 else ()):
                cases.append((kind, which, c03.mk(rng, kind, ls), lr))
    # EVERY permutation of the stored names requested, four names (the requested SET equals the stored set; only the order
    # differs: first / last kept or moved, interior exchanged): quick = one stored order per requested permutation
    import itertools
    four = ["x", "y", "z", "w"]
    perms = [list(p) for p in itertools.permutations(four)]
    for kind, which in ((1, 1), (2, 1), (2, 2), (2, 3)):
        for lr in perms:
            for ls in (perms if th else [four, rng.choice(perms)]):
                cases.append((kind, which, c03.mk(rng, kind, list(ls)), lr))
    return cases


def product_stage(ctx, present=0):
    """DIRECT TEST ON THE IMPLEMENTATION (Props/C17.v C17_product is the model-side statement): for pairs a, b of Dual2 on
    every pair of stored layouts of the 3-letter alphabet and a requested list, row i of the product rule applied to the
    manifolds, gradient1(M(a)_i * b + a * M(b)_i), equals row i of gradient2(a * b) - the manifold numbers carry the
    REQUESTED names in the requested order, so the products re-align variable lists of different orders and lengths"""
    rng = ctx.rng
    th = ctx.tier == "thorough"
    stored = c03.layouts(["x", "y", "z"])
    req = [l for l in c03.layouts(["x", "y", "z", "w"]) if l]
    cases = []
    for la in stored:
        for lb in stored:
            for _ in range(3 if th else 1):
                ws = rng.choice(req)
                cases.append((c03.mk(rng, 2, la), c03.mk(rng, 2, lb), ws))
    # operands whose CURVATURE IS TINY (second-order coefficients of size 1e-9 .. 1e-12, no first-order part) against operands
    # without curvature on another listing of the names: the product's second derivatives are then exactly (tiny curvature) x
    # (the other value) - a term that must not be mistaken for rounding noise
    for la in stored:
        if not la:
            continue
        for _ in range(2 if th else 1):
            lb = list(la)
            rng.shuffle(lb)
            if rng.random() < 0.4:
                lb = lb + ["w"]
            sc = 10.0 ** rng.randint(-12, -9)
            n = len(la)
            dd = [[0.0] * n for _ in range(n)]
            for i in range(n):
                for j in range(i, n):
                    dd[i][j] = dd[j][i] = float(rng.choice([1, 2, -3, 5, -7])) * sc
            f = ("d2", list(la), float(rng.choice([2, -3, 0.5])), [0.0] * n, dd)
            g = ("d2", lb, float(rng.choice([85000.0, -3.0, 7.0, 0.25])), [float(rng.choice([1, -2, 3])) for _ in lb], [[0.0] * len(lb) for _ in lb])
            ws = list(la) if rng.random() < 0.5 else lb
            cases.append((g, f, ws) if rng.random() < 0.6 else (f, g, ws))
    enc = [[26] + dg.enc_number(a)[1:] + dg.enc_number(b)[1:] + dg.enc_names(ws) for a, b, ws in cases]
    impl = run_harness("dual", ["c " + " ".join(str(x) for x in e) for e in enc], present=present)
    for (a, b, ws), e, o in zip(cases, enc, impl):
        ctx.evaluations += 1
        ctx.count("product rule on manifolds (direct test)" + (", operands built through try_new_from" if present else ""))
        ctx.nontriv(("prod", tuple(e)))
        what = None
        n = len(ws)
        if o[:1] != [0] or len(o) != 2 + n * n + 2 + n * n or o[1] != n or o[2 + n * n:4 + n * n] != [n, n]:
            what = "unexpected output %s" % o[:12]
        else:
            L = [b2f(x) for x in o[2:2 + n * n]]
            R = [b2f(x) for x in o[4 + n * n:]]
            scale = max([abs(x) for x in L + R] + [0.0])
            for k, (x, y) in enumerate(zip(L, R)):
                # each entry to 1e-9 of ITS OWN size, plus rounding noise of the largest entry (2e-14 of it)
                if not (x == y or (x == x and y == y and abs(x - y) <= 1e-9 * max(abs(x), abs(y)) + 2e-14 * scale)):
                    what = "entry (%s, %s): product rule on manifolds gives %r, gradient2 of the product gives %r" % (
                        ws[k // n], ws[k % n], x, y)
                    break
        if what:
            ctx.violation("the product rule applied to manifolds does not reproduce the second derivatives of a product: a = %s, "
                          "b = %s, names %s: %s" % (a, b, ws, what),
                          {"case": e, "entry": "product rule", "direct_test": True, "a": list(a), "b": list(b), "requested": ws, "present": present,
                           "implementation": o[:80],
                           "harness_cmd": "echo 'c %s' | harness/target/release/rlharness dual" % " ".join(str(t) for t in e)})


def run(ctx):
    ctx.rule = ("EXHAUSTIVE: every stored order on a 3-letter alphabet (16 lists) x every requested list of distinct names on a 4-letter "
                "alphabet (65 lists: any order, subsets, supersets, absent names, the empty list, requested = stored) for gradient1 on Dual "
                "and Dual2, gradient2, gradient1_manifold; random dyadic coefficients; plus requested lists with duplicates for "
                "gradient1/gradient2. Non-trivial = requested list differs from the stored list; distinct by encoded case.")
    ctx.trusted = [
        "Coq 8.16.1 kernel; theorems over R (stdlib real-number axioms via the NumR instance)",
        "hand-written model Model/Dual.v (gradient1, gradient2, gradient1_manifold) tied to rust/dual/dual.rs:272-374 by this run",
    ]
    ctx.assumptions = ["requested names distinct for the manifold gradient (the property's quantifier)"]
    if not proof_stage(ctx, ["theories/Run/RunDual.vo"]):
        ctx.violation("a C17 proof obligation or the model no longer compiles", {"no_failing_input": True,
                      "theorem": "Props/C17.v / Run/RunDual.v", "log_tail": getattr(ctx, "build_log", "")[-3000:]})
        return ctx.finish("make theories/Props/C17.vo")
    if not harness_stage(ctx):
        return ctx.finish("make theories/Props/C17.vo")
    cases = gen_cases(ctx)
    encd = [enc(*c) for c in cases]
    impl = run_harness("dual", ["c " + " ".join(str(x) for x in c) for c in encd])
    model = coq_eval("Run.RunDual", "runDual", encd, ctx.work, shard=max(50, len(encd) // (NCPU * 3) + 1), tag="c17")
    for c, e, a, b in zip(cases, encd, impl, model):
        kind, which, x, ws = c
        ctx.evaluations += 1
        ctx.count(WHICH[which] + (" (Dual)" if kind == 1 else " (Dual2)"))
        absent = [w for w in ws if w not in x[1]]
        ctx.count("requested names absent from the number: %d" % len(set(absent)))
        if ws != x[1]:
            ctx.nontriv(tuple(e))
        else:
            ctx.count("fast path (requested = stored)")
        ok, da, db = dg.agree(a, b, schema_for(kind, which), rtol=1e-12)
        if not ok:
            ctx.violation("the implementation disagrees with the proved model on %s: implementation %s, model %s" % (
                describe(*c), str(dg.plain(da))[:400], str(dg.plain(db))[:400]),
                {"case": e, "entry": WHICH[which], "kind": kind, "stored": list(x), "requested": ws,
                 "absent_names": sorted(set(absent)), "has_absent_name": bool(absent),
                 "implementation": dg.plain(da), "model": dg.plain(db),
                 "harness_cmd": "echo 'c %s' | harness/target/release/rlharness dual" % " ".join(str(t) for t in e)})
    # the same read-backs from a number built through the SIBLING constructor (T::try_new_from on a rotated copy of its names -
    # the function behind the Python `vars_from`; harness RL_PRESENT=1): by name it is the same number
    impl2 = run_harness("dual", ["c " + " ".join(str(x) for x in c) for c in encd], present=1)
    for c, e, a, b in zip(cases, encd, impl2, model):
        kind, which, x, ws = c
        ctx.evaluations += 1
        ctx.count("stored number built through try_new_from")
        ok, da, db = dg.agree(a, b, schema_for(kind, which), rtol=1e-12)
        if not ok:
            ctx.violation("with the number built through try_new_from (names rotated) the implementation disagrees with the proved "
                          "model on %s: implementation %s, model %s" % (describe(*c), str(dg.plain(da))[:400], str(dg.plain(db))[:400]),
                          {"case": e, "entry": WHICH[which], "kind": kind, "stored": list(x), "requested": ws, "present": 1,
                           "implementation": dg.plain(da), "model": dg.plain(db),
                           "harness_cmd": "echo 'c %s' | RL_PRESENT=1 harness/target/release/rlharness dual" % " ".join(str(t) for t in e)})
    product_stage(ctx)
    product_stage(ctx, present=1)
    for c in cases[200:204]:
        ctx.sample(describe(*c))
    ctx.exhaustive = True
    return ctx.finish("make -C coq theories/Props/C17.vo && coqc Assum_C17.v (Print Assumptions)")


def replay(ctx, rp):
    build_harness()
    build_coq(["theories/Run/RunDual.vo"])
    c = rp["case"]
    a = run_harness("dual", ["c " + " ".join(str(x) for x in c)], present=rp.get("present", 0))[0]
    if rp.get("entry") == "product rule":
        n = a[1] if len(a) > 1 else 0
        L, R = a[2:2 + n * n], a[4 + n * n:]
        bad = a[:1] != [0] or any(not fclose(b2f(x), b2f(y), rtol=1e-9, atol=1e-9) for x, y in zip(L, R))
        print("product rule on manifolds:", [b2f(x) for x in L], "gradient2 of the product:", [b2f(x) for x in R])
        ctx.cleanup()
        return 1 if bad else 0
    b = coq_eval("Run.RunDual", "runDual", [c], ctx.work)[0]
    print("implementation", a, "\nmodel", b)
    ctx.cleanup()
    ok, _, _ = dg.agree(a, b, schema_for(c[1], c[2]), rtol=1e-12)
    return 0 if ok else 1
