"""C03 — derivatives tracked by name whatever the layout.  Proof: Props/C03.v.
Correspondence: EXHAUSTIVE over ordered variable lists on a small alphabet for both operands x 5 binary operators
and == x Dual/Dual2 x shared/unshared storage, random coefficients incl. zeros (`rlharness dual` op 3)."""
import itertools
from common import *  # noqa
import dualgen as dg

OPN = ["+", "-", "*", "/", "%", "=="]


def layouts(alpha):
    out = [[]]
    for k in range(1, len(alpha) + 1):
        for c in itertools.permutations(alpha, k):
            out.append(list(c))
    return out


def rnd_coef(rng):
    return float(rng.choice([0, 0, 1, -1, 2, 3, -2, 0.5, -0.5, 1.5, 4, -3]))


def mk(rng, kind, vars_, re=None):
    n = len(vars_)
    re = re if re is not None else float(rng.choice([1, -1, 2, -2, 3, 0.5, -0.5, 4, -3, 1.5, 5, 7]))
    du = [rnd_coef(rng) for _ in vars_]
    if kind == 1:
        return ("d", vars_, re, du)
    dd = [[rnd_coef(rng) for _ in vars_] for _ in vars_]
    return ("d2", vars_, re, du, dd)


def relist(rng, kind, a, target):
    """the same number (by name) listed on `target` (a superset of the non-zero variables of a)"""
    idx = {v: i for i, v in enumerate(a[1])}
    du = [a[3][idx[v]] if v in idx else 0.0 for v in target]
    if kind == 1:
        return ("d", target, a[2], du)
    dd = [[a[4][idx[u]][idx[v]] if (u in idx and v in idx) else 0.0 for v in target] for u in target]
    return ("d2", target, a[2], du, dd)


def enc(kind, oc, p, a, b):
    return [3, kind, oc, p] + dg.enc_number(a)[1:] + dg.enc_number(b)[1:]


def describe(kind, oc, p, a, b):
    return "%s(%s) %s %s(%s) [%s, %s]" % (a[0], ",".join(a[1]), OPN[oc], b[0], ",".join(b[1]),
                                          "Dual" if kind == 1 else "Dual2", "shared Arc" if p else "separate lists")


def gen_cases(ctx):
    rng = ctx.rng
    th = ctx.tier == "thorough"
    alpha = ["x", "y", "z", "w"] if th else ["x", "y", "z"]
    L = layouts(alpha)
    cases = []
    for kind in (1, 2):
        for la in L:
            for lb in L:
                for oc in range(6):
                    if not th and kind == 2 and oc in (1,) and rng.random() < 0.5:
                        continue
                    a = mk(rng, kind, la)
                    b = mk(rng, kind, lb)
                    if oc == 5:
                        r = rng.random()
                        if r < 0.4 and set(v for v, d in zip(a[1], a[3]) if d != 0) <= set(lb) and kind == 1:
                            b = relist(rng, kind, a, lb)       # equal by name, other layout
                        elif r < 0.4 and kind == 2:
                            nz = set(v for v, d in zip(a[1], a[3]) if d != 0)
                            for i, u in enumerate(a[1]):
                                for j, v in enumerate(a[1]):
                                    if a[4][i][j] != 0:
                                        nz.add(u)
                                        nz.add(v)
                            if nz <= set(lb):
                                b = relist(rng, kind, a, lb)
                        elif r < 0.6:
                            b = mk(rng, kind, lb, re=a[2])       # same value, other derivatives
                    cases.append((kind, oc, 0, a, b))
                    if la == lb and la:
                        cases.append((kind, oc, 1, a, b))
    return cases


def schema_for(kind, oc):
    if oc >= 5:
        return ["int"]
    return ["dual"] if kind == 1 else ["dual2"]


def run(ctx):
    ctx.rule = ("EXHAUSTIVE over all ordered variable lists on a 3-letter alphabet (16 lists; 4 letters / 65 lists in thorough) for each "
                "operand (permutations, subsets, supersets, disjoint, overlapping, empty) x {+,-,*,/,%,==} x {Dual, Dual2} x shared / "
                "unshared Arc when the lists are equal; coefficients random small dyadics incl. zeros; == cases include operands equal "
                "by name on different layouts. Observables: the set of vars() (duplicate-free), real, and the dual / dual2 arrays BY NAME (stored order is not part of the property and is canonicalised), bool. Non-trivial = operands "
                "with different variable lists; distinct by encoded case.")
    ctx.trusted = [
        "Coq 8.16.1 kernel; theorems over R (stdlib real-number axioms + constructive_indefinite_description through the NumR instance)",
        "Arc::ptr_eq modelled by the boolean p with side condition p = true -> equal lists; IndexSet as duplicate-free list",
        "hand-written model Model/Dual.v tied to rust/dual/dual.rs + dual_ops by this run (harness/src/dual.rs op 3)",
    ]
    ctx.assumptions = ["operands built with try_new (well-formed: duplicate-free names, matching array shapes)"]
    if not proof_stage(ctx, ["theories/Run/RunDual.vo"]):
        ctx.violation("a C03 proof obligation or the model no longer compiles", {"no_failing_input": True,
                      "theorem": "Props/C03.v / Run/RunDual.v", "log_tail": getattr(ctx, "build_log", "")[-3000:]})
        return ctx.finish("make theories/Props/C03.vo")
    if not harness_stage(ctx):
        return ctx.finish("make theories/Props/C03.vo")
    cases = gen_cases(ctx)
    encd = [enc(*c) for c in cases]
    impl = run_harness("dual", ["c " + " ".join(str(x) for x in c) for c in encd])
    model = coq_eval("Run.RunDual", "runDual", encd, ctx.work, shard=max(50, len(encd) // (NCPU * 3) + 1), tag="c03")
    for c, e, a, b in zip(cases, encd, impl, model):
        kind, oc, p, x, y = c
        ctx.evaluations += 1
        ctx.count("operator %s" % OPN[oc])
        ctx.count("kind %s" % ("Dual" if kind == 1 else "Dual2"))
        rel = "equal lists" if x[1] == y[1] else "same set, other order" if set(x[1]) == set(y[1]) else \
            "superset" if set(x[1]) > set(y[1]) else "subset" if set(x[1]) < set(y[1]) else \
            "disjoint" if not (set(x[1]) & set(y[1])) else "overlapping"
        ctx.count("layout: " + rel)
        if x[1] != y[1]:
            ctx.nontriv(tuple(e))
        ok, da, db = dg.agree(a, b, schema_for(kind, oc), rtol=1e-9)
        if not ok:
            ctx.violation("the implementation disagrees with the proved model on %s: implementation %s, model %s" % (
                describe(*c), str(dg.plain(da))[:300], str(dg.plain(db))[:300]),
                {"case": e, "kind": kind, "operator": OPN[oc], "shared": p, "lhs": list(x), "rhs": list(y),
                 "implementation": dg.plain(da), "model": dg.plain(db),
                 "harness_cmd": "echo 'c %s' | harness/target/release/rlharness dual" % " ".join(str(t) for t in e)})
    for c in cases[100:104]:
        ctx.sample(describe(*c))
    ctx.exhaustive = True
    return ctx.finish("make -C coq theories/Props/C03.vo && coqc Assum_C03.v (Print Assumptions)")


def replay(ctx, rp):
    build_harness()
    build_coq(["theories/Run/RunDual.vo"])
    c = rp["case"]
    a = run_harness("dual", ["c " + " ".join(str(x) for x in c)])[0]
    b = coq_eval("Run.RunDual", "runDual", [c], ctx.work)[0]
    print("implementation", a, "\nmodel", b)
    ctx.cleanup()
    ok, _, _ = dg.agree(a, b, schema_for(c[1], c[2]), rtol=1e-9)
    return 0 if ok else 1
