"""C03 — derivatives tracked by name whatever the layout.  Proof: Props/C03.v.
Correspondence: EXHAUSTIVE over ordered variable lists on a small alphabet for both operands x 5 binary operators
and == x Dual/Dual2 x shared/unshared storage, random coefficients incl. zeros (`rlharness dual` op 3); the re-listing entry
points called directly: to_new_vars(target, None) (separate and own Arc, ptr_eq), try_new_from, new_from, to_union_vars(other, None) (ops 22-25)."""
import itertools
import random
from common import *  # noqa
import dualgen as dg

OPN = ["+", "-", "*", "/", "%", "=="]


def layouts(alpha):
    out = [[]]
    for k in range(1, len(alpha) + 1):
        for c in itertools.permutations(alpha, k):
            out.append(list(c))
    return out


def rnd_coef(rng):
    return float(rng.choice([0, 0, 1, -1, 2, 3, -2, 0.5, -0.5, 1.5, 4, -3]))


def mk(rng, kind, vars_, re=None):
    n = len(vars_)
    re = re if re is not None else float(rng.choice([1, -1, 2, -2, 3, 0.5, -0.5, 4, -3, 1.5, 5, 7]))
    du = [rnd_coef(rng) for _ in vars_]
    if kind == 1:
        return ("d", vars_, re, du)
    dd = [[rnd_coef(rng) for _ in vars_] for _ in vars_]
    return ("d2", vars_, re, du, dd)


def relist(rng, kind, a, target):
    """the same number (by name) listed on `target` (a superset of the non-zero variables of a)"""
    idx = {v: i for i, v in enumerate(a[1])}
    du = [a[3][idx[v]] if v in idx else 0.0 for v in target]
    if kind == 1:
        return ("d", target, a[2], du)
    dd = [[a[4][idx[u]][idx[v]] if (u in idx and v in idx) else 0.0 for v in target] for u in target]
    return ("d2", target, a[2], du, dd)


def enc(kind, oc, p, a, b):
    return [3, kind, oc, p] + dg.enc_number(a)[1:] + dg.enc_number(b)[1:]


def describe(kind, oc, p, a, b):
    return "%s(%s) %s %s(%s) [%s, %s]" % (a[0], ",".join(a[1]), OPN[oc], b[0], ",".join(b[1]),
                                          "Dual" if kind == 1 else "Dual2", "shared Arc" if p else "separate lists")


def gen_cases(ctx):
    rng = ctx.rng
    th = ctx.tier == "thorough"
    alpha = ["x", "y", "z", "w"] if th else ["x", "y", "z"]
    L = layouts(alpha)
    cases = []
    for kind in (1, 2):
        for la in L:
            for lb in L:
                for oc in range(6):
                    if not th and kind == 2 and oc in (1,) and rng.random() < 0.5:
                        continue
                    a = mk(rng, kind, la)
                    b = mk(rng, kind, lb)
                    if oc == 5:
                        r = rng.random()
                        if r < 0.4 and set(v for v, d in zip(a[1], a[3]) if d != 0) <= set(lb) and kind == 1:
                            b = relist(rng, kind, a, lb)       # equal by name, other layout
                        elif r < 0.4 and kind == 2:
                            nz = set(v for v, d in zip(a[1], a[3]) if d != 0)
                            for i, u in enumerate(a[1]):
                                for j, v in enumerate(a[1]):
                                    if a[4][i][j] != 0:
                                        nz.add(u)
                                        nz.add(v)
                            if nz <= set(lb):
                                b = relist(rng, kind, a, lb)
                        elif r < 0.6:
                            b = mk(rng, kind, lb, re=a[2])       # same value, other derivatives
                    elif rng.random() < 0.15:
                        # COINCIDENCE: bit-for-bit equal (or opposite) values with unrelated derivatives
                        b = mk(rng, kind, lb, re=a[2] * rng.choice([1.0, 1.0, -1.0]))
                    cases.append((kind, oc, 0, a, b))
                    if la == lb and la:
                        if rng.random() < 0.5:
                            b = mk(rng, kind, lb, re=a[2] * rng.choice([1.0, 1.0, -1.0]))
                        cases.append((kind, oc, 1, a, b))
    # MANY variables (more than a dozen names, two-digit suffixes): orderings that differ between numeric and
    # lexicographic order, permutations, prefixes, subsets of a long list
    big = ["v%d" % i for i in range(14)]
    for _ in range(240 if th else 60):
        kind = rng.choice([1, 2])
        oc = rng.randrange(6)
        la = rng.sample(big, rng.randint(10, 14))
        r = rng.random()
        if r < 0.3:
            lb = list(la)
            rng.shuffle(lb)
        elif r < 0.5:
            lb = la[:rng.randint(1, len(la))]
        elif r < 0.7:
            lb = sorted(la)
        else:
            lb = rng.sample(big, rng.randint(1, 14))
        a, b = mk(rng, kind, la), mk(rng, kind, lb)
        if oc == 5 and rng.random() < 0.5 and set(la) <= set(lb):
            b = relist(rng, kind, a, lb)
        cases.append((kind, oc, 0, a, b))
    # LONG lists (16 .. 70 names - beyond any threshold a "small list" fast path might have): the same names with two
    # interior ones exchanged, reversed, a NARROW operand on the wide one's leading names in another order (either side),
    # two long lists that share only their last name
    huge = ["v%d" % i for i in range(70)]
    for n in ([16, 20, 33, 40, 65, 70] if th else [16, 33, 66]):
        la = huge[:n]
        variants = []
        lb = list(la); i, j = rng.sample(range(1, n - 1), 2); lb[i], lb[j] = lb[j], lb[i]
        variants.append(lb)
        variants.append(list(reversed(la)))
        m = rng.randint(2, 4)
        lead = la[:m]; rng.shuffle(lead)
        if lead == la[:m]:
            lead = list(reversed(lead))
        variants.append(lead)
        variants.append(["w%d" % i for i in range(n - 1)] + [la[-1]])
        for lb in variants:
            for kind in (1, 2):
                if kind == 2 and n > 40 and len(lb) > 8 and not th:
                    continue
                for oc in rng.sample([0, 1, 2, 3, 5], 2 if not th else 5):
                    a, b = mk(rng, kind, la), mk(rng, kind, lb)
                    if oc == 5 and set(lb) == set(la):
                        b = relist(rng, kind, a, lb)
                    cases.append((kind, oc, 0, a, b))
                    cases.append((kind, oc, 0, b, a))
    return cases


def rel_of(xs, ys):
    return "equal lists" if xs == ys else "same set, other order" if set(xs) == set(ys) else \
        "superset" if set(xs) > set(ys) else "subset" if set(xs) < set(ys) else \
        "disjoint" if not (set(xs) & set(ys)) else "overlapping"


def dedup(l):
    out = []
    for v in l:
        if v not in out:
            out.append(v)
    return out


def gen_relist_cases(ctx):
    """the PUBLIC re-listing entry points called DIRECTLY (`rlharness dual` ops 22-24): x.to_new_vars(target, None) with the
    target given through a separate Arc (mode 0: equal / permuted / subset / superset / disjoint / overlapping lists) and through
    x's own Arc (mode 1), ptr_eq of the result; Dual(2)::try_new_from / new_from on another number's variables (that number of
    either order), incl. the length-mismatch errors.  Returns (tag, encoding, description, schema, label)."""
    rng = random.Random(ctx.seed * 7919 + 3)
    th = ctx.tier == "thorough"
    L = layouts(["x", "y", "z", "w"] if th else ["x", "y", "z"])
    DUP = [["x", "x"], ["x", "y", "x"], ["z", "z", "y"], ["y", "x", "x", "y"]]
    out = []
    for kind in (1, 2):
        kn = "Dual" if kind == 1 else "Dual2"
        sch = ["dual" if kind == 1 else "dual2", "int", "int"]
        for la in L:
            for lt in L + DUP[:2]:
                x = mk(rng, kind, la)
                out.append(("to_new_vars", [24, kind, 0] + dg.enc_number(x)[1:] + dg.enc_names(lt),
                            "%s(%s).to_new_vars([%s] through a separate Arc, None)" % (kn, ",".join(la), ",".join(lt)), sch,
                            "separate Arc, " + rel_of(la, dedup(lt))))
            x = mk(rng, kind, la)
            out.append(("to_new_vars", [24, kind, 1] + dg.enc_number(x)[1:] + dg.enc_names(la),
                        "%s(%s).to_new_vars(its own Arc, None)" % (kn, ",".join(la)), sch, "same Arc"))
        sch2 = ["dual" if kind == 1 else "dual2"] * 2 + ["int"]
        for la in L:
            for lb in L:
                x, y = mk(rng, kind, la), mk(rng, kind, lb)
                out.append(("to_union_vars", [25, kind, 0] + dg.enc_number(x)[1:] + dg.enc_number(y)[1:],
                            "%s(%s).to_union_vars(%s(%s), None)" % (kn, ",".join(la), kn, ",".join(lb)), sch2,
                            "separate Arcs, " + rel_of(la, lb)))
                if la == lb:
                    x, y = mk(rng, kind, la), mk(rng, kind, lb)
                    out.append(("to_union_vars", [25, kind, 1] + dg.enc_number(x)[1:] + dg.enc_number(y)[1:],
                                "%s(%s).to_union_vars(%s on the same Arc, None)" % (kn, ",".join(la), kn), sch2, "same Arc"))
        sch1 = ["dual" if kind == 1 else "dual2"]
        for lo in L + DUP[:1]:
            for lv in L + DUP:
                okind = rng.choice([1, 2])
                n = len(dedup(lv))
                variants = ["given"]
                r = rng.random()
                if r < 0.25:
                    variants.append("default")
                elif r < 0.5:
                    variants.append("short" if n else "long")
                elif r < 0.6:
                    variants.append("long")
                if kind == 2 and rng.random() < 0.4:
                    variants.append(rng.choice(["dd given", "dd wrong"]))
                for var in variants:
                    re_ = float(rng.choice([1, -1, 2, -2.5, 3, 0.5, 0.0, 7]))
                    du = [rnd_coef(rng) or 1.0 for _ in range(n)]
                    if var == "default":
                        du = []
                    elif var == "short":
                        du = du[:-1] if n > 1 else [1.0, 2.0]
                    elif var == "long":
                        du = du + [1.5]
                    e = [22, kind, okind] + dg.enc_names(lo) + dg.enc_f(re_) + dg.enc_names(lv) + [len(du)] + [f2b(v) for v in du]
                    if kind == 2:
                        dd = []
                        if var == "dd given":
                            dd = [rnd_coef(rng) for _ in range(n * n)]
                        elif var == "dd wrong":
                            dd = [1.0] * (n * n + 1)
                        e += [len(dd)] + [f2b(v) for v in dd]
                    lab = "derivatives " + ("given" if var in ("given", "dd given", "dd wrong") else
                                            "defaulted to ones" if var == "default" else "of the wrong length")
                    if var == "dd wrong":
                        lab = "second derivatives of the wrong length"
                    if var == "short" and n <= 1 and du == [1.0, 2.0]:
                        lab = "derivatives of the wrong length"
                    out.append(("try_new_from", e, "%s::try_new_from(other = %s(%s), %r, [%s], %d derivative values%s)" % (
                        kn, "Dual" if okind == 1 else "Dual2", ",".join(lo), re_, ",".join(lv), len(du),
                        (", %d second-order values" % len(dd)) if kind == 2 else ""), sch1,
                        lab + "; vars vs other: " + rel_of(dedup(lv), dedup(lo))))
                okind = rng.choice([1, 2])
                re_ = float(rng.choice([1, -1, 2, -2.5, 3, 0.5, 0.0, 7]))
                out.append(("new_from", [23, kind, okind] + dg.enc_names(lo) + dg.enc_f(re_) + dg.enc_names(lv),
                            "%s::new_from(other = %s(%s), %r, [%s])" % (kn, "Dual" if okind == 1 else "Dual2", ",".join(lo), re_, ",".join(lv)),
                            sch1, "vars vs other: " + rel_of(dedup(lv), dedup(lo))))
    return out


def gen_sum_cases(ctx):
    """THE ITERATOR FORM of addition (`impl Sum for Dual / Dual2`, `rlharness dual` op 6): two terms on every pair of layouts,
    and 3-5 terms on random layouts - same set in another order, subsets, disjoint lists"""
    rng = random.Random(ctx.seed * 104729 + 11)
    th = ctx.tier == "thorough"
    L = layouts(["x", "y", "z", "w"] if th else ["x", "y", "z"])
    out = []

    def add(kind, terms):
        e = [6, kind, len(terms)]
        for t in terms:
            e += dg.enc_number(t)[1:]
        out.append(("sum", e, "[%s].into_iter().sum::<%s>()" % ("; ".join("(" + ",".join(t[1]) + ")" for t in terms), "Dual" if kind == 1 else "Dual2"),
                    ["dual" if kind == 1 else "dual2"],
                    "terms: %d, layouts %s" % (len(terms), "all equal" if all(t[1] == terms[0][1] for t in terms) else
                                               "same set, other order" if all(set(t[1]) == set(terms[0][1]) for t in terms) else "different sets")))
    for kind in (1, 2):
        for la in L:
            for lb in L:
                if not th and kind == 2 and rng.random() < 0.5:
                    continue
                add(kind, [mk(rng, kind, la), mk(rng, kind, lb)])
        for _ in range(200 if th else 60):
            base = rng.choice(L)
            ts = []
            for _ in range(rng.randint(3, 5)):
                l = list(base)
                r = rng.random()
                if r < 0.5:
                    rng.shuffle(l)
                elif r < 0.7:
                    l = rng.choice(L)
                ts.append(mk(rng, kind, l))
            add(kind, ts)
    return out


def layout_pair_stage(ctx):
    """DIRECT TEST ON THE IMPLEMENTATION (C03's statement itself, no model): the SAME two numbers, once with the right operand
    listed like the left one (aligned lists, shared or separate storage) and once with it re-listed - the same names in another
    order, or a superset with zero derivatives for the extra names - must give the same result by name, component by
    component to 1e-12 of its own size, for + - * / %; operands of ordinary size and, for %, quotients up to 1e13 (where the
    remainder keeps few digits and two evaluation orders can be told apart)."""
    rng = random.Random(ctx.seed * 49979687 + 29)
    th = ctx.tier == "thorough"
    base_lists = [["x"], ["x", "y"], ["y", "x", "z"], ["x", "y", "z", "w"]]
    jobs = []
    for _ in range(1200 if th else 240 * ctx.scale):
        kind = rng.choice([1, 2])
        oc = rng.choice([0, 1, 2, 3, 4, 4])
        la = rng.choice(base_lists)
        big = oc == 4 and rng.random() < 0.6
        ar = float(rng.choice([1, -1, 2.5, 7, -3])) * (10 ** rng.uniform(8, 13) if big else 1.0)
        br = rng.choice([6.283185307179586, 0.3, 7.0, -1.7, 2.0]) if big or rng.random() < 0.5 else None
        a = mk(rng, kind, la, re=ar)
        b = mk(rng, kind, la, re=br)
        r = rng.random()
        if r < 0.5 and len(la) >= 2:
            lb = list(la)
            while lb == la:
                rng.shuffle(lb)
        elif r < 0.8:
            lb = list(la) + [rng.choice(["q", "r"])]
            rng.shuffle(lb)
        else:
            lb = [rng.choice(["q", "r"])] + list(la)
        b2 = relist(rng, kind, b, lb)
        p = rng.choice([0, 1])
        jobs.append((kind, oc, a, b, b2, enc(kind, oc, p, a, b), enc(kind, oc, 0, a, b2)))
    out = run_harness("dual", ["c " + " ".join(str(x) for x in j[5]) for j in jobs] + ["c " + " ".join(str(x) for x in j[6]) for j in jobs])
    n = len(jobs)

    def by_name(d, kind):
        vs = d["vars"]
        g = {v: x[1] for v, x in zip(vs, d["du"])}
        h = {}
        if kind == 2:
            m = len(vs)
            for i, u in enumerate(vs):
                for j, w in enumerate(vs):
                    h[(u, w)] = d["dd"]["data"][i * m + j][1]
        return d["re"][1], g, h
    for k, (kind, oc, a, b, b2, e1, e2) in enumerate(jobs):
        ctx.evaluations += 1
        ctx.count("layout pairs (aligned vs re-listed right operand): %s" % OPN[oc])
        ctx.nontriv(("pair", tuple(e2)))
        sch = ["dual" if kind == 1 else "dual2"]
        d1, d2 = dg.decode(out[k], sch), dg.decode(out[n + k], sch)
        what = None
        if d1[0] != d2[0]:
            what = "outcome classes differ: %s vs %s" % (d1[0], d2[0])
        elif d1[0] == "ok":
            r1, g1, h1 = by_name(d1[1][0], kind)
            r2, g2, h2 = by_name(d2[1][0], kind)
            def close(x, y):
                return x == y or (x != x and y != y) or abs(x - y) <= 1e-12 * max(abs(x), abs(y))
            if not close(r1, r2):
                what = "value %r vs %r" % (r1, r2)
            for v in set(g1) | set(g2):
                if not close(g1.get(v, 0.0), g2.get(v, 0.0)):
                    what = "derivative for %s: %r vs %r" % (v, g1.get(v, 0.0), g2.get(v, 0.0))
            for uv in set(h1) | set(h2):
                if not close(h1.get(uv, 0.0), h2.get(uv, 0.0)):
                    what = "second-order coefficient for %s: %r vs %r" % (uv, h1.get(uv, 0.0), h2.get(uv, 0.0))
        if what:
            ctx.violation("the same two numbers give different results when the right operand is listed differently: %s %s %s "
                          "(aligned) vs right operand on (%s): %s" % (a, OPN[oc], b, ",".join(b2[1]), what),
                          {"case": e2, "case_aligned": e1, "kind": kind, "operator": OPN[oc], "lhs": list(a), "rhs": list(b),
                           "rhs_relisted": list(b2), "direct_test": "layout pair", "schema": sch,
                           "harness_cmd": "echo 'c %s' | harness/target/release/rlharness dual" % " ".join(str(t) for t in e2)})


def schema_for(kind, oc):
    if oc >= 5:
        return ["int"]
    return ["dual"] if kind == 1 else ["dual2"]


def run(ctx):
    ctx.rule = ("EXHAUSTIVE over all ordered variable lists on a 3-letter alphabet (16 lists; 4 letters / 65 lists in thorough) for each "
                "operand (permutations, subsets, supersets, disjoint, overlapping, empty) x {+,-,*,/,%,==} x {Dual, Dual2} x shared / "
                "unshared Arc when the lists are equal; coefficients random small dyadics incl. zeros; == cases include operands equal "
                "by name on different layouts. Observables: the set of vars() (duplicate-free), real, and the dual / dual2 arrays BY NAME (stored order is not part of the property and is canonicalised), bool. Non-trivial = operands "
                "with different variable lists; distinct by encoded case. PLUS the re-listing entry points called directly, exhaustively over "
                "the same 16 x 16 (+ duplicate-carrying) lists: x.to_new_vars(target, None) through a separate Arc (equal / permuted / "
                "subset / superset / disjoint / overlapping) and through x's own Arc, with ptr_eq of result and source against the target; "
                "x.to_union_vars(y, None) on every pair of lists (and on a shared Arc); Dual(2)::try_new_from / new_from on the variables of another number of either order, derivatives given / defaulted / of "
                "the wrong length (error returned), second-order array given / of the wrong length.")
    ctx.trusted = [
        "Coq 8.16.1 kernel; theorems over R (stdlib real-number axioms + constructive_indefinite_description through the NumR instance)",
        "Arc::ptr_eq modelled by the boolean p with side condition p = true -> equal lists; IndexSet as duplicate-free list",
        "hand-written model Model/Dual.v tied to rust/dual/dual.rs + dual_ops by this run (harness/src/dual.rs ops 3, 22, 23, 24, 25)",
        "ptr_eq after to_new_vars is fixed by construction in the model (the result holds the target Arc; the source shares it iff p)",
    ]
    ctx.assumptions = ["operands built with try_new (well-formed: duplicate-free names, matching array shapes)"]
    if not proof_stage(ctx, ["theories/Run/RunDual.vo"]):
        ctx.violation("a C03 proof obligation or the model no longer compiles", {"no_failing_input": True,
                      "theorem": "Props/C03.v / Run/RunDual.v", "log_tail": getattr(ctx, "build_log", "")[-3000:]})
        return ctx.finish("make theories/Props/C03.vo")
    if not harness_stage(ctx):
        return ctx.finish("make theories/Props/C03.vo")
    cases = gen_cases(ctx)
    encd = [enc(*c) for c in cases]
    impl = run_harness("dual", ["c " + " ".join(str(x) for x in c) for c in encd])
    model = coq_eval("Run.RunDual", "runDual", encd, ctx.work, shard=max(50, len(encd) // (NCPU * 3) + 1), tag="c03")
    for c, e, a, b in zip(cases, encd, impl, model):
        kind, oc, p, x, y = c
        ctx.evaluations += 1
        ctx.count("operator %s" % OPN[oc])
        ctx.count("kind %s" % ("Dual" if kind == 1 else "Dual2"))
        rel = "equal lists" if x[1] == y[1] else "same set, other order" if set(x[1]) == set(y[1]) else \
            "superset" if set(x[1]) > set(y[1]) else "subset" if set(x[1]) < set(y[1]) else \
            "disjoint" if not (set(x[1]) & set(y[1])) else "overlapping"
        ctx.count("layout: " + rel)
        if x[1] != y[1]:
            ctx.nontriv(tuple(e))
        ok, da, db = dg.agree(a, b, schema_for(kind, oc), rtol=1e-9)
        if not ok:
            ctx.violation("the implementation disagrees with the proved model on %s: implementation %s, model %s" % (
                describe(*c), str(dg.plain(da))[:300], str(dg.plain(db))[:300]),
                {"case": e, "kind": kind, "operator": OPN[oc], "shared": p, "lhs": list(x), "rhs": list(y),
                 "implementation": dg.plain(da), "model": dg.plain(db),
                 "harness_cmd": "echo 'c %s' | harness/target/release/rlharness dual" % " ".join(str(t) for t in e)})
    # ---- the same cells with both operands built through the SIBLING constructor (T::try_new_from on a rotated copy of the
    #      names, the function behind the Python `vars_from`; harness RL_PRESENT=1): by name they are the same numbers
    impl2 = run_harness("dual", ["c " + " ".join(str(x) for x in c) for c in encd], present=1)
    for c, e, a, b in zip(cases, encd, impl2, model):
        kind, oc, p, x, y = c
        ctx.evaluations += 1
        ctx.count("operands built through try_new_from")
        ok, da, db = dg.agree(a, b, schema_for(kind, oc), rtol=1e-9)
        if not ok:
            ctx.violation("with both operands built through try_new_from (names rotated) the implementation disagrees with the "
                          "proved model on %s: implementation %s, model %s" % (describe(*c), str(dg.plain(da))[:300], str(dg.plain(db))[:300]),
                          {"case": e, "kind": kind, "operator": OPN[oc], "shared": p, "lhs": list(x), "rhs": list(y), "present": 1,
                           "implementation": dg.plain(da), "model": dg.plain(db),
                           "harness_cmd": "echo 'c %s' | RL_PRESENT=1 harness/target/release/rlharness dual" % " ".join(str(t) for t in e)})
    layout_pair_stage(ctx)
    # ---- the re-listing entry points called directly
    extra = gen_relist_cases(ctx) + gen_sum_cases(ctx)
    xenc = [c[1] for c in extra]
    ximpl = run_harness("dual", ["c " + " ".join(str(x) for x in c) for c in xenc])
    xmodel = coq_eval("Run.RunDual", "runDual", xenc, ctx.work, shard=max(50, len(xenc) // (NCPU * 3) + 1), tag="c03x")
    for (tag, e, desc, sch, lab), a, b in zip(extra, ximpl, xmodel):
        ctx.evaluations += 1
        ctx.count("%s: %s" % (tag, lab))
        ctx.count("%s: cases" % tag)
        ctx.nontriv(tuple(e))
        ok, da, db = dg.agree(a, b, sch, rtol=1e-9)
        if da[0] == "err":
            ctx.count("%s: returned an error (length mismatch)" % tag)
        if tag == "to_new_vars" and da[0] == "ok":
            ctx.count("to_new_vars: ptr_eq(result, target) = %d, ptr_eq(self, target) = %d" % (da[1][1], da[1][2]))
        if not ok:
            ctx.violation("the implementation disagrees with the proved model on %s: implementation %s, model %s" % (
                desc, str(dg.plain(da))[:300], str(dg.plain(db))[:300]),
                {"case": e, "entry": tag, "what_op": desc, "schema": sch, "implementation": dg.plain(da), "model": dg.plain(db),
                 "harness_cmd": "echo 'c %s' | harness/target/release/rlharness dual" % " ".join(str(t) for t in e)})
    for c in extra[::max(1, len(extra) // 4)][:4]:
        ctx.sample(c[2])
    for c in cases[100:104]:
        ctx.sample(describe(*c))
    ctx.exhaustive = True
    return ctx.finish("make -C coq theories/Props/C03.vo && coqc Assum_C03.v (Print Assumptions)")


def replay(ctx, rp):
    build_harness()
    build_coq(["theories/Run/RunDual.vo"])
    c = rp["case"]
    if rp.get("direct_test") == "layout pair":
        o = run_harness("dual", ["c " + " ".join(str(x) for x in rp["case_aligned"]), "c " + " ".join(str(x) for x in c)])
        d1, d2 = dg.decode(o[0], rp["schema"]), dg.decode(o[1], rp["schema"])
        print("aligned  ", dg.plain(d1), "\nre-listed", dg.plain(d2))
        ctx.cleanup()
        if d1[0] != "ok" or d2[0] != "ok":
            return 0 if d1[0] == d2[0] else 1
        x, y = d1[1][0], d2[1][0]
        gx = {v: f[1] for v, f in zip(x["vars"], x["du"])}
        gy = {v: f[1] for v, f in zip(y["vars"], y["du"])}
        cl = lambda p, q: p == q or abs(p - q) <= 1e-12 * max(abs(p), abs(q))
        return 0 if cl(x["re"][1], y["re"][1]) and all(cl(gx.get(v, 0.0), gy.get(v, 0.0)) for v in set(gx) | set(gy)) else 1
    a = run_harness("dual", ["c " + " ".join(str(x) for x in c)], present=rp.get("present", 0))[0]
    b = coq_eval("Run.RunDual", "runDual", [c], ctx.work)[0]
    print("implementation", a, "\nmodel", b)
    ctx.cleanup()
    ok, _, _ = dg.agree(a, b, rp.get("schema") or schema_for(c[1], c[2]), rtol=1e-9)
    return 0 if ok else 1
