"""C19 — ordering, sign, remainder, sums and identities.  Proof: Props/C19.v.  Correspondence: pairs of numbers of the same
kind and number/float pairs in both positions, with negative values, negative divisors, zeros of both signs
(`rlharness dual` ops 3 (oc 4,6-10), 4, 5, 6, 12 (oc 10), 14 (oc 13, 14)); the remainder uses the EXACT fmod of the float model."""
import math
from common import *  # noqa
import dualgen as dg
import props.c03 as c03

BIN = ["+", "-", "*", "/", "%", "==", "<", "<=", ">", ">=", "abs_sub"]
KN = {"f": "f64", "d": "Dual", "d2": "Dual2"}
UN = ["abs", "signum", "is_zero", "neg", "neg(ref)", "zero", "one", "is_positive", "is_negative"]
VALS = [7.5, -7.5, 2.0, -2.0, 0.0, -0.0, 1e-3, -1e3, 5.25, -0.3, 3.0, 1.0, -1.0, 0.1, 123456.789, -9.75]


def val(rng):
    r = rng.random()
    if r < 0.6:
        return float(rng.choice(VALS))
    if r < 0.8:
        return rng.uniform(-50, 50)
    return rng.uniform(-1, 1) * 10 ** rng.randint(-6, 6)


def lay(rng):
    return rng.choice([[], ["x"], ["x", "y"], ["y", "x"], ["z", "x", "y"], ["y"]])


def gen_cases(ctx):
    rng = ctx.rng
    th = ctx.tier == "thorough"
    n = 4000 if th else 420 * ctx.scale
    cases = []
    for _ in range(n):
        kind = rng.choice([1, 2])
        oc = rng.choice([4, 4, 4, 6, 7, 8, 9, 5])
        la = lay(rng)
        lb = la if rng.random() < 0.4 else lay(rng)
        a = c03.mk(rng, kind, la, re=val(rng))
        bv = val(rng)
        if oc == 4 and bv == 0.0:
            bv = -2.5
        if oc in (5, 6, 7, 8, 9) and rng.random() < 0.3:
            bv = a[2]
        elif oc in (5, 6, 7, 8, 9) and rng.random() < 0.2:
            bv = math.nextafter(a[2], rng.choice([math.inf, -math.inf]))
        if oc == 4 and a[2] != 0.0 and rng.random() < 0.25:
            bv = a[2] * rng.choice([1.0, -1.0])            # remainder at EQUAL magnitudes (quotient exactly +-1)
        b = c03.mk(rng, kind, lb, re=bv)
        p = 1 if (la == lb and la and rng.random() < 0.5) else 0
        cases.append(("bin", kind, oc, c03.enc(kind, oc, p, a, b), "%s %s %s, values %r, %r" % ("Dual" if kind == 1 else "Dual2", BIN[oc], "same kind", a[2], b[2])))
    for _ in range(n):
        kind = rng.choice([1, 2])
        oc = rng.choice([4, 4, 4, 6, 7, 8, 9, 5, 0, 1, 2, 3])
        side = rng.choice([0, 1])
        a = c03.mk(rng, kind, lay(rng), re=val(rng))
        f = val(rng)
        if oc == 5 and rng.random() < 0.5:
            f = a[2]
        if oc in (5, 6, 7, 8, 9) and rng.random() < 0.3 and math.isfinite(a[2]):
            f = math.nextafter(a[2], rng.choice([math.inf, -math.inf]))          # NEIGHBOURING floats are different numbers
        if oc == 4 and a[2] != 0.0 and rng.random() < 0.25:
            f = a[2] * rng.choice([1.0, -1.0])
        if (oc in (3, 4)) and ((side == 0 and f == 0.0) or (side == 1 and a[2] == 0.0)):
            continue
        cases.append(("mix", kind, oc, [4, kind, oc, side] + dg.enc_number(a)[1:] + dg.enc_f(f),
                      ("%s %s f64" if side == 0 else "f64 %s %s") % (("Dual" if kind == 1 else "Dual2", BIN[oc]) if side == 0 else (BIN[oc], "Dual" if kind == 1 else "Dual2")) + ", values %r, %r" % (a[2], f)))
    for _ in range(n // 2):
        kind = rng.choice([1, 2])
        oc = rng.randrange(9)
        a = c03.mk(rng, kind, lay(rng), re=val(rng))
        if oc == 2 and rng.random() < 0.5:
            a = c03.relist(rng, kind, c03.mk(rng, kind, [], re=0.0), lay(rng))   # zero with padded variables
        cases.append(("un", kind, oc, [5, kind, oc] + dg.enc_number(a)[1:], "%s(%s), value %r" % (UN[oc], "Dual" if kind == 1 else "Dual2", a[2]), (a[2],)))
    for _ in range(n // 4):
        kind = rng.choice([1, 2])
        l = [c03.mk(rng, kind, lay(rng), re=val(rng)) for _ in range(rng.randint(0, 6))]
        e = [6, kind, len(l)]
        for x in l:
            e += dg.enc_number(x)[1:]
        cases.append(("sum", kind, 0, e, "sum of %d %s" % (len(l), "Dual" if kind == 1 else "Dual2")))
    # ---- abs_sub (Signed::abs_sub, "positive difference") on two numbers of the same kind: negative values, +0.0 / -0.0,
    #      EQUAL values (the <= boundary), all layout relations, shared and unshared Arc
    for _ in range(n // 2):
        kind = rng.choice([1, 2])
        la = lay(rng)
        lb = la if rng.random() < 0.4 else lay(rng)
        av = val(rng)
        r = rng.random()
        bv = av if r < 0.3 else (-av if r < 0.4 else val(rng))
        a = c03.mk(rng, kind, la, re=av)
        b = c03.mk(rng, kind, lb, re=bv)
        p = 1 if (la == lb and la and rng.random() < 0.5) else 0
        cases.append(("bin", kind, 10, c03.enc(kind, 10, p, a, b),
                      "%s abs_sub %s, values %r, %r" % ("Dual" if kind == 1 else "Dual2", "same kind", a[2], b[2]), (a[2], b[2])))
    # ---- abs_sub on the Number container: the 3 x 3 table (7 computing cells, Dual-with-Dual2 refused)
    for ka in ("f", "d", "d2"):
        for kb in ("f", "d", "d2"):
            for _ in range(14 if th else 7 * ctx.scale):
                av = val(rng)
                r = rng.random()
                bv = av if r < 0.3 else val(rng)
                a = ("f", av) if ka == "f" else c03.mk(rng, 1 if ka == "d" else 2, lay(rng), re=av)
                b = ("f", bv) if kb == "f" else c03.mk(rng, 1 if kb == "d" else 2, lay(rng), re=bv)
                cases.append(("numbin", 0, 10, [12, 10] + dg.enc_number(a) + dg.enc_number(b),
                              "Number(%s) abs_sub Number(%s), values %r, %r" % (KN[ka], KN[kb], av, bv), (av, bv)))
    # ---- ZEROS OF OPPOSITE SIGN (and equal zeros) in every ordering, a float on either side of a Dual / Dual2 and through the
    #      Number container: +0.0 and -0.0 are equal numbers (abs of a zero-valued dual returns -0.0 ...)
    for kind in (1, 2):
        for oc in (5, 6, 7, 8, 9):
            for side in (0, 1):
                for av, f in ((0.0, -0.0), (-0.0, 0.0), (0.0, 0.0), (-0.0, -0.0)):
                    a = c03.mk(rng, kind, lay(rng), re=av)
                    cases.append(("mix", kind, oc, [4, kind, oc, side] + dg.enc_number(a)[1:] + dg.enc_f(f),
                                  ("%s %s f64" if side == 0 else "f64 %s %s") % (("Dual" if kind == 1 else "Dual2", BIN[oc]) if side == 0 else (BIN[oc], "Dual" if kind == 1 else "Dual2")) + ", values %r, %r" % (av, f)))
    for ka in ("f", "d", "d2"):
        for oc in (6, 7, 8, 9):
            for side in (0, 1):
                for av, f in ((0.0, -0.0), (-0.0, 0.0)):
                    a = ("f", av) if ka == "f" else c03.mk(rng, 1 if ka == "d" else 2, lay(rng), re=av)
                    cases.append(("numord", 0, oc, [13, oc, side] + dg.enc_number(a) + dg.enc_f(f),
                                  ("Number(%s) %s f64" if side == 0 else "f64 %s Number(%s)") % ((KN[ka], BIN[oc]) if side == 0 else (BIN[oc], KN[ka]))
                                  + ", values %r, %r" % (av, f), (av, f) if side == 0 else (f, av)))
    # ---- the remainder through the Number container (the enum-wrapper dispatch of %): the 3 x 3 table and a float on either
    #      side, negative values and divisors, equal magnitudes
    for ka in ("f", "d", "d2"):
        for kb in ("f", "d", "d2"):
            for _ in range(10 if th else 5 * ctx.scale):
                av, bv = val(rng), val(rng)
                if bv == 0.0:
                    bv = -2.5
                if rng.random() < 0.2 and av != 0.0:
                    bv = av * rng.choice([1.0, -1.0])
                a = ("f", av) if ka == "f" else c03.mk(rng, 1 if ka == "d" else 2, lay(rng), re=av)
                b = ("f", bv) if kb == "f" else c03.mk(rng, 1 if kb == "d" else 2, lay(rng), re=bv)
                cases.append(("numbin", 0, 4, [12, 4] + dg.enc_number(a) + dg.enc_number(b),
                              "Number(%s) %% Number(%s), values %r, %r" % (KN[ka], KN[kb], av, bv), (av, bv)))
        for side in (0, 1):
            for _ in range(8 if th else 4 * ctx.scale):
                av, f = val(rng), val(rng)
                if (side == 0 and f == 0.0) or (side == 1 and av == 0.0):
                    continue
                a = ("f", av) if ka == "f" else c03.mk(rng, 1 if ka == "d" else 2, lay(rng), re=av)
                cases.append(("numbin", 0, 4, [13, 4, side] + dg.enc_number(a) + dg.enc_f(f),
                              ("Number(%s) %% f64" if side == 0 else "f64 %% Number(%s)") % KN[ka] + ", values %r, %r" % (av, f), (av, f)))
    # ---- ordering through the Number container: a float on either side of a Number of each kind, and Number with Number of
    #      the same kind / with a float inside (< <= > >=): must be the float comparison of the values
    for ka in ("f", "d", "d2"):
        for oc in (6, 7, 8, 9):
            for side in (0, 1):
                for _ in range(8 if th else 4 * ctx.scale):
                    av = val(rng)
                    r_ = rng.random()
                    f = av if r_ < 0.25 else math.nextafter(av, rng.choice([math.inf, -math.inf])) if r_ < 0.5 else val(rng)
                    a = ("f", av) if ka == "f" else c03.mk(rng, 1 if ka == "d" else 2, lay(rng), re=av)
                    cases.append(("numord", 0, oc, [13, oc, side] + dg.enc_number(a) + dg.enc_f(f),
                                  ("Number(%s) %s f64" if side == 0 else "f64 %s Number(%s)") % ((KN[ka], BIN[oc]) if side == 0 else (BIN[oc], KN[ka]))
                                  + ", values %r, %r" % (av, f), (av, f) if side == 0 else (f, av)))
            for kb in ("f", ka):
                for _ in range(6 if th else 3 * ctx.scale):
                    av = val(rng)
                    bv = av if rng.random() < 0.25 else val(rng)
                    a = ("f", av) if ka == "f" else c03.mk(rng, 1 if ka == "d" else 2, lay(rng), re=av)
                    b = ("f", bv) if kb == "f" else c03.mk(rng, 1 if kb == "d" else 2, lay(rng), re=bv)
                    for x, y, xv, yv in ((a, b, av, bv), (b, a, bv, av)):
                        cases.append(("numord", 0, oc, [12, oc] + dg.enc_number(x) + dg.enc_number(y),
                                      "Number(%s) %s Number(%s), values %r, %r" % (x[0], BIN[oc], y[0], xv, yv), (xv, yv)))
    # ---- is_positive / is_negative on the Number container (sign BIT of the value: -0.0 is negative)
    for ka in ("f", "d", "d2"):
        for oc in (13, 14):
            for v in [0.0, -0.0, 2.5, -2.5, 1e-300, -1e-300] + [val(rng) for _ in range(4 if not th else 12)]:
                a = ("f", v) if ka == "f" else c03.mk(rng, 1 if ka == "d" else 2, lay(rng), re=v)
                cases.append(("numun", 0, oc, [14, oc] + dg.enc_number(a) + dg.enc_f(1.0),
                              "Number(%s).%s, value %r" % (KN[ka], "is_positive" if oc == 13 else "is_negative", v), (v,)))
    return cases


def sign_bit(x):
    return math.copysign(1.0, x) < 0


def schema_for(tag, kind, oc):
    d = ["dual"] if kind == 1 else ["dual2"]
    if tag == "numbin":
        return ["number"]
    if tag in ("numun", "numord"):
        return ["int"]
    if tag in ("bin", "mix"):
        return d if (oc <= 4 or oc == 10) else ["int"]
    if tag == "un":
        return ["int"] if oc in (2, 7, 8) else d
    return d


def run(ctx):
    ctx.rule = ("seeded pairs of Dual/Dual2 of the same kind and number/float pairs in both positions over assorted layouts, values drawn "
                "from a pool with negative values, negative divisors, +0.0/-0.0, tiny and large magnitudes: %, ==, <, <=, >, >= (and + - * / "
                "for the float mixes), abs / signum / is_zero / neg / zero / one / is_positive / is_negative, Sum over 0-6 numbers; "
                "abs_sub on pairs of the same kind (30% EQUAL values, 10% opposite, +-0.0, all layout relations, shared Arc) and on the "
                "3 x 3 Number table (outcome class exact: 7 computing cells, 2 refused); is_positive / is_negative on the Number "
                "container and on Dual / Dual2 additionally tested DIRECTLY against the sign bit of the input value. "
                "Non-trivial = negative operand or divisor involved; distinct by encoded case.")
    ctx.trusted = [
        "Coq 8.16.1 kernel; theorems over R (stdlib real axioms through the NumR instance)",
        "f64 % (fmod) and trunc are modelled over R by x - y*trunc(x/y); the float instance computes fmod exactly",
        "hand-written model Model/Dual.v tied to dual_ops/{ord,signed,rem,sum,zero,one,eq}.rs by this run",
    ]
    ctx.assumptions = ["no NaN operands; divisors non-zero"]
    if not proof_stage(ctx, ["theories/Run/RunDual.vo"]):
        ctx.violation("a C19 proof obligation or the model no longer compiles", {"no_failing_input": True,
                      "theorem": "Props/C19.v / Run/RunDual.v", "log_tail": getattr(ctx, "build_log", "")[-3000:]})
        return ctx.finish("make theories/Props/C19.vo")
    if not harness_stage(ctx):
        return ctx.finish("make theories/Props/C19.vo")
    cases = gen_cases(ctx)
    encd = [c[3] for c in cases]
    impl = run_harness("dual", ["c " + " ".join(str(x) for x in c) for c in encd])
    model = coq_eval("Run.RunDual", "runDual", encd, ctx.work, shard=max(30, len(encd) // (NCPU * 3) + 1), tag="c19")
    for c, a, b in zip(cases, impl, model):
        tag, kind, oc, e, desc = c[:5]
        meta = c[5] if len(c) > 5 else None
        ctx.evaluations += 1
        ctx.count("%s %s" % (tag, BIN[oc] if tag in ("bin", "mix", "numbin", "numord") else UN[oc] if tag == "un" else
                             ("is_positive" if oc == 13 else "is_negative") if tag == "numun" else "sum"))
        if "-" in desc.split("values")[-1] or tag == "sum":
            ctx.nontriv(tuple(e))
        ok, da, db = dg.agree(a, b, schema_for(tag, kind, oc), rtol=1e-9)
        if tag == "numbin" and da[0] == "panic":
            ctx.count("numbin abs_sub: refused (panic) cells observed")
        if oc == 10 and tag in ("bin", "numbin") and da[0] == "ok":
            ctx.count("abs_sub: %s" % ("self < other (variable-free zero)" if meta[0] < meta[1] else
                                       "self == other (variable-free zero)" if meta[0] == meta[1] else "self > other (difference)"))
        # DIRECT TEST ON THE IMPLEMENTATION (not a model comparison): is_positive / is_negative answer the sign BIT of the
        # real part of their input (-0.0 is negative), for Dual, Dual2 and the Number container
        if (tag == "un" and oc in (7, 8)) or tag == "numun":
            v = meta[0]
            want = (not sign_bit(v)) if (oc in (7, 13)) else sign_bit(v)
            ctx.count("direct sign-bit test: %s" % ("is_positive" if oc in (7, 13) else "is_negative"))
            if a != [0, int(want)]:
                ctx.violation("is_positive / is_negative does not answer the sign bit of the value on %s: implementation %s, sign bit says %s" % (
                    desc, a, int(want)),
                    {"case": e, "what_op": desc, "implementation": a, "expected_from_sign_bit": int(want), "direct_test": True,
                     "harness_cmd": "echo 'c %s' | harness/target/release/rlharness dual" % " ".join(str(t) for t in e)})
        # DIRECT TEST: ordering through the Number container is the float comparison of the two values
        if tag == "numord":
            x, y = meta
            want = {6: x < y, 7: x <= y, 8: x > y, 9: x >= y}[oc]
            if a != [0, int(want)]:
                ctx.violation("ordering through the Number container does not agree with float comparison on %s: implementation %s, "
                              "floats say %s" % (desc, a, int(want)),
                              {"case": e, "what_op": desc, "implementation": a, "expected_from_floats": int(want), "direct_test": True,
                               "harness_cmd": "echo 'c %s' | harness/target/release/rlharness dual" % " ".join(str(t) for t in e)})
        if not ok:
            ctx.violation("the implementation disagrees with the proved model on %s: implementation %s, model %s" % (
                desc, str(dg.plain(da))[:300], str(dg.plain(db))[:300]),
                {"case": e, "what_op": desc, "implementation": dg.plain(da), "model": dg.plain(db),
                 "harness_cmd": "echo 'c %s' | harness/target/release/rlharness dual" % " ".join(str(t) for t in e)})
    for c in cases[::max(1, len(cases) // 5)][:5]:
        ctx.sample(c[4])
    return ctx.finish("make -C coq theories/Props/C19.vo && coqc Assum_C19.v (Print Assumptions)")


def replay(ctx, rp):
    build_harness()
    build_coq(["theories/Run/RunDual.vo"])
    c = rp["case"]
    a = run_harness("dual", ["c " + " ".join(str(x) for x in c)])[0]
    b = coq_eval("Run.RunDual", "runDual", [c], ctx.work)[0]
    print("implementation", a, "\nmodel", b)
    ctx.cleanup()
    return 0 if a == b else 1
