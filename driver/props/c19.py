"""C19 — ordering, sign, remainder, sums and identities.  Proof: Props/C19.v.  Correspondence: pairs of numbers of the same
kind and number/float pairs in both positions, with negative values, negative divisors, zeros of both signs
(`rlharness dual` ops 3 (oc 4,6-9), 4, 5, 6); the remainder uses the EXACT fmod of the float model."""
from common import *  # noqa
import dualgen as dg
import props.c03 as c03

BIN = ["+", "-", "*", "/", "%", "==", "<", "<=", ">", ">="]
UN = ["abs", "signum", "is_zero", "neg", "neg(ref)", "zero", "one", "is_positive", "is_negative"]
VALS = [7.5, -7.5, 2.0, -2.0, 0.0, -0.0, 1e-3, -1e3, 5.25, -0.3, 3.0, 1.0, -1.0, 0.1, 123456.789, -9.75]


def val(rng):
    r = rng.random()
    if r < 0.6:
        return float(rng.choice(VALS))
    if r < 0.8:
        return rng.uniform(-50, 50)
    return rng.uniform(-1, 1) * 10 ** rng.randint(-6, 6)


def lay(rng):
    return rng.choice([[], ["x"], ["x", "y"], ["y", "x"], ["z", "x", "y"], ["y"]])


def gen_cases(ctx):
    rng = ctx.rng
    th = ctx.tier == "thorough"
    n = 4000 if th else 420 * ctx.scale
    cases = []
    for _ in range(n):
        kind = rng.choice([1, 2])
        oc = rng.choice([4, 4, 4, 6, 7, 8, 9, 5])
        la = lay(rng)
        lb = la if rng.random() < 0.4 else lay(rng)
        a = c03.mk(rng, kind, la, re=val(rng))
        bv = val(rng)
        if oc == 4 and bv == 0.0:
            bv = -2.5
        if oc in (5, 6, 7, 8, 9) and rng.random() < 0.3:
            bv = a[2]
        b = c03.mk(rng, kind, lb, re=bv)
        p = 1 if (la == lb and la and rng.random() < 0.5) else 0
        cases.append(("bin", kind, oc, c03.enc(kind, oc, p, a, b), "%s %s %s, values %r, %r" % ("Dual" if kind == 1 else "Dual2", BIN[oc], "same kind", a[2], b[2])))
    for _ in range(n):
        kind = rng.choice([1, 2])
        oc = rng.choice([4, 4, 4, 6, 7, 8, 9, 5, 0, 1, 2, 3])
        side = rng.choice([0, 1])
        a = c03.mk(rng, kind, lay(rng), re=val(rng))
        f = val(rng)
        if oc == 5 and rng.random() < 0.5:
            f = a[2]
        if (oc in (3, 4)) and ((side == 0 and f == 0.0) or (side == 1 and a[2] == 0.0)):
            continue
        cases.append(("mix", kind, oc, [4, kind, oc, side] + dg.enc_number(a)[1:] + dg.enc_f(f),
                      ("%s %s f64" if side == 0 else "f64 %s %s") % (("Dual" if kind == 1 else "Dual2", BIN[oc]) if side == 0 else (BIN[oc], "Dual" if kind == 1 else "Dual2")) + ", values %r, %r" % (a[2], f)))
    for _ in range(n // 2):
        kind = rng.choice([1, 2])
        oc = rng.randrange(9)
        a = c03.mk(rng, kind, lay(rng), re=val(rng))
        if oc == 2 and rng.random() < 0.5:
            a = c03.relist(rng, kind, c03.mk(rng, kind, [], re=0.0), lay(rng))   # zero with padded variables
        cases.append(("un", kind, oc, [5, kind, oc] + dg.enc_number(a)[1:], "%s(%s), value %r" % (UN[oc], "Dual" if kind == 1 else "Dual2", a[2])))
    for _ in range(n // 4):
        kind = rng.choice([1, 2])
        l = [c03.mk(rng, kind, lay(rng), re=val(rng)) for _ in range(rng.randint(0, 6))]
        e = [6, kind, len(l)]
        for x in l:
            e += dg.enc_number(x)[1:]
        cases.append(("sum", kind, 0, e, "sum of %d %s" % (len(l), "Dual" if kind == 1 else "Dual2")))
    return cases


def schema_for(tag, kind, oc):
    d = ["dual"] if kind == 1 else ["dual2"]
    if tag in ("bin", "mix"):
        return d if oc <= 4 else ["int"]
    if tag == "un":
        return ["int"] if oc in (2, 7, 8) else d
    return d


def run(ctx):
    ctx.rule = ("seeded pairs of Dual/Dual2 of the same kind and number/float pairs in both positions over assorted layouts, values drawn "
                "from a pool with negative values, negative divisors, +0.0/-0.0, tiny and large magnitudes: %, ==, <, <=, >, >= (and + - * / "
                "for the float mixes), abs / signum / is_zero / neg / zero / one / is_positive / is_negative, Sum over 0-6 numbers. "
                "Non-trivial = negative operand or divisor involved; distinct by encoded case.")
    ctx.trusted = [
        "Coq 8.16.1 kernel; theorems over R (stdlib real axioms through the NumR instance)",
        "f64 % (fmod) and trunc are modelled over R by x - y*trunc(x/y); the float instance computes fmod exactly",
        "hand-written model Model/Dual.v tied to dual_ops/{ord,signed,rem,sum,zero,one,eq}.rs by this run",
    ]
    ctx.assumptions = ["no NaN operands; divisors non-zero"]
    if not proof_stage(ctx, ["theories/Run/RunDual.vo"]):
        ctx.violation("a C19 proof obligation or the model no longer compiles", {"no_failing_input": True,
                      "theorem": "Props/C19.v / Run/RunDual.v", "log_tail": getattr(ctx, "build_log", "")[-3000:]})
        return ctx.finish("make theories/Props/C19.vo")
    if not harness_stage(ctx):
        return ctx.finish("make theories/Props/C19.vo")
    cases = gen_cases(ctx)
    encd = [c[3] for c in cases]
    impl = run_harness("dual", ["c " + " ".join(str(x) for x in c) for c in encd])
    model = coq_eval("Run.RunDual", "runDual", encd, ctx.work, shard=max(30, len(encd) // (NCPU * 3) + 1), tag="c19")
    for (tag, kind, oc, e, desc), a, b in zip(cases, impl, model):
        ctx.evaluations += 1
        ctx.count("%s %s" % (tag, BIN[oc] if tag in ("bin", "mix") else UN[oc] if tag == "un" else "sum"))
        if "-" in desc.split("values")[-1] or tag == "sum":
            ctx.nontriv(tuple(e))
        ok, da, db = dg.agree(a, b, schema_for(tag, kind, oc), rtol=1e-9)
        if not ok:
            ctx.violation("the implementation disagrees with the proved model on %s: implementation %s, model %s" % (
                desc, str(dg.plain(da))[:300], str(dg.plain(db))[:300]),
                {"case": e, "what_op": desc, "implementation": dg.plain(da), "model": dg.plain(db),
                 "harness_cmd": "echo 'c %s' | harness/target/release/rlharness dual" % " ".join(str(t) for t in e)})
    for c in cases[::max(1, len(cases) // 5)][:5]:
        ctx.sample(c[4])
    return ctx.finish("make -C coq theories/Props/C19.vo && coqc Assum_C19.v (Print Assumptions)")


def replay(ctx, rp):
    build_harness()
    build_coq(["theories/Run/RunDual.vo"])
    c = rp["case"]
    a = run_harness("dual", ["c " + " ".join(str(x) for x in c)])[0]
    b = coq_eval("Run.RunDual", "runDual", [c], ctx.work)[0]
    print("implementation", a, "\nmodel", b)
    ctx.cleanup()
    return 0 if a == b else 1
