"""C05 — business-day arithmetic. Proof: Props/C05.v. Correspondence through `rlharness cal`."""
from common import *  # noqa
import calgen
import calrun
import translate


def gen_cases(ctx):
    rng = ctx.rng
    th = ctx.tier == "thorough"
    cases = []
    lo, hi = calgen.dn(1999, 1, 1), calgen.dn(2031, 12, 31)
    for _ in range(300 if th else 40):
        enc, info = calgen.gen_calendar(rng, lo, hi)
        ctx.count("calendar kind %d" % info["kind"])
        dates = calgen.interesting_dates(rng, info, lo, hi, 8)
        for d in dates:
            for _ in range(3):
                n = calgen.gen_i8(rng)
                s = rng.randint(0, 1)
                cases.append((enc, 11, [d, n, s]))
                cases.append((enc, 12, [d, n, s]))
                cases.append((enc, 13, [d, n, rng.randint(0, 4), s]))
        # the start is a DATETIME WITH A TIME OF DAY (the API type is NaiveDateTime): holiday lists hold midnights and the
        # look-up is exact, so such a start sees the week mask alone and the time of day is carried through
        # (Model/SubDay.v, Proofs/SubDayP.v); times around noon, the ends of the day and midnight itself
        for d in dates[:4]:
            for _ in range(2):
                t = rng.choice([0, 1, 43199, 43200, 43201, 54000, 86399, rng.randint(1, 86399)])
                n = rng.choice([0, 1, -1, 2, -2, calgen.gen_i8(rng)])
                s = rng.randint(0, 1)
                ctx.count("time of day " + ("midnight" if t == 0 else "morning" if t < 43200 else "afternoon"))
                cases.append((enc, 41, [d, n, s, t]))
                cases.append((enc, 42, [d, n, s, t]))
                cases.append((enc, 43, [d, n, rng.randint(0, 4), s, t]))
        # the WHOLE i8 range (both flags; add_bus_days, lag, add_days) from two dates, hashed
        for d in dates[:3 if th else 1]:
            cases.append((enc, 32, [d, rng.randint(0, 4)]))
        # business-date ranges (also from/to non-business days -> Err)
        for _ in range(2):
            a = rng.choice(dates)
            b = a + rng.choice([0, 1, 5, 30, 90, -3])
            cases.append((enc, 15, [a, b]))
    # named calendars from datetimes with a time of day, around Christmas / New Year (business and settlement holidays)
    for nm in ["tgt", "ldn,tgt|fed", "nyc|tgt"]:
        for kind in (4, 5):
            enc = calgen.enc_named(nm, kind)
            d0 = calgen.dn(rng.randint(1990, 2150), 12, 20)
            for d in range(d0, d0 + 14):
                t = rng.choice([43200, 54000, 86399, 1, rng.randint(1, 86399)])
                for n in (0, rng.choice([1, -1, 2, -2, 3])):
                    s = rng.randint(0, 1)
                    cases.append((enc, 41, [d, n, s, t]))
                    cases.append((enc, 42, [d, n, s, t]))
                    cases.append((enc, 43, [d, n, rng.randint(0, 4), s, t]))
    for nm in ["tgt", "ldn,tgt|fed", "nyc|tgt", "tyo", "all", "bus"]:
        enc = calgen.enc_named(nm)
        for _ in range(4 if th else 1):
            d = calgen.dn(rng.randint(1971, 2199), rng.randint(1, 12), rng.randint(1, 28))
            if th or nm in ("tgt", "bus", "all"):
                cases.append((enc, 32, [d, rng.randint(0, 4)]))
            for _ in range(6):
                n, s = calgen.gen_i8(rng), rng.randint(0, 1)
                cases.append((enc, 11, [d, n, s]))
                cases.append((enc, 12, [d + 1, n, s]))
            cases.append((enc, 15, [d, d + rng.randint(0, 60)]))
    # NAMED calendars (bare NamedCal and CalType::NamedCal), ZERO and small day counts from every day of windows that hold
    # weekends, holidays of the business calendars and holidays of the settlement calendars only (US holidays for `..|fed`)
    for nm in (["tgt", "ldn,tgt|fed", "tgt|fed", "nyc|tgt", "ldn|nyc,tgt"] if th else ["tgt|fed", "ldn,tgt|fed", "nyc|tgt"]):
        for kind in (4, 5):
            enc = calgen.enc_named(nm, kind)
            y = rng.randint(1990, 2150)
            for (mm, dd) in ((6, 29), (12, 21), (rng.choice([1, 4, 5, 11]), rng.randint(1, 20)))[:3 if th else 2]:
                d0 = calgen.dn(y, mm, dd)
                for d in range(d0, d0 + (12 if th else 8)):
                    for n in (0, rng.choice([1, -1, 2, -2])):
                        for s in (0, 1):
                            cases.append((enc, 11, [d, n, s]))
                            cases.append((enc, 12, [d, n, s]))
    return cases


def nontrivial(enc, op, args, out):
    if op in (11, 12, 13, 41, 42, 43):
        return len(out) == 2 and out[0] == 0 and args[1] != 0
    return op in (32, 15)


def run(ctx):
    ctx.rule = ("calendars as in C04; start dates dense around holidays and month ends (business and non-business); day counts over "
                "the whole i8 range weighted to 0, +-1, +-2, +-127, -128; both settlement flags; add_bus_days, lag, add_days (all "
                "modifiers), bus_date_range incl. rejected ends; one hashed case = all 256 i8 values x 2 flags x 3 functions from a "
                "date; the same three functions from DATETIMES WITH A TIME OF DAY (midnight, noon +-1s, 15:00, 23:59:59, random) on generated "
                "and named calendars (ops 41-43, Model/SubDay.v). Non-trivial = Ok result with n != 0, a full-i8 sweep or a range; distinct by (calendar, op, args).")
    ctx.trusted = [
        "Coq 8.16.1 kernel; no axioms (all C05 theorems closed under the global context)",
        "hand-written model Model/Calendar.v tied to the code by this run's correspondence (harness/src/cal.rs, driver/calrun.py)",
        "chrono date arithmetic modelled by Model/Dates.v (C08 check); named tables regenerated by driver/translate.py",
        "sub-day datetimes: Model/SubDay.v assumes holiday lists hold midnights (as every table and harness route builds them) and that adding whole days keeps the time of day (chrono); both are exercised by ops 41-43 of this run",
    ]
    ctx.assumptions = ["day counts are i8 values (-128..127), as the API type enforces",
                       "searches bounded by 7*(holidays+1) days in the executed model; exhaustion = abort"]
    if translate_stage(ctx) is None:
        return ctx.finish("make theories/Props/C05.vo")
    if not proof_stage(ctx, ["theories/Run/RunCal.vo", "theories/Proofs/SubDayP.vo"]):
        ctx.violation("a C05 proof obligation or the model no longer compiles", {"no_failing_input": True, "theorem": "Props/C05.v / Run/RunCal.v", "log_tail": getattr(ctx, "build_log", "")[-3000:]})
        return ctx.finish("make theories/Props/C05.vo")
    if not harness_stage(ctx):
        return ctx.finish("make theories/Props/C05.vo")
    cases = gen_cases(ctx)
    calrun.run_cases(ctx, cases, nontrivial=nontrivial)
    for enc, op, args in cases[:3]:
        ctx.sample({"calendar_encoding": enc[:40], "call": calrun.describe(enc, op, args)})
    return ctx.finish("make -C coq theories/Props/C05.vo && coqc Assum_C05.v (Print Assumptions)")


def replay(ctx, rp):
    return calrun.replay_case(ctx, rp)
