"""C18 — order changes and kind mixing.  Proof: Props/C18.v.  Correspondence: EXHAUSTIVE 3x3 kind pairings x every
operator of `Number` (+ - * / % == < <= > >=), Number∘f64 in both positions, unary operators, set_order /
set_order_clone (3 kinds x 3 orders), From conversions (out of the container: op 15; out of / into the plain kinds
f64 / Dual / Dual2: op 17), Sum — `rlharness dual` ops 10-17; outcome class
(computed / refused = panic) compared exactly."""
from common import *  # noqa
import dualgen as dg
import props.c03 as c03

BIN = ["+", "-", "*", "/", "%", "==", "<", "<=", ">", ">="]
UN = ["neg", "neg(ref)", "pow", "exp", "log", "norm_cdf", "inv_norm_cdf", "abs", "signum", "is_zero", "zero", "one", "pow(ref)"]
KN = {"f": "f64", "d": "Dual", "d2": "Dual2"}


def mknum(rng, kind, positive=False, re=None):
    lay = rng.choice([[], ["x"], ["y", "x"], ["x", "y", "z"], ["z"]])
    if kind == "f":
        v = rng.uniform(0.1, 0.9) if positive else float(rng.choice([1.5, -2.0, 0.25, 3.0, -0.75, 7.0]))
        return ("f", v if re is None else re)
    n = c03.mk(rng, 1 if kind == "d" else 2, lay, re=(re if re is not None else rng.uniform(0.1, 0.9) if positive else None))
    return n


def gen_cases(ctx):
    rng = ctx.rng
    th = ctx.tier == "thorough"
    reps = 12 if th else 3 * ctx.scale
    cases = []
    kinds = ["f", "d", "d2"]
    for ka in kinds:
        for kb in kinds:
            for oc in range(10):
                for _ in range(reps):
                    a, b = mknum(rng, ka), mknum(rng, kb)
                    cases.append(("bin", [12, oc] + dg.enc_number(a) + dg.enc_number(b), "%s %s %s" % (KN[ka], BIN[oc], KN[kb]), oc))
                # SPECIAL VALUES in every cell: a unit operand on either side, equal and opposite values
                for ra, rb in ((1.0, None), (None, 1.0), (-1.0, None), (2.5, 2.5), (-3.0, 3.0), (1.0, 1.0), (7.5, 2.0), (-9.0, 2.5)):
                    a, b = mknum(rng, ka, re=ra), mknum(rng, kb, re=rb)
                    if ka == kb and ka != "f" and a[1]:
                        b = c03.mk(rng, 1 if kb == "d" else 2, list(a[1]), re=b[2])      # the same names in the same order
                    cases.append(("bin", [12, oc] + dg.enc_number(a) + dg.enc_number(b), "%s %s %s" % (KN[ka], BIN[oc], KN[kb]), oc))
    for ka in kinds:
        for oc in range(10):
            for side in (0, 1):
                for _ in range(reps):
                    a = mknum(rng, ka)
                    f = float(rng.choice([2.0, -1.5, 0.5, 3.0, -4.0]))
                    desc = ("%s %s f64" if side == 0 else "f64 %s %s") % ((KN[ka], BIN[oc]) if side == 0 else (BIN[oc], KN[ka]))
                    cases.append(("binf", [13, oc, side] + dg.enc_number(a) + dg.enc_f(f), desc, oc))
                for ra, f in ((None, 1.0), (None, -1.0), (1.0, 2.0), (2.5, 2.5), (-3.0, 3.0)):
                    a = mknum(rng, ka, re=ra)
                    desc = ("%s %s f64" if side == 0 else "f64 %s %s") % ((KN[ka], BIN[oc]) if side == 0 else (BIN[oc], KN[ka]))
                    cases.append(("binf", [13, oc, side] + dg.enc_number(a) + dg.enc_f(f), desc, oc))
        for oc in range(13):
            for _ in range(reps):
                a = mknum(rng, ka, positive=oc in (2, 3, 4, 5, 6, 12))
                p = float(rng.choice([2.0, -1.0, 0.5, 3.0, 1.5]))
                cases.append(("un", [14, oc] + dg.enc_number(a) + dg.enc_f(p), "%s(%s)" % (UN[oc], KN[ka]), oc))
            if oc in (2, 12):
                # exponents that are NOT integers but very close to one, and bases away from 1 (the power must be the power
                # asked for: x^2.0000005 is not x^2)
                for p in (2.0000005, 3.0 - 4e-7, -1.0 + 9e-7, 1.0 + 3e-7, 2.0 + 2e-9):
                    a = mknum(rng, ka, re=float(rng.choice([20.0, 7.5, 0.05, 3.0])))
                    cases.append(("un", [14, oc] + dg.enc_number(a) + dg.enc_f(p), "%s(%s)" % (UN[oc], KN[ka]), oc))
        for order in (0, 1, 2):
            for which in (10, 11):
                for _ in range(reps):
                    a = mknum(rng, ka)
                    names = rng.choice([[], ["v0"], ["v0", "v1"], ["a", "a", "b"], ["x", "q"]])
                    cases.append(("order", [which] + dg.enc_number(a) + [order] + dg.enc_names(names),
                                  "%s(%s -> order %d, names %s)" % ("set_order" if which == 10 else "set_order_clone", KN[ka], order, names), order))
        for _ in range(reps):
            cases.append(("from", [15] + dg.enc_number(mknum(rng, ka)), "From<%s>" % KN[ka], 0))
    # From conversions out of / into the plain kinds (op 17): f64::from(Dual | Dual2) (lowering returns the value),
    # Dual::from(f64) / Dual2::from(f64) (raising gives the variable-free constant), Number::from(f64 | &f64 | Dual | &Dual
    # | Dual2 | &Dual2) (wrapping keeps everything)
    for kk, ka in enumerate(kinds):
        for v in [0.0, -0.0, 1.5, -2.75, 1e-300, -1e300, 123456.789] + [float(rng.uniform(-50, 50)) for _ in range(reps)]:
            if ka == "f":
                a = ("f", v)
            else:
                a = c03.mk(rng, 1 if ka == "d" else 2, rng.choice([[], ["x"], ["y", "x"], ["x", "y", "z"], ["z"]]), re=v)
            cases.append(("from2", [17, kk] + dg.enc_number(a)[1:], "From conversions of a plain %s, value %r" % (KN[ka], v), kk, v))
    for _ in range(40 if th else 12):
        ks = rng.choice([["f", "f", "f"], ["f", "d", "d"], ["d", "f", "d"], ["d2", "f", "d2"], ["f", "d", "d2"], ["d", "d2"], []])
        l = [mknum(rng, k) for k in ks]
        e = [16, len(l)]
        for x in l:
            e += dg.enc_number(x)
        cases.append(("sum", e, "sum over kinds %s" % [KN[k] for k in ks], 0))
    return cases


def schema_for(tag, oc):
    if tag in ("bin", "binf"):
        return ["number"] if oc <= 4 else ["int"]
    if tag == "un":
        return ["int"] if oc == 9 else ["number"]
    if tag == "from":
        return ["f", "f", "dual", "dual", "dual2", "dual2"]
    if tag == "from2":
        return ["dual", "dual2", "number", "number"] if oc == 0 else ["f", "f", "number", "number"]
    return ["number"]


def run(ctx):
    ctx.rule = ("EXHAUSTIVE over the 3x3 pairings of contained kinds x the 10 binary operators of Number, Number∘f64 and f64∘Number for "
                "every operator, the 13 unary operators x 3 kinds, set_order / set_order_clone for 3 kinds x 3 target orders with name "
                "lists incl. duplicates, all From conversions (Number -> f64 / Dual / Dual2; f64::from(Dual | Dual2), Dual::from(f64), "
                "Dual2::from(f64), Number::from(f64 | &f64 | Dual | &Dual | Dual2 | &Dual2), also tested directly: value in = value out), Sum over mixed-kind sequences (incl. sequences that must be refused); "
                "several random dyadic draws per cell. Outcome class (value / refused = panic) compared exactly, floats at 1e-9.")
    ctx.trusted = [
        "Coq 8.16.1 kernel; theorems over R (stdlib real axioms through the NumR instance); the Number tables hold by computation",
        "a Rust panic!(\"Cannot mix dual types\") is modelled as outcome Panic; observed through catch_unwind in the harness",
        "hand-written model Model/Number.v tied to dual_ops/{add,sub,mul,div,rem,eq,ord,convert,from,..}.rs by this run",
    ]
    ctx.assumptions = ["unary exp/log/norm_cdf/inv_norm_cdf/pow drawn with values in (0.1, 0.9)"]
    if not proof_stage(ctx, ["theories/Run/RunDual.vo"]):
        ctx.violation("a C18 proof obligation or the model no longer compiles", {"no_failing_input": True,
                      "theorem": "Props/C18.v / Run/RunDual.v", "log_tail": getattr(ctx, "build_log", "")[-3000:]})
        return ctx.finish("make theories/Props/C18.vo")
    if not harness_stage(ctx):
        return ctx.finish("make theories/Props/C18.vo")
    cases = gen_cases(ctx)
    encd = [c[1] for c in cases]
    impl = run_harness("dual", ["c " + " ".join(str(x) for x in c) for c in encd])
    model = coq_eval("Run.RunDual", "runDual", encd, ctx.work, shard=max(30, len(encd) // (NCPU * 3) + 1), tag="c18")
    for c, a, b in zip(cases, impl, model):
        tag, e, desc, oc = c[:4]
        meta = c[4] if len(c) > 4 else None
        ctx.evaluations += 1
        ctx.count(desc if tag in ("bin",) else tag + ": " + desc.split("(")[0].split(", value")[0])
        ok, da, db = dg.agree(a, b, schema_for(tag, oc), rtol=1e-9)
        if da[0] == "panic":
            ctx.count("refused (panic) cells observed")
        if tag != "from":
            ctx.nontriv(tuple(e))
        if tag == "from2" and da[0] == "ok":
            # DIRECT TEST ON THE IMPLEMENTATION beside the model comparison: lowering returns exactly the value that went in,
            # raising a float yields a number without variables, wrapping keeps kind and value
            it, vb = da[1], f2b(meta)
            if oc == 0:
                good = (it[0]["vars"] == [] and it[0]["du"] == [] and f2b(it[0]["re"][1]) == vb and it[1]["vars"] == []
                        and f2b(it[1]["re"][1]) == vb and it[2]["kind"] == 0 and it[3]["kind"] == 0
                        and f2b(it[2]["v"][1]) == vb and f2b(it[3]["v"][1]) == vb)
            else:
                good = (f2b(it[0][1]) == vb and f2b(it[1][1]) == vb and it[2]["kind"] == oc and it[3]["kind"] == oc
                        and f2b(it[2]["v"]["re"][1]) == vb and f2b(it[3]["v"]["re"][1]) == vb)
            ctx.count("direct From test: %s" % ("raise / wrap f64" if oc == 0 else "lower / wrap %s" % KN[["f", "d", "d2"][oc]]))
            if not good:
                ok = False
        if not ok:
            ctx.violation("the implementation disagrees with the proved model on %s: implementation %s, model %s" % (
                desc, str(dg.plain(da))[:300], str(dg.plain(db))[:300]),
                {"case": e, "what_op": desc, "implementation": dg.plain(da), "model": dg.plain(db),
                 "harness_cmd": "echo 'c %s' | harness/target/release/rlharness dual" % " ".join(str(t) for t in e)})
    # the binary table once more with operands that SHARE one variable list whenever they list the same names (two numbers
    # derived from the same variables; harness RL_PRESENT=2): the model has no storage, the answers are the same
    bin_idx = [k for k, c in enumerate(cases) if c[0] == "bin"]
    impl2 = run_harness("dual", ["c " + " ".join(str(x) for x in encd[k]) for k in bin_idx], present=2)
    for k, a in zip(bin_idx, impl2):
        tag, e, desc, oc = cases[k][:4]
        ctx.evaluations += 1
        ctx.count("binary table with shared variable lists")
        ok, da, db = dg.agree(a, model[k], schema_for(tag, oc), rtol=1e-9)
        if not ok:
            ctx.violation("with operands sharing one variable list the implementation disagrees with the proved model on %s: "
                          "implementation %s, model %s" % (desc, str(dg.plain(da))[:300], str(dg.plain(db))[:300]),
                          {"case": e, "what_op": desc, "present": 2, "implementation": dg.plain(da), "model": dg.plain(db),
                           "harness_cmd": "echo 'c %s' | RL_PRESENT=2 harness/target/release/rlharness dual" % " ".join(str(t) for t in e)})
    for c in cases[::max(1, len(cases) // 5)][:5]:
        ctx.sample(c[2])
    ctx.exhaustive = True
    return ctx.finish("make -C coq theories/Props/C18.vo && coqc Assum_C18.v (Print Assumptions)")


def replay(ctx, rp):
    build_harness()
    build_coq(["theories/Run/RunDual.vo"])
    c = rp["case"]
    a = run_harness("dual", ["c " + " ".join(str(x) for x in c)], present=rp.get("present", 0))[0]
    b = coq_eval("Run.RunDual", "runDual", [c], ctx.work)[0]
    print("implementation", a, "\nmodel", b)
    ctx.cleanup()
    return 0 if a == b else 1
