"""C07 — built-in holiday calendars agree with their published rules.

Proof: Props/C07.v over the GENERATED files Gen/*.v (translator driver/translate.py, re-run from /repo on every run):
each table is compared with Model/Rules.v on all 84 371 days 1970-2200 inside the Coq kernel (Proofs/RulesP_*.v, one
file per table, cached by make while the generated file is unchanged).
Correspondence (ties the translator to the running code): for every built-in name and EVERY date 1960-2210 the real
get_calendar_by_name(name).is_holiday / is_bus_day equal the generated table's (hashed per year, drill-down on mismatch).
When an obligation no longer checks, Run/RunNamed.v computes the disagreeing dates inside Coq and the harness confirms
them on the real code."""
from common import *  # noqa
import datetime
import calgen
import translate

FULL = ["tgt", "nyc", "fed", "ldn", "stk", "osl", "zur"]
PARTIAL = ["tro", "tyo", "syd", "wlg", "mum"]
D0, D1 = 0, calgen.D2200
# publication dates that are accepted as exceptions of the fixing-history statement (driver-side search only; the Coq
# theorem C07_fixings has no exception list and none is needed on the pinned data)
FIXING_EXCEPTIONS = {}      # e.g. {"usd": [19811]}
CMD = "make -C coq theories/Props/C07.vo && coqc Assum_C07.v (Print Assumptions)"


def enc(s):
    return [len(s)] + [ord(c) for c in s]


def hline(op, name, args=()):
    return op + " " + " ".join(str(x) for x in enc(name) + list(args))


def easter(y):
    a, b, c = y % 19, y // 100, y % 100
    d, e, f = b // 4, b % 4, (b + 8) // 25
    g = (b - f + 1) // 3
    h = (19 * a + b - d - g + 15) % 30
    i, k = c // 4, c % 4
    l = (32 + 2 * e + 2 * i - h - k) % 7
    m = (a + 11 * h + 22 * l) // 451
    return calgen.dn(y, (h + l - 7 * m + 114) // 31, (h + l - 7 * m + 114) % 31 + 1)


def year_chunks(step):
    out = []
    y = 1970
    while y <= 2200:
        d0 = calgen.dn(y, 1, 1)
        d1 = min(calgen.dn(min(y + step, 2201), 1, 1) - 1, D1)
        out.append((d0, d1 - d0 + 1))
        y += step
    return out


def real_one(name, d):
    """(is_holiday, is_bus_day, is_weekday) of the real get_calendar_by_name(name) or None (Err) / 'abort'."""
    r = run_harness("named", [hline("one", name, [d])])[0]
    if r == [1]:
        return None
    if r == [2]:
        return "abort"
    return r[1:4]


def search_failing_input(ctx, summ):
    """A C07 obligation does not compile any more: compute the counter-examples inside Coq (Run/RunNamed.v does not
    depend on the proofs) and confirm them on the real code. Returns the number of findings registered."""
    ok, log = build_coq(["theories/Run/RunNamed.vo"])
    if not ok:
        ctx.notes.append("Run/RunNamed.vo does not build: " + log[-800:])
        return 0
    have_harness = harness_stage(ctx)
    plan = []
    for nm in FULL:
        for d0, cnt in year_chunks(16):
            plan.append(("full", nm, [10] + enc(nm) + [d0, cnt]))
    for nm in PARTIAL:
        for d0, cnt in year_chunks(16):
            plan.append(("partial", nm, [11] + enc(nm) + [d0, cnt]))
    for d0, cnt in year_chunks(16):
        plan.append(("fednyc", "fed", [12, 0, d0, cnt]))
    for ccy, cal in translate.FIXINGS:
        plan.append(("fix", ccy, [13] + enc(ccy)))
    plan.append(("doc", "", [14, 0]))
    plan.append(("allbus", "", [15, 0]))
    res = coq_eval("Run.RunNamed", "runNamed", [p[2] for p in plan], ctx.work, shard=4, tag="search")
    found = []   # (kind, name, day or None, text)
    for (kind, nm, case), r in zip(plan, res):
        if kind in ("full", "partial", "fednyc"):
            if r[:1] == [0]:
                for d in r[1:]:
                    found.append((kind, nm, d))
            else:
                found.append((kind + "-unresolved", nm, None))
        elif kind == "fix":
            if r[:1] == [0]:
                for d in r[3:]:
                    if d not in FIXING_EXCEPTIONS.get(nm, []):
                        found.append((kind, nm, d))
            else:
                found.append(("fix-unresolved", nm, None))
        elif kind == "doc":
            for i in r[1:]:
                found.append(("doc", summ["doc_names"][i], None))
        elif kind == "allbus" and r != [1]:
            found.append(("allbus", "all/bus", None))
    # de-duplicate unresolved entries
    seen, uniq = set(), []
    for f in found:
        if f not in seen:
            seen.add(f)
            uniq.append(f)
    ctx.notes.append("counter-examples computed in Coq: %d" % len(uniq))
    # confirm at most 6 per (kind, name) on the real code, in two batches (model table values, harness)
    per, picked = {}, []
    for f in uniq:
        k = (f[0], f[1])
        per[k] = per.get(k, 0) + 1
        if per[k] <= 6:
            picked.append(f)
    ctx.notes.append("counter-examples per (kind, name): %s" % {("%s:%s" % k): v for k, v in per.items()})
    fixmap = dict(translate.FIXINGS)
    harness_path = "/repo"
    m = re.search(r'rateslib\s*=\s*\{\s*path\s*=\s*"([^"]+)"', open(os.path.join(HARNESS, "Cargo.toml")).read())
    if m:
        harness_path = m.group(1)
    fulls = [(nm, d) for kind, nm, d in picked if kind == "full"]
    mres = coq_eval("Run.RunNamed", "runNamed", [[2] + enc(nm) + [d] for nm, d in fulls], ctx.work, tag="m") if fulls else []
    table_val = {k: (bool(r[1]) if r[:1] == [0] else None) for k, r in zip(fulls, mres)}
    want = set()
    for kind, nm, d in picked:
        if d is None:
            continue
        if kind in ("full", "partial"):
            want.add((nm, d))
        elif kind == "fednyc":
            want.add(("fed", d))
            want.add(("nyc", d))
        elif kind == "fix":
            want.add((fixmap[nm], d))
    want = sorted(want)
    real_val = {}
    if have_harness and want:
        for k, r in zip(want, run_harness("named", [hline("one", nm, [d]) for nm, d in want])):
            real_val[k] = None if r == [1] else ("abort" if r == [2] else r[1:4])
    csv = {}
    n = 0
    for kind, nm, d in picked:
        rp = {"kind": kind, "name": nm, "day_number": d, "date": calgen.fmt_date(d) if d is not None else None,
              "n_counter_examples_of_this_kind": per[(kind, nm)]}
        if kind == "full":
            table_hol = table_val.get((nm, d))
            rules_hol = (not table_hol) if table_hol is not None else None
            real = real_val.get((nm, d))
            real_hol = bool(real[0]) if isinstance(real, list) else real
            conf = isinstance(real, list) and real_hol != rules_hol
            what = ("get_calendar_by_name(%r).is_holiday(%s) is %s on the code the harness is built against (table regenerated from "
                    "%s: %s) but the published rules (%s_script.py) make it %s" % (nm, rp["date"], real_hol, REPO, table_hol, nm,
                                                                                   "a holiday" if rules_hol else "a business day"))
            rp.update({"implementation_is_holiday": real_hol, "table_is_holiday": table_hol, "rules_say_holiday": rules_hol})
        elif kind == "partial":
            real = real_val.get((nm, d))
            real_hol = bool(real[0]) if isinstance(real, list) else real
            conf = isinstance(real, list) and real_hol is False
            what = ("%s is a weekday occurrence of a documented fixed-date / Easter-linked holiday of %r but is not in the table "
                    "regenerated from %s; get_calendar_by_name(%r).is_holiday = %s on the code the harness is built against"
                    % (rp["date"], nm, REPO, nm, real_hol))
            rp.update({"implementation_is_holiday": real_hol, "rules_say_holiday": True})
        elif kind == "fednyc":
            rf, rn = real_val.get(("fed", d)), real_val.get(("nyc", d))
            y = (calgen.EPOCH + datetime.timedelta(days=d)).year
            gf = (d == easter(y) - 2)
            conf = isinstance(rf, list) and isinstance(rn, list) and bool(rf[0]) != (bool(rn[0]) and not gf)
            what = ("'fed' is not 'nyc' without Good Friday on %s: fed.is_holiday=%s nyc.is_holiday=%s good_friday=%s (code the harness is "
                    "built against; the tables regenerated from %s disagree with the statement on this date)"
                    % (rp["date"], rf and rf[0], rn and rn[0], gf, REPO))
            rp.update({"fed": rf, "nyc": rn, "good_friday": gf})
        elif kind == "fix":
            cal = fixmap[nm]
            if nm not in csv:
                csv[nm] = set(translate.parse_csv_dates(os.path.join(REPO, "python", "rateslib", "data", "%s_rfr.csv" % nm)))
            pub = d in csv[nm]
            real = real_val.get((cal, d))
            conf = isinstance(real, list) and bool(real[1]) != pub
            what = ("fixing history %s_rfr.csv vs calendar %r on %s: published=%s but is_bus_day=%s (code the harness is built against)"
                    % (nm, cal, rp["date"], pub, real[1] if isinstance(real, list) else real))
            rp.update({"calendar": cal, "published": pub, "implementation": real})
        elif kind == "doc" or kind.endswith("-unresolved"):
            target = fixmap.get(nm, nm) if kind == "fix-unresolved" else nm
            r = run_harness("named", [hline("res", target)])[0] if have_harness else None
            conf = r is not None and r != [0]
            what = "the calendar name %r (%s) does not resolve: get_calendar_by_name -> %s (0 = Ok, 1 = Err, 2 = abort)" % (target, kind, r)
            rp.update({"name": target, "implementation": r})
        else:   # allbus
            conf = False
            bad = None
            for nm2 in ("all", "bus"):
                tb = summ["tables"].get(dict(summ["wiring_hols"]).get(nm2, ""), ([], []))
                if tb[1]:
                    bad = (nm2, tb[1][0])
            if bad and have_harness:
                real = real_one(bad[0], bad[1])
                conf = isinstance(real, list) and bool(real[0])
                rp.update({"name": bad[0], "day_number": bad[1], "date": calgen.fmt_date(bad[1]), "implementation": real})
            what = "'all' / 'bus' are not holiday-free calendars with the documented week masks (%s)" % (rp,)
        rp["confirmed_on_code_under_test"] = bool(conf)
        rp["harness_cmd"] = ("echo '%s' | harness/target/release/rlharness named" % hline("one", rp["name"], [rp["day_number"]])
                             if rp.get("day_number") is not None and rp.get("name") not in ("", "all/bus") else
                             ("echo '%s' | harness/target/release/rlharness named" % hline("res", rp["name"]) if rp.get("name") not in ("", "all/bus") else None))
        if not conf:
            what += " [not reproduced by the harness, which is built against %s%s]" % (
                harness_path, "" if os.path.realpath(harness_path) == os.path.realpath(REPO) else " while the data were read from " + REPO)
        ctx.violation(what, rp)
        n += 1
    # confirmed findings first in the replay
    ctx.violations.sort(key=lambda v: 0 if v[1].get("confirmed_on_code_under_test") else 1)
    return n


def coqchk_split(ctx):
    """Independent re-check of everything Props/C07.vo depends on with coqchk, split so that it runs in parallel:
    one full run (standard library, models, generated tables, lifting lemmas, spec lemmas) and one `-norec` run per
    vm_compute file and for the two files that only assemble them (each file checked in the context of its admitted
    dependencies, every dependency being checked by one of the other runs)."""
    t0 = time.time()
    pdir = os.path.join(COQ, "theories", "Proofs")
    heavy = sorted(f[:-2] for f in os.listdir(pdir) if f.startswith("RulesP_") and f.endswith(".v"))
    jobs = [("full: RulesP + RulesSpecP + Run/RunNamed", "coqchk -o -silent -Q theories RL RL.Proofs.RulesP RL.Proofs.RulesSpecP RL.Run.RunNamed")]
    jobs += [("norec: " + h, "coqchk -o -silent -Q theories RL -norec RL.Proofs.%s" % h) for h in heavy]
    jobs += [("norec: RulesAllP", "coqchk -o -silent -Q theories RL -norec RL.Proofs.RulesAllP"),
             ("norec: Props/C07", "coqchk -o -silent -Q theories RL -norec RL.Props.C07")]

    def one(job):
        name, cmd = job
        t = time.time()
        p = sh("timeout 2400 " + cmd, cwd=COQ, timeout=2500)
        return name, p.returncode, time.time() - t, p.stdout + p.stderr

    with Lock("coq"):
        with ThreadPoolExecutor(max_workers=NCPU) as ex:
            res = list(ex.map(one, jobs))
    bad = [(n, rc, out[-600:]) for n, rc, _, out in res if rc != 0]
    if bad:
        raise CheckError("coqchk rejects a compiled C07 file: %s" % bad[:3])
    full_out = res[0][3]
    axs = re.findall(r"^\s+([A-Za-z_][A-Za-z0-9_'.]*)\s*$", full_out.split("Axioms:")[-1].split("* Constants")[0], re.M) if "Axioms:" in full_out else []
    if axs:
        raise CheckError("coqchk reports axioms under the C07 development: %s" % axs[:10])
    ctx.notes.append("coqchk: %d runs ok in %.0fs wall (full run %.0fs, slowest -norec %.0fs); axioms of the full run: <none>" % (
        len(res), time.time() - t0, res[0][2], max(r[2] for r in res[1:])))


def correspondence(ctx, summ):
    """translator vs running code: every name, every date, both observables."""
    names = [n for n, _ in summ["wiring_hols"]]
    th = ctx.tier == "thorough"
    # 1960..2210, widened to the year of the earliest / latest table entry if a table reaches beyond that
    allh = [h for t in summ["tables"].values() for h in t[1]]
    y_lo = min([1960] + [(calgen.EPOCH + datetime.timedelta(days=min(allh))).year] if allh else [1960])
    y_hi = max([2210] + [(calgen.EPOCH + datetime.timedelta(days=max(allh))).year] if allh else [2210])
    spans = []
    for y in range(y_lo, y_hi + 1):
        d0 = calgen.dn(y, 1, 1)
        spans.append((d0, calgen.dn(y + 1, 1, 1) - d0))
    ctx.notes.append("correspondence sweep: every date of %d-01-01..%d-12-31 for %d names" % (y_lo, y_hi, len(names)))
    cases = []      # (name, d0, cnt)
    for nm in names:
        for d0, cnt in spans:
            cases.append((nm, d0, cnt))
    # asked in a seeded random order, so that every harness process looks every name up again and again between
    # look-ups of all the others (a resolution that depends on what was resolved before - a cache, a table built
    # lazily - is then exercised, not only the first look-up of each name)
    ctx.rng.shuffle(cases)
    impl = run_harness("named", [hline("hol", nm, [d0, cnt]) for nm, d0, cnt in cases])
    model = coq_eval("Run.RunNamed", "runNamed", [[1] + enc(nm) + [d0, cnt] for nm, d0, cnt in cases], ctx.work,
                     shard=max(8, len(cases) // 64), tag="tab")
    for (nm, d0, cnt), a, b in zip(cases, impl, model):
        ctx.evaluations += 2 * cnt
        ctx.count("table of %r: is_holiday and is_bus_day on every date 1960-2210" % nm, 2 * cnt)
        ctx.nontriv((nm, d0))
        if a == b:
            continue
        ndrill = getattr(ctx, "_ndrill", 0)
        if ndrill >= 6:      # enough failing dates pinned down; the remaining differing years are only counted
            ctx.count("further differing (name, year) blocks not drilled down")
            continue
        ctx._ndrill = ndrill + 1
        lines = [hline("one", nm, [d]) for d in range(d0, d0 + cnt)]
        sa = run_harness("named", lines)
        sb = coq_eval("Run.RunNamed", "runNamed", [[2] + enc(nm) + [d] for d in range(d0, d0 + cnt)], ctx.work, tag="drill")
        hit = False
        for d, p, q in zip(range(d0, d0 + cnt), sa, sb):
            if p != q:
                hit = True
                ctx.violation("get_calendar_by_name(%r) on %s: the running code gives (is_holiday, is_bus_day, is_weekday) = %s but the "
                              "table regenerated from rust/calendars/named gives %s" % (nm, calgen.fmt_date(d), p[1:], q[1:]),
                              {"kind": "translator-vs-code", "name": nm, "day_number": d, "date": calgen.fmt_date(d),
                               "implementation": p, "model": q,
                               "harness_cmd": "echo '%s' | harness/target/release/rlharness named" % hline("one", nm, [d])})
                break
        if not hit:
            ctx.violation("hashed year %s of %r differs between code and generated table but no single date does" % (calgen.fmt_date(d0), nm),
                          {"kind": "translator-vs-code", "name": nm, "day_number": d0, "no_failing_input": True})
    # THE ROUTE a named calendar takes in use: NamedCal::try_new(name) / CalType::NamedCal hold a UnionCal of the table, not
    # the Cal itself - the same sweep through them (harness `holn`, same hash) must give the same answers
    routes = [ctx.rng.choice([1, 2]) for _ in cases]
    impl_n = run_harness("named", [hline("holn", nm, [d0, cnt, rt]) for (nm, d0, cnt), rt in zip(cases, routes)])
    nrep = 0
    for (nm, d0, cnt), rt, a, b in zip(cases, routes, impl_n, model):
        ctx.evaluations += 2 * cnt
        ctx.count("table of a name through %s" % ("NamedCal" if rt == 1 else "CalType::NamedCal"), 2 * cnt)
        if a == b:
            continue
        nrep += 1
        if nrep > 4:
            ctx.count("further differing (name, year) blocks through NamedCal not drilled down")
            continue
        days = list(range(d0, d0 + cnt))
        sa = run_harness("named", [hline("holn", nm, [d, 1, rt]) for d in days])
        sb = coq_eval("Run.RunNamed", "runNamed", [[1] + enc(nm) + [d, 1] for d in days], ctx.work, tag="drilln")
        bad = [d for d, p, q in zip(days, sa, sb) if p != q]
        d = bad[0] if bad else d0
        ctx.violation("%s(%r) on %s: is_holiday / is_bus_day differ from the table regenerated from rust/calendars/named "
                      "(which get_calendar_by_name(%r) itself agrees with)" % ("NamedCal::try_new" if rt == 1 else "CalType::NamedCal", nm,
                                                                                 calgen.fmt_date(d), nm),
                      {"kind": "named-route", "name": nm, "route": rt, "day_number": d, "date": calgen.fmt_date(d),
                       "no_failing_input": not bad,
                       "harness_cmd": "echo '%s' | harness/target/release/rlharness named" % hline("holn", nm, [d, 1, rt])})
    # DIRECT TEST (implementation alone): a built-in calendar named on BOTH sides of the '|' ("nyc|nyc", "FED|fed", "tgt,nyc|nyc")
    # has the holidays and business days of its business side - the same table, date for date
    sub = [c for k, c in enumerate(cases) if k % 7 == 0]
    both = run_harness("named", [hline("holn", "%s|%s" % (nm.upper() if k % 2 else nm, nm), [d0, cnt, 1]) for k, (nm, d0, cnt) in enumerate(sub)])
    plain = run_harness("named", [hline("hol", nm, [d0, cnt]) for nm, d0, cnt in sub])
    nrep2 = 0
    for (nm, d0, cnt), a, b in zip(sub, both, plain):
        ctx.evaluations += 2 * cnt
        ctx.count("a name on both sides of '|' against the table itself", 2 * cnt)
        if a != b and nrep2 < 3:
            nrep2 += 1
            days = list(range(d0, d0 + cnt))
            sa = run_harness("named", [hline("holn", "%s|%s" % (nm, nm), [d, 1, 1]) for d in days])
            sb = run_harness("named", [hline("hol", nm, [d, 1]) for d in days])
            bad = [d for d, p, q in zip(days, sa, sb) if p != q]
            d = bad[0] if bad else d0
            ctx.violation("NamedCal::try_new(%r) on %s: is_holiday / is_bus_day differ from get_calendar_by_name(%r), whose table "
                          "it names on both sides" % ("%s|%s" % (nm, nm), calgen.fmt_date(d), nm),
                          {"kind": "named-both-sides", "name": "%s|%s" % (nm, nm), "single": nm, "day_number": d, "date": calgen.fmt_date(d),
                           "no_failing_input": not bad, "direct_test": True,
                           "harness_cmd": "echo '%s' | harness/target/release/rlharness named" % hline("holn", "%s|%s" % (nm, nm), [d, 1, 1])})
    # name resolution: documented names, wired names, and strings that must not resolve
    rng = ctx.rng
    probes = sorted(set(summ["doc_names"]) | set(names)) + ["", "TGT", "Tgt", "tgt ", " tgt", "tgt,ldn", "tgt|fed", "xyz", "ny", "nycc", "fe",
                                                             "target", "eur", "usd", "gbp", "lon", "stK", "buṡ", "äll"]
    for _ in range(200 if th else 40):
        base = rng.choice(names)
        r = rng.random()
        if r < 0.3:
            s = base[:rng.randint(0, 2)] + rng.choice("abcdefghijklmnopqrstuvwxyz") + base[rng.randint(1, 3):]
        elif r < 0.6:
            s = "".join(c.upper() if rng.random() < 0.5 else c for c in base)
        else:
            s = base + rng.choice([" ", ",", "|", "s", "\t", "é"])
        probes.append(s)
    ia = run_harness("named", [hline("res", s) for s in probes])
    ib = coq_eval("Run.RunNamed", "runNamed", [[3] + enc(s) for s in probes], ctx.work, tag="res")
    for s, a, b in zip(probes, ia, ib):
        ctx.evaluations += 1
        ctx.count("name lookup: %s" % ("resolves" if a == [0] else "does not resolve"))
        ctx.nontriv(("res", s))
        if a != b:
            ctx.violation("get_calendar_by_name(%r): code %s, generated wiring %s (0 = Ok, 1 = Err, 2 = abort)" % (s, a, b),
                          {"kind": "name-lookup", "name": s, "implementation": a, "model": b,
                           "harness_cmd": "echo '%s' | harness/target/release/rlharness named" % hline("res", s)})


def run(ctx):
    ctx.rule = ("Proof side: every day 1970-01-01..2200-12-31 of every table, inside the kernel (no sampling). Correspondence: for each of "
                "the wired names, every date of 1960-2210 (one hashed case per name and year, is_holiday and is_bus_day; drill-down to "
                "the date on a mismatch), i.e. exhaustive over the supported range plus ten years either side; name lookup for all "
                "documented / wired names and seeded near-misses (one letter changed, upper case, trailing separators, non-ASCII). "
                "Non-trivial: every (name, year) case and every probed name.")
    ctx.trusted = [
        "Coq 8.16.1 kernel incl. its bytecode VM (vm_compute closes the finite checks); no axioms",
        "driver/translate.py (regex translation of the holiday tables, name wiring, documented names, CSV dates) - tied to the running code "
        "by this run's exhaustive correspondence",
        "Model/Rules.v is a hand transcription of the pandas rules in rust/calendars/named/*_script.py (pandas/dateutil themselves are not "
        "run: no pandas in the sandbox); C07_easter_is_a_sunday and C07_rules_well_formed check the transcription's own side conditions",
        "chrono day numbering modelled by Model/Dates.v (C08 check)",
    ]
    ctx.assumptions = ["'published rules' = the RULES lists of the generator scripts shipped in the repo (validity dates and one-off dates included)",
                       "for tro, tyo, syd, wlg, mum only the implication 'documented fixed-date / Easter-linked holiday on a weekday => holiday' is claimed, as the property states"]
    ctx.exhaustive = True
    gen_dir = os.path.join(COQ, "theories", "Gen")
    try:
        summ = translate.generate(REPO, gen_dir)
        named_dir = os.path.join(REPO, "rust", "calendars", "named")
    except (translate.TranslateError, OSError, ValueError) as e:
        # the data cannot even be read: look for a built-in name the real code cannot construct
        ctx.obligations = theorems_of("C07")
        found = False
        if harness_stage(ctx):
            names = calgen.BUILTIN
            res = run_harness("named", [hline("res", n) for n in names])
            for n, r in zip(names, res):
                if r != [0]:
                    found = True
                    ctx.violation("get_calendar_by_name(%r) -> %s (1 = Err, 2 = abort) and the data files cannot be translated: %s" % (n, r, e),
                                  {"kind": "unreadable-data", "name": n, "implementation": r, "translator_error": str(e),
                                   "harness_cmd": "echo '%s' | harness/target/release/rlharness named" % hline("res", n)})
        if not found:
            ctx.violation("the calendar data of the repo can no longer be translated (%s): the C07 theorems cannot be re-proved" % e,
                          {"no_failing_input": True, "correspondence": "driver/translate.py", "translator_error": str(e)})
        return ctx.finish(CMD)
    ctx.notes.append("translator: %d tables, sizes %s, regenerated files changed: %s" % (len(summ["tables"]), summ["table_sizes"], summ["changed"]))
    t0 = time.time()
    # common.proof_stage would run one sequential `coqchk RL.Props.C07` in the thorough tier; coqchk has no bytecode VM and
    # needs well over an hour for the seventeen 84 371-day sweeps, so it is replaced here by coqchk_split (same coverage, parallel)
    user_no_coqchk = os.environ.get("VERIF_NO_COQCHK") == "1"
    os.environ["VERIF_NO_COQCHK"] = "1"
    try:
        ok = proof_stage(ctx, ["theories/Run/RunNamed.vo"])
    finally:
        if not user_no_coqchk:
            del os.environ["VERIF_NO_COQCHK"]
    if not ok:
        ctx.notes.append("proof stage failed after %.0fs; searching for the failing (name, date) inside Coq" % (time.time() - t0))
        n = search_failing_input(ctx, summ)
        if n == 0 and not ctx.violations:
            ctx.violation("a C07 proof obligation no longer compiles and no disagreeing date was found", {
                "no_failing_input": True, "theorem": "Props/C07.v", "log_tail": getattr(ctx, "build_log", "")[-3000:]})
        return ctx.finish(CMD)
    ctx.notes.append("proof stage %.0fs" % (time.time() - t0))
    if not harness_stage(ctx):
        return ctx.finish(CMD)
    t0 = time.time()
    correspondence(ctx, summ)
    ctx.notes.append("correspondence %.0fs" % (time.time() - t0))
    if ctx.tier == "thorough" and not user_no_coqchk:
        coqchk_split(ctx)
    ctx.sample({"call": "get_calendar_by_name('nyc').is_holiday/is_bus_day on 2024-01-01..2024-12-31 (hashed)"})
    return ctx.finish(CMD)


def replay(ctx, rp):
    build_harness()
    build_coq(["theories/Run/RunNamed.vo"])
    nm, d = rp.get("name"), rp.get("day_number")
    if d is None:
        a = run_harness("named", [hline("res", nm)])[0]
        b = coq_eval("Run.RunNamed", "runNamed", [[3] + enc(nm)], ctx.work)[0]
        print("replay get_calendar_by_name(%r): code %s, generated wiring %s" % (nm, a, b))
        ctx.cleanup()
        return 0 if a == b == [0] else 1
    if rp.get("kind") == "named-both-sides":
        a = run_harness("named", [hline("holn", nm, [d, 1, 1])])[0]
        b = run_harness("named", [hline("hol", rp["single"], [d, 1])])[0]
        print("replay %r against %r on %s: %s vs %s" % (nm, rp["single"], calgen.fmt_date(d), a, b))
        ctx.cleanup()
        return 0 if a == b else 1
    if rp.get("kind") == "named-route":
        a = run_harness("named", [hline("holn", nm, [d, 1, rp.get("route", 1)])])[0]
        b = coq_eval("Run.RunNamed", "runNamed", [[1] + enc(nm) + [d, 1]], ctx.work)[0]
        print("replay NamedCal route %r on %s: code hash %s, generated table hash %s" % (nm, calgen.fmt_date(d), a, b))
        ctx.cleanup()
        return 0 if a == b else 1
    a = run_harness("named", [hline("one", nm, [d])])[0]
    b = coq_eval("Run.RunNamed", "runNamed", [[2] + enc(nm) + [d]], ctx.work)[0]
    extra = ""
    bad = a != b
    if nm in FULL:
        r = coq_eval("Run.RunNamed", "runNamed", [[10] + enc(nm) + [d, 1]], ctx.work)[0]
        extra = " ; rules vs table disagree here: %s" % (r[1:] == [d])
        bad = bad or r[1:] == [d]
    elif nm in PARTIAL:
        r = coq_eval("Run.RunNamed", "runNamed", [[11] + enc(nm) + [d, 1]], ctx.work)[0]
        extra = " ; documented holiday missing here: %s" % (r[1:] == [d])
        bad = bad or r[1:] == [d]
    print("replay get_calendar_by_name(%r) on %s: code (hol,bus,wd) %s, generated table %s%s" % (nm, calgen.fmt_date(d), a[1:], b[1:], extra))
    ctx.cleanup()
    return 1 if bad else 0
