"""C20 — fallible entry points return errors, never abort; date arithmetic is total.
Proof: Props/C20.v.  Correspondence: the panic-aware models (Model/Calendar.v, Dates.v, Dual.v, FX.v, Named.v,
Json.v, Entry.v) against the real code through `rlharness cal` and `rlharness json` (feature verif_hooks, hook H3)."""
from common import *  # noqa
import math
import calgen
import calrun
import jsongen as J
import translate

CMD = "make -C coq theories/Props/C20.vo && coqc Assum_C20.v (Print Assumptions)"


# ---------------------------------------------------------------------------------------------- dates
def gen_date_cases(ctx):
    rng = ctx.rng
    th = ctx.tier == "thorough"
    cases = []
    lo, hi = calgen.dn(1999, 1, 1), calgen.dn(2031, 12, 31)
    for _ in range(60 if th else 8):
        enc, info = calgen.gen_calendar(rng, lo, hi)
        ctx.count("dates: calendar kind %d" % info["kind"])
        # every value of the 8-bit day count x {add_bus_days, lag, add_days} x 2 settlement flags
        for d in calgen.interesting_dates(rng, info, lo, hi, 3 if th else 2):
            cases.append((enc, 32, [d, rng.randrange(5)]))
        # month offsets at the extremes +-(2200-1970)*12 and around, all roll kinds, roll days 0..33
        for _ in range(40 if th else 10):
            y, m = rng.randint(1970, 2200), rng.randint(1, 12)
            d = calgen.dn(y, m, min(rng.choice([1, 15, 28, 29, 30, 31]), calgen.month_end(y, m) - calgen.dn(y, m, 1) + 1))
            klo, khi = (1970 - y) * 12 - (m - 1), (2200 - y) * 12 + (12 - m)
            k = rng.choice([klo, khi, klo + 1, khi - 1, 0, rng.randint(klo, khi), rng.randint(-30, 30)])
            k = max(klo, min(khi, k))
            rk = rng.randrange(5)
            rd = rng.randint(0, 33) if rk == 1 else 0
            cases.append((enc, 14, [d, k, rng.randrange(5), rk, rd, rng.randrange(2)]))
            ctx.count("dates: add_months roll kind %d" % rk)
    for nm in ["tgt", "ldn,tgt|fed", "nyc", "bus"]:
        enc = calgen.enc_named(nm, 4)
        y = rng.randint(1970, 2199)
        cases.append((enc, 32, [calgen.dn(y, rng.randint(1, 12), rng.randint(1, 28)), rng.randrange(5)]))
    # EVERY February 1970-2200 as the landing month of a shift whose roll day the month does not have (29/30/31, EoM, or an
    # unspecified roll from the 29th-31st), and a sample of the other short months: the result must be a date, never an abort
    enc = [0] + calgen.enc_cal([5, 6], [])
    for y in range(1970, 2201):
        k = rng.choice([1, 13, -11, 25]) if 1971 < y < 2200 else 1
        sy, sm = y + (2 - 1 - k) // 12, (2 - 1 - k) % 12 + 1
        for rk, rd, sd in ((1, rng.choice([29, 30, 31]), rng.randint(1, 28)), (2, 0, rng.randint(1, 28)), (0, 0, rng.choice([29, 30, 31]))):
            if sy < 1970:
                continue
            sd = min(sd, calgen.month_end(sy, sm) - calgen.dn(sy, sm, 1) + 1)
            cases.append((enc, 14, [calgen.dn(sy, sm, sd), k, rng.randrange(5), rk, rd, rng.randrange(2)]))
        m = rng.choice([4, 6, 9, 11])
        cases.append((enc, 14, [calgen.dn(y, m - 1, 31 if m - 1 in (3, 5, 8, 10) else 30), 1, rng.randrange(5), rng.choice([0, 1]), 31, 0]))
    ctx.count("dates: add_months into every February 1970-2200", 231 * 3)
    # roll days 0..33 exhaustively on one calendar
    enc = [0] + calgen.enc_cal([5, 6], [calgen.dn(2024, 3, 29)])
    for rd in range(0, 34):
        cases.append((enc, 14, [calgen.dn(2024, 1, 31), rng.choice([1, 13, -11]), rng.randrange(5), 1, rd, 0]))
    return cases


def date_nontrivial(enc, op, args, out):
    return op == 32 or (len(out) == 2 and out[0] == 0)


def out_of_documented_range(op, args):
    # roll day 0 / > 31 for add_months (op 14: d k m rk rd s)
    return op == 14 and args[3] == 1 and not (1 <= args[4] <= 31)


# ---------------------------------------------------------------------------------------------- constructors
STRINGS = ["usd", "USD", "eur", "Eur", "FOUR", "", "ab", "é1", "日", "€", "😀", "u s", "us\n", "gbp", "jpy", "a", "aé",
           "nok", "xyz", "12é", "1", "123", "é",
           # 3 bytes as GIVEN but not after lower-casing (and the reverse): U+0130 (2 bytes -> 3), U+212A KELVIN SIGN (3 -> 1),
           # U+1E9E CAPITAL SHARP S (3 -> 2) - the stored code is the lower-cased one and IT must be 3 bytes
           "\u0130a", "\u0130", "\u212a", "\u1e9e", "a\u212a", "\u212aaa", "\u1e9ea", "ab\u0130"]
CALNAMES = ["", ",", "|", "tgt", "TGT", "tgt|", "|tgt", "tgt,,ldn", "tgt|ldn|fed", "tgt,ldn|fed", "bad", "tgt,bad", "ldn|bad",
            "tgt ", " tgt", "tgt\n", "日本", "TgT,LdN|NyC", "all", "bus", "fed|fed", "nyc,nyc", "stK", "é", "tgt,ldn,fed,nyc,stk,osl",
            # characters whose lower-casing changes their UTF-8 length (U+0130 2 -> 3 bytes, KELVIN SIGN U+212A 3 -> 1) on either
            # side of the separators: byte offsets taken in one spelling are not valid in the other
            "\u0130|tgt", "tgt|\u0130", "st\u212a,st\u212a|", "tgt,st\u212a|fed", "st\u212a|st\u212a", "\u0130,tgt|fed", "\u212a|\u0130",
            "tgt,\u0130|ldn,\u212a", "\u0130\u0130\u0130|tgt", "\u212a\u212a\u212a\u212a|tgt", "bus|st\u212a", "t\u212at|tgt"]


def ename(s):
    return J.enc_name(s)


def gen_ctor_cases(ctx):
    """list of (label, harness line, model case)"""
    rng = ctx.rng
    th = ctx.tier == "thorough"
    out = []

    def add(label, op, mop, args):
        out.append((label, op + " " + " ".join(map(str, args)), [mop] + list(args)))
        ctx.count("ctor: " + op)
    pool = ["x", "y", "x", "", "a b", "é", "日本", "v0", "y"]
    for _ in range(400 if th else 60):
        n = rng.randint(0, 4)
        names = [rng.choice(pool) for _ in range(n)]
        nu = len(dict.fromkeys(names))
        nd = rng.choice([0, nu, nu, n, nu + 1, max(0, nu - 1)])
        args = J.enc_names(names) + [J.f2b(J.safe_float(rng)), nd] + [J.f2b(J.safe_float(rng)) for _ in range(nd)]
        add("Dual::try_new", "dual", 10, args)
        ndd = rng.choice([0, nu * nu, nu * nu, nu, nu * nu + 1, n * n])
        args2 = args + [ndd] + [J.f2b(J.safe_float(rng)) for _ in range(ndd)]
        add("Dual2::try_new", "dual2", 11, args2)
    for s in STRINGS:
        add("Ccy::try_new", "ccy", 12, ename(s))
    for _ in range(300 if th else 60):
        a, b = rng.choice(STRINGS), rng.choice(STRINGS)
        add("FXPair::try_new", "fxpair", 13, ename(a) + ename(b))
        add("FXRate::try_new", "fxrate", 14, ename(a) + ename(b) + J.gen_number(rng, J.safe_float))
    for s in CALNAMES:
        add("NamedCal::try_new", "named", 16, ename(s))
    # FXRates::try_new: valid trees and every kind of inconsistency
    for _ in range(200 if th else 40):
        enc = J.gen_fx(rng, J.safe_float)
        add("FXRates::try_new", "fxrates", 15, enc)
    # LARGE markets (13 .. 24 currencies; chains, stars, random trees): a value, never an abort, whatever the size
    import fxgen
    for n in ([13, 15, 16, 17, 20, 24] if not th else list(range(13, 25))):
        for shape in ("chain", "star", "random"):
            cs = rng.sample(fxgen.CCYS, n)
            enc = [n - 1]
            for i in range(1, n):
                a = cs[i - 1] if shape == "chain" else cs[0] if shape == "star" else cs[rng.randrange(i)]
                b = cs[i]
                if rng.random() < 0.5:
                    a, b = b, a
                enc += ename(a) + ename(b) + [0, J.f2b(float(rng.choice([1.5, 0.25, 110.0, 0.9, 7.0])))] + [0]
            enc += ([1] + ename(rng.choice(cs))) if rng.random() < 0.5 else [0]
            enc += [rng.choice([0, 1, 2]), 0]
            add("FXRates::try_new (large market)", "fxrates", 15, enc)
    ccy = ["usd", "eur", "gbp", "jpy", "nok"]
    for _ in range(200 if th else 40):
        nq = rng.randint(0, 5)
        enc = [nq]
        st = rng.choice([None, 1, 2])
        for _ in range(nq):
            a, b = rng.choice(ccy), rng.choice(ccy + ["usdx"])
            enc += ename(a) + ename(b) + J.gen_number(rng, J.safe_float, (0, 1, 2))
            s = None if st is None else (calgen.dn(2004, 1, 1) if st == 1 or rng.random() < 0.7 else calgen.dn(2004, 1, 2))
            if st == 2 and rng.random() < 0.3:
                s = None
            enc += [1, s] if s is not None else [0]
        if rng.random() < 0.5:
            enc += [1] + ename(rng.choice(ccy + ["chf", "FOUR"]))
        else:
            enc += [0]
        enc += [rng.choice([0, 1, 2]), 0]
        add("FXRates::try_new (malformed)", "fxrates", 15, enc)
    # Cal::new week masks: every value 0..8 alone and in pairs
    for v in range(0, 9):
        add("Cal::new", "calnew", 17, [1, v])
    for _ in range(30):
        m = [rng.randint(0, 8) for _ in range(rng.randint(0, 7))]
        add("Cal::new", "calnew", 17, [len(m)] + m)
    # csolve: valid, lengths off, repeated sites, least squares, derivative orders, degenerate orders
    fs0 = lambda l: [len(l)] + [J.f2b(float(x)) for x in l]
    # smallest aborting call found: order 1, knots 0..4, a repeated data site (singular collocation matrix)
    add("PPSpline::csolve", "csolve", 18, [1] + fs0([0, 1, 2, 3, 4]) + fs0([0.5, 0.5, 2.5, 3.5]) + fs0([1, 2, 3, 4]) + [0, 0, 0])
    for _ in range(300 if th else 50):
        k = rng.choice([1, 2, 3, 4, 4, 4])
        nint = rng.randint(1, 4)
        xs = [float(i) for i in range(nint + 1)]
        t = [xs[0]] * (k - 1) + xs + [xs[-1]] * (k - 1)
        n = len(t) - k
        r = rng.random()
        ntau = n if r < 0.6 else (n + rng.randint(1, 3) if r < 0.8 else max(0, n - 1))
        tau = sorted(round(rng.uniform(xs[0], xs[-1]), 2) for _ in range(ntau))
        if tau and rng.random() < 0.5:
            tau[0], tau[-1] = xs[0], xs[-1]
        if len(tau) >= 3 and rng.random() < 0.25:
            tau[1] = tau[2]                       # a repeated data site: singular collocation matrix
        ny = ntau if rng.random() < 0.9 else ntau + 1
        y = [J.safe_float(rng) for _ in range(ny)]
        ln, rn = rng.choice([0, 0, 1, 2]), rng.choice([0, 0, 1, 2])
        lsq = int(ntau > n or rng.random() < 0.2)
        fs = lambda l: [len(l)] + [J.f2b(float(x)) for x in l]
        add("PPSpline::csolve", "csolve", 18, [k] + fs(t) + fs(tau) + fs(y) + [ln, rn, lsq])
    return out


# ---------------------------------------------------------------------------------------------- from_json
def shape_ok(kind, sh):
    """the shape invariant, evaluated on the integers the harness read off the real object"""
    if kind == 0:
        return sh[0] == sh[1]
    if kind == 1:
        return sh[0] == sh[1] == sh[2] == sh[3]
    if kind == 6:
        return sh[2] == 1 and sh[3] == 1
    if kind in (7, 8, 9):
        k, nt, n, nc, nd, wf = sh      # what PPSpline::new establishes (it does not look at the count of coefficients)
        return nt > 1 and k <= nt and n == nt - k and nd == 1 and wf == 1
    return True


def top_type(doc):
    if isinstance(doc, J.Obj) and doc.kv and isinstance(doc.kv[0][0], str):
        return doc.kv[0][0]
    return "?"


O = J.Obj


def _arr1(l):
    return O([("v", 1), ("dim", [len(l)]), ("data", list(l))])


# minimal documents of the classes found at design time (DESIGN §6 F4, F5), replayed first on every run
CORPUS = [
    O([("NamedCal", O([("name", "bad")]))]),
    O([("FXRates", O([("fx_rates", []), ("currencies", [])]))]),
    O([("FXRates", O([("fx_rates", []), ("currencies", [O([("name", "usd")])])]))]),
    O([("Dual", O([("real", 2.5), ("vars", ["x", "y"]), ("dual", _arr1([1.0]))]))]),
    O([("Dual2", O([("real", 2.5), ("vars", ["x"]), ("dual", _arr1([1.0])),
                    ("dual2", O([("v", 1), ("dim", [0, 5]), ("data", [])]))]))]),
    O([("PPSplineF64", O([("inner", O([("k", 2), ("t", [0.0, 1.0]), ("c", None), ("n", 7)]))]))]),
    O([("Curve", O([("inner", O([("nodes", O([("F64", O([(86400, 1.0), (0, 0.99)]))])), ("interpolator", O([("Linear", O([]))])),
                                 ("id", "v"), ("convention", "Act360"), ("modifier", "ModF"), ("index_base", None),
                                 ("calendar", O([("NamedCal", O([("name", "all")]))]))]))]))]),
    O([("Curve", O([("inner", O([("nodes", O([("F64", O([(0, 1.0)]))])), ("interpolator", O([("Linear", O([]))])),
                                 ("id", "v"), ("convention", "Act360"), ("modifier", "ModF"), ("index_base", None),
                                 ("calendar", O([("NamedCal", O([("name", "bad")]))]))]))]))]),
]


def gen_load_cases(ctx, nobj):
    rng = ctx.rng
    objs = []
    for i in range(nobj):
        objs.append(J.gen_obj(rng, i % 10))
    impl = run_harness("json", ["enc " + " ".join(map(str, o)) for o in objs])
    docs = []
    for o, a in zip(objs, impl):
        if a and a[0] == 0:
            docs.append(J.parse_text(J.text_of_out(a, 1)[0]))
    cases = [(d, "corpus") for d in CORPUS]
    per = 8
    for d in docs:
        for _ in range(per):
            r = rng.random()
            if r < 0.10:
                cases.append((d, "valid"))
                ctx.count("load: valid document")
                continue
            m, lab = J.mutate(rng, d)
            if lab is None:
                continue
            if r < 0.40:
                m2, lab2 = J.mutate(rng, m)
                if lab2:
                    m, lab = m2, lab + " + " + lab2
                ctx.count("load: double mutation")
            else:
                ctx.count("load: single mutation")
            for part in lab.split(" + "):
                w = part.split()
                two = w[0] in ("delete", "duplicate", "drop", "repeat", "add", "empty", "struct", "top", "shuffle", "rotate", "unknown",
                               "reshape", "consistent", "calendar", "swap", "enum")
                ctx.count("load mutation kind: " + " ".join(w[:2] if two else w[:1]))
            cases.append((m, lab))
    return cases


def raw_cases(ctx, docs_text):
    rng = ctx.rng
    out = []
    for s in docs_text:
        for _ in range(3):
            r = rng.random()
            if r < 0.4:
                t = s[:rng.randrange(len(s))]
            elif r < 0.7:
                i = rng.randrange(len(s))
                t = s[:i] + rng.choice(["}", "{", ",", "\"", "\\", "]", "nul", "1e999", "\x00", "é"]) + s[i + 1:]
            else:
                t = s + rng.choice(["}", " x", "{}", "\n\n"])
            try:
                json.loads(t)
                continue                                    # still JSON: covered by the tree mutator
            except Exception:
                out.append(t)
    return out


def classify_panic(doc):
    ty = top_type(doc)
    if ty == "FXRates":
        return ty, "panic-on-inconsistent-fx"
    return ty, "panic-on-unknown-name"


def harness_cmd(domain, line):
    return "echo '%s' | harness/target/release/rlharness %s" % (line, domain)


def run_load(ctx, cases):
    encs = [J.enc_tree(d) for d, _ in cases]
    lines = ["load " + " ".join(map(str, e)) for e in encs]
    impl = run_harness("json", lines)
    model = coq_eval("Run.RunJson", "runJson", [[1] + e for e in encs], ctx.work, shard=60, tag="load")
    groups = {}           # (entry, type, class) -> smallest failing case
    for (doc, lab), e, ln, a, b in zip(cases, encs, lines, impl, model):
        ctx.evaluations += 1
        ctx.count("load outcome: %s" % {0: "Ok", 1: "Err", 2: "ABORT"}.get(a[0], "?"))
        ty = top_type(doc)
        ctx.count("load type: %s" % ty)
        agree = a[0] == b[0]
        ta = tb = None
        if agree and a[0] == 0:
            ns = a[2]
            agree = a[1:3 + ns] == b[1:3 + ns]
            if agree:
                txt, _ = J.text_of_out(a, 3 + ns)
                ta, tb = J.canon(J.parse_text(txt)), J.canon(J.dec_tree(b, 3 + ns)[0])
                agree = ta == tb
            if ns and lab != "valid":
                ctx.nontriv(("load", tuple(e)))
        elif a[0] in (1, 2) and lab != "valid":
            ctx.nontriv(("load", tuple(e)))
        base = {"part": "load", "entry": "from_json", "type": ty, "mutation": lab, "document": J.show(doc, 2000),
                "tree": e, "implementation": a[:40], "model": b[:40], "harness_cmd": harness_cmd("json", ln)[:6000]}
        if a[0] == 2:
            ty2, cls = classify_panic(doc)
            site = panic_site("json", ln)
            key = ("from_json", ty2, cls + (" at " + site[0] if site else ""))
            what = ("from_json ABORTS (Rust panic%s, a PanicException in Python) instead of returning an error on the document %s"
                    % (" at %s:%d: %s" % site if site else "", J.show(doc, 400)))
            if site:
                base["panic_file"], base["panic_line"], base["panic_msg"] = site
        elif a[0] == 0 and not shape_ok(a[1], a[3:3 + a[2]]):
            key = ("from_json", J.KINDS[a[1]], "shape-invariant")
            what = ("from_json returns Ok(%s) with stored shapes %s that violate the type's invariant, for the document %s"
                    % (J.KINDS[a[1]], a[3:3 + a[2]], J.show(doc, 400)))
        elif not agree and lab not in ("valid", "corpus"):
            # a MUTATED document on which the real loader and the model decide differently although the real outcome itself
            # satisfies the property (an error, or a value with its full shape): which malformed documents are accepted is
            # not specified (e.g. serde's positional struct form follows the declaration order of the fields) - counted,
            # not a violation.  Unmutated documents must agree (next branch).
            ctx.count("mutated documents decided differently by code and model (real outcome satisfies the property): %s vs %s"
                      % (fmt_load(a).split("(")[0], fmt_load(b).split("(")[0]))
            continue
        elif not agree:
            key = ("from_json", ty, "model-mismatch")
            what = ("from_json: the implementation and the model disagree on the document %s (%s): implementation %s, model %s"
                    % (J.show(doc, 300), lab, fmt_load(a), fmt_load(b)))
        else:
            continue
        rp = dict(base)
        rp["class"] = key[2]
        rp["type"] = key[1]
        size = len(e)
        if key not in groups or size < groups[key][0]:
            groups[key] = (size, what, rp)
        ctx.count("load finding: %s/%s" % (key[1], key[2]))
    for key in sorted(groups):
        _, what, rp = groups[key]
        ctx.violation(what, rp)


def fmt_load(o):
    if o[0] == 0:
        return "Ok(%s, shapes %s)" % (J.KINDS[o[1]] if 0 <= o[1] < 10 else o[1], o[3:3 + o[2]])
    return {1: "Err", 2: "ABORT"}.get(o[0], str(o[:6]))


def run_ctors(ctx, cases):
    impl = run_harness("json", [c[1] for c in cases])
    model = coq_eval("Run.RunJson", "runJson", [c[2] for c in cases], ctx.work, shard=120, tag="ctor")
    groups = {}
    for (label, line, mc), a, b in zip(cases, impl, model):
        ctx.evaluations += 1
        same = a == b
        singular = False
        if label == "PPSpline::csolve":
            # C20 is about the OUTCOME of csolve (value / error / abort) and the shape of what it returns; the coefficient
            # VALUES are C15's business.  The model tells whether the collocation matrix is singular: it then aborts or
            # returns non-finite coefficients (a division by an exact zero); on such input the real code's garbage - or
            # whether a NaN reaches the pivot search and aborts (finding F8) - depends on last-bit rounding and on the
            # tie-breaking between equal pivots, so only "returns n coefficients, or aborts at the F8 site" is demanded.
            singular = b == [2] or (b[:1] == [0] and any(not math.isfinite(b2f(x)) for x in b[2:]))
            if a[:1] == [0] and b[:1] == [0]:
                same = a[:2] == b[:2] and len(a) == len(b)
            elif singular and a[:1] in ([0], [2]) and b[:1] in ([0], [2]):
                same = True
        if a[0] == 1 or (a[0] == 0 and len(a) > 2):
            ctx.nontriv(("ctor", line))
        ent = label.split(" ")[0]
        rp = {"part": "ctor", "entry": ent, "case": mc, "harness_line": line, "implementation": a[:40], "model": b[:40],
              "harness_cmd": harness_cmd("json", line)[:4000]}
        if not same:
            key = (ent, "model-mismatch")
            what = "%s: implementation and model disagree: implementation %s, model %s; input `%s`" % (label, a[:12], b[:12], line[:300])
        elif a[0] == 2 and not ctor_out_of_range(label, mc):
            site = panic_site("json", line)
            key = (ent, "abort", site[0] if site else "?", site[2] if site else "?")
            what = "%s ABORTS (Rust panic%s) instead of returning a value or an error: %s" % (
                label, " at %s:%d: %s" % site if site else "", pretty_ctor(label, mc, line))
            rp["call"] = pretty_ctor(label, mc, line)
            rp["model_outcome"] = "abort" if b == [2] else "returns"
            rp["singular_by_model"] = bool(singular)
            if site:
                rp["panic_file"], rp["panic_line"], rp["panic_msg"] = site
        else:
            continue
        rp["class"] = key[1]
        if key not in groups or len(mc) < groups[key][0]:
            groups[key] = (len(mc), what, rp)
        ctx.count("ctor finding: %s" % "/".join(key))
    for key in sorted(groups):
        _, what, rp = groups[key]
        ctx.violation(what, rp)


def pretty_ctor(label, mc, line):
    """human-readable form of a constructor case"""
    try:
        if label == "PPSpline::csolve":
            a = mc[1:]
            k, nt = a[0], a[1]
            t = [b2f(x) for x in a[2:2 + nt]]
            i = 2 + nt
            ntau = a[i]
            tau = [b2f(x) for x in a[i + 1:i + 1 + ntau]]
            i += 1 + ntau
            ny = a[i]
            y = [b2f(x) for x in a[i + 1:i + 1 + ny]]
            i += 1 + ny
            return "PPSpline::<f64>::new(k=%d, t=%s, None).csolve(tau=%s, y=%s, left_n=%d, right_n=%d, allow_lsq=%s)" % (
                k, t, tau, y, a[i], a[i + 1], bool(a[i + 2]))
    except Exception:
        pass
    return "`%s`" % line[:300]


def ctor_out_of_range(label, mc):
    """inputs outside the ranges the property quantifies over (week-mask values above 6; spline order 0
    or above the knot count, where the constructor PPSpline::new — not a fallible entry point — asserts)"""
    if label == "Cal::new":
        return any(v > 6 for v in mc[2:2 + mc[1]])
    return False


def sibling_ctor_stage(ctx):
    """THE SIBLING CONSTRUCTORS Dual(2)::try_new_from / new_from (the functions behind the Python `vars_from`): a value or an
    error, never an abort - on every pair of variable lists (other's, the new number's), derivatives given / defaulted / of
    the wrong length, and in particular with the new number's names IDENTICAL to the other's (same order) and arrays of the
    wrong length.  Model: Model/Dual.v dual(2)_try_new_from (C20_new_from); `rlharness dual` ops 22 / 23."""
    import props.c03 as c03
    import dualgen as dg
    import random
    rng = random.Random(ctx.seed * 15485863 + 5)
    cases = [c for c in c03.gen_relist_cases(ctx) if c[0] in ("try_new_from", "new_from")]
    L = [l for l in c03.layouts(["x", "y", "z"]) if l]
    for kind in (1, 2):
        for lo in L:
            n = len(lo)
            for nd in sorted(set([0, 1, n - 1, n, n + 1, 2 * n])):
                if nd < 0:
                    continue
                for ndd in ([None] if kind == 1 else sorted(set([0, n * n, n * n + 1, n, max(0, n * n - 1)]))):
                    okind = rng.choice([1, 2])
                    du = [float(rng.choice([1, -2, 0.5, 3])) for _ in range(nd)]
                    e = [22, kind, okind] + dg.enc_names(lo) + dg.enc_f(1.5) + dg.enc_names(lo) + [len(du)] + [f2b(v) for v in du]
                    if kind == 2:
                        e += [ndd] + [f2b(1.0)] * ndd
                    cases.append(("try_new_from", e, "%s::try_new_from(other on (%s), 1.5, the SAME names, %d derivative values%s)" % (
                        "Dual" if kind == 1 else "Dual2", ",".join(lo), nd, "" if kind == 1 else ", %d second-order values" % ndd),
                        ["dual" if kind == 1 else "dual2"], "names identical to the other's"))
    enc = [c[1] for c in cases]
    impl = run_harness("dual", ["c " + " ".join(str(x) for x in c) for c in enc])
    model = coq_eval("Run.RunDual", "runDual", enc, ctx.work, shard=max(50, len(enc) // (NCPU * 3) + 1), tag="c20sib")
    for (tag, e, desc, sch, lab), a, b in zip(cases, impl, model):
        ctx.evaluations += 1
        ok, da, db = dg.agree(a, b, sch, rtol=1e-9)
        ctx.count("ctor: %s -> %s" % (tag, {"ok": "Ok", "err": "Err", "panic": "ABORT"}.get(da[0], da[0])))
        ctx.nontriv(("sib", tuple(e)))
        if da[0] == "panic" or not ok:
            line = "c " + " ".join(str(t) for t in e)
            site = panic_site("dual", line) if da[0] == "panic" else None
            ctx.violation("%s: %s (implementation %s, model %s)" % (
                desc, "ABORTS instead of returning a value or an error" if da[0] == "panic" else "disagrees with the proved model",
                str(dg.plain(da))[:200], str(dg.plain(db))[:200]),
                {"part": "ctor-sibling", "entry": tag, "case": e, "schema": sch, "class": "abort" if da[0] == "panic" else "mismatch",
                 "panic_file": site[0] if site else None, "panic_msg": site[2] if site else None,
                 "implementation": dg.plain(da), "model": dg.plain(db),
                 "harness_cmd": "echo '%s' | harness/target/release/rlharness dual" % line})


def run(ctx):
    th = ctx.tier == "thorough"
    ctx.rule = ("(dates) seeded calendars of all kinds with a common working weekday; add_bus_days / lag / add_days over ALL 256 values "
                "of the i8 day count x 2 settlement flags (hashed, drill-down on mismatch); add_months with offsets at +-(2200-1970)*12 "
                "clipped to 1970-2200, all roll kinds, roll days 0..33; Cal::new masks 0..8. (constructors) Dual/Dual2/Ccy/FXPair/FXRate/"
                "FXRates/NamedCal::try_new and csolve on malformed streams (repeated / empty / non-ASCII names, every length mismatch, "
                "degenerate / cyclic / disconnected / mixed-settlement quote sets, repeated data sites). (from_json) valid documents of "
                "all 10 types written by the real serialiser, then a structured mutator (delete / duplicate / retype / reorder a field, "
                "change a length or an integer, empty a list, unknown calendar name / currency / enum variant / tag, struct as array, "
                "swap node keys): 60% single, 30% double, 10% unmodified; outcome class, stored shapes (read off the real object by "
                "hook H3) and the re-serialised value are compared with the model. Non-trivial = a mutated document, a constructor "
                "that returned an error or a shaped value, a date case; distinct by input.")
    ctx.trusted = [
        "Coq 8.16.1 kernel; no axioms (all C20 theorems closed under the global context)",
        "hand-written panic-site census (Model/*.v), tied to the code by this run's correspondence",
        "serde_json text codec as an interface: documents are JSON trees in the model; the harness prints the tree as text",
        "chrono date arithmetic modelled by Model/Dates.v (exhaustively compared 1970-2200 by the C08 check)",
        "str::to_lowercase modelled for ASCII, U+212A and U+0130 only (generators avoid other cased non-ASCII letters)",
        "named tables regenerated from /repo by driver/translate.py",
    ]
    ctx.assumptions = [
        "date totality is proved under `dense` (every window of FUEL+1 days holds an eligible day); every Cal with a working weekday is proved dense for FUEL = 7*(holidays+1)",
        "FXRates::try_new: at most 181 currencies (i16 edge counter)",
        "out of scope: stack exhaustion, allocation failure, panics inside pyo3, NaN inputs to csolve, JSON integers beyond 2^64, array dimensions beyond isize::MAX",
    ]
    if translate_stage(ctx) is None:
        return ctx.finish(CMD)
    if not proof_stage(ctx, ["theories/Run/RunJson.vo", "theories/Run/RunCal.vo", "theories/Run/RunDual.vo", "theories/Proofs/CsolveWitness.vo"]):
        ctx.violation("a C20 proof obligation or the model no longer compiles",
                      {"no_failing_input": True, "theorem": "Props/C20.v / Run/RunJson.v", "log_tail": getattr(ctx, "build_log", "")[-3000:]})
        return ctx.finish(CMD)
    if not harness_stage(ctx):
        return ctx.finish(CMD)
    # dates
    dcases = gen_date_cases(ctx)
    calrun.run_cases(ctx, dcases, nontrivial=date_nontrivial)
    # constructors
    run_ctors(ctx, gen_ctor_cases(ctx))
    sibling_ctor_stage(ctx)
    # from_json
    lcases = gen_load_cases(ctx, 1500 if th else 150)
    run_load(ctx, lcases)
    # malformed text
    texts = [J.show(d, 10 ** 6) for d, lab in lcases if lab == "valid"][:200 if th else 30]
    raws = raw_cases(ctx, texts)
    if raws:
        res = run_harness("json", ["raw " + " ".join(str(b) for b in t.encode("utf-8")) for t in raws])
        for t, a in zip(raws, res):
            ctx.evaluations += 1
            ctx.count("raw text outcome: %s" % {0: "Ok", 1: "Err", 2: "ABORT"}.get(a[0], "?"))
            if a[0] != 1:
                ctx.violation("from_json on text that is not JSON: expected an error, got %s; text %r" % (fmt_load(a + [0, 0]), t[:300]),
                              {"part": "raw", "entry": "from_json", "class": "malformed-text", "text": t[:4000], "implementation": a})
    for d, lab in lcases[:3]:
        ctx.sample({"from_json document": J.show(d, 300), "mutation": lab})
    return ctx.finish(CMD)


def replay(ctx, rp):
    build_harness()
    build_coq(["theories/Run/RunJson.vo", "theories/Run/RunCal.vo"])
    part = rp.get("part")
    if part is None and "calendar_encoding" in rp:
        return calrun.replay_case(ctx, rp)
    if part == "load":
        e = rp["tree"]
        a = run_harness("json", ["load " + " ".join(map(str, e))])[0]
        b = coq_eval("Run.RunJson", "runJson", [[1] + list(e)], ctx.work)[0]
        doc = J.dec_tree(list(e))[0]
        bad = a[0] != b[0] or a[0] == 2 or (a[0] == 0 and not shape_ok(a[1], a[3:3 + a[2]]))
        print("replay from_json(%s): implementation %s, model %s -> %s" % (J.show(doc, 300), fmt_load(a), fmt_load(b),
                                                                          "property violated" if bad else "ok"))
    elif part == "ctor":
        a = run_harness("json", [rp["harness_line"]])[0]
        b = coq_eval("Run.RunJson", "runJson", [list(rp["case"])], ctx.work)[0]
        bad = a[0] == 2 or a[:2] != b[:2]
        print("replay %s `%s`: implementation %s, model %s -> %s" % (rp.get("entry"), rp["harness_line"][:200], a[:12], b[:12],
                                                                   "property violated" if bad else "ok"))
    elif part == "ctor-sibling":
        import dualgen as dg
        build_coq(["theories/Run/RunDual.vo"])
        e = rp["case"]
        a = run_harness("dual", ["c " + " ".join(str(x) for x in e)])[0]
        b = coq_eval("Run.RunDual", "runDual", [list(e)], ctx.work)[0]
        ok, da, db = dg.agree(a, b, rp["schema"], rtol=1e-9)
        bad = da[0] == "panic" or not ok
        print("replay %s: implementation %s, model %s -> %s" % (rp.get("entry"), a[:12], b[:12], "property violated" if bad else "ok"))
    elif part == "raw":
        t = rp["text"]
        a = run_harness("json", ["raw " + " ".join(str(x) for x in t.encode("utf-8"))])[0]
        bad = a[0] != 1
        print("replay from_json(text %r): %s" % (t[:200], fmt_load(a + [0, 0])))
    else:
        print("replay: nothing to re-run (%s)" % rp.get("what", ""))
        bad = True
    ctx.cleanup()
    return 1 if bad else 0
